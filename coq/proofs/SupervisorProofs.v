(* C18: proofs about model/Supervisor.v *)
From Coq Require Import List ZArith Lia Bool Arith.
From WH Require Import model.Supervisor.
Import ListNotations.
Open Scope Z_scope.

Ltac inv H := inversion H; subst; clear H.

(* ------------------------------------------------------------------ names *)
Lemma dn_eqb_eq a : forall b, dn_eqb a b = true <-> a = b.
Proof.
  induction a as [|x a IH]; intros [|y b]; cbn [dn_eqb]; try (split; [discriminate|discriminate]); [tauto|].
  rewrite andb_true_iff, Z.eqb_eq, IH. split; [intros [-> ->]; reflexivity|intros H; inv H; auto].
Qed.
Lemma dn_eqb_refl a : dn_eqb a a = true.
Proof. apply dn_eqb_eq. reflexivity. Qed.
Lemma dn_eqb_sym a b : dn_eqb a b = dn_eqb b a.
Proof. destruct (dn_eqb a b) eqn:E; [apply dn_eqb_eq in E; subst; symmetry; apply dn_eqb_refl|]. destruct (dn_eqb b a) eqn:E2; [|reflexivity]. apply dn_eqb_eq in E2. subst. rewrite dn_eqb_refl in E. discriminate. Qed.
Lemma dn_eqb_neq a b : dn_eqb a b = false <-> a <> b.
Proof. split; [intros H E; subst; rewrite dn_eqb_refl in H; discriminate|]. intros H. destruct (dn_eqb a b) eqn:E; [apply dn_eqb_eq in E; contradiction|reflexivity]. Qed.

Lemma is_prefix_refl a : is_prefix a a = true.
Proof. induction a as [|x a IH]; [reflexivity|]. cbn. rewrite Z.eqb_refl. exact IH. Qed.
Lemma is_prefix_trans a : forall b c, is_prefix a b = true -> is_prefix b c = true -> is_prefix a c = true.
Proof.
  induction a as [|x a IH]; intros [|y b] [|z c]; cbn; try discriminate; try reflexivity.
  rewrite !andb_true_iff, !Z.eqb_eq. intros [-> H1] [-> H2]. split; [reflexivity|]. eapply IH; eassumption.
Qed.
Lemma is_prefix_app a l : is_prefix a (a ++ l) = true.
Proof. induction a as [|x a IH]; [reflexivity|]. cbn. rewrite Z.eqb_refl. exact IH. Qed.
Lemma is_prefix_spec a : forall b, is_prefix a b = true <-> exists l, b = a ++ l.
Proof.
  induction a as [|x a IH]; intros b.
  - split; [intros _; exists b; reflexivity|reflexivity].
  - destruct b as [|y b]; cbn [is_prefix].
    + split; [discriminate|intros [l H]; discriminate].
    + rewrite andb_true_iff, Z.eqb_eq, IH. split.
      * intros [-> [l ->]]. exists l. reflexivity.
      * intros [l H]. inv H. split; [reflexivity|]. exists l. reflexivity.
Qed.
Lemma is_prefix_antisym a b : is_prefix a b = true -> is_prefix b a = true -> a = b.
Proof.
  intros H1 H2. apply is_prefix_spec in H1 as [l1 E1]. apply is_prefix_spec in H2 as [l2 E2]. subst b.
  rewrite <- app_assoc in E2. rewrite <- (app_nil_r a) in E2 at 1. apply app_inv_head in E2.
  symmetry in E2. apply app_eq_nil in E2 as [-> _]. rewrite app_nil_r. reflexivity.
Qed.
Lemma strict_prefix_spec a b : strict_prefix a b = true <-> is_prefix a b = true /\ a <> b.
Proof. unfold strict_prefix. rewrite andb_true_iff, negb_true_iff, dn_eqb_neq. tauto. Qed.
Lemma strict_prefix_irrefl a : strict_prefix a a = false.
Proof. unfold strict_prefix. rewrite dn_eqb_refl, andb_false_r. reflexivity. Qed.
Lemma strict_prefix_trans a b c : strict_prefix a b = true -> is_prefix b c = true -> strict_prefix a c = true.
Proof.
  rewrite !strict_prefix_spec. intros [H1 Hne] H2. split; [eapply is_prefix_trans; eassumption|].
  intros ->. apply Hne. apply is_prefix_antisym; assumption.
Qed.
Lemma strict_prefix_child d x : strict_prefix d (d ++ [x]) = true.
Proof.
  apply strict_prefix_spec. split; [apply is_prefix_app|]. intros E. rewrite <- (app_nil_r d) in E at 1. apply app_inv_head in E. discriminate.
Qed.
(* a proper ancestor of d ++ [x] is an ancestor of d *)
Lemma prefix_of_child p d x : is_prefix p (d ++ [x]) = true -> p = d ++ [x] \/ is_prefix p d = true.
Proof.
  rewrite !is_prefix_spec. intros [l E]. destruct l as [|y l] using rev_ind.
  - left. rewrite app_nil_r in E. auto.
  - right. rewrite app_assoc in E. apply app_inj_tail in E as [-> _]. exists l. reflexivity.
Qed.

(* ------------------------------------------------------------------ the tree as a finite map *)
Lemma find_update d' d f t : find d' (update d f t) = if dn_eqb d' d then option_map f (find d t) else find d' t.
Proof.
  induction t as [|[e i] r IH]; cbn [update find]; [destruct (dn_eqb d' d); reflexivity|].
  destruct (dn_eqb d e) eqn:E1; cbn [find].
  - apply dn_eqb_eq in E1. subst e. destruct (dn_eqb d' d); reflexivity.
  - destruct (dn_eqb d' e) eqn:E2.
    + apply dn_eqb_eq in E2. subst e. rewrite dn_eqb_sym, E1. reflexivity.
    + exact IH.
Qed.

Lemma keys_update d f t : map fst (update d f t) = map fst t.
Proof. induction t as [|[e i] r IH]; [reflexivity|]. cbn [update]. destruct (dn_eqb d e); cbn [map fst]; [reflexivity|f_equal; exact IH]. Qed.

(* a pass that keeps every key *)
Lemma find_mapv (h : dn -> ninfo -> ninfo) d t : find d (map (fun p => (fst p, h (fst p) (snd p))) t) = option_map (h d) (find d t).
Proof.
  induction t as [|[e i] r IH]; [reflexivity|]. cbn [map find fst snd]. destruct (dn_eqb d e) eqn:E; [|exact IH].
  apply dn_eqb_eq in E. subst e. reflexivity.
Qed.
Lemma keys_mapv (h : dn -> ninfo -> ninfo) t : map fst (map (fun p => (fst p, h (fst p) (snd p))) t) = map fst t.
Proof. rewrite map_map. reflexivity. Qed.

Lemma find_filter (f : dn -> bool) d (t : tree) : find d (filter (fun p : dn * ninfo => f (fst p)) t) = if f d then find d t else None.
Proof.
  induction t as [|[e i] r IH]; cbn [filter find fst]; [destruct (f d); reflexivity|].
  destruct (f e) eqn:Ef; cbn [find].
  - destruct (dn_eqb d e) eqn:E; [apply dn_eqb_eq in E; subst e; rewrite Ef; reflexivity|exact IH].
  - destruct (dn_eqb d e) eqn:E; [apply dn_eqb_eq in E; subst e; rewrite Ef in IH |- *; exact IH|exact IH].
Qed.
Lemma keys_filter (f : dn -> bool) (t : tree) : map fst (filter (fun p : dn * ninfo => f (fst p)) t) = filter f (map fst t).
Proof. induction t as [|[e i] r IH]; [reflexivity|]. cbn [filter map fst]. destruct (f e); cbn [map fst]; [f_equal|]; exact IH. Qed.

Lemma find_app d t u : find d (t ++ u) = match find d t with Some i => Some i | None => find d u end.
Proof. induction t as [|[e i] r IH]; [reflexivity|]. cbn [app find]. destruct (dn_eqb d e); [reflexivity|exact IH]. Qed.

Lemma find_in d t i : find d t = Some i -> In (d, i) t.
Proof.
  induction t as [|[e j] r IH]; [discriminate|]. cbn [find]. destruct (dn_eqb d e) eqn:E.
  - intros H; inv H. apply dn_eqb_eq in E. subst. left. reflexivity.
  - intros H. right. apply IH. exact H.
Qed.
Lemma in_find d t i : NoDup (map fst t) -> In (d, i) t -> find d t = Some i.
Proof.
  induction t as [|[e j] r IH]; [intros _ []|]. cbn [map fst find]. intros Hnd [E|Hin].
  - inv E. rewrite dn_eqb_refl. reflexivity.
  - inv Hnd. destruct (dn_eqb d e) eqn:E; [|apply IH; assumption].
    apply dn_eqb_eq in E. subst e. exfalso. apply H1. apply (in_map fst) in Hin. exact Hin.
Qed.
Lemma find_none_keys d t : find d t = None <-> ~ In d (map fst t).
Proof.
  induction t as [|[e j] r IH]; [cbn; tauto|]. cbn [find map fst In]. destruct (dn_eqb d e) eqn:E.
  - apply dn_eqb_eq in E. subst. split; [discriminate|]. intros H. exfalso. apply H. left. reflexivity.
  - apply dn_eqb_neq in E. rewrite IH. split; [intros H [E'|H']; [congruence|contradiction]|tauto].
Qed.

(* ------------------------------------------------------------------ tokens *)
Lemma rkind_eqb_eq a b : rkind_eqb a b = true <-> a = b.
Proof. destruct a, b; cbn; split; congruence. Qed.
Lemma tkind_eqb_eq a b : tkind_eqb a b = true <-> a = b.
Proof.
  destruct a as [|x| |x], b as [|y| |y]; cbn; try (split; congruence).
  - rewrite Bool.eqb_true_iff. split; congruence.
  - rewrite rkind_eqb_eq. split; congruence.
Qed.
Lemma token_eqb_eq x y : token_eqb x y = true <-> x = y.
Proof. destruct x as [a k], y as [b k']. unfold token_eqb. cbn [fst snd]. rewrite andb_true_iff, dn_eqb_eq, tkind_eqb_eq. split; [intros [-> ->]; reflexivity|intros H; inv H; auto]. Qed.
Lemma has_in x l : has x l = true <-> In x l.
Proof.
  unfold has. rewrite existsb_exists. split.
  - intros (y & Hy & E). apply token_eqb_eq in E. subst. exact Hy.
  - intros H. exists x. split; [exact H|]. apply token_eqb_eq. reflexivity.
Qed.

Definition at_dn (d : dn) (e : token) : nat := if dn_eqb (fst e) d then 1%nat else 0%nat.
Lemma tok_cons d x l : tok d (x :: l) = (at_dn d x + tok d l)%nat.
Proof. unfold tok, at_dn. cbn [filter]. destruct (dn_eqb (fst x) d); reflexivity. Qed.
Lemma tok_app d a b : tok d (a ++ b) = (tok d a + tok d b)%nat.
Proof. unfold tok. rewrite filter_app, app_length. reflexivity. Qed.
Lemma tok_remove1 d x l : In x l -> (tok d (remove1 x l) + at_dn d x = tok d l)%nat.
Proof.
  induction l as [|y r IH]; [intros []|]. cbn [remove1]. destruct (token_eqb x y) eqn:E.
  - apply token_eqb_eq in E. subst y. intros _. rewrite tok_cons. lia.
  - intros [->|Hin]; [assert (token_eqb x x = true) by (apply token_eqb_eq; reflexivity); congruence|].
    rewrite !tok_cons. specialize (IH Hin). lia.
Qed.
Lemma in_remove1 y x l : In y (remove1 x l) -> In y l.
Proof.
  induction l as [|z r IH]; [intros []|]. cbn [remove1]. destruct (token_eqb x z); [intros H; right; exact H|].
  intros [->|H]; [left; reflexivity|right; apply IH; exact H].
Qed.
Lemma tok_in d k l : In (d, k) l -> (1 <= tok d l)%nat.
Proof.
  induction l as [|y r IH]; [intros []|]. rewrite tok_cons. intros [->|H]; [unfold at_dn; cbn [fst]; rewrite dn_eqb_refl; lia|specialize (IH H); lia].
Qed.
Lemma tok_zero d l : tok d l = 0%nat -> forall k, ~ In (d, k) l.
Proof. intros H k Hin. apply tok_in in Hin. lia. Qed.
Lemma tok_two d k1 k2 l : In (d, k1) l -> In (d, k2) l -> k1 <> k2 -> (2 <= tok d l)%nat.
Proof.
  induction l as [|y r IH]; [intros []|]. rewrite tok_cons. intros [->|H1] [E|H2] Hne.
  - inv E. contradiction.
  - apply tok_in in H2. unfold at_dn. cbn [fst]. rewrite dn_eqb_refl. lia.
  - subst y. apply tok_in in H1. unfold at_dn. cbn [fst]. rewrite dn_eqb_refl. lia.
  - specialize (IH H1 H2 Hne). lia.
Qed.
(* re-labelling one token does not change any count *)
Lemma tok_relabel d' d k k' l : In (d, k) l -> tok d' ((d, k') :: remove1 (d, k) l) = tok d' l.
Proof. intros H. rewrite tok_cons. pose proof (tok_remove1 d' _ _ H). unfold at_dn in *. cbn [fst] in *. lia. Qed.

(* ------------------------------------------------------------------ the invariant *)
Definition core_ok (i : ninfo) : Prop :=
  ((n_state i = SDead \/ n_state i = SCanceled) -> n_exited i = true) /\
  ((n_state i = SNew \/ n_state i = SHealthy) -> n_exited i = false).

Definition waiting (k : tkind) : Prop := k = TSched \/ exists b, k = TSleep b.

(* every node has exactly one thing in flight until its exit has been processed, and none afterwards;
   everything in flight belongs to a node of the tree; a node that waits to be scheduled has no descendants *)
Definition Inv (s : sst) : Prop :=
  NoDup (map fst (s_tree s)) /\
  (forall d i p, find d (s_tree s) = Some i -> is_prefix p d = true -> find p (s_tree s) <> None) /\
  (forall d i, find d (s_tree s) = Some i -> core_ok i /\ tok d (s_toks s) = if n_exited i then 0%nat else 1%nat) /\
  (forall d k, In (d, k) (s_toks s) -> find d (s_tree s) <> None) /\
  (forall d k, In (d, k) (s_toks s) -> waiting k ->
     (exists i, find d (s_tree s) = Some i /\ n_state i = SNew) /\ forall d', strict_prefix d d' = true -> find d' (s_tree s) = None).

Lemma inv_init : Inv init.
Proof.
  unfold Inv, init. cbn [s_tree s_toks]. split; [repeat constructor; intros []|]. split; [|split; [|split]].
  - intros d i p H Hp. destruct d; [|discriminate]. destruct p; [discriminate|discriminate].
  - intros d i H. destruct d; [|discriminate]. cbn in H. inv H. split; [split; cbn; [intros [H|H]; discriminate|reflexivity]|reflexivity].
  - intros d k [E|[]]. inv E. discriminate.
  - intros d k [E|[]] _. inv E. split; [eexists; split; reflexivity|]. intros d' H. destruct d'; [discriminate|reflexivity].
Qed.

(* the node a token belongs to has not exited and carries exactly that token *)
Lemma token_node s d k : Inv s -> In (d, k) (s_toks s) ->
  exists i, find d (s_tree s) = Some i /\ n_exited i = false /\ tok d (s_toks s) = 1%nat.
Proof.
  intros (_ & _ & Htok & Hhome & _) Hin. destruct (find d (s_tree s)) as [i|] eqn:E; [|exfalso; exact (Hhome d k Hin E)].
  exists i. split; [reflexivity|]. destruct (Htok d i E) as [_ Ht]. apply tok_in in Hin. destruct (n_exited i); [lia|]. split; [reflexivity|exact Ht].
Qed.

Lemma only_token s d k k' : Inv s -> In (d, k) (s_toks s) -> In (d, k') (s_toks s) -> k = k'.
Proof.
  intros Hinv H1 H2. destruct (token_node s d k Hinv H1) as (i & _ & _ & Ht).
  destruct (tkind_eqb k k') eqn:E; [apply tkind_eqb_eq; exact E|].
  assert (k <> k') by (intros ->; assert (tkind_eqb k' k' = true) by (apply tkind_eqb_eq; reflexivity); congruence).
  pose proof (tok_two d k k' _ H1 H2 H). lia.
Qed.

(* ---- (a) re-labelling a token: schedule received, sleeper woke up, runnable returned / panicked *)
Lemma inv_relabel s d k k' : Inv s -> In (d, k) (s_toks s) -> (waiting k' -> waiting k) ->
  Inv (with_toks s ((d, k') :: remove1 (d, k) (s_toks s))).
Proof.
  intros Hinv Hin Hw. pose proof Hinv as (Hnd & Hcl & Htok & Hhome & Hfresh). unfold Inv, with_toks. cbn [s_tree s_toks].
  split; [exact Hnd|]. split; [exact Hcl|]. split; [|split].
  - intros d0 i H. rewrite tok_relabel by exact Hin. apply Htok. exact H.
  - intros d0 k0 [E|H]; [inv E; apply (Hhome d0 k Hin)|apply (Hhome d0 k0); eapply in_remove1; exact H].
  - intros d0 k0 [E|H] Hk0; [inv E; apply (Hfresh d0 k Hin (Hw Hk0))|apply (Hfresh d0 k0); [eapply in_remove1; exact H|exact Hk0]].
Qed.

(* ---- (b) a pass over the tree that keeps keys, states and exit marks (context cancellations) *)
Definition same_core (i j : ninfo) : Prop := n_state i = n_state j /\ n_exited i = n_exited j.

Lemma inv_same_cores s t' k' : Inv s -> map fst t' = map fst (s_tree s) ->
  (forall d, match find d (s_tree s), find d t' with Some i, Some j => same_core i j | None, None => True | _, _ => False end) ->
  Inv {| s_tree := t'; s_toks := s_toks s; s_killed := k' |}.
Proof.
  intros (Hnd & Hcl & Htok & Hhome & Hfresh) Hkeys Hsame. unfold Inv. cbn [s_tree s_toks].
  assert (Hnone : forall d, find d t' = None <-> find d (s_tree s) = None).
  { intros d. specialize (Hsame d). destruct (find d (s_tree s)), (find d t'); try contradiction; split; congruence. }
  split; [rewrite Hkeys; exact Hnd|]. split; [|split; [|split]].
  - intros d j p Hd Hp. specialize (Hsame d). rewrite Hd in Hsame. destruct (find d (s_tree s)) as [i|] eqn:E; [|contradiction].
    intros Hn. apply Hnone in Hn. exact (Hcl d i p E Hp Hn).
  - intros d j Hd. specialize (Hsame d). rewrite Hd in Hsame. destruct (find d (s_tree s)) as [i|] eqn:E; [|contradiction].
    destruct Hsame as [Es Ee]. destruct (Htok d i E) as [[C1 C2] Ht]. unfold core_ok. rewrite <- Ee, <- Es. split; [split; assumption|exact Ht].
  - intros d k Hin Hn. apply Hnone in Hn. exact (Hhome d k Hin Hn).
  - intros d k Hin Hk. destruct (Hfresh d k Hin Hk) as [(i & Ei & Si) Hdesc]. split.
    + specialize (Hsame d). rewrite Ei in Hsame. destruct (find d t') as [j|]; [|contradiction]. exists j. split; [reflexivity|]. destruct Hsame as [Es _]. congruence.
    + intros d' Hd'. apply Hnone. apply Hdesc. exact Hd'.
Qed.

(* ---- (c) Signal: NEW -> HEALTHY, HEALTHY -> DONE, by the node's running instance *)
Lemma inv_signal s d st' : Inv s -> In (d, TInst) (s_toks s) -> st' = SHealthy \/ st' = SDone ->
  (forall i, find d (s_tree s) = Some i -> st' = SHealthy -> n_state i = SNew) ->
  Inv {| s_tree := update d (set_state st') (s_tree s); s_toks := s_toks s; s_killed := s_killed s |}.
Proof.
  intros Hinv Hin Hst Hfrom. pose proof Hinv as (Hnd & Hcl & Htok & Hhome & Hfresh).
  destruct (token_node s d TInst Hinv Hin) as (i0 & E0 & X0 & T0).
  unfold Inv. cbn [s_tree s_toks]. split; [rewrite keys_update; exact Hnd|]. split; [|split; [|split]].
  - intros d1 i p Hd Hp. rewrite find_update in *. destruct (dn_eqb p d) eqn:Ep.
    + rewrite E0. discriminate.
    + destruct (dn_eqb d1 d) eqn:Ed.
      * apply dn_eqb_eq in Ed. subst d1. exact (Hcl d i0 p E0 Hp).
      * exact (Hcl d1 i p Hd Hp).
  - intros d1 i Hd. rewrite find_update in Hd. destruct (dn_eqb d1 d) eqn:Ed.
    + apply dn_eqb_eq in Ed. subst d1. rewrite E0 in Hd. cbn in Hd. inv Hd. unfold core_ok. cbn [set_state n_state n_exited]. rewrite X0. split; [|exact T0].
      split; [intros [H|H]; destruct Hst; congruence|reflexivity].
    + apply Htok. exact Hd.
  - intros d1 k Hk. rewrite find_update. destruct (dn_eqb d1 d); [rewrite E0; discriminate|exact (Hhome d1 k Hk)].
  - intros d1 k Hk Hw. destruct (Hfresh d1 k Hk Hw) as [(i & Ei & Si) Hdesc]. split.
    + rewrite find_update. destruct (dn_eqb d1 d) eqn:Ed; [|exists i; split; assumption].
      apply dn_eqb_eq in Ed. subst d1. exfalso. pose proof (only_token s d k TInst Hinv Hk Hin) as ->. destruct Hw as [H|[b H]]; discriminate.
    + intros d' Hd'. rewrite find_update. destruct (dn_eqb d' d) eqn:Ed; [|apply Hdesc; exact Hd'].
      apply dn_eqb_eq in Ed. subst d'. rewrite (Hdesc d Hd') in E0. discriminate.
Qed.

(* ---- (d) processDied *)
Lemma cancel_siblings_find d g x t :
  find x (cancel_siblings d g t) = option_map (fun i => match d with [] => i | _ => if sibling_of d g x i then set_flag i else i end) (find x t).
Proof.
  unfold cancel_siblings. destruct d as [|a d']; [destruct (find x t); reflexivity|].
  rewrite (map_ext _ (fun p => (fst p, (fun e i => if sibling_of (a :: d') g e i then set_flag i else i) (fst p) (snd p)))).
  - exact (find_mapv (fun e i => if sibling_of (a :: d') g e i then set_flag i else i) x t).
  - intros [e i]. cbn [fst snd]. destruct (sibling_of (a :: d') g e i); reflexivity.
Qed.
Lemma cancel_siblings_keys d g t : map fst (cancel_siblings d g t) = map fst t.
Proof.
  unfold cancel_siblings. destruct d as [|a d']; [reflexivity|]. rewrite map_map. apply map_ext. intros [e i]. cbn [fst snd].
  destruct (sibling_of (a :: d') g e i); reflexivity.
Qed.

Definition dom_same (t t' : tree) (d : dn) : Prop :=
  forall x, x <> d -> match find x t, find x t' with Some i, Some j => same_core i j | None, None => True | _, _ => False end.

Lemma proc_died_spec d k t t' : proc_died d k t = Some t' ->
  map fst t' = map fst t /\ dom_same t t' d /\
  exists i j, find d t = Some i /\ find d t' = Some j /\ n_exited j = true /\ (n_state j = SDone \/ n_state j = SCanceled \/ n_state j = SDead).
Proof.
  unfold proc_died. destruct (find d t) as [i|] eqn:E; [|discriminate].
  set (t1 := update d set_exited t).
  assert (K1 : map fst t1 = map fst t) by apply keys_update.
  assert (F1 : forall x, find x t1 = if dn_eqb x d then Some (set_exited i) else find x t).
  { intros x. unfold t1. rewrite find_update, E. reflexivity. }
  assert (Same1 : dom_same t t1 d).
  { intros x Hx. rewrite F1. apply dn_eqb_neq in Hx. rewrite Hx. destruct (find x t); [split; reflexivity|exact I]. }
  assert (Done1 : n_state i = SDone -> k = RNil -> Some t1 = Some t' ->
    map fst t' = map fst t /\ dom_same t t' d /\
    exists i0 j, Some i = Some i0 /\ find d t' = Some j /\ n_exited j = true /\ (n_state j = SDone \/ n_state j = SCanceled \/ n_state j = SDead)).
  { intros Hs Hk H. inv H. split; [exact K1|]. split; [exact Same1|]. exists i, (set_exited i). split; [reflexivity|]. rewrite F1, dn_eqb_refl.
    split; [reflexivity|]. split; [reflexivity|]. left. exact Hs. }
  assert (Other : (if cancelled d t1 && match k with RCtx => true | _ => false end
                   then Some (update d (set_state SCanceled) t1)
                   else Some (cancel_siblings d (n_group i) (update d (fun x => set_flag (set_state SDead x)) t1))) = Some t' ->
    map fst t' = map fst t /\ dom_same t t' d /\
    exists i0 j, Some i = Some i0 /\ find d t' = Some j /\ n_exited j = true /\ (n_state j = SDone \/ n_state j = SCanceled \/ n_state j = SDead)).
  { destruct (cancelled d t1 && match k with RCtx => true | _ => false end); intros H; inv H.
    - split; [rewrite keys_update; exact K1|]. split.
      + intros x Hx. rewrite find_update. pose proof Hx as Hx'. apply dn_eqb_neq in Hx'. rewrite Hx'. apply Same1. exact Hx.
      + exists i, (set_state SCanceled (set_exited i)). split; [reflexivity|]. rewrite find_update, dn_eqb_refl, F1, dn_eqb_refl.
        split; [reflexivity|]. split; [reflexivity|]. right. left. reflexivity.
    - split; [rewrite cancel_siblings_keys, keys_update; exact K1|]. split.
      + intros x Hx. rewrite cancel_siblings_find, find_update. pose proof Hx as Hx'. apply dn_eqb_neq in Hx'. rewrite Hx'.
        specialize (Same1 x Hx). destruct (find x t) as [a|], (find x t1) as [b|]; try contradiction; [|exact I]. cbn [option_map].
        destruct Same1 as [S1 S2]. destruct d; [split; assumption|]. destruct (sibling_of (z :: d) (n_group i) x b); split; cbn [set_flag n_state n_exited]; assumption.
      + exists i. eexists. split; [reflexivity|]. rewrite cancel_siblings_find, find_update, dn_eqb_refl, F1, dn_eqb_refl. cbn [option_map]. split; [reflexivity|].
        destruct d as [|z d]; [cbn; split; [reflexivity|right; right; reflexivity]|].
        destruct (sibling_of (z :: d) (n_group i) (z :: d) _); cbn; (split; [reflexivity|right; right; reflexivity]). }
  destruct (n_state i) eqn:ES; destruct k; try exact Other; apply Done1; reflexivity.
Qed.

Lemma inv_proc_died s d k t' : Inv s -> In (d, TDied k) (s_toks s) -> proc_died d k (s_tree s) = Some t' ->
  Inv {| s_tree := t'; s_toks := remove1 (d, TDied k) (s_toks s); s_killed := false |}.
Proof.
  intros Hinv Hin Hpd. pose proof Hinv as (Hnd & Hcl & Htok & Hhome & Hfresh).
  destruct (proc_died_spec _ _ _ _ Hpd) as (Hkeys & Hsame & i & j & Ei & Ej & Xj & Sj).
  destruct (token_node s d _ Hinv Hin) as (i' & Ei' & Xi & Ti). rewrite Ei in Ei'. inv Ei'.
  assert (Hdom : forall x, find x t' = None <-> find x (s_tree s) = None).
  { intros x. destruct (dn_eqb x d) eqn:E; [apply dn_eqb_eq in E; subst; rewrite Ei, Ej; split; discriminate|].
    apply dn_eqb_neq in E. specialize (Hsame x E). destruct (find x (s_tree s)), (find x t'); try contradiction; split; congruence. }
  assert (Hrem : forall x, x <> d -> tok x (remove1 (d, TDied k) (s_toks s)) = tok x (s_toks s)).
  { intros x Hx. pose proof (tok_remove1 x _ _ Hin) as H. unfold at_dn in H. cbn [fst] in H. apply not_eq_sym in Hx. apply dn_eqb_neq in Hx. rewrite Hx in H. lia. }
  unfold Inv. cbn [s_tree s_toks]. split; [rewrite Hkeys; exact Hnd|]. split; [|split; [|split]].
  - intros x a p Hx Hp Hn. apply Hdom in Hn. destruct (find x (s_tree s)) as [b|] eqn:E; [exact (Hcl x b p E Hp Hn)|]. apply Hdom in E. congruence.
  - intros x a Hx. destruct (dn_eqb x d) eqn:E.
    + apply dn_eqb_eq in E. subst x. rewrite Ej in Hx. inv Hx. rewrite Xj. split.
      * split; [intros _; exact Xj|]. intros [H|H]; destruct Sj as [S|[S|S]]; congruence.
      * pose proof (tok_remove1 d _ _ Hin) as H. unfold at_dn in H. cbn [fst] in H. rewrite dn_eqb_refl in H. lia.
    + apply dn_eqb_neq in E. specialize (Hsame x E). rewrite Hx in Hsame. destruct (find x (s_tree s)) as [b|] eqn:Eb; [|contradiction].
      destruct Hsame as [S1 S2]. destruct (Htok x b Eb) as [[C1 C2] Ht]. rewrite (Hrem x E). unfold core_ok. rewrite <- S1, <- S2. split; [split; assumption|exact Ht].
  - intros x k0 Hk0 Hn. apply Hdom in Hn. apply in_remove1 in Hk0. exact (Hhome x k0 Hk0 Hn).
  - intros x k0 Hk0 Hw. apply in_remove1 in Hk0. assert (Hx : x <> d).
    { intros ->. pose proof (only_token s d _ _ Hinv Hk0 Hin) as ->. destruct Hw as [H|[b H]]; discriminate. }
    destruct (Hfresh x k0 Hk0 Hw) as [(a & Ea & Sa) Hdesc]. split.
    + specialize (Hsame x Hx). rewrite Ea in Hsame. destruct (find x t') as [b|]; [|contradiction]. exists b. split; [reflexivity|]. destruct Hsame; congruence.
    + intros x' Hx'. apply Hdom. apply Hdesc. exact Hx'.
Qed.

(* ---- (e) runGroup *)
Lemma nodupz_spec l : nodupz l = true -> NoDup l.
Proof.
  induction l as [|x r IH]; [constructor|]. cbn [nodupz]. rewrite andb_true_iff, negb_true_iff. intros [H1 H2]. constructor; [|apply IH; exact H2].
  intros Hin. assert (existsb (Z.eqb x) r = true); [|congruence]. apply existsb_exists. exists x. split; [exact Hin|apply Z.eqb_refl].
Qed.
Lemma nodup_app {A} (a b : list A) : NoDup a -> NoDup b -> (forall x, In x a -> ~ In x b) -> NoDup (a ++ b).
Proof.
  induction a as [|x a IH]; intros Ha Hb Hd; [exact Hb|]. inv Ha. cbn [app]. constructor.
  - intros Hin. apply in_app_or in Hin as [Hin|Hin]; [contradiction|]. exact (Hd x (or_introl eq_refl) Hin).
  - apply IH; [assumption|assumption|]. intros y Hy. apply Hd. right. exact Hy.
Qed.

Lemma nodup_children (d : dn) names : NoDup names -> NoDup (map (fun x => d ++ [x]) names).
Proof.
  induction names as [|x r IH]; intros H; [constructor|]. inv H. cbn [map]. constructor; [|apply IH; assumption].
  intros Hin. apply in_map_iff in Hin as (y & E & Hy). apply app_inv_head in E. inv E. contradiction.
Qed.

Definition mkchild (g : nat) (d : dn) (x : Z) : dn * ninfo := (d ++ [x], {| n_state := SNew; n_flag := false; n_group := g; n_exited := false |}).

Lemma find_children g d names y :
  find y (map (mkchild g d) names) = if existsb (fun x => dn_eqb y (d ++ [x])) names then Some {| n_state := SNew; n_flag := false; n_group := g; n_exited := false |} else None.
Proof.
  induction names as [|x r IH]; [reflexivity|]. cbn [map find existsb mkchild]. destruct (dn_eqb y (d ++ [x])); [reflexivity|exact IH].
Qed.

Lemma tok_children d names y : NoDup names ->
  tok y (map (fun x => (d ++ [x], TSched)) names) = if existsb (fun x => dn_eqb y (d ++ [x])) names then 1%nat else 0%nat.
Proof.
  induction names as [|x r IH]; intros Hnd; [reflexivity|]. inv Hnd. cbn [map existsb]. rewrite tok_cons, (IH H2). unfold at_dn. cbn [fst]. rewrite (dn_eqb_sym (d ++ [x]) y).
  destruct (dn_eqb y (d ++ [x])) eqn:E; [|reflexivity]. apply dn_eqb_eq in E. subst y.
  destruct (existsb (fun x0 => dn_eqb (d ++ [x]) (d ++ [x0])) r) eqn:Ex; [|reflexivity].
  apply existsb_exists in Ex as (x0 & Hx0 & E0). apply dn_eqb_eq in E0. apply app_inv_head in E0. inv E0. contradiction.
Qed.

Lemma inv_run_group s d names t' new : Inv s -> In (d, TInst) (s_toks s) -> run_group d names (s_tree s) = GOk t' new ->
  Inv {| s_tree := t'; s_toks := s_toks s ++ new; s_killed := s_killed s |}.
Proof.
  intros Hinv Hin Hrg. pose proof Hinv as (Hnd & Hcl & Htok & Hhome & Hfresh). unfold run_group in Hrg.
  destruct (find d (s_tree s)) as [i|] eqn:Ed; [|discriminate]. destruct (n_state i) eqn:Si; try discriminate.
  destruct (existsb (fun x => match find (d ++ [x]) (s_tree s) with Some _ => true | None => false end) names) eqn:Eex; [discriminate|].
  destruct (nodupz names) eqn:Enz; cbn [negb] in Hrg; [|discriminate]. inv Hrg. apply nodupz_spec in Enz.
  set (g := ngroups d (s_tree s)). fold (mkchild g d).
  assert (Hnew : forall x, In x names -> find (d ++ [x]) (s_tree s) = None).
  { intros x Hx. destruct (find (d ++ [x]) (s_tree s)) eqn:E; [|reflexivity]. exfalso.
    assert (existsb (fun x => match find (d ++ [x]) (s_tree s) with Some _ => true | None => false end) names = true); [|congruence].
    apply existsb_exists. exists x. split; [exact Hx|]. rewrite E. reflexivity. }
  assert (Hex : forall y, existsb (fun x => dn_eqb y (d ++ [x])) names = true <-> exists x, In x names /\ y = d ++ [x]).
  { intros y. rewrite existsb_exists. split; intros (x & Hx & E); exists x; (split; [exact Hx|]); apply dn_eqb_eq; exact E. }
  assert (Fnew : forall y, find y (s_tree s ++ map (mkchild g d) names) =
                           match find y (s_tree s) with Some a => Some a | None => find y (map (mkchild g d) names) end) by (intros; apply find_app).
  unfold Inv. cbn [s_tree s_toks]. split; [|split; [|split; [|split]]].
  - rewrite map_app. apply nodup_app; [exact Hnd| |].
    + rewrite map_map. cbn [mkchild fst]. apply nodup_children. exact Enz.
    + intros y Hy Hy2. rewrite map_map in Hy2. cbn [mkchild fst] in Hy2. apply in_map_iff in Hy2 as (x & <- & Hx).
      apply find_none_keys in Hy; [exact Hy|]. apply Hnew. exact Hx.
  - intros y a p Hy Hp. rewrite Fnew in *. destruct (find y (s_tree s)) as [b|] eqn:Ey.
    + pose proof (Hcl y b p Ey Hp). destruct (find p (s_tree s)); [discriminate|contradiction].
    + rewrite find_children in Hy. destruct (existsb (fun x => dn_eqb y (d ++ [x])) names) eqn:Ex; [|discriminate].
      apply Hex in Ex as (x & Hx & ->). apply prefix_of_child in Hp as [->|Hp].
      * rewrite (Hnew x Hx), find_children. assert (existsb (fun x0 => dn_eqb (d ++ [x]) (d ++ [x0])) names = true) as -> by (apply Hex; exists x; auto). discriminate.
      * pose proof (Hcl d i p Ed Hp). destruct (find p (s_tree s)); [discriminate|contradiction].
  - intros y a Hy. rewrite Fnew in Hy. rewrite tok_app, (tok_children d names y Enz). destruct (find y (s_tree s)) as [b|] eqn:Ey.
    + inv Hy. destruct (existsb (fun x => dn_eqb y (d ++ [x])) names) eqn:Ex.
      * apply Hex in Ex as (x & Hx & ->). rewrite (Hnew x Hx) in Ey. discriminate.
      * rewrite Nat.add_0_r. apply Htok. exact Ey.
    + rewrite find_children in Hy. destruct (existsb (fun x => dn_eqb y (d ++ [x])) names) eqn:Ex; [|discriminate]. inv Hy. cbn [n_exited].
      split; [split; cbn; [intros [H|H]; discriminate|reflexivity]|].
      assert (tok y (s_toks s) = 0%nat); [|lia]. destruct (tok y (s_toks s)) eqn:Et; [reflexivity|]. exfalso.
      assert (exists k, In (y, k) (s_toks s)) as [k Hk].
      { clear -Et. induction (s_toks s) as [|[e k] r IH]; [discriminate|]. rewrite tok_cons in Et. unfold at_dn in Et. cbn [fst] in Et.
        destruct (dn_eqb e y) eqn:E; [apply dn_eqb_eq in E; subst; exists k; left; reflexivity|]. destruct (IH Et) as [k' Hk']. exists k'. right. exact Hk'. }
      exact (Hhome y k Hk Ey).
  - intros y k Hk. apply in_app_or in Hk as [Hk|Hk]; rewrite Fnew.
    + pose proof (Hhome y k Hk). destruct (find y (s_tree s)); [discriminate|contradiction].
    + apply in_map_iff in Hk as (x & E & Hx). inv E. rewrite (Hnew x Hx), find_children.
      assert (existsb (fun x0 => dn_eqb (d ++ [x]) (d ++ [x0])) names = true) as -> by (apply Hex; exists x; auto). discriminate.
  - intros y k Hk Hw. apply in_app_or in Hk as [Hk|Hk].
    + destruct (Hfresh y k Hk Hw) as [(a & Ea & Sa) Hdesc]. split; [exists a; rewrite Fnew, Ea; auto|].
      intros y' Hy'. rewrite Fnew, (Hdesc y' Hy'), find_children. destruct (existsb (fun x => dn_eqb y' (d ++ [x])) names) eqn:Ex; [|reflexivity]. exfalso.
      apply Hex in Ex as (x & Hx & ->). apply strict_prefix_spec in Hy' as [Hp Hne]. apply prefix_of_child in Hp as [->|Hp]; [contradiction|].
      destruct (dn_eqb y d) eqn:E.
      * apply dn_eqb_eq in E. subst y. pose proof (only_token s d _ _ Hinv Hk Hin) as ->. destruct Hw as [H|[b H]]; discriminate.
      * apply dn_eqb_neq in E. assert (strict_prefix y d = true) by (apply strict_prefix_spec; auto). rewrite (Hdesc d H) in Ed. discriminate.
    + apply in_map_iff in Hk as (x & E & Hx). inv E. split.
      * eexists. rewrite Fnew, (Hnew x Hx), find_children. assert (existsb (fun x0 => dn_eqb (d ++ [x]) (d ++ [x0])) names = true) as -> by (apply Hex; exists x; auto). split; reflexivity.
      * intros y' Hy'. rewrite Fnew. destruct (find y' (s_tree s)) as [a|] eqn:Ey'.
        -- exfalso. apply strict_prefix_spec in Hy' as [Hp _]. pose proof (Hcl y' a _ Ey' Hp). rewrite (Hnew x Hx) in H. contradiction.
        -- rewrite find_children. destruct (existsb (fun x0 => dn_eqb y' (d ++ [x0])) names) eqn:Ex; [|reflexivity]. exfalso.
           apply Hex in Ex as (x0 & _ & ->). apply strict_prefix_spec in Hy' as [Hp Hne]. apply is_prefix_spec in Hp as [l El].
           rewrite <- app_assoc in El. apply app_inv_head in El. destruct l; [|destruct l; discriminate]. inv El. contradiction.
Qed.

(* ---- (f) processGC, for the code in which a DONE node is restartable only once its runnable has exited *)
Notation gct := (gc_targets true).

Lemma nodup_keys_filter (f : dn * ninfo -> bool) (t : tree) : NoDup (map fst t) -> NoDup (map fst (filter f t)).
Proof.
  induction t as [|p r IH]; intros H; [constructor|]. cbn [map] in H. inv H. cbn [filter]. destruct (f p); [|apply IH; assumption].
  cbn [map]. constructor; [|apply IH; assumption]. intros Hin. apply H2. apply in_map_iff in Hin as (q & E & Hq). apply filter_In in Hq as [Hq _].
  rewrite <- E. apply in_map. exact Hq.
Qed.

Lemma targets_keys t : map fst (gct t) = map fst (filter (fun p => can true (fst p) (snd p) t) t).
Proof. unfold gc_targets. rewrite map_map. reflexivity. Qed.

Lemma targets_spec t r b : NoDup (map fst t) -> In (r, b) (gct t) ->
  exists i, find r t = Some i /\ In (r, i) t /\ can true r i t = true /\ b = match n_state i with SDead => true | _ => false end.
Proof.
  intros Hnd Hin. unfold gc_targets in Hin. apply in_map_iff in Hin as ([e i] & E & Hp). cbn [fst snd] in E. inv E.
  apply filter_In in Hp as [Hp Hc]. cbn [fst snd] in Hc. exists i. split; [apply in_find; assumption|]. auto.
Qed.

Lemma is_target_spec tg d : is_target tg d = true <-> exists b, In (d, b) tg.
Proof.
  unfold is_target. rewrite existsb_exists. split.
  - intros ([r b] & Hin & E). cbn [fst] in E. apply dn_eqb_eq in E. subst. exists b. exact Hin.
  - intros [b Hin]. exists (d, b). split; [exact Hin|apply dn_eqb_refl].
Qed.
Lemma below_target_spec tg d : below_target tg d = true <-> exists r b, In (r, b) tg /\ strict_prefix r d = true.
Proof.
  unfold below_target. rewrite existsb_exists. split.
  - intros ([r b] & Hin & E). exists r, b. auto.
  - intros (r & b & Hin & E). exists (r, b). auto.
Qed.

Lemma find_gc t x :
  find x (fst (gc true t)) = if below_target (gct t) x then None else option_map (fun i => if is_target (gct t) x then reset_info i else i) (find x t).
Proof.
  unfold gc. cbn [fst]. set (tg := gct t).
  rewrite (map_ext _ (fun p => (fst p, (fun e i => if is_target tg e then reset_info i else i) (fst p) (snd p)))).
  2:{ intros [e i]. cbn [fst snd]. destruct (is_target tg e); reflexivity. }
  rewrite (find_mapv (fun e i => if is_target tg e then reset_info i else i)).
  rewrite (find_filter (fun e => negb (below_target tg e))). destruct (below_target tg x); reflexivity.
Qed.

Lemma keys_gc t : NoDup (map fst t) -> NoDup (map fst (fst (gc true t))).
Proof.
  intros H. unfold gc. cbn [fst]. rewrite map_map. cbn [fst].
  rewrite (map_ext (fun x => fst (if is_target (gct t) (fst x) then (fst x, reset_info (snd x)) else x)) fst).
  - apply nodup_keys_filter. exact H.
  - intros [e i]. cbn [fst snd]. destruct (is_target (gct t) e); reflexivity.
Qed.

Lemma ready_spec t r x j : ready true r t = true -> find x t = Some j -> is_prefix r x = true -> restartable true j = true.
Proof.
  unfold ready. rewrite forallb_forall. intros H Hx Hp. specialize (H (x, j) (find_in _ _ _ Hx)). cbn [fst snd] in H. rewrite Hp in H. exact H.
Qed.

Lemma restartable_exited i : core_ok i -> restartable true i = true -> n_exited i = true.
Proof. intros [C1 _]. unfold restartable. destruct (n_state i) eqn:E; try discriminate; auto. Qed.

Lemma target_subtree_quiet s r b x j : Inv s -> In (r, b) (gct (s_tree s)) -> find x (s_tree s) = Some j -> is_prefix r x = true ->
  n_exited j = true /\ tok x (s_toks s) = 0%nat.
Proof.
  intros (Hnd & _ & Htok & _) Hin Hx Hp. destruct (targets_spec _ _ _ Hnd Hin) as (i & Ei & _ & Hc & _).
  unfold can, can0 in Hc. rewrite !andb_true_iff in Hc. destruct Hc as [[[_ Hr] _] _].
  destruct (Htok x j Hx) as [Hco Ht]. pose proof (restartable_exited j Hco (ready_spec _ _ _ _ Hr Hx Hp)) as He. rewrite He in Ht. auto.
Qed.

Lemma targets_not_nested t r1 b1 r2 b2 : NoDup (map fst t) -> In (r1, b1) (gct t) -> In (r2, b2) (gct t) -> strict_prefix r1 r2 = false.
Proof.
  intros Hnd H1 H2. destruct (targets_spec _ _ _ Hnd H1) as (i1 & _ & In1 & C1 & _). destruct (targets_spec _ _ _ Hnd H2) as (i2 & _ & _ & C2 & _).
  destruct (strict_prefix r1 r2) eqn:E; [|reflexivity]. exfalso. unfold can in C1, C2. rewrite andb_true_iff, negb_true_iff in C1, C2.
  destruct C1 as [C1 _]. destruct C2 as [_ C2]. assert (existsb (fun p => strict_prefix (fst p) r2 && can0 true (fst p) (snd p) t) t = true); [|congruence].
  apply existsb_exists. exists (r1, i1). split; [exact In1|]. cbn [fst snd]. rewrite E, C1. reflexivity.
Qed.

Lemma tok_new_targets tg x : NoDup (map fst tg) -> tok x (map (fun y : dn * bool => (fst y, TSleep (snd y))) tg) = if is_target tg x then 1%nat else 0%nat.
Proof.
  induction tg as [|[r b] l IH]; intros Hnd; [reflexivity|]. cbn [map fst] in Hnd. inv Hnd. cbn [map fst snd]. rewrite tok_cons, (IH H2). unfold at_dn, is_target. cbn [fst existsb].
  destruct (dn_eqb r x) eqn:E; [|reflexivity]. apply dn_eqb_eq in E. subst r.
  destruct (existsb (fun r0 => dn_eqb (fst r0) x) l) eqn:Ex; [|reflexivity]. exfalso. apply existsb_exists in Ex as ([r0 b0] & Hin & E0). cbn [fst] in E0.
  apply dn_eqb_eq in E0. subst r0. apply H1. apply (in_map fst) in Hin. exact Hin.
Qed.

Lemma inv_gc s : Inv s -> let '(t, new) := gc true (s_tree s) in Inv {| s_tree := t; s_toks := s_toks s ++ new; s_killed := false |}.
Proof.
  intros Hinv. pose proof Hinv as (Hnd & Hcl & Htok & Hhome & Hfresh).
  destruct (gc true (s_tree s)) as [t new] eqn:EG.
  assert (Et : t = fst (gc true (s_tree s))) by (rewrite EG; reflexivity).
  assert (En : new = map (fun y : dn * bool => (fst y, TSleep (snd y))) (gct (s_tree s))) by (unfold gc in EG; inv EG; reflexivity).
  subst new. set (tg := gct (s_tree s)) in *.
  assert (Htgnd : NoDup (map fst tg)) by (unfold tg; rewrite targets_keys; apply nodup_keys_filter; exact Hnd).
  assert (F : forall x, find x t = if below_target tg x then None else option_map (fun i => if is_target tg x then reset_info i else i) (find x (s_tree s))).
  { intros x. rewrite Et. apply find_gc. }
  (* a token never sits below a restarted node, and never on one *)
  assert (Hquiet : forall x k, In (x, k) (s_toks s) -> below_target tg x = false /\ is_target tg x = false).
  { intros x k Hk. destruct (token_node s x k Hinv Hk) as (j & Ej & Xj & _). split.
    - destruct (below_target tg x) eqn:E; [|reflexivity]. apply below_target_spec in E as (r & b & Hr & Hp). apply strict_prefix_spec in Hp as [Hp _].
      destruct (target_subtree_quiet s r b x j Hinv Hr Ej Hp) as [H _]. congruence.
    - destruct (is_target tg x) eqn:E; [|reflexivity]. apply is_target_spec in E as [b Hr].
      destruct (target_subtree_quiet s x b x j Hinv Hr Ej (is_prefix_refl x)) as [H _]. congruence. }
  unfold Inv. cbn [s_tree s_toks]. split; [rewrite Et; apply keys_gc; exact Hnd|]. split; [|split; [|split]].
  - intros x a p Hx Hp. rewrite F in *. destruct (below_target tg x) eqn:Bx; [discriminate|].
    destruct (below_target tg p) eqn:Bp.
    + exfalso. apply below_target_spec in Bp as (r & b & Hr & Hrp). assert (below_target tg x = true); [|congruence].
      apply below_target_spec. exists r, b. split; [exact Hr|]. eapply strict_prefix_trans; eassumption.
    + destruct (find x (s_tree s)) as [j|] eqn:Ej; [|discriminate]. pose proof (Hcl x j p Ej Hp). destruct (find p (s_tree s)); [discriminate|contradiction].
  - intros x a Hx. rewrite F in Hx. destruct (below_target tg x) eqn:Bx; [discriminate|].
    destruct (find x (s_tree s)) as [j|] eqn:Ej; [|discriminate]. cbn [option_map] in Hx. inv Hx.
    rewrite tok_app, (tok_new_targets tg x Htgnd). destruct (is_target tg x) eqn:Tx.
    + apply is_target_spec in Tx as [b Hr]. destruct (target_subtree_quiet s x b x j Hinv Hr Ej (is_prefix_refl x)) as [_ H0]. rewrite H0. cbn [reset_info n_exited].
      split; [split; cbn; [intros [H|H]; discriminate|reflexivity]|reflexivity].
    + rewrite Nat.add_0_r. apply Htok. exact Ej.
  - intros x k Hk. apply in_app_or in Hk as [Hk|Hk]; rewrite F.
    + destruct (Hquiet x k Hk) as [-> _]. pose proof (Hhome x k Hk). destruct (find x (s_tree s)); [discriminate|contradiction].
    + apply in_map_iff in Hk as ([r b] & E & Hr). cbn [fst snd] in E. inv E.
      destruct (below_target tg x) eqn:Bx.
      * exfalso. apply below_target_spec in Bx as (r' & b' & Hr' & Hp). rewrite (targets_not_nested _ _ _ _ _ Hnd Hr' Hr) in Hp. discriminate.
      * destruct (targets_spec _ _ _ Hnd Hr) as (i & -> & _). discriminate.
  - intros x k Hk Hw. apply in_app_or in Hk as [Hk|Hk].
    + destruct (Hquiet x k Hk) as [Bx Tx]. destruct (Hfresh x k Hk Hw) as [(a & Ea & Sa) Hdesc]. split.
      * exists a. rewrite F, Bx, Ea, Tx. auto.
      * intros x' Hx'. rewrite F, (Hdesc x' Hx'). destruct (below_target tg x'); reflexivity.
    + apply in_map_iff in Hk as ([r b] & E & Hr). cbn [fst snd] in E. inv E. split.
      * destruct (targets_spec _ _ _ Hnd Hr) as (i & Ei & _). exists (reset_info i). rewrite F, Ei.
        destruct (below_target tg x) eqn:Bx.
        -- exfalso. apply below_target_spec in Bx as (r' & b' & Hr' & Hp). rewrite (targets_not_nested _ _ _ _ _ Hnd Hr' Hr) in Hp. discriminate.
        -- assert (is_target tg x = true) as -> by (apply is_target_spec; exists b; exact Hr). auto.
      * intros x' Hx'. rewrite F. assert (below_target tg x' = true) as ->; [|reflexivity]. apply below_target_spec. exists x, b. auto.
Qed.

(* ---- (g) processKill *)
Lemma inv_kill s : Inv s -> Inv {| s_tree := map (fun p => (fst p, set_flag (snd p))) (s_tree s); s_toks := s_toks s; s_killed := true |}.
Proof.
  intros Hinv. apply inv_same_cores; [exact Hinv|rewrite map_map; reflexivity|].
  intros d. rewrite (find_mapv (fun _ i => set_flag i)). destruct (find d (s_tree s)); [split; reflexivity|exact I].
Qed.

(* ------------------------------------------------------------------ every step preserves the invariant and never panics *)
Theorem step_inv s e s' : Inv s -> step true s e = Ok s' -> Inv s'.
Proof.
  intros Hinv. destruct e as [d|d k| | |d|d|d|d names|d k]; cbn [step].
  - destruct (s_killed s || negb (has (d, TSched) (s_toks s))) eqn:E; [discriminate|]. apply orb_false_iff in E as [_ E]. apply negb_false_iff, has_in in E.
    destruct (find d (s_tree s)); [|discriminate]. intros H; inv H. apply inv_relabel; [exact Hinv|exact E|]. intros [H|[b H]]; discriminate.
  - destruct (s_killed s || negb (has (d, TDied k) (s_toks s))) eqn:E; [discriminate|]. apply orb_false_iff in E as [_ E]. apply negb_false_iff, has_in in E.
    destruct (proc_died d k (s_tree s)) as [t|] eqn:Ep; [|discriminate]. intros H; inv H. eapply inv_proc_died; eassumption.
  - destruct (s_killed s); [discriminate|]. pose proof (inv_gc s Hinv) as H. destruct (gc true (s_tree s)) as [t new]. intros H0; inv H0. exact H.
  - destruct (s_killed s); [discriminate|]. intros H; inv H. apply inv_kill. exact Hinv.
  - destruct (has (d, TSleep true) (s_toks s)) eqn:E1.
    + apply has_in in E1. intros H; inv H. apply inv_relabel; [exact Hinv|exact E1|]. intros _. right. eexists. reflexivity.
    + destruct (has (d, TSleep false) (s_toks s)) eqn:E2; [|discriminate]. apply has_in in E2. intros H; inv H.
      apply inv_relabel; [exact Hinv|exact E2|]. intros _. right. eexists. reflexivity.
  - destruct (has (d, TInst) (s_toks s)) eqn:E; cbn [negb]; [|discriminate]. apply has_in in E.
    destruct (find d (s_tree s)) as [i|] eqn:Ed; [|discriminate]. destruct (n_state i) eqn:Si; intros H; inv H;
      try (apply inv_relabel; [exact Hinv|exact E|intros [H|[b H]]; discriminate]).
    apply inv_signal; [exact Hinv|exact E|left; reflexivity|]. intros i0 Hi0 _. congruence.
  - destruct (has (d, TInst) (s_toks s)) eqn:E; cbn [negb]; [|discriminate]. apply has_in in E.
    destruct (find d (s_tree s)) as [i|] eqn:Ed; [|discriminate]. destruct (n_state i) eqn:Si; intros H; inv H;
      try (apply inv_relabel; [exact Hinv|exact E|intros [H|[b H]]; discriminate]).
    apply inv_signal; [exact Hinv|exact E|right; reflexivity|]. intros i0 _ H. discriminate.
  - destruct (has (d, TInst) (s_toks s)) eqn:E; cbn [negb]; [|discriminate]. apply has_in in E.
    destruct (run_group d names (s_tree s)) as [t new| |] eqn:Er; try discriminate; intros H; inv H; [|exact Hinv].
    eapply inv_run_group; eassumption.
  - destruct (has (d, TInst) (s_toks s)) eqn:E; cbn [negb]; [|discriminate]. apply has_in in E. intros H; inv H.
    apply inv_relabel; [exact Hinv|exact E|]. intros [H|[b H]]; discriminate.
Qed.

(* nodeByDN never fails: neither in the processor goroutine nor under the mutex in a runnable's call *)
Theorem step_no_panic s e : Inv s -> step true s e <> ProcessorPanic /\ step true s e <> LockedPanic.
Proof.
  intros Hinv. pose proof Hinv as (_ & _ & _ & Hhome & _).
  assert (Hf : forall d k, In (d, k) (s_toks s) -> exists i, find d (s_tree s) = Some i).
  { intros d k Hk. pose proof (Hhome d k Hk). destruct (find d (s_tree s)) as [i|]; [exists i; reflexivity|contradiction]. }
  destruct e as [d|d k| | |d|d|d|d names|d k]; cbn [step].
  - destruct (s_killed s || negb (has (d, TSched) (s_toks s))) eqn:E; [split; discriminate|]. apply orb_false_iff in E as [_ E]. apply negb_false_iff, has_in in E.
    destruct (Hf _ _ E) as [i ->]. split; discriminate.
  - destruct (s_killed s || negb (has (d, TDied k) (s_toks s))) eqn:E; [split; discriminate|]. apply orb_false_iff in E as [_ E]. apply negb_false_iff, has_in in E.
    destruct (Hf _ _ E) as [i Ei]. unfold proc_died. rewrite Ei. destruct (n_state i), k; try (split; discriminate);
      destruct (cancelled d (update d set_exited (s_tree s)) && _); split; discriminate.
  - destruct (s_killed s); [split; discriminate|]. destruct (gc true (s_tree s)). split; discriminate.
  - destruct (s_killed s); split; discriminate.
  - destruct (has (d, TSleep true) (s_toks s)); [split; discriminate|]. destruct (has (d, TSleep false) (s_toks s)); split; discriminate.
  - destruct (has (d, TInst) (s_toks s)) eqn:E; cbn [negb]; [|split; discriminate]. apply has_in in E. destruct (Hf _ _ E) as [i ->]. destruct (n_state i); split; discriminate.
  - destruct (has (d, TInst) (s_toks s)) eqn:E; cbn [negb]; [|split; discriminate]. apply has_in in E. destruct (Hf _ _ E) as [i ->]. destruct (n_state i); split; discriminate.
  - destruct (has (d, TInst) (s_toks s)) eqn:E; cbn [negb]; [|split; discriminate]. apply has_in in E. destruct (Hf _ _ E) as [i Ei]. unfold run_group. rewrite Ei.
    destruct (n_state i); try (split; discriminate). destruct (existsb _ names); [split; discriminate|]. destruct (negb (nodupz names)); split; discriminate.
  - destruct (has (d, TInst) (s_toks s)); cbn [negb]; split; discriminate.
Qed.

Theorem run_inv evs : forall s s', Inv s -> run true evs s = Ok s' -> Inv s'.
Proof.
  induction evs as [|e r IH]; intros s s' Hinv H; cbn [run] in H; [inv H; exact Hinv|].
  destruct (step true s e) as [s1| | |] eqn:E; try discriminate. eapply IH; [eapply step_inv; eassumption|exact H].
Qed.

Theorem run_no_panic evs : forall s, Inv s -> run true evs s <> ProcessorPanic /\ run true evs s <> LockedPanic.
Proof.
  induction evs as [|e r IH]; intros s Hinv; cbn [run]; [split; discriminate|].
  destruct (step true s e) as [s1| | |] eqn:E; try (split; discriminate).
  - apply IH. eapply step_inv; eassumption.
  - exfalso. destruct (step_no_panic s e Hinv) as [H _]. congruence.
  - exfalso. destruct (step_no_panic s e Hinv) as [_ H]. congruence.
Qed.

(* ------------------------------------------------------------------ T1: never two instances *)
Lemma running_le_tok d s : (running d s <= tok d (s_toks s))%nat.
Proof.
  unfold running, tok. induction (s_toks s) as [|[e k] r IH]; [cbn; lia|]. cbn [filter]. destruct (token_eqb (e, k) (d, TInst)) eqn:E.
  - apply token_eqb_eq in E. inv E. cbn [fst]. rewrite dn_eqb_refl. cbn [length]. lia.
  - cbn [fst]. destruct (dn_eqb e d); cbn [length]; lia.
Qed.

Lemma tok_le_one s d : Inv s -> (tok d (s_toks s) <= 1)%nat.
Proof.
  intros Hinv. destruct (tok d (s_toks s)) as [|n] eqn:Et; [lia|].
  assert (exists k, In (d, k) (s_toks s)) as [k Hk].
  { clear -Et. induction (s_toks s) as [|[e k] r IH]; [discriminate|]. rewrite tok_cons in Et. unfold at_dn in Et. cbn [fst] in Et.
    destruct (dn_eqb e d) eqn:E; [apply dn_eqb_eq in E; subst; exists k; left; reflexivity|]. destruct (IH Et) as [k' Hk']. exists k'. right. exact Hk'. }
  destruct (token_node s d k Hinv Hk) as (_ & _ & _ & H). lia.
Qed.

Theorem at_most_one_instance evs s d : run true evs init = Ok s -> (running d s <= 1)%nat.
Proof.
  intros H. pose proof (run_inv evs init s inv_init H) as Hinv. pose proof (running_le_tok d s). pose proof (tok_le_one s d Hinv). lia.
Qed.

Lemma running_pos d s : (0 < running d s)%nat -> In (d, TInst) (s_toks s).
Proof.
  unfold running. induction (s_toks s) as [|x r IH]; [cbn; lia|]. cbn [filter]. destruct (token_eqb x (d, TInst)) eqn:E.
  - apply token_eqb_eq in E. subst. intros _. left. reflexivity.
  - intros H. right. apply IH. exact H.
Qed.

(* ------------------------------------------------------------------ T2: a node is (re)scheduled only when nothing of it or below it is running *)
Theorem scheduled_only_when_subtree_idle evs s d s' : run true evs init = Ok s -> step true s (EProcSchedule d) = Ok s' ->
  forall d', is_prefix d d' = true -> running d' s = 0%nat /\ (forall k, In (d', k) (s_toks s) -> d' = d /\ k = TSched).
Proof.
  intros Hrun Hstep d' Hp. pose proof (run_inv evs init s inv_init Hrun) as Hinv. pose proof Hinv as (_ & _ & _ & Hhome & Hfresh).
  cbn [step] in Hstep. destruct (s_killed s || negb (has (d, TSched) (s_toks s))) eqn:E; [discriminate|]. apply orb_false_iff in E as [_ E]. apply negb_false_iff, has_in in E.
  destruct (Hfresh d TSched E (or_introl eq_refl)) as [_ Hdesc].
  assert (Htoks : forall k, In (d', k) (s_toks s) -> d' = d /\ k = TSched).
  { intros k Hk. destruct (dn_eqb d d') eqn:Ed.
    - apply dn_eqb_eq in Ed. subst d'. split; [reflexivity|]. exact (only_token s d _ _ Hinv Hk E).
    - exfalso. apply dn_eqb_neq in Ed. assert (strict_prefix d d' = true) by (apply strict_prefix_spec; auto). exact (Hhome d' k Hk (Hdesc d' H)). }
  split; [|exact Htoks]. destruct (running d' s) eqn:Er; [reflexivity|]. exfalso.
  assert (In (d', TInst) (s_toks s)) by (apply running_pos; lia). destruct (Htoks _ H) as [_ H0]. discriminate.
Qed.

(* ------------------------------------------------------------------ T3: the restart rule *)
Lemma cancelled_update_keepflag x d f t : (forall i, n_flag (f i) = n_flag i) -> cancelled x (update d f t) = cancelled x t.
Proof.
  intros Hf. unfold cancelled. induction t as [|[e i] r IH]; [reflexivity|]. cbn [update]. destruct (dn_eqb d e); cbn [existsb fst snd]; [rewrite Hf; reflexivity|rewrite IH; reflexivity].
Qed.

Lemma cancelled_spec x t : cancelled x t = true <-> exists p i, In (p, i) t /\ is_prefix p x = true /\ n_flag i = true.
Proof.
  unfold cancelled. rewrite existsb_exists. split.
  - intros ([p i] & Hin & H). cbn [fst snd] in H. apply andb_true_iff in H. exists p, i. tauto.
  - intros (p & i & Hin & H1 & H2). exists (p, i). cbn [fst snd]. rewrite H1, H2. auto.
Qed.

(* (a) an exit that is neither "DONE and nil" nor "cancelled and context error": the node is DEAD, its own context and the
   contexts of the other members of its group are cancelled; no other node's own cancel function is called *)
Theorem died_unexpected d k t t' i : NoDup (map fst t) -> proc_died d k t = Some t' -> find d t = Some i ->
  ~ (n_state i = SDone /\ k = RNil) -> ~ (cancelled d t = true /\ k = RCtx) ->
  (exists j, find d t' = Some j /\ n_state j = SDead /\ n_flag j = true /\ n_exited j = true) /\
  (forall x a, find x t = Some a -> x <> d ->
     exists a', find x t' = Some a' /\ n_state a' = n_state a /\
       n_flag a' = (n_flag a || match d with [] => false | _ => sibling_of d (n_group i) x a end)).
Proof.
  intros Hnd Hpd Hd Hn1 Hn2. unfold proc_died in Hpd. rewrite Hd in Hpd.
  assert (Hc : cancelled d (update d set_exited t) = cancelled d t) by (apply cancelled_update_keepflag; reflexivity).
  assert (Hbranch : Some (cancel_siblings d (n_group i) (update d (fun x => set_flag (set_state SDead x)) (update d set_exited t))) = Some t').
  { destruct (n_state i) eqn:Es, k; try (exfalso; apply Hn1; auto; fail); rewrite Hc in Hpd;
      try (destruct (cancelled d t) eqn:Ec; cbn [andb] in Hpd; [try (exfalso; apply Hn2; auto; fail)|]; exact Hpd);
      try (rewrite andb_false_r in Hpd; exact Hpd). }
  inv Hbranch. split.
  - eexists. rewrite cancel_siblings_find, find_update, dn_eqb_refl, find_update, dn_eqb_refl, Hd. cbn [option_map]. split; [reflexivity|].
    destruct d as [|z d]; [cbn; auto|]. destruct (sibling_of (z :: d) (n_group i) (z :: d) _); cbn; auto.
  - intros x a Hx Hne. rewrite cancel_siblings_find, !find_update. apply dn_eqb_neq in Hne. rewrite Hne, Hx. cbn [option_map].
    destruct d as [|z d]; [exists a; rewrite orb_false_r; auto|]. destruct (sibling_of (z :: d) (n_group i) x a); eexists; (split; [reflexivity|]); cbn [set_flag n_state n_flag]; [rewrite orb_true_r|rewrite orb_false_r]; auto.
Qed.

(* (b) the next GC restarts exactly the marked nodes: state NEW, fresh context, descendants dropped, and a sleeper that will offer
   the schedule request after the back-off (only after a death, not after a cancellation) *)
Theorem gc_restarts t d i : NoDup (map fst t) -> find d t = Some i -> can true d i t = true ->
  find d (fst (gc true t)) = Some (reset_info i) /\
  In (d, TSleep (match n_state i with SDead => true | _ => false end)) (snd (gc true t)) /\
  (forall x, strict_prefix d x = true -> find x (fst (gc true t)) = None).
Proof.
  intros Hnd Hd Hc.
  assert (Htg : In (d, match n_state i with SDead => true | _ => false end) (gct t)).
  { unfold gc_targets. apply in_map_iff. exists (d, i). split; [reflexivity|]. apply filter_In. split; [apply find_in; exact Hd|exact Hc]. }
  split; [|split].
  - rewrite find_gc, Hd. destruct (below_target (gct t) d) eqn:B.
    + exfalso. apply below_target_spec in B as (r & b & Hr & Hp). rewrite (targets_not_nested _ _ _ _ _ Hnd Hr Htg) in Hp. discriminate.
    + assert (is_target (gct t) d = true) as -> by (apply is_target_spec; eexists; exact Htg). reflexivity.
  - unfold gc. cbn [snd]. apply in_map_iff. eexists. split; [|exact Htg]. reflexivity.
  - intros x Hx. rewrite find_gc. assert (below_target (gct t) x = true) as ->; [|reflexivity]. apply below_target_spec. eexists. eexists. split; [exact Htg|exact Hx].
Qed.

(* a node that is not marked and not below a marked node is left as it is *)
Theorem gc_leaves_others t x : below_target (gct t) x = false -> is_target (gct t) x = false -> find x (fst (gc true t)) = find x t.
Proof. intros B T. rewrite find_gc, B, T. destruct (find x t); reflexivity. Qed.

(* (c) ... and as long as the supervisor has not been shut down the sleeper's request is received and the runnable started *)
Theorem restart_goes_through evs s d i : run true evs init = Ok s -> s_killed s = false -> find d (s_tree s) = Some i -> can true d i (s_tree s) = true ->
  exists s', run true [EGC; EBackoff d; EProcSchedule d] s = Ok s' /\ running d s' = 1%nat /\
             (exists j, find d (s_tree s') = Some j /\ n_state j = SNew /\ n_flag j = false).
Proof.
  intros Hrun Hk Hd Hc. pose proof (run_inv evs init s inv_init Hrun) as Hinv. pose proof Hinv as (Hnd & _).
  destruct (gc_restarts _ _ _ Hnd Hd Hc) as (Hf & Hin & _).
  cbn [run]. unfold step at 1. rewrite Hk. destruct (gc true (s_tree s)) as [t new] eqn:EG. cbn [fst snd] in *.
  set (s1 := {| s_tree := t; s_toks := s_toks s ++ new; s_killed := false |}).
  assert (Hinv1 : Inv s1) by (pose proof (inv_gc s Hinv) as H; rewrite EG in H; exact H).
  set (b := match n_state i with SDead => true | _ => false end) in *.
  assert (Hin1 : In (d, TSleep b) (s_toks s1)) by (cbn [s1 s_toks]; apply in_or_app; right; exact Hin).
  assert (exists s2, step true s1 (EBackoff d) = Ok s2 /\ In (d, TSched) (s_toks s2) /\ s_tree s2 = t /\ s_killed s2 = false) as (s2 & E2 & Hin2 & Ht2 & Hk2).
  { cbn [step]. destruct b.
    - assert (has (d, TSleep true) (s_toks s1) = true) as -> by (apply has_in; exact Hin1). eexists. split; [reflexivity|]. cbn. auto.
    - destruct (has (d, TSleep true) (s_toks s1)) eqn:E; [eexists; split; [reflexivity|]; cbn; auto|].
      assert (has (d, TSleep false) (s_toks s1) = true) as -> by (apply has_in; exact Hin1). eexists. split; [reflexivity|]. cbn. auto. }
  rewrite E2. assert (Hinv2 : Inv s2) by (eapply step_inv; eassumption).
  cbn [step]. rewrite Hk2. assert (has (d, TSched) (s_toks s2) = true) as -> by (apply has_in; exact Hin2). cbn [orb negb]. rewrite Ht2, Hf.
  eexists. split; [reflexivity|]. split.
  - set (s3 := with_toks s2 ((d, TInst) :: remove1 (d, TSched) (s_toks s2))).
    assert (Hinv3 : Inv s3) by (apply inv_relabel; [exact Hinv2|exact Hin2|intros [H|[b0 H]]; discriminate]).
    pose proof (running_le_tok d s3). pose proof (tok_le_one s3 d Hinv3).
    assert (0 < running d s3)%nat; [|lia]. unfold running, s3, with_toks. cbn [s_toks filter].
    assert (token_eqb (d, TInst) (d, TInst) = true) as -> by (apply token_eqb_eq; reflexivity). cbn [length]. lia.
  - exists (reset_info i). unfold with_toks. cbn [s_tree]. rewrite Ht2. auto.
Qed.

(* ------------------------------------------------------------------ T4: a completed node whose runnable has returned is left alone *)
Definition completed (t : tree) (d : dn) : Prop := exists i, find d t = Some i /\ n_state i = SDone /\ n_exited i = true.

Theorem completed_left_alone s e s' d : Inv s -> completed (s_tree s) d -> step true s e = Ok s' ->
  (completed (s_tree s') d /\ tok d (s_toks s') = 0%nat) \/ (e = EGC /\ below_target (gct (s_tree s)) d = true).
Proof.
  intros Hinv (i & Hd & Hs & Hx) Hstep. pose proof (step_inv s e s' Hinv Hstep) as Hinv'.
  assert (Hkeep : completed (s_tree s') d -> (completed (s_tree s') d /\ tok d (s_toks s') = 0%nat) \/ (e = EGC /\ below_target (gct (s_tree s)) d = true)).
  { intros Hc. left. split; [exact Hc|]. destruct Hc as (j & Ej & _ & Xj). destruct Hinv' as (_ & _ & Htok & _). destruct (Htok d j Ej) as [_ H]. rewrite Xj in H. exact H. }
  assert (Hnotok : forall k, ~ In (d, k) (s_toks s)).
  { destruct Hinv as (_ & _ & Htok & _). destruct (Htok d i Hd) as [_ H]. rewrite Hx in H. apply tok_zero. exact H. }
  assert (Hother : forall d0 k, In (d0, k) (s_toks s) -> dn_eqb d d0 = false).
  { intros d0 k Hk. apply dn_eqb_neq. intros <-. exact (Hnotok k Hk). }
  destruct e as [d0|d0 k| | |d0|d0|d0|d0 names|d0 k]; cbn [step] in Hstep.
  - destruct (s_killed s || negb (has (d0, TSched) (s_toks s))); [discriminate|]. destruct (find d0 (s_tree s)); [|discriminate]. inv Hstep.
    apply Hkeep. exists i. auto.
  - destruct (s_killed s || negb (has (d0, TDied k) (s_toks s))) eqn:E; [discriminate|]. apply orb_false_iff in E as [_ E]. apply negb_false_iff, has_in in E.
    destruct (proc_died d0 k (s_tree s)) as [t|] eqn:Ep; [|discriminate]. inv Hstep. apply Hkeep.
    destruct (proc_died_spec _ _ _ _ Ep) as (_ & Hsame & _). assert (d <> d0) by (apply dn_eqb_neq; eapply Hother; exact E).
    specialize (Hsame d H). rewrite Hd in Hsame. cbn [s_tree]. destruct (find d t) as [j|] eqn:Ej; [|contradiction]. destruct Hsame as [S1 S2]. exists j. split; [exact Ej|]. split; congruence.
  - destruct (s_killed s); [discriminate|]. destruct (gc true (s_tree s)) as [t new] eqn:EG. inv Hstep.
    destruct (below_target (gct (s_tree s)) d) eqn:B; [right; auto|]. apply Hkeep. cbn [s_tree].
    assert (t = fst (gc true (s_tree s))) as -> by (rewrite EG; reflexivity).
    assert (is_target (gct (s_tree s)) d = false) as T.
    { destruct (is_target (gct (s_tree s)) d) eqn:T; [|reflexivity]. exfalso. apply is_target_spec in T as [b Hb]. destruct Hinv as (Hnd & _).
      destruct (targets_spec _ _ _ Hnd Hb) as (i0 & E0 & _ & Hc & _). rewrite Hd in E0. inv E0. unfold can, can0 in Hc. rewrite Hs in Hc. discriminate. }
    exists i. rewrite (gc_leaves_others _ _ B T). auto.
  - destruct (s_killed s); [discriminate|]. inv Hstep. apply Hkeep. cbn [s_tree]. exists (set_flag i). rewrite (find_mapv (fun _ x => set_flag x)), Hd. auto.
  - destruct (has (d0, TSleep true) (s_toks s)); [inv Hstep; apply Hkeep; exists i; auto|].
    destruct (has (d0, TSleep false) (s_toks s)); [inv Hstep; apply Hkeep; exists i; auto|discriminate].
  - destruct (has (d0, TInst) (s_toks s)) eqn:E; cbn [negb] in Hstep; [|discriminate]. apply has_in in E. pose proof (Hother _ _ E) as Hne.
    destruct (find d0 (s_tree s)) as [i0|]; [|discriminate]. destruct (n_state i0); inv Hstep; apply Hkeep; exists i; cbn [s_tree with_toks]; try rewrite find_update, Hne; auto.
  - destruct (has (d0, TInst) (s_toks s)) eqn:E; cbn [negb] in Hstep; [|discriminate]. apply has_in in E. pose proof (Hother _ _ E) as Hne.
    destruct (find d0 (s_tree s)) as [i0|]; [|discriminate]. destruct (n_state i0); inv Hstep; apply Hkeep; exists i; cbn [s_tree with_toks]; try rewrite find_update, Hne; auto.
  - destruct (has (d0, TInst) (s_toks s)) eqn:E; cbn [negb] in Hstep; [|discriminate].
    destruct (run_group d0 names (s_tree s)) as [t new| |] eqn:Er; try discriminate; inv Hstep; apply Hkeep; [|exists i; auto].
    unfold run_group in Er. destruct (find d0 (s_tree s)) as [i0|]; [|discriminate]. destruct (n_state i0); try discriminate.
    destruct (existsb _ names); [discriminate|]. destruct (negb (nodupz names)); [discriminate|]. inv Er. exists i. cbn [s_tree]. rewrite find_app, Hd. auto.
  - destruct (has (d0, TInst) (s_toks s)); cbn [negb] in Hstep; [|discriminate]. inv Hstep. apply Hkeep. exists i. auto.
Qed.

(* ------------------------------------------------------------------ T5: after the shutdown nothing is started *)
Theorem after_kill fl s : s_killed s = true ->
  (forall d, step fl s (EProcSchedule d) = Disabled) /\ (forall d k, step fl s (EProcDied d k) = Disabled) /\ step fl s EGC = Disabled /\ step fl s EKill = Disabled.
Proof. intros H. cbn [step]. rewrite H. auto. Qed.

Theorem kill_cancels_everything fl s s' : step fl s EKill = Ok s' ->
  s_killed s' = true /\ forall d i, find d (s_tree s') = Some i -> n_flag i = true /\ cancelled d (s_tree s') = true.
Proof.
  cbn [step]. destruct (s_killed s); [discriminate|]. intros H; inv H. cbn [s_killed s_tree]. split; [reflexivity|]. intros d i Hd.
  rewrite (find_mapv (fun _ x => set_flag x)) in Hd. destruct (find d (s_tree s)) as [j|] eqn:E; [|discriminate]. inv Hd. split; [reflexivity|].
  apply cancelled_spec. exists d, (set_flag j). split; [|split; [apply is_prefix_refl|reflexivity]].
  apply in_map_iff. exists (d, j). split; [reflexivity|apply find_in; exact E].
Qed.

Lemma running_cons_other d x l : snd x <> TInst -> length (filter (fun e => token_eqb e (d, TInst)) (x :: l)) = length (filter (fun e => token_eqb e (d, TInst)) l).
Proof. intros H. cbn [filter]. destruct (token_eqb x (d, TInst)) eqn:E; [|reflexivity]. apply token_eqb_eq in E. subst x. contradiction. Qed.
Lemma running_remove1 d x l : (length (filter (fun e => token_eqb e (d, TInst)) (remove1 x l)) <= length (filter (fun e => token_eqb e (d, TInst)) l))%nat.
Proof.
  induction l as [|y r IH]; [cbn; lia|]. cbn [remove1]. destruct (token_eqb x y); cbn [filter]; destruct (token_eqb y (d, TInst)); cbn [length]; lia.
Qed.
Lemma running_app_sched d l (new : list token) : (forall x, In x new -> snd x <> TInst) ->
  length (filter (fun e => token_eqb e (d, TInst)) (l ++ new)) = length (filter (fun e => token_eqb e (d, TInst)) l).
Proof.
  intros H. rewrite filter_app, app_length. assert (filter (fun e => token_eqb e (d, TInst)) new = []) as ->; [|cbn; lia].
  induction new as [|x r IH]; [reflexivity|]. cbn [filter]. destruct (token_eqb x (d, TInst)) eqn:E.
  - apply token_eqb_eq in E. subst x. exfalso. apply (H (d, TInst)); [left; reflexivity|reflexivity].
  - apply IH. intros y Hy. apply H. right. exact Hy.
Qed.

(* once the processor has gone, the number of running instances of any service can only go down, whatever else happens *)
Theorem no_starts_after_kill fl evs : forall s s' d, s_killed s = true -> run fl evs s = Ok s' -> s_killed s' = true /\ (running d s' <= running d s)%nat.
Proof.
  induction evs as [|e r IH]; intros s s' d Hk H; cbn [run] in H; [inv H; auto|].
  destruct (step fl s e) as [s1| | |] eqn:E; try discriminate.
  assert (s_killed s1 = true /\ (running d s1 <= running d s)%nat) as [Hk1 Hr1].
  { unfold running. destruct e as [d0|d0 k| | |d0|d0|d0|d0 names|d0 k]; cbn [step] in E; try (rewrite Hk in E; discriminate).
    - destruct (has (d0, TSleep true) (s_toks s)); [inv E; cbn [s_killed s_toks with_toks]; split; [exact Hk|]; rewrite running_cons_other by discriminate; apply running_remove1|].
      destruct (has (d0, TSleep false) (s_toks s)); [|discriminate]. inv E. cbn [s_killed s_toks with_toks]. split; [exact Hk|]. rewrite running_cons_other by discriminate. apply running_remove1.
    - destruct (negb (has (d0, TInst) (s_toks s))); [discriminate|]. destruct (find d0 (s_tree s)) as [i|]; [|discriminate].
      destruct (n_state i); inv E; cbn [s_killed s_toks with_toks]; (split; [exact Hk|]); try lia; rewrite running_cons_other by discriminate; apply running_remove1.
    - destruct (negb (has (d0, TInst) (s_toks s))); [discriminate|]. destruct (find d0 (s_tree s)) as [i|]; [|discriminate].
      destruct (n_state i); inv E; cbn [s_killed s_toks with_toks]; (split; [exact Hk|]); try lia; rewrite running_cons_other by discriminate; apply running_remove1.
    - destruct (negb (has (d0, TInst) (s_toks s))); [discriminate|]. destruct (run_group d0 names (s_tree s)) as [t new| |] eqn:Er; try discriminate; inv E; cbn [s_killed s_toks]; (split; [exact Hk|]); [|lia].
      unfold run_group in Er. destruct (find d0 (s_tree s)) as [i|]; [|discriminate]. destruct (n_state i); try discriminate.
      destruct (existsb _ names); [discriminate|]. destruct (negb (nodupz names)); [discriminate|]. inv Er.
      rewrite running_app_sched; [lia|]. intros x Hx. apply in_map_iff in Hx as (y & <- & _). discriminate.
    - destruct (negb (has (d0, TInst) (s_toks s))); [discriminate|]. inv E. cbn [s_killed s_toks with_toks]. split; [exact Hk|]. rewrite running_cons_other by discriminate. apply running_remove1. }
  destruct (IH s1 s' d Hk1 H) as [Hk' Hr']. split; [exact Hk'|lia].
Qed.

(* ------------------------------------------------------------------ witnesses *)
(* names: p = 1, c = 2, d = 3, f = 4, w = 5 *)
Definition done_late_history : list ev :=
  [EProcSchedule []; ERunGroup [] [1]; ESignalHealthy []; EProcSchedule [1]; ERunGroup [1] [2]; EProcSchedule [1; 2]; ESignalHealthy [1; 2]; ESignalDone [1; 2];
   EReturn [1] RErr; EProcDied [1] RErr; EGC].

(* the code before the repair (a DONE node is restartable while its runnable is still on its way out): the parent is restarted under
   the still running child; then either the child's exit reaches a processor that cannot find the node any more (process exit) ... *)
Lemma done_in_flight_processor_panic :
  run false (done_late_history ++ [EReturn [1; 2] RNil; EProcDied [1; 2] RNil]) init = ProcessorPanic.
Proof. vm_compute. reflexivity. Qed.

(* ... or the new parent instance starts a second instance of the child next to the old one *)
Lemma done_in_flight_two_instances :
  exists s, run false (done_late_history ++ [EBackoff [1]; EProcSchedule [1]; ERunGroup [1] [2]; EProcSchedule [1; 2]]) init = Ok s /\ running [1; 2] s = 2%nat.
Proof. eexists. split; vm_compute; reflexivity. Qed.

(* with the repair the GC waits: after the same history the parent is still DEAD and nothing has been restarted *)
Lemma done_in_flight_repaired :
  exists s, run true done_late_history init = Ok s /\ gc_targets true (s_tree s) = [] /\
            option_map n_state (find [1] (s_tree s)) = Some SDead /\ running [1; 2] s = 1%nat.
Proof. eexists. split; [vm_compute; reflexivity|]. vm_compute. auto. Qed.

(* the recorded class: d (completed, child w) and f in one group; f fails: d's context is cancelled and w with it; f is restarted,
   d is left alone, and w — CANCELED below a cancelled context — is not restartable: the GC has nothing to do, now and for ever *)
Definition orphan_history : list ev :=
  [EProcSchedule []; ERunGroup [] [3; 4]; ESignalHealthy []; EProcSchedule [3]; EProcSchedule [4]; ESignalHealthy [4];
   ERunGroup [3] [5]; ESignalHealthy [3]; EProcSchedule [3; 5]; ESignalHealthy [3; 5]; ESignalDone [3]; EReturn [3] RNil; EProcDied [3] RNil;
   EReturn [4] RErr; EProcDied [4] RErr; EReturn [3; 5] RCtx; EProcDied [3; 5] RCtx; EGC; EBackoff [4]; EProcSchedule [4]; ESignalHealthy [4]].

Lemma below_completed_group_member_never_restarted :
  exists s, run true orphan_history init = Ok s /\ s_killed s = false /\
    option_map n_state (find [3; 5] (s_tree s)) = Some SCanceled /\ option_map n_state (find [3] (s_tree s)) = Some SDone /\
    cancelled [3] (s_tree s) = true /\ running [4] s = 1%nat /\ running [] s = 1%nat /\
    s_toks s = [([4], TInst); ([], TInst)] /\
    forall n, run true (repeat EGC n) s = Ok s.
Proof.
  eexists. split; [vm_compute; reflexivity|]. repeat (split; [vm_compute; reflexivity|]).
  induction n as [|n IH]; [reflexivity|]. cbn [repeat run]. match goal with |- match step true ?s EGC with _ => _ end = _ => assert (step true s EGC = Ok s) as -> by (vm_compute; reflexivity) end. exact IH.
Qed.
