(* Extension X10, part 5: agreement at the network level as ONE theorem over two per-node publication logs (model/PubLog.v) of a
   System.net history, the named hypothesis about the recovery oracle ("a member signs at most one digest per message id"), and what
   every published VAA is. *)
From Coq Require Import List ZArith Lia Bool Arith.
From Coq Require Import Strings.Byte.
From WH Require Import lib.Bytes gen.Extracted model.Vaa model.Processor model.ProcSpec model.System model.PubLog.
From WH Require Import proofs.VaaProofs proofs.ProcessorProofs proofs.ProcC01Proofs proofs.SystemProofs.
Import ListNotations.
Open Scope Z_scope.

(* ================================================================== B. agreement over System.net histories *)
Section Agree.
Variable recover : bytes -> bytes -> option bytes.
Variable keccak : bytes -> bytes.
Variable gov_chain : Z.
Variable gov_addr : bytes.
Variable owns : nat -> addr.
Variable signs : nat -> bytes -> bytes.

Notation rec := (Processor.rec recover).
Notation dg := (Processor.dg keccak).
Notation qvalid := (ProcSpec.qvalid recover keccak).
Notation Inv1 := (ProcC01Proofs.Inv1 recover keccak).
Notation nstep := (System.nstep recover keccak gov_chain gov_addr owns signs).
Notation nrun := (System.nrun recover keccak gov_chain gov_addr owns signs).
Notation pubs_of := (PubLog.pubs_of recover keccak gov_chain gov_addr owns signs).
Notation signed_by := (SystemProofs.signed_by recover keccak).
Notation LInv := (SystemProofs.LInv recover keccak).

Lemma fold_learn_incl i : forall xs L, incl L (fold_left (learn1 i) xs L).
Proof. induction xs as [|x xs IH]; intros L; [apply incl_refl|]. cbn [fold_left]. eapply incl_tran; [apply linv_mono_learn|apply IH]. Qed.

Lemma in_vaas_of b outs : In b (vaas_of outs) <-> In (SendVAA b) outs.
Proof.
  unfold vaas_of. rewrite in_flat_map. split.
  - intros (x & Hx & Hb). destruct x; try (destruct Hb; fail). destruct Hb as [<-|[]]. exact Hx.
  - intros H. exists (SendVAA b). split; [exact H|left; reflexivity].
Qed.

Lemma resolve_target' n x i o : System.resolve n x = Some (i, o) -> target x = i.
Proof.
  destruct x as [j e|j k|j g|j k]; cbn [System.resolve target]; intros H; try (inversion H; reflexivity).
  destruct (nth_error (pool n) k); [inversion H; reflexivity|discriminate].
Qed.

(* what a node's publication log holds, along every network history: wire forms of VAAs with a valid quorum of a set that node
   learned from chain *)
Lemma pubs_from : forall xs L n, LInv L n -> Forall nop_wf xs -> forall i b, In b (pubs_of i n xs) ->
  exists v g, b = marshal v /\ qvalid v (keys g) /\ In g (fold_left (learn1 i) xs (L i)).
Proof.
  induction xs as [|x xs IH]; intros L n HI Hw i b Hin; [destruct Hin|]. inversion Hw as [|? ? Hw1 Hw2]; subst.
  cbn [PubLog.pubs_of] in Hin. apply in_app_or in Hin as [Hin|Hin].
  - destruct (Nat.eqb_spec (target x) i) as [Ht|]; [|destruct Hin]. apply in_vaas_of in Hin.
    destruct (System.resolve n x) as [[i' o]|] eqn:Hr; [|rewrite (nstep_idle_resolve recover keccak gov_chain gov_addr owns signs n x Hr) in Hin; destruct Hin].
    pose proof (resolve_target' n x i' o Hr) as Ht'. rewrite Ht in Ht'. subst i'.
    destruct (nth_error (nodes n) i) as [st|] eqn:Hn; [|rewrite (nstep_idle_node recover keccak gov_chain gov_addr owns signs n x i o Hr Hn) in Hin; destruct Hin].
    rewrite (nstep_unfold recover keccak gov_chain gov_addr owns signs n x i o st Hr Hn) in Hin. cbn [snd] in Hin.
    destruct (HI i st Hn) as [O HO].
    destruct (step_c01 recover keccak (signs i) (owns i) gov_chain gov_addr O (L i) st o HO (resolve_wf n x i o Hw1 Hr)) as [_ F].
    rewrite Forall_forall in F. specialize (F _ Hin). unfold ProcSpec.out_c01 in F.
    assert (Hloc : ProcSpec.local_pub_ok recover keccak O (L i) st (SendVAA b) -> exists v g, b = marshal v /\ qvalid v (keys g) /\ In g (fold_left (learn1 i) (x :: xs) (L i))).
    { intros Hl. destruct (Hl None b eq_refl) as (v & snap & chain & sg & g & _ & _ & Hg & Hb & _ & Hq & _).
      exists (set_sigs v sg), g. split; [exact Hb|]. split; [exact Hq|]. apply fold_learn_incl. exact Hg. }
    destruct o; try (cbn [ProcSpec.publishes] in F; discriminate F); try (apply Hloc; exact F).
    destruct (F None b eq_refl) as (v & g & id & X & _). discriminate X.
  - pose proof (linv_step recover keccak gov_chain gov_addr owns signs L n x HI Hw1) as HI'.
    destruct (IH _ _ HI' Hw2 i b Hin) as (v & g & Hb & Hq & Hg). exists v, g. split; [exact Hb|]. split; [exact Hq|exact Hg].
Qed.

Theorem pubs_are_quorum_valid N xs i b : Forall nop_wf xs -> In b (pubs_of i (ninit N) xs) ->
  exists v g, b = marshal v /\ qvalid v (keys g) /\ In g (net_learned i xs).
Proof.
  intros Hw Hin.
  assert (H0 : LInv (fun _ => []) (ninit N)).
  { intros j stj Hj. cbn [ninit nodes] in Hj. apply nth_error_repeat in Hj. subst stj. exists []. apply init_inv1. }
  exact (pubs_from xs _ _ H0 Hw i b Hin).
Qed.

(* THE HYPOTHESIS ABOUT THE ORACLE that stands for "member a signs at most one digest per message id" (honesty of the signer AND
   unforgeability of its signatures, both as a property of [recover], nothing assumed globally): whenever two VAAs with the same
   identifier (emitter chain, emitter address, target chain, sequence) both carry a signature that recovers to a over their own
   digests, the digests are equal *)
Definition one_digest_per_id (a : addr) : Prop :=
  forall v1 v2, Processor.id_of v1 = Processor.id_of v2 -> signed_by v1 a -> signed_by v2 a -> dg v1 = dg v2.

(* AGREEMENT, one theorem over two publication logs.  For every N and every network history (any interleaving, adversarial items,
   set rotations, clocks, cleanup ticks): whatever node i and node j ever broadcast are quorum-valid VAAs of sets they learned from
   chain; and if the two name the same message id, were assembled under the same key set, and at most a third of that set is
   faulty (every other member signs at most one digest per id), they have the same digest *)
Theorem net_agreement N xs i j b1 b2 : Forall nop_wf xs ->
  In b1 (pubs_of i (ninit N) xs) -> In b2 (pubs_of j (ninit N) xs) ->
  exists v1 v2 g1 g2, b1 = marshal v1 /\ b2 = marshal v2 /\ qvalid v1 (keys g1) /\ qvalid v2 (keys g2) /\
    In g1 (net_learned i xs) /\ In g2 (net_learned j xs) /\
    forall faulty : list addr, Processor.id_of v1 = Processor.id_of v2 -> keys g1 = keys g2 ->
      3 * Z.of_nat (length faulty) <= Z.of_nat (length (keys g1)) ->
      (forall a, In a (keys g1) -> ~ In a faulty -> one_digest_per_id a) ->
      dg v1 = dg v2.
Proof.
  intros Hw H1 H2. destruct (pubs_are_quorum_valid N xs i b1 Hw H1) as (v1 & g1 & E1 & Q1 & L1).
  destruct (pubs_are_quorum_valid N xs j b2 Hw H2) as (v2 & g2 & E2 & Q2 & L2).
  exists v1, v2, g1, g2. repeat (split; [assumption|]). intros faulty Hid Hk Hf Hh. rewrite <- Hk in Q2.
  apply (no_conflicting_quorums recover keccak v1 v2 (keys g1) faulty Q1 Q2 Hf). intros a Ha Hn S1 S2. exact (Hh a Ha Hn v1 v2 Hid S1 S2).
Qed.
End Agree.
