(* C15 — governance requests become exactly the VAA the contracts parse, or are rejected.
   Go side: model/Governance.v (adminserver.go statement by statement; the Serialize methods of payloads.go, the validation
   thresholds, the consistency level are GENERATED from the Go sources).  Contract side: the Ralph parsers
   (parseAndVerifyGovernanceVAAGeneric, submitNewGuardianSet, submitSetMessageFee, submitTransferFees, submitContractUpgrade,
   parseAndVerifyRegisterChain, upgradeContract, destroyUnexecutedSequenceContracts, updateMinimalConsistencyLevel,
   updateRefundAddress, parseContractUpgrade) GENERATED statement by statement from the .ral sources (gen/ExtractedGov.v,
   module RalGov) and run on the envelope values of the produced VAA.  [None] = the VM aborts.
   Request fields are the protobuf-typed values an operator can submit: numbers are non-negative. *)
From Coq Require Import Strings.String.
From Coq Require Import List ZArith Lia Bool Arith.
From Coq Require Import Strings.Byte.
From WH Require Import lib.Bytes lib.Ralph gen.Extracted gen.ExtractedGov model.Vaa model.AlphConv model.Governance proofs.GovernanceProofs.
Import ListNotations.
Import ExtractedGov.GoPay ExtractedGov.RalGov.
Open Scope Z_scope.

(* [envelope_ok c e v]: version, no signatures, set index, timestamp, nonce, sequence, target chain as requested; emitter =
   the configured governance emitter; consistency level 32.
   [accepted_by module action c e v]: the contract's module / action / emitter check (parseAndVerifyGovernanceVAAGeneric
   with the module constant of the contract file and the ActionId of the entry point) passes for every expected
   sequence <= the VAA's. *)

(* the module constants of the contracts denote the Go module byte strings *)
Theorem C15_module_constants_agree :
  ral_module_gov = Some (RZ (unbe go_CoreModule)) /\ length go_CoreModule = 32%nat /\
  ral_module_tb = Some (RZ (unbe go_TokenBridgeModule)) /\ length go_TokenBridgeModule = 32%nat.
Proof. repeat split; reflexivity. Qed.

(* ------------------------------------------------------------------ the nine kinds *)
Theorem C15_message_fee : forall c e fee v, conv_message_fee c e fee = GOk v ->
  envelope_ok c e v /\ exists b, hex_decode fee = Some b /\ length b = 32%nat /\
    payload v = go_CoreModule ++ [x03] ++ b /\
    accepted_by ral_module_gov ral_action_submitSetMessageFee c e v /\
    ral_submitSetMessageFee (RZ (tchain v)) (RB (payload v)) (RZ (e_tchain e)) =
    Some ([], [("fee"%string, RZ (unbe b)); ("messageFee"%string, RZ (unbe b))]).
Proof. exact message_fee_spec. Qed.

Theorem C15_transfer_fee : forall c e amount recipient v chainId, conv_transfer_fee c e amount recipient = GOk v ->
  e_tchain e = chainId \/ e_tchain e = 0 ->
  envelope_ok c e v /\ exists a r, hex_decode amount = Some a /\ hex_decode recipient = Some r /\ length a = 32%nat /\ length r = 32%nat /\
    payload v = go_CoreModule ++ [x04] ++ a ++ r /\
    accepted_by ral_module_gov ral_action_submitTransferFees c e v /\
    ral_submitTransferFees (RZ (tchain v)) (RB (payload v)) (RZ chainId) =
    Some ([], [("amount"%string, RZ (unbe a)); ("recipient"%string, RB r)]).
Proof. exact transfer_fee_spec. Qed.

(* guardian-set upgrade; [e_gsi e + 1 < 2^32]: the new index is itself a 4-byte wire field (documented boundary).
   The contract stores the size byte followed by the keys; the keys are the addresses the request's strings denote,
   pairwise different, none zero, at most 19 *)
Theorem C15_guardian_set : forall c e guardians v chainId, conv_guardian_set c e guardians = GOk v ->
  0 <= e_gsi e -> e_gsi e + 1 < 4294967296 -> e_tchain e = chainId \/ e_tchain e = 0 ->
  let keys := map hex_to_address guardians in
  envelope_ok c e v /\ (0 < length guardians <= 19)%nat /\
  Forall (fun g => is_hex_address g = true) guardians /\ NoDup keys /\ ~ In zero_address keys /\
  payload v = go_CoreModule ++ [x02] ++ be 4 (e_gsi e + 1) ++ be 1 (Z.of_nat (length keys)) ++ concat keys /\
  accepted_by ral_module_gov ral_action_submitNewGuardianSet c e v /\
  ral_submitNewGuardianSet (RZ (tchain v)) (RB (payload v)) (RZ chainId) (RZ (e_gsi e)) =
  Some ([], [("newGuardianSetIndex"%string, RZ (e_gsi e + 1)); ("newGuardianSetSize"%string, RZ (Z.of_nat (length keys)));
             ("payloadSize"%string, RZ (38 + Z.of_nat (length keys) * 20)); ("guardianSetIndexes[1]"%string, RZ (e_gsi e + 1));
             ("guardianSets[1]"%string, RB (be 1 (Z.of_nat (length keys)) ++ concat keys))]).
Proof. exact guardian_set_spec. Qed.

Theorem C15_guardian_key_denotes : forall g, is_hex_address g = true ->
  let digits := if has_0x g then skipn 2 g else g in
  length digits = 40%nat /\ hex_decode digits = Some (hex_to_address g) /\ length (hex_to_address g) = 20%nat.
Proof. exact hex_address_denotes. Qed.

Theorem C15_contract_upgrade : forall c e payload_hex v, conv_contract_upgrade c e payload_hex = GOk v ->
  envelope_ok c e v /\ exists blob, hex_decode payload_hex = Some blob /\
  payload v = go_CoreModule ++ [x01] ++ blob /\
  accepted_by ral_module_gov ral_action_submitContractUpgrade c e v.
Proof. exact contract_upgrade_spec. Qed.

Theorem C15_bridge_upgrade : forall c e module payload_hex v, conv_bridge_upgrade c e module payload_hex = GOk v ->
  envelope_ok c e v /\ (length module <= 32)%nat /\ exists blob, hex_decode payload_hex = Some blob /\
  payload v = padded module ++ [x02] ++ blob /\
  (unbe (padded module) = unbe go_TokenBridgeModule -> accepted_by ral_module_tb ral_action_upgradeContract c e v).
Proof. exact bridge_upgrade_spec. Qed.

(* what parseContractUpgrade makes of the blob that follows the 33 bytes of module and action, in its two forms *)
Theorem C15_upgrade_blob_short : forall pre code p, length pre = 33%nat -> Z.of_nat (length code) <= 65535 ->
  p = pre ++ be 2 (Z.of_nat (length code)) ++ code ->
  exists env, ral_parseContractUpgrade (RB p) = Some ([RB code; RB []; RB []; RB []], env).
Proof. exact parse_upgrade_short. Qed.

Theorem C15_upgrade_blob_long : forall pre code hash imm mut p, length pre = 33%nat -> length hash = 32%nat ->
  Z.of_nat (length code) <= 65535 -> Z.of_nat (length imm) <= 65535 -> Z.of_nat (length mut) <= 65535 ->
  p = pre ++ be 2 (Z.of_nat (length code)) ++ code ++ hash ++ be 2 (Z.of_nat (length imm)) ++ imm ++ be 2 (Z.of_nat (length mut)) ++ mut ->
  exists env, ral_parseContractUpgrade (RB p) = Some ([RB code; RB hash; RB imm; RB mut], env).
Proof. exact parse_upgrade_long. Qed.

Theorem C15_upgrade_entry_points : forall p tc rets env, ral_parseContractUpgrade (RB p) = Some (rets, env) -> length rets = 4%nat ->
  exists a b c d, rets = [a; b; c; d] /\
  ral_submitContractUpgrade (RZ tc) (RB p) (RZ tc) =
  Some ([], [("newCode"%string, a); ("prevStateHash"%string, b); ("newEncodedImmutableFields"%string, c); ("newEncodedMutableFields"%string, d)]) /\
  ral_upgradeContract (RZ tc) (RB p) (RZ tc) =
  Some ([], [("newCode"%string, a); ("prevStateHash"%string, b); ("newEncodedImmutableFields"%string, c); ("newEncodedMutableFields"%string, d)]).
Proof.
  intros p tc rets env H L. destruct (upgrade_entry_gov p tc rets env H L) as (a & b & c & d & E & G).
  destruct (upgrade_entry_tb p tc rets env H L) as (a' & b' & c' & d' & E' & T). rewrite E in E'. inversion E'; subst.
  exists a', b', c', d'. auto.
Qed.

(* [L] = the contract's own chain id; the module name is the operator's: the contract accepts it iff it denotes the
   TokenBridge constant, e.g. "TokenBridge" *)
Theorem C15_register_chain : forall c e module ch emitter v L, conv_register_chain c e module ch emitter = GOk v -> 0 <= ch ->
  e_tchain e = L \/ e_tchain e = 0 -> ch <> L ->
  envelope_ok c e v /\ ch <= 65535 /\ (length module <= 32)%nat /\ exists ea, hex_decode emitter = Some ea /\ length ea = 32%nat /\
  payload v = padded module ++ [x01] ++ be 2 ch ++ ea /\
  (unbe (padded module) = unbe go_TokenBridgeModule -> accepted_by ral_module_tb ral_action_parseAndVerifyRegisterChain c e v) /\
  ral_parseAndVerifyRegisterChain (RZ (tchain v)) (RB (payload v)) (RZ L) =
  Some ([RZ ch; RB ea], [("remoteChainId"%string, RZ ch); ("remoteTokenBridgeId"%string, RB ea)]).
Proof. exact register_chain_spec. Qed.

Theorem C15_token_bridge_module_name : padded (str "TokenBridge") = go_TokenBridgeModule.
Proof. exact padded_token_bridge. Qed.

Theorem C15_destroy : forall c e ec seqs v, conv_destroy c e ec seqs = GOk v -> 0 <= ec -> seqs <> [] ->
  envelope_ok c e v /\ ec <= 65535 /\ Z.of_nat (length seqs) <= 65535 /\
  payload v = go_TokenBridgeModule ++ [xf0] ++ be 2 ec ++ be 2 (Z.of_nat (length seqs)) ++ flat_map (be 8) seqs /\
  accepted_by ral_module_tb ral_action_destroyUnexecutedSequenceContracts c e v /\
  ral_destroyUnexecutedSequenceContracts (RZ (tchain v)) (RB (payload v)) (RZ (e_tchain e)) =
  Some ([], [("remoteChainIdBytes"%string, RB (be 2 ec)); ("length"%string, RZ (Z.of_nat (length seqs)));
             ("payloadSize"%string, RZ (37 + Z.of_nat (length seqs) * 8)); ("paths"%string, RB (flat_map (be 8) seqs))]).
Proof. exact destroy_spec. Qed.

(* [paths] and [remoteChainIdBytes] carry the requested numbers exactly *)
Theorem C15_destroy_values : forall ec seqs, 0 <= ec <= 65535 -> Forall (fun s => 0 <= s < 2 ^ 64) seqs ->
  unbe (be 2 ec) = ec /\ u64s (length seqs) (flat_map (be 8) seqs) = seqs.
Proof.
  intros ec seqs He F. split; [apply unbe_be_small; change (256 ^ Z.of_nat 2) with 65536; lia|apply u64s_flat_map; exact F].
Qed.

Theorem C15_min_level : forall c e level v, conv_min_level c e level = GOk v -> 0 <= level ->
  envelope_ok c e v /\ level <= 255 /\
  payload v = go_TokenBridgeModule ++ [xf1] ++ be 1 level /\
  accepted_by ral_module_tb ral_action_updateMinimalConsistencyLevel c e v /\
  ral_updateMinimalConsistencyLevel (RZ (tchain v)) (RB (payload v)) (RZ (e_tchain e)) =
  Some ([], [("consistencyLevel"%string, RZ level); ("minimalConsistencyLevel"%string, RZ level)]).
Proof. exact min_level_spec. Qed.

Theorem C15_refund : forall c e address v, conv_refund c e address = GOk v ->
  envelope_ok c e v /\ exists a, hex_decode address = Some a /\ Z.of_nat (length a) <= 65535 /\
  payload v = go_TokenBridgeModule ++ [xf2] ++ be 2 (Z.of_nat (length a)) ++ a /\
  accepted_by ral_module_tb ral_action_updateRefundAddress c e v /\
  ral_updateRefundAddress (RZ (tchain v)) (RB (payload v)) (RZ (e_tchain e)) =
  Some ([], [("addressSize"%string, RZ (Z.of_nat (length a))); ("payloadSize"%string, RZ (35 + Z.of_nat (length a)));
             ("newRefundAddress"%string, RB a); ("refundAddress"%string, RB a)]).
Proof. exact refund_spec. Qed.

(* ------------------------------------------------------------------ values that do not fit are rejected, nothing wraps *)
Theorem C15_unfit_rejected : forall c e,
  (forall level, 255 < level -> conv_min_level c e level = GErr GLevel) /\
  (forall module ch emitter, 65535 < ch -> conv_register_chain c e module ch emitter = GErr GChainId) /\
  (forall module ch emitter, ch <= 65535 -> 32 < Z.of_nat (length module) -> conv_register_chain c e module ch emitter = GErr GModuleLen) /\
  (forall module payload_hex, 32 < Z.of_nat (length module) -> conv_bridge_upgrade c e module payload_hex = GErr GModuleLen) /\
  (forall ec seqs, 65535 < ec -> conv_destroy c e ec seqs = GErr GEmitterChain) /\
  (forall ec seqs, ec <= 65535 -> 65535 < Z.of_nat (length seqs) -> conv_destroy c e ec seqs = GErr GTooManySeqs) /\
  (forall address a, hex_decode address = Some a -> 65535 < Z.of_nat (length a) -> conv_refund c e address = GErr GRefundLen) /\
  (forall guardians, 19 < Z.of_nat (length guardians) -> conv_guardian_set c e guardians = GErr GGsTooMany) /\
  conv c e PUnset = GErr GUnset.
Proof.
  intros c e. repeat apply conj.
  - intros level H. unfold conv_min_level. change go_adm_level_max with 255. destruct (Z.gtb_spec level 255); [reflexivity|lia].
  - intros module ch emitter H. unfold conv_register_chain. change go_adm_chain_max with 65535. destruct (Z.gtb_spec ch 65535); [reflexivity|lia].
  - intros module ch emitter H1 H2. unfold conv_register_chain, len. change go_adm_chain_max with 65535. change go_adm_module_max with 32.
    destruct (Z.gtb_spec ch 65535); [lia|]. destruct (Z.gtb_spec (Z.of_nat (length module)) 32); [reflexivity|lia].
  - intros module payload_hex H. unfold conv_bridge_upgrade, len. change go_adm_upg_module_max with 32.
    destruct (Z.gtb_spec (Z.of_nat (length module)) 32); [reflexivity|lia].
  - intros ec seqs H. unfold conv_destroy. change go_adm_echain_max with 65535. destruct (Z.gtb_spec ec 65535); [reflexivity|lia].
  - intros ec seqs H1 H2. unfold conv_destroy. change go_adm_echain_max with 65535. change go_adm_seqs_max with 65535.
    destruct (Z.gtb_spec ec 65535); [lia|]. destruct (Z.gtb_spec (Z.of_nat (length seqs)) 65535); [reflexivity|lia].
  - intros address a D H. unfold conv_refund, len. rewrite D. change go_adm_refund_max with 65535.
    destruct (Z.gtb_spec (Z.of_nat (length a)) 65535); [reflexivity|lia].
  - intros guardians H. unfold conv_guardian_set. change go_adm_gs_empty with 0. change go_adm_gs_max with 19.
    destruct (Z.eqb_spec (Z.of_nat (length guardians)) 0); [lia|]. destruct (Z.gtb_spec (Z.of_nat (length guardians)) 19); [reflexivity|lia].
  - reflexivity.
Qed.

(* ------------------------------------------------------------------ no request crashes the node *)
Theorem C15_no_panic : forall c e p, conv c e p <> GPanic.
Proof. exact conv_no_panic. Qed.

(* ------------------------------------------------------------------ InjectGovernanceVAA *)
(* for every keccak: never a panic; what has been put on injectC are the conversions of the leading messages (each with a
   target chain that fits); on success there is one VAA and one digest per message and the digests are those of the
   injected VAAs *)
Theorem C15_inject : forall keccak c ts gsi msgs sent r, inject keccak c ts gsi msgs = (sent, r) ->
  r <> IPanic /\
  Forall2 (fun m v => gm_tchain m <= 65535 /\ conv c (env_of ts gsi m) (gm_payload m) = GOk v) (firstn (length sent) msgs) sent /\
  (forall ds, r = IOk ds -> ds = map (digest keccak) sent /\ length sent = length msgs).
Proof. exact inject_spec. Qed.

Theorem C15_inject_target_chain_rejected : forall keccak c ts gsi m rest, 65535 < gm_tchain m ->
  inject keccak c ts gsi (m :: rest) = ([], IErr GTargetChain).
Proof.
  intros keccak c ts gsi m rest H. unfold inject. cbn [inject_loop]. change go_adm_target_max with 65535.
  destruct (Z.gtb_spec (gm_tchain m) 65535); [reflexivity|lia].
Qed.

(* construction is a function of the configuration and the request alone (the model has no clock, no randomness, no
   state): two operators submitting the same request obtain the same VAAs and the same digests *)
Theorem C15_same_request_same_digest : forall keccak c ts gsi msgs o1 o2,
  inject keccak c ts gsi msgs = o1 -> inject keccak c ts gsi msgs = o2 -> o1 = o2.
Proof. intros; congruence. Qed.

(* ------------------------------------------------------------------ the hypotheses are satisfiable *)
Definition ex_cfg : gcfg := {| g_chain := 1; g_addr := repeat x00 31 ++ [x04] |}.
Definition ex_env : genv := {| e_ts := 1700000000; e_gsi := 3; e_nonce := 7; e_seq := 42; e_tchain := 255 |}.

Example C15_message_fee_ex : exists v, conv_message_fee ex_cfg ex_env (str "00000000000000000000000000000000000000000000000000000000000f4240") = GOk v /\
  length (payload v) = 65%nat.
Proof. eexists. split; [vm_compute; reflexivity|vm_compute; reflexivity]. Qed.
Example C15_transfer_fee_ex : exists v, conv_transfer_fee ex_cfg ex_env (str "00000000000000000000000000000000000000000000000000000000000f4240")
   (str "abababababababababababababababababababababababababababababababab") = GOk v /\ length (payload v) = 97%nat.
Proof. eexists. split; [vm_compute; reflexivity|vm_compute; reflexivity]. Qed.
Example C15_guardian_set_ex : exists v, conv_guardian_set ex_cfg ex_env [str "0x000000000000000000000000000000abcdef0000"; str "000000000000000000000000000000ABCDEF0001"] = GOk v /\
  length (payload v) = 78%nat.
Proof. eexists. split; [vm_compute; reflexivity|vm_compute; reflexivity]. Qed.
Example C15_guardian_set_zero_key_rejected : conv_guardian_set ex_cfg ex_env [str "0x0000000000000000000000000000000000000000"] = GErr GGsDup.
Proof. vm_compute. reflexivity. Qed.
Example C15_contract_upgrade_ex : exists v env, conv_contract_upgrade ex_cfg ex_env (str "0003aabbcc") = GOk v /\
  ral_parseContractUpgrade (RB (payload v)) = Some ([RB [xaa; xbb; xcc]; RB []; RB []; RB []], env).
Proof. eexists. eexists. split; [vm_compute; reflexivity|vm_compute; reflexivity]. Qed.
Example C15_bridge_upgrade_ex : exists v, conv_bridge_upgrade ex_cfg ex_env (str "TokenBridge") (str "0001ff") = GOk v /\
  unbe (padded (str "TokenBridge")) = unbe go_TokenBridgeModule.
Proof. eexists. split; [vm_compute; reflexivity|vm_compute; reflexivity]. Qed.
Example C15_register_chain_ex : exists v, conv_register_chain ex_cfg ex_env (str "TokenBridge") 65535 (str "1111111111111111111111111111111111111111111111111111111111111111") = GOk v /\
  length (payload v) = 67%nat.
Proof. eexists. split; [vm_compute; reflexivity|vm_compute; reflexivity]. Qed.
Example C15_destroy_ex : exists v, conv_destroy ex_cfg ex_env 65535 [0; 18446744073709551615; 5] = GOk v /\ length (payload v) = 61%nat.
Proof. eexists. split; [vm_compute; reflexivity|vm_compute; reflexivity]. Qed.
Example C15_min_level_ex : exists v, conv_min_level ex_cfg ex_env 255 = GOk v /\ payload v = go_TokenBridgeModule ++ [xf1; xff].
Proof. eexists. split; [vm_compute; reflexivity|vm_compute; reflexivity]. Qed.
Example C15_refund_ex : exists v, conv_refund ex_cfg ex_env (str "00bee1cf5ad2b4a1d2e2b5e4c3a3e1c1b1a191817161514131211100f0e0d0c0b0a0") = GOk v /\ length (payload v) = 69%nat.
Proof. eexists. split; [vm_compute; reflexivity|vm_compute; reflexivity]. Qed.
Example C15_unfit_rejected_ex : conv_min_level ex_cfg ex_env 300 = GErr GLevel /\ conv_destroy ex_cfg ex_env 65538 [1] = GErr GEmitterChain /\
  conv_register_chain ex_cfg ex_env (repeat x6d 33) 2 [] = GErr GModuleLen.
Proof. vm_compute. repeat split; reflexivity. Qed.
Example C15_inject_ex : forall keccak, exists v1 v2,
  inject keccak ex_cfg 1700000000 3 [{| gm_seq := 42; gm_nonce := 7; gm_tchain := 255; gm_payload := PMinLevel 3 |};
                                      {| gm_seq := 43; gm_nonce := 8; gm_tchain := 255; gm_payload := PUnset |};
                                      {| gm_seq := 44; gm_nonce := 9; gm_tchain := 255; gm_payload := PMinLevel 4 |}] = ([v1], IErr GUnset) /\
  inject keccak ex_cfg 1700000000 3 [{| gm_seq := 42; gm_nonce := 7; gm_tchain := 255; gm_payload := PMinLevel 3 |};
                                      {| gm_seq := 44; gm_nonce := 9; gm_tchain := 0; gm_payload := PMinLevel 4 |}] = ([v1; v2], IOk [digest keccak v1; digest keccak v2]).
Proof. intros keccak. eexists. eexists. split; reflexivity. Qed.

Print Assumptions C15_module_constants_agree.
Print Assumptions C15_message_fee.
Print Assumptions C15_transfer_fee.
Print Assumptions C15_guardian_set.
Print Assumptions C15_guardian_key_denotes.
Print Assumptions C15_contract_upgrade.
Print Assumptions C15_bridge_upgrade.
Print Assumptions C15_upgrade_blob_short.
Print Assumptions C15_upgrade_blob_long.
Print Assumptions C15_upgrade_entry_points.
Print Assumptions C15_register_chain.
Print Assumptions C15_token_bridge_module_name.
Print Assumptions C15_destroy.
Print Assumptions C15_destroy_values.
Print Assumptions C15_min_level.
Print Assumptions C15_refund.
Print Assumptions C15_unfit_rejected.
Print Assumptions C15_no_panic.
Print Assumptions C15_inject.
Print Assumptions C15_inject_target_chain_rejected.
Print Assumptions C15_same_request_same_digest.
