(* C15 — governance requests become exactly the VAA the contracts parse, or are rejected.
   Go side: model/Governance.v (adminserver.go statement by statement; the Serialize methods of payloads.go, the validation
   thresholds, the consistency level are GENERATED from the Go sources).  Contract side: the Ralph parsers
   (parseAndVerifyGovernanceVAAGeneric, submitNewGuardianSet, submitSetMessageFee, submitTransferFees, submitContractUpgrade,
   parseAndVerifyRegisterChain, upgradeContract, destroyUnexecutedSequenceContracts, updateMinimalConsistencyLevel,
   updateRefundAddress, parseContractUpgrade) GENERATED statement by statement from the .ral sources (gen/ExtractedGov.v,
   module RalGov) and run on the envelope values of the produced VAA.  [None] = the VM aborts.
   Request fields are the protobuf-typed values an operator can submit: numbers are non-negative. *)
From Coq Require Import Strings.String.
From Coq Require Import List ZArith Lia Bool Arith.
From Coq Require Import Strings.Byte.
From WH Require Import lib.Bytes lib.Ralph gen.Extracted gen.ExtractedGov model.Vaa model.AlphConv model.Governance proofs.GovernanceProofs.
Import ListNotations.
Import ExtractedGov.GoPay ExtractedGov.RalGov.
Open Scope Z_scope.

(* [envelope_ok c e v]: version, no signatures, set index, timestamp, nonce, sequence, target chain as requested; emitter =
   the configured governance emitter; consistency level 32.
   [accepted_by module action c e v]: the contract's module / action / emitter check (parseAndVerifyGovernanceVAAGeneric
   with the module constant of the contract file and the ActionId of the entry point) passes for every expected
   sequence <= the VAA's. *)

(* the module constants of the contracts denote the Go module byte strings *)
Theorem C15_module_constants_agree :
  ral_module_gov = Some (RZ (unbe go_CoreModule)) /\ length go_CoreModule = 32%nat /\
  ral_module_tb = Some (RZ (unbe go_TokenBridgeModule)) /\ length go_TokenBridgeModule = 32%nat.
Proof. repeat split; reflexivity. Qed.

(* ------------------------------------------------------------------ the nine kinds *)
Theorem C15_message_fee : forall c e fee v, conv_message_fee c e fee = GOk v ->
  envelope_ok c e v /\ exists b, hex_decode fee = Some b /\ length b = 32%nat /\
    payload v = go_CoreModule ++ [x03] ++ b /\
    accepted_by ral_module_gov ral_action_submitSetMessageFee c e v /\
    ral_submitSetMessageFee (RZ (tchain v)) (RB (payload v)) (RZ (e_tchain e)) =
    Some ([], [("fee"%string, RZ (unbe b)); ("messageFee"%string, RZ (unbe b))]).
Proof. exact message_fee_spec. Qed.

Theorem C15_transfer_fee : forall c e amount recipient v chainId, conv_transfer_fee c e amount recipient = GOk v ->
  e_tchain e = chainId \/ e_tchain e = 0 ->
  envelope_ok c e v /\ exists a r, hex_decode amount = Some a /\ hex_decode recipient = Some r /\ length a = 32%nat /\ length r = 32%nat /\
    payload v = go_CoreModule ++ [x04] ++ a ++ r /\
    accepted_by ral_module_gov ral_action_submitTransferFees c e v /\
    ral_submitTransferFees (RZ (tchain v)) (RB (payload v)) (RZ chainId) =
    Some ([], [("amount"%string, RZ (unbe a)); ("recipient"%string, RB r)]).
Proof. exact transfer_fee_spec. Qed.

(* guardian-set upgrade; [e_gsi e + 1 < 2^32]: the new index is itself a 4-byte wire field (documented boundary).
   The contract stores the size byte followed by the keys; the keys are the addresses the request's strings denote,
   pairwise different, none zero, at most 19 *)
Theorem C15_guardian_set : forall c e guardians v chainId, conv_guardian_set c e guardians = GOk v ->
  0 <= e_gsi e -> e_gsi e + 1 < 4294967296 -> e_tchain e = chainId \/ e_tchain e = 0 ->
  let keys := map hex_to_address guardians in
  envelope_ok c e v /\ (0 < length guardians <= 19)%nat /\
  Forall (fun g => is_hex_address g = true) guardians /\ NoDup keys /\ ~ In zero_address keys /\
  payload v = go_CoreModule ++ [x02] ++ be 4 (e_gsi e + 1) ++ be 1 (Z.of_nat (length keys)) ++ concat keys /\
  accepted_by ral_module_gov ral_action_submitNewGuardianSet c e v /\
  ral_submitNewGuardianSet (RZ (tchain v)) (RB (payload v)) (RZ chainId) (RZ (e_gsi e)) =
  Some ([], [("newGuardianSetIndex"%string, RZ (e_gsi e + 1)); ("newGuardianSetSize"%string, RZ (Z.of_nat (length keys)));
             ("payloadSize"%string, RZ (38 + Z.of_nat (length keys) * 20)); ("guardianSetIndexes[1]"%string, RZ (e_gsi e + 1));
             ("guardianSets[1]"%string, RB (be 1 (Z.of_nat (length keys)) ++ concat keys))]).
Proof. exact guardian_set_spec. Qed.

Theorem C15_guardian_key_denotes : forall g, is_hex_address g = true ->
  let digits := if has_0x g then skipn 2 g else g in
  length digits = 40%nat /\ hex_decode digits = Some (hex_to_address g) /\ length (hex_to_address g) = 20%nat.
Proof. exact hex_address_denotes. Qed.

Theorem C15_contract_upgrade : forall c e payload_hex v, conv_contract_upgrade c e payload_hex = GOk v ->
  envelope_ok c e v /\ exists blob, hex_decode payload_hex = Some blob /\
  payload v = go_CoreModule ++ [x01] ++ blob /\
  accepted_by ral_module_gov ral_action_submitContractUpgrade c e v.
Proof. exact contract_upgrade_spec. Qed.

Theorem C15_bridge_upgrade : forall c e module payload_hex v, conv_bridge_upgrade c e module payload_hex = GOk v ->
  envelope_ok c e v /\ (length module <= 32)%nat /\ exists blob, hex_decode payload_hex = Some blob /\
  payload v = padded module ++ [x02] ++ blob /\
  (unbe (padded module) = unbe go_TokenBridgeModule -> accepted_by ral_module_tb ral_action_upgradeContract c e v).
Proof. exact bridge_upgrade_spec. Qed.

(* what parseContractUpgrade makes of the blob that follows the 33 bytes of module and action, in its two forms *)
Theorem C15_upgrade_blob_short : forall pre code p, length pre = 33%nat -> Z.of_nat (length code) <= 65535 ->
  p = pre ++ be 2 (Z.of_nat (length code)) ++ code ->
  exists env, ral_parseContractUpgrade (RB p) = Some ([RB code; RB []; RB []; RB []], env).
Proof. exact parse_upgrade_short. Qed.

Theorem C15_upgrade_blob_long : forall pre code hash imm mut p, length pre = 33%nat -> length hash = 32%nat ->
  Z.of_nat (length code) <= 65535 -> Z.of_nat (length imm) <= 65535 -> Z.of_nat (length mut) <= 65535 ->
  p = pre ++ be 2 (Z.of_nat (length code)) ++ code ++ hash ++ be 2 (Z.of_nat (length imm)) ++ imm ++ be 2 (Z.of_nat (length mut)) ++ mut ->
  exists env, ral_parseContractUpgrade (RB p) = Some ([RB code; RB hash; RB imm; RB mut], env).
Proof. exact parse_upgrade_long. Qed.

Theorem C15_upgrade_entry_points : forall p tc rets env, ral_parseContractUpgrade (RB p) = Some (rets, env) -> length rets = 4%nat ->
  exists a b c d, rets = [a; b; c; d] /\
  ral_submitContractUpgrade (RZ tc) (RB p) (RZ tc) =
  Some ([], [("newCode"%string, a); ("prevStateHash"%string, b); ("newEncodedImmutableFields"%string, c); ("newEncodedMutableFields"%string, d)]) /\
  ral_upgradeContract (RZ tc) (RB p) (RZ tc) =
  Some ([], [("newCode"%string, a); ("prevStateHash"%string, b); ("newEncodedImmutableFields"%string, c); ("newEncodedMutableFields"%string, d)]).
Proof.
  intros p tc rets env H L. destruct (upgrade_entry_gov p tc rets env H L) as (a & b & c & d & E & G).
  destruct (upgrade_entry_tb p tc rets env H L) as (a' & b' & c' & d' & E' & T). rewrite E in E'. inversion E'; subst.
  exists a', b', c', d'. auto.
Qed.

(* [L] = the contract's own chain id; the module name is the operator's: the contract accepts it iff it denotes the
   TokenBridge constant, e.g. "TokenBridge" *)
Theorem C15_register_chain : forall c e module ch emitter v L, conv_register_chain c e module ch emitter = GOk v -> 0 <= ch ->
  e_tchain e = L \/ e_tchain e = 0 -> ch <> L ->
  envelope_ok c e v /\ ch <= 65535 /\ (length module <= 32)%nat /\ exists ea, hex_decode emitter = Some ea /\ length ea = 32%nat /\
  payload v = padded module ++ [x01] ++ be 2 ch ++ ea /\
  (unbe (padded module) = unbe go_TokenBridgeModule -> accepted_by ral_module_tb ral_action_parseAndVerifyRegisterChain c e v) /\
  ral_parseAndVerifyRegisterChain (RZ (tchain v)) (RB (payload v)) (RZ L) =
  Some ([RZ ch; RB ea], [("remoteChainId"%string, RZ ch); ("remoteTokenBridgeId"%string, RB ea)]).
Proof. exact register_chain_spec. Qed.

Theorem C15_token_bridge_module_name : padded (str "TokenBridge") = go_TokenBridgeModule.
Proof. exact padded_token_bridge. Qed.

Theorem C15_destroy : forall c e ec seqs v, conv_destroy c e ec seqs = GOk v -> 0 <= ec -> seqs <> [] ->
  envelope_ok c e v /\ ec <= 65535 /\ Z.of_nat (length seqs) <= 65535 /\
  payload v = go_TokenBridgeModule ++ [xf0] ++ be 2 ec ++ be 2 (Z.of_nat (length seqs)) ++ flat_map (be 8) seqs /\
  accepted_by ral_module_tb ral_action_destroyUnexecutedSequenceContracts c e v /\
  ral_destroyUnexecutedSequenceContracts (RZ (tchain v)) (RB (payload v)) (RZ (e_tchain e)) =
  Some ([], [("remoteChainIdBytes"%string, RB (be 2 ec)); ("length"%string, RZ (Z.of_nat (length seqs)));
             ("payloadSize"%string, RZ (37 + Z.of_nat (length seqs) * 8)); ("paths"%string, RB (flat_map (be 8) seqs))]).
Proof. exact destroy_spec. Qed.

(* [paths] and [remoteChainIdBytes] carry the requested numbers exactly *)
Theorem C15_destroy_values : forall ec seqs, 0 <= ec <= 65535 -> Forall (fun s => 0 <= s < 2 ^ 64) seqs ->
  unbe (be 2 ec) = ec /\ u64s (length seqs) (flat_map (be 8) seqs) = seqs.
Proof.
  intros ec seqs He F. split; [apply unbe_be_small; change (256 ^ Z.of_nat 2) with 65536; lia|apply u64s_flat_map; exact F].
Qed.

Theorem C15_min_level : forall c e level v, conv_min_level c e level = GOk v -> 0 <= level ->
  envelope_ok c e v /\ level <= 255 /\
  payload v = go_TokenBridgeModule ++ [xf1] ++ be 1 level /\
  accepted_by ral_module_tb ral_action_updateMinimalConsistencyLevel c e v /\
  ral_updateMinimalConsistencyLevel (RZ (tchain v)) (RB (payload v)) (RZ (e_tchain e)) =
  Some ([], [("consistencyLevel"%string, RZ level); ("minimalConsistencyLevel"%string, RZ level)]).
Proof. exact min_level_spec. Qed.

Theorem C15_refund : forall c e address v, conv_refund c e address = GOk v ->
  envelope_ok c e v /\ exists a, hex_decode address = Some a /\ Z.of_nat (length a) <= 65535 /\
  payload v = go_TokenBridgeModule ++ [xf2] ++ be 2 (Z.of_nat (length a)) ++ a /\
  accepted_by ral_module_tb ral_action_updateRefundAddress c e v /\
  ral_updateRefundAddress (RZ (tchain v)) (RB (payload v)) (RZ (e_tchain e)) =
  Some ([], [("addressSize"%string, RZ (Z.of_nat (length a))); ("payloadSize"%string, RZ (35 + Z.of_nat (length a)));
             ("newRefundAddress"%string, RB a); ("refundAddress"%string, RB a)]).
Proof. exact refund_spec. Qed.

(* ------------------------------------------------------------------ values that do not fit are rejected, nothing wraps *)
Theorem C15_unfit_rejected : forall c e,
  (forall level, 255 < level -> conv_min_level c e level = GErr GLevel) /\
  (forall module ch emitter, 65535 < ch -> conv_register_chain c e module ch emitter = GErr GChainId) /\
  (forall module ch emitter, ch <= 65535 -> 32 < Z.of_nat (length module) -> conv_register_chain c e module ch emitter = GErr GModuleLen) /\
  (forall module payload_hex, 32 < Z.of_nat (length module) -> conv_bridge_upgrade c e module payload_hex = GErr GModuleLen) /\
  (forall ec seqs, 65535 < ec -> conv_destroy c e ec seqs = GErr GEmitterChain) /\
  (forall ec seqs, ec <= 65535 -> 65535 < Z.of_nat (length seqs) -> conv_destroy c e ec seqs = GErr GTooManySeqs) /\
  (forall address a, hex_decode address = Some a -> 65535 < Z.of_nat (length a) -> conv_refund c e address = GErr GRefundLen) /\
  (forall guardians, 19 < Z.of_nat (length guardians) -> conv_guardian_set c e guardians = GErr GGsTooMany) /\
  conv c e PUnset = GErr GUnset.
Proof.
  intros c e. repeat apply conj.
  - intros level H. unfold conv_min_level. change go_adm_level_max with 255. destruct (Z.gtb_spec level 255); [reflexivity|lia].
  - intros module ch emitter H. unfold conv_register_chain. change go_adm_chain_max with 65535. destruct (Z.gtb_spec ch 65535); [reflexivity|lia].
  - intros module ch emitter H1 H2. unfold conv_register_chain, len. change go_adm_chain_max with 65535. change go_adm_module_max with 32.
    destruct (Z.gtb_spec ch 65535); [lia|]. destruct (Z.gtb_spec (Z.of_nat (length module)) 32); [reflexivity|lia].
  - intros module payload_hex H. unfold conv_bridge_upgrade, len. change go_adm_upg_module_max with 32.
    destruct (Z.gtb_spec (Z.of_nat (length module)) 32); [reflexivity|lia].
  - intros ec seqs H. unfold conv_destroy. change go_adm_echain_max with 65535. destruct (Z.gtb_spec ec 65535); [reflexivity|lia].
  - intros ec seqs H1 H2. unfold conv_destroy. change go_adm_echain_max with 65535. change go_adm_seqs_max with 65535.
    destruct (Z.gtb_spec ec 65535); [lia|]. destruct (Z.gtb_spec (Z.of_nat (length seqs)) 65535); [reflexivity|lia].
  - intros address a D H. unfold conv_refund, len. rewrite D. change go_adm_refund_max with 65535.
    destruct (Z.gtb_spec (Z.of_nat (length a)) 65535); [reflexivity|lia].
  - intros guardians H. unfold conv_guardian_set. change go_adm_gs_empty with 0. change go_adm_gs_max with 19.
    destruct (Z.eqb_spec (Z.of_nat (length guardians)) 0); [lia|]. destruct (Z.gtb_spec (Z.of_nat (length guardians)) 19); [reflexivity|lia].
  - reflexivity.
Qed.

(* ------------------------------------------------------------------ no request crashes the node *)
Theorem C15_no_panic : forall c e p, conv c e p <> GPanic.
Proof. exact conv_no_panic. Qed.

(* ------------------------------------------------------------------ InjectGovernanceVAA *)
(* for every keccak: never a panic; what has been put on injectC are the conversions of the leading messages (each with a
   target chain that fits); on success there is one VAA and one digest per message and the digests are those of the
   injected VAAs *)
Theorem C15_inject : forall keccak c ts gsi msgs sent r, inject keccak c ts gsi msgs = (sent, r) ->
  r <> IPanic /\
  Forall2 (fun m v => gm_tchain m <= 65535 /\ conv c (env_of ts gsi m) (gm_payload m) = GOk v) (firstn (length sent) msgs) sent /\
  (forall ds, r = IOk ds -> ds = map (digest keccak) sent /\ length sent = length msgs).
Proof. exact inject_spec. Qed.

Theorem C15_inject_target_chain_rejected : forall keccak c ts gsi m rest, 65535 < gm_tchain m ->
  inject keccak c ts gsi (m :: rest) = ([], IErr GTargetChain).
Proof.
  intros keccak c ts gsi m rest H. unfold inject. cbn [inject_loop]. change go_adm_target_max with 65535.
  destruct (Z.gtb_spec (gm_tchain m) 65535); [reflexivity|lia].
Qed.

(* construction is a function of the configuration and the request alone (the model has no clock, no randomness, no
   state): two operators submitting the same request obtain the same VAAs and the same digests *)
Theorem C15_same_request_same_digest : forall keccak c ts gsi msgs o1 o2,
  inject keccak c ts gsi msgs = o1 -> inject keccak c ts gsi msgs = o2 -> o1 = o2.
Proof. intros; congruence. Qed.

(* ------------------------------------------------------------------ the hypotheses are satisfiable *)
Definition ex_cfg : gcfg := {| g_chain := 1; g_addr := repeat x00 31 ++ [x04] |}.
Definition ex_env : genv := {| e_ts := 1700000000; e_gsi := 3; e_nonce := 7; e_seq := 42; e_tchain := 255 |}.

Example C15_message_fee_ex : exists v, conv_message_fee ex_cfg ex_env (str "00000000000000000000000000000000000000000000000000000000000f4240") = GOk v /\
  length (payload v) = 65%nat.
Proof. eexists. split; [vm_compute; reflexivity|vm_compute; reflexivity]. Qed.
Example C15_transfer_fee_ex : exists v, conv_transfer_fee ex_cfg ex_env (str "00000000000000000000000000000000000000000000000000000000000f4240")
   (str "abababababababababababababababababababababababababababababababab") = GOk v /\ length (payload v) = 97%nat.
Proof. eexists. split; [vm_compute; reflexivity|vm_compute; reflexivity]. Qed.
Example C15_guardian_set_ex : exists v, conv_guardian_set ex_cfg ex_env [str "0x000000000000000000000000000000abcdef0000"; str "000000000000000000000000000000ABCDEF0001"] = GOk v /\
  length (payload v) = 78%nat.
Proof. eexists. split; [vm_compute; reflexivity|vm_compute; reflexivity]. Qed.
Example C15_guardian_set_zero_key_rejected : conv_guardian_set ex_cfg ex_env [str "0x0000000000000000000000000000000000000000"] = GErr GGsDup.
Proof. vm_compute. reflexivity. Qed.
Example C15_contract_upgrade_ex : exists v env, conv_contract_upgrade ex_cfg ex_env (str "0003aabbcc") = GOk v /\
  ral_parseContractUpgrade (RB (payload v)) = Some ([RB [xaa; xbb; xcc]; RB []; RB []; RB []], env).
Proof. eexists. eexists. split; [vm_compute; reflexivity|vm_compute; reflexivity]. Qed.
Example C15_bridge_upgrade_ex : exists v, conv_bridge_upgrade ex_cfg ex_env (str "TokenBridge") (str "0001ff") = GOk v /\
  unbe (padded (str "TokenBridge")) = unbe go_TokenBridgeModule.
Proof. eexists. split; [vm_compute; reflexivity|vm_compute; reflexivity]. Qed.
Example C15_register_chain_ex : exists v, conv_register_chain ex_cfg ex_env (str "TokenBridge") 65535 (str "1111111111111111111111111111111111111111111111111111111111111111") = GOk v /\
  length (payload v) = 67%nat.
Proof. eexists. split; [vm_compute; reflexivity|vm_compute; reflexivity]. Qed.
Example C15_destroy_ex : exists v, conv_destroy ex_cfg ex_env 65535 [0; 18446744073709551615; 5] = GOk v /\ length (payload v) = 61%nat.
Proof. eexists. split; [vm_compute; reflexivity|vm_compute; reflexivity]. Qed.
Example C15_min_level_ex : exists v, conv_min_level ex_cfg ex_env 255 = GOk v /\ payload v = go_TokenBridgeModule ++ [xf1; xff].
Proof. eexists. split; [vm_compute; reflexivity|vm_compute; reflexivity]. Qed.
Example C15_refund_ex : exists v, conv_refund ex_cfg ex_env (str "00bee1cf5ad2b4a1d2e2b5e4c3a3e1c1b1a191817161514131211100f0e0d0c0b0a0") = GOk v /\ length (payload v) = 69%nat.
Proof. eexists. split; [vm_compute; reflexivity|vm_compute; reflexivity]. Qed.
Example C15_unfit_rejected_ex : conv_min_level ex_cfg ex_env 300 = GErr GLevel /\ conv_destroy ex_cfg ex_env 65538 [1] = GErr GEmitterChain /\
  conv_register_chain ex_cfg ex_env (repeat x6d 33) 2 [] = GErr GModuleLen.
Proof. vm_compute. repeat split; reflexivity. Qed.
Example C15_inject_ex : forall keccak, exists v1 v2,
  inject keccak ex_cfg 1700000000 3 [{| gm_seq := 42; gm_nonce := 7; gm_tchain := 255; gm_payload := PMinLevel 3 |};
                                      {| gm_seq := 43; gm_nonce := 8; gm_tchain := 255; gm_payload := PUnset |};
                                      {| gm_seq := 44; gm_nonce := 9; gm_tchain := 255; gm_payload := PMinLevel 4 |}] = ([v1], IErr GUnset) /\
  inject keccak ex_cfg 1700000000 3 [{| gm_seq := 42; gm_nonce := 7; gm_tchain := 255; gm_payload := PMinLevel 3 |};
                                      {| gm_seq := 44; gm_nonce := 9; gm_tchain := 0; gm_payload := PMinLevel 4 |}] = ([v1; v2], IOk [digest keccak v1; digest keccak v2]).
Proof. intros keccak. eexists. eexists. split; reflexivity. Qed.

Print Assumptions C15_module_constants_agree.
Print Assumptions C15_message_fee.
Print Assumptions C15_transfer_fee.
Print Assumptions C15_guardian_set.
Print Assumptions C15_guardian_key_denotes.
Print Assumptions C15_contract_upgrade.
Print Assumptions C15_bridge_upgrade.
Print Assumptions C15_upgrade_blob_short.
Print Assumptions C15_upgrade_blob_long.
Print Assumptions C15_upgrade_entry_points.
Print Assumptions C15_register_chain.
Print Assumptions C15_token_bridge_module_name.
Print Assumptions C15_destroy.
Print Assumptions C15_destroy_values.
Print Assumptions C15_min_level.
Print Assumptions C15_refund.
Print Assumptions C15_unfit_rejected.
Print Assumptions C15_no_panic.
Print Assumptions C15_inject.
Print Assumptions C15_inject_target_chain_rejected.
Print Assumptions C15_same_request_same_digest.

(* ================================================================================================================================
   Extension X6 — governance END TO END: operator request -> conversion -> injection at N operators' nodes -> observations ->
   quorum -> published bytes -> Alephium contract (model/GovPipeline.v composes Governance.v, Processor.v / System.v, Vaa.v,
   Contracts.v and the generated Ralph functions; proofs/GovPipelineProofs.v).  [recover], [keccak], the signers are oracles
   (universally quantified).  *)
From WH Require Import model.Processor model.ProcSpec model.System model.GovPipeline
     proofs.VaaProofs proofs.ProcC01Proofs proofs.ProcC02Proofs proofs.SystemProofs proofs.SystemLiveProofs proofs.GovPipelineProofs.
From WH Require model.Contracts.
Import ExtractedGov.RalGlue.

(* what the composition relies on in the Go glue, read from the source on every run: handleInjection / broadcastSignature write no
   field of the VAA they were handed (a per-node timestamp / set index would make the operators sign different digests); the send
   on injectC precedes the store of the digest *)
Theorem C15_injection_hands_the_vaa_over_unchanged : go_injection_writes = [] /\ go_inj_send_before_store = true.
Proof. exact injection_shape. Qed.

(* (e) the loop of InjectGovernanceVAA as adminserver.go writes it — `digests` allocated with its final length, message i's digest
   stored in slot [go_inj_slot i n] (generated from the index expression) — is the append loop of model/Governance.v ... *)
Theorem C15_rpc_loop_is_the_model_loop : forall keccak c q, inject_rpc keccak c q = inject keccak c (q_ts q) (q_gsi q) (q_msgs q).
Proof. exact inject_rpc_is_inject. Qed.

(* ... so the response carries one digest per message IN THE ORDER OF THE MESSAGES: digest k is the digest of the VAA message k
   converts to, which is the k-th VAA put on injectC *)
Theorem C15_rpc_digest_order : forall keccak c q sent ds, inject_rpc keccak c q = (sent, IOk ds) ->
  length ds = length (q_msgs q) /\ length sent = length (q_msgs q) /\
  forall k m, nth_error (q_msgs q) k = Some m ->
    exists v, gm_tchain m <= 65535 /\ conv c (env_of (q_ts q) (q_gsi q) m) (gm_payload m) = GOk v /\
              nth_error sent k = Some v /\ nth_error ds k = Some (digest keccak v).
Proof. exact rpc_digest_order. Qed.

(* (a) every operator's call hands the SAME VAAs, in the same order, to its node and gets the same response ... *)
Theorem C15_same_request_same_vaas_at_every_node : forall keccak c q i j,
  snd (admin_rpc keccak c i q) = snd (admin_rpc keccak c j q) /\
  exists sent, fst (admin_rpc keccak c i q) = map (fun v => NEnv i (EInject v)) sent /\
               fst (admin_rpc keccak c j q) = map (fun v => NEnv j (EInject v)) sent /\ sent = fst (inject_rpc keccak c q).
Proof. exact admin_rpc_same_everywhere. Qed.

(* ... and each node signs exactly [digest keccak v] — a function of configuration and request — with its own key, and gossips it *)
Theorem C15_operator_signs_the_request_digest : forall recover keccak gov_chain gov_addr owns signs n i st v,
  nth_error (nodes n) i = Some st ->
  In (SendObs {| o_addr := owns i; o_hash := digest keccak v; o_sig := signs i (digest keccak v); o_tx := [] |})
     (snd (nstep recover keccak gov_chain gov_addr owns signs n (NEnv i (EInject v)))) /\
  In (GObs {| o_addr := owns i; o_hash := digest keccak v; o_sig := signs i (digest keccak v); o_tx := [] |})
     (pool (fst (nstep recover keccak gov_chain gov_addr owns signs n (NEnv i (EInject v))))).
Proof. exact operator_signs_request_digest. Qed.

(* one node: C02's liveness for INJECTIONS plus the form of what is published: after ANY pre-history, over ANY window without set
   change / cleanup tick in which the node is handed v, observations of a quorum of G arrive (any order, duplicates, interleaved
   with anything) and the own signature loops back, the node broadcasts [marshal (set_sigs v sg)] — v itself, not another VAA —
   with a valid quorum sg of G.  [no_alias]: no OTHER own VAA of the node is filed under v's digest (entries are keyed by digest;
   this is the one place a Keccak collision would matter, stated as a hypothesis about the history, not about Keccak) *)
Theorem C15_injected_vaa_is_published_with_quorum :
  forall recover keccak sign own gov_chain gov_addr G v,
  (forall b, length (keccak b) = 32%nat) -> length own = 20%nat ->
  (forall d, length d = 32%nat -> Processor.rec recover d (sign d) = Some own) -> In own (keys G) ->
  forall ops0 ops (signers : list addr),
  Forall op_wf ops0 -> Forall op_wf ops -> forallb calm ops = true -> all_ops (no_alias keccak v) ops ->
  let stp := fun st o => fst (step recover keccak sign own gov_chain gov_addr st o) in
  let st0 := fst (run recover keccak sign own gov_chain gov_addr init ops0) in
  let st := fst (run recover keccak sign own gov_chain gov_addr st0 ops) in
  let h := dg keccak v in
  cur st0 = Some G -> alookup h (agg st0) = None -> gs_wf G ->
  happens stp (ev_inj v) st0 ops ->
  NoDup signers -> incl signers (keys G) -> go_quorum (Z.of_nat (length (keys G))) <= Z.of_nat (length signers) ->
  (forall a, In a signers -> a <> own -> happens stp (ev_obs recover h a) st0 ops) ->
  (forall o, In o (loopq st) -> o_hash o <> h) ->
  happens stp (fun s o => exists sg, In (SendVAA (marshal (set_sigs v sg))) (snd (step recover keccak sign own gov_chain gov_addr s o)) /\
                                     qvalid recover keccak (set_sigs v sg) (keys G)) st0 ops.
Proof. exact inject_window_publishes. Qed.

(* the network: N nodes, any pre-history, any fair window *)
Theorem C15_network_publishes_the_request_vaa :
  forall recover keccak gov_chain gov_addr owns signs, (forall b, length (keccak b) = 32%nat) ->
  forall N xs0 xs i G v (S : list nat),
  (i < N)%nat -> Forall nop_wf xs0 -> Forall nop_wf xs ->
  let stp := fun n x => fst (nstep recover keccak gov_chain gov_addr owns signs n x) in
  let n0 := fst (nrun recover keccak gov_chain gov_addr owns signs (ninit N) xs0) in
  let n1 := fst (nrun recover keccak gov_chain gov_addr owns signs n0 xs) in
  let h := dg keccak v in
  (forall st0, nth_error (nodes n0) i = Some st0 -> cur st0 = Some G /\ alookup h (agg st0) = None) -> gs_wf G ->
  (forall x, In x xs -> target x = i -> calm_nop x = true) ->
  (forall x, In x xs -> target x = i -> no_alias_nop keccak v x) ->
  NoDup (map owns S) -> (forall j, In j S -> honest_member recover owns signs G j) ->
  go_quorum (Z.of_nat (length (keys G))) <= Z.of_nat (length S) -> In i S ->
  happens stp (ev_injects i v) n0 xs ->
  (forall j, In j S -> j <> i -> happens stp (ev_delivered owns signs i j h) n0 xs) ->
  (forall st, nth_error (nodes n1) i = Some st -> forall o, In o (loopq st) -> o_hash o <> h) ->
  happens stp (ev_gov_published recover keccak gov_chain gov_addr owns signs i v G) n0 xs.
Proof. exact net_gov_publishes. Qed.

(* the contract side, envelope: governance.ral parseAndVerifyVAA(data, true) on the bytes a guardian publishes, by a contract that
   holds the VAA's set as its current set — version, governance set-index test, guardian-set size test, QUORUM test (c), the
   SIGNATURE LOOP (strictly increasing indices, key slot of the stored set = ethEcRecover! of r ++ s ++ (v + 27)) all pass, and it
   returns the fields the Go serializer wrote (C04's slices), in the order its `return` lists them *)
Theorem C15_contract_envelope_parser_accepts_published : forall recover keccak ct w K,
  qvalid recover keccak w K -> wf w -> Forall (fun k => length k = 20%nat) K -> (0 < length K <= 255)%nat ->
  rc_gs_index ct = gsidx w -> rc_guardians ct = guardians_of K ->
  ral_receive recover keccak ct (marshal w) =
  Some (ral_vaa_returns (RZ (echain w)) (RZ (tchain w)) (RB (eaddr w)) (RZ (seq w)) (RB (payload w))).
Proof. exact ral_receive_published. Qed.

(* (b) + (c) the contract side, whole entry point, for EVERY request kind k: the generic check (emitter = the configured governance
   emitter, sequence >= the expected one, module, action) passes on the wire bytes exactly as C15's [accepted_by] says for the
   envelope values, the entry point's generated payload parser runs on exactly the request's target chain and payload (the
   positional hand-over between the Ralph functions is generated), receivedSequence becomes the request's sequence + 1 *)
Theorem C15_contract_executes_request : forall recover keccak k c e v sg G local tseq r,
  envelope_ok c e v -> req_wf c e -> payload v <> [] ->
  qvalid recover keccak (set_sigs v sg) (keys G) -> Forall (fun a => length a = 20%nat) (keys G) -> (0 < length (keys G) <= 255)%nat ->
  e_gsi e = gidx G -> accepted_by (module_of k) (action_of k) c e v -> tseq <= e_seq e ->
  payload_parser k (contract_for c local tseq G) (RZ (e_tchain e)) (RB (payload v)) = Some r ->
  ral_execute recover keccak k (contract_for c local tseq G) (marshal (set_sigs v sg)) = Some (r, Some (RZ (e_seq e + 1))).
Proof. exact contract_executes_request. Qed.

(* the whole chain in one statement *)
Theorem C15_governance_end_to_end :
  forall recover keccak gov_chain gov_addr owns signs, (forall b, length (keccak b) = 32%nat) ->
  forall N xs0 xs i G (S : list nat) k c e v local tseq r,
  (i < N)%nat -> Forall nop_wf xs0 -> Forall nop_wf xs ->
  let stp := fun n x => fst (nstep recover keccak gov_chain gov_addr owns signs n x) in
  let n0 := fst (nrun recover keccak gov_chain gov_addr owns signs (ninit N) xs0) in
  let n1 := fst (nrun recover keccak gov_chain gov_addr owns signs n0 xs) in
  let h := dg keccak v in
  envelope_ok c e v -> req_wf c e -> payload v <> [] -> accepted_by (module_of k) (action_of k) c e v ->
  (forall st0, nth_error (nodes n0) i = Some st0 -> cur st0 = Some G /\ alookup h (agg st0) = None) -> gs_wf G ->
  (forall x, In x xs -> target x = i -> calm_nop x = true) ->
  (forall x, In x xs -> target x = i -> no_alias_nop keccak v x) ->
  NoDup (map owns S) -> (forall j, In j S -> honest_member recover owns signs G j) ->
  go_quorum (Z.of_nat (length (keys G))) <= Z.of_nat (length S) -> In i S ->
  happens stp (ev_injects i v) n0 xs ->
  (forall j, In j S -> j <> i -> happens stp (ev_delivered owns signs i j h) n0 xs) ->
  (forall st, nth_error (nodes n1) i = Some st -> forall o, In o (loopq st) -> o_hash o <> h) ->
  Forall (fun a => length a = 20%nat) (keys G) -> (length (keys G) <= 255)%nat -> e_gsi e = gidx G -> tseq <= e_seq e ->
  payload_parser k (contract_for c local tseq G) (RZ (e_tchain e)) (RB (payload v)) = Some r ->
  happens stp (ev_executable recover keccak gov_chain gov_addr owns signs i k (contract_for c local tseq G) r (e_seq e + 1)) n0 xs.
Proof. exact gov_end_to_end. Qed.

(* composed with the per-kind theorems above, e.g. a message-fee request: the contract sets messageFee to the number the hex string
   denotes; a minimal-consistency-level request on the token bridge: the level itself *)
Theorem C15_e2e_message_fee : forall recover keccak c e fee v sg G tseq,
  conv_message_fee c e fee = GOk v -> req_wf c e ->
  qvalid recover keccak (set_sigs v sg) (keys G) -> Forall (fun a => length a = 20%nat) (keys G) -> (0 < length (keys G) <= 255)%nat ->
  e_gsi e = gidx G -> tseq <= e_seq e ->
  exists b, hex_decode fee = Some b /\ length b = 32%nat /\
  ral_execute recover keccak KMessageFee (contract_for c (e_tchain e) tseq G) (marshal (set_sigs v sg)) =
  Some (([], [("fee"%string, RZ (unbe b)); ("messageFee"%string, RZ (unbe b))]), Some (RZ (e_seq e + 1))).
Proof.
  intros recover keccak c e fee v sg G tseq Hc Hreq Hq FK LK Hg Ht.
  destruct (message_fee_spec c e fee v Hc) as (He & b & Hb & Lb & Hp & Hacc & Hpar).
  exists b. split; [exact Hb|]. split; [exact Lb|].
  apply (contract_executes_request recover keccak KMessageFee c e v sg G (e_tchain e) tseq); try assumption.
  - rewrite Hp. discriminate.
  - cbn [payload_parser contract_for rc_chain]. destruct He as (_ & _ & _ & _ & _ & _ & _ & E8 & _). rewrite <- E8 at 1. exact Hpar.
Qed.

Theorem C15_e2e_min_level : forall recover keccak c e level v sg G tseq,
  conv_min_level c e level = GOk v -> 0 <= level -> req_wf c e ->
  qvalid recover keccak (set_sigs v sg) (keys G) -> Forall (fun a => length a = 20%nat) (keys G) -> (0 < length (keys G) <= 255)%nat ->
  e_gsi e = gidx G -> tseq <= e_seq e ->
  ral_execute recover keccak KMinLevel (contract_for c (e_tchain e) tseq G) (marshal (set_sigs v sg)) =
  Some (([], [("consistencyLevel"%string, RZ level); ("minimalConsistencyLevel"%string, RZ level)]), Some (RZ (e_seq e + 1))).
Proof.
  intros recover keccak c e level v sg G tseq Hc Hl Hreq Hq FK LK Hg Ht.
  destruct (min_level_spec c e level v Hc Hl) as (He & _ & Hp & Hacc & Hpar).
  apply (contract_executes_request recover keccak KMinLevel c e v sg G (e_tchain e) tseq); try assumption.
  - rewrite Hp. discriminate.
  - cbn [payload_parser contract_for rc_chain]. destruct He as (_ & _ & _ & _ & _ & _ & _ & E8 & _). rewrite <- E8 at 1. exact Hpar.
Qed.

(* guardian-set upgrade: the contract (chain id = the target chain, or target chain 0) stores the requested keys under index + 1 *)
Theorem C15_e2e_guardian_set : forall recover keccak c e guardians v sg G tseq chainId,
  conv_guardian_set c e guardians = GOk v -> e_gsi e + 1 < 4294967296 -> e_tchain e = chainId \/ e_tchain e = 0 -> req_wf c e ->
  qvalid recover keccak (set_sigs v sg) (keys G) -> Forall (fun a => length a = 20%nat) (keys G) -> (0 < length (keys G) <= 255)%nat ->
  e_gsi e = gidx G -> tseq <= e_seq e ->
  let newkeys := map hex_to_address guardians in
  ral_execute recover keccak KGuardianSet (contract_for c chainId tseq G) (marshal (set_sigs v sg)) =
  Some (([], [("newGuardianSetIndex"%string, RZ (e_gsi e + 1)); ("newGuardianSetSize"%string, RZ (Z.of_nat (length newkeys)));
              ("payloadSize"%string, RZ (38 + Z.of_nat (length newkeys) * 20)); ("guardianSetIndexes[1]"%string, RZ (e_gsi e + 1));
              ("guardianSets[1]"%string, RB (guardians_of newkeys))]), Some (RZ (e_seq e + 1))).
Proof.
  intros recover keccak c e guardians v sg G tseq chainId Hc Hi Htc Hreq Hq FK LK Hg Ht. cbv zeta.
  assert (H0 : 0 <= e_gsi e) by (destruct Hreq as (_ & [R _] & _); exact R).
  destruct (guardian_set_spec c e guardians v chainId Hc H0 Hi Htc) as (He & _ & _ & _ & _ & Hp & Hacc & Hpar).
  apply (contract_executes_request recover keccak KGuardianSet c e v sg G chainId tseq); try assumption.
  - rewrite Hp. discriminate.
  - cbn [payload_parser contract_for rc_chain rc_gs_index]. destruct He as (_ & _ & _ & _ & _ & _ & _ & E8 & _). rewrite <- E8 at 1. rewrite <- Hg. exact Hpar.
Qed.

(* (d) two operators injecting DIFFERENT requests never contribute to one VAA.  Entries are keyed by digest: a VAA / an observation
   of another digest leaves the entry of h untouched (no hash assumption) ... *)
Theorem C15_other_digest_other_entry : forall recover keccak gov_chain gov_addr sign own st o h,
  match o with Inject v' => dg keccak v' <> h | Obs ob => o_hash ob <> h | _ => False end ->
  (exists O L, Inv1 recover keccak O L st) ->
  alookup h (agg (fst (step recover keccak sign own gov_chain gov_addr st o))) = alookup h (agg st).
Proof. exact other_digest_other_entry. Qed.

(* ... requests that differ in any body field have different bodies (C04); where Keccak does not collide on THESE two bodies — the
   explicit hypothesis — their digests differ and the second request's VAA does not touch the first's entry ... *)
Theorem C15_different_requests_separate_entries : forall recover keccak gov_chain gov_addr sign own v1 v2 st,
  wf v1 -> wf v2 ->
  (ts v1, nonce v1, echain v1, tchain v1, eaddr v1, seq v1, cl v1, payload v1) <>
  (ts v2, nonce v2, echain v2, tchain v2, eaddr v2, seq v2, cl v2, payload v2) ->
  (keccak (keccak (body v1)) = keccak (keccak (body v2)) -> body v1 = body v2) ->
  (exists O L, Inv1 recover keccak O L st) ->
  dg keccak v1 <> dg keccak v2 /\
  alookup (dg keccak v1) (agg (fst (step recover keccak sign own gov_chain gov_addr st (Inject v2)))) = alookup (dg keccak v1) (agg st).
Proof. exact different_requests_separate_entries. Qed.

(* ... and whatever is filed under a digest, at any node after any network history, verifies over THAT digest; a published VAA
   consists of signatures over its own digest by the members its indices name.  An operator's signature over another request's
   digest is therefore part of this VAA only if it also verifies over this digest — a property of the recovery oracle *)
Theorem C15_recorded_signatures_verify_over_their_digest : forall recover keccak gov_chain gov_addr owns signs N xs i st h e a s,
  Forall nop_wf xs -> nth_error (nodes (fst (nrun recover keccak gov_chain gov_addr owns signs (ninit N) xs))) i = Some st ->
  In (h, e) (agg st) -> In (a, s) (esigs e) -> Processor.rec recover h s = Some a.
Proof. exact recorded_signatures_verify_over_their_digest. Qed.

Theorem C15_published_signatures_are_over_its_own_digest : forall recover keccak w K s, qvalid recover keccak w K -> In s (sigs w) ->
  exists a, Processor.rec recover (dg keccak w) (s_data s) = Some a /\ nth_error K (Z.to_nat (s_idx s)) = Some a.
Proof. exact published_signatures_over_own_digest. Qed.

(* ------------------------------------------------------------------ the hypotheses are satisfiable: three operators (toy oracles),
   set {0, 1, 2} (quorum 3), every operator submits the same minimal-consistency-level request; node 0 receives the other two
   observations; it publishes, and the token-bridge entry point executes the published bytes *)
Definition gx_owns (i : nat) : addr := repeat (byte_of_Z (Z.of_nat i + 1)) 20.
Definition gx_signs (i : nat) (d : bytes) : bytes := gx_owns i ++ repeat x00 45.
Definition gx_recover (h s : bytes) : option bytes := Some (firstn 20 s).
Definition gx_keccak (b : bytes) : bytes := firstn 32 (b ++ repeat x00 32).
Definition gx_G : gset := {| keys := [gx_owns 0; gx_owns 1; gx_owns 2]; gidx := 3 |}.
Definition gx_q : gov_req := {| q_ts := 1700000000; q_gsi := 3; q_msgs := [{| gm_seq := 42; gm_nonce := 7; gm_tchain := 255; gm_payload := PMinLevel 3 |}] |}.
Definition gx_v : vaa := create_governance_vaa ex_cfg ex_env (go_TokenBridgeModule ++ [xf1; x03]).
Definition gx_pre : list nop := [NEnv 0 (ESetGS gx_G); NEnv 1 (ESetGS gx_G); NEnv 2 (ESetGS gx_G)].
Definition gx_win : list nop := fst (admin_rpc gx_keccak ex_cfg 1 gx_q) ++ fst (admin_rpc gx_keccak ex_cfg 2 gx_q) ++ fst (admin_rpc gx_keccak ex_cfg 0 gx_q)
                                ++ [NAdv 0 (GVaa [x00]); NDeliver 0 1; NLoop 0 0; NDeliver 0 0; NDeliver 0 0].

Lemma gx_win_eq : gx_win = [NEnv 1 (EInject gx_v); NEnv 2 (EInject gx_v); NEnv 0 (EInject gx_v); NAdv 0 (GVaa [x00]); NDeliver 0 1; NLoop 0 0; NDeliver 0 0; NDeliver 0 0].
Proof. vm_compute. reflexivity. Qed.

Example C15_end_to_end_premises_satisfiable :
  let stp := fun n x => fst (nstep gx_recover gx_keccak 1 (repeat x00 32) gx_owns gx_signs n x) in
  let n0 := fst (nrun gx_recover gx_keccak 1 (repeat x00 32) gx_owns gx_signs (ninit 3) gx_pre) in
  let n1 := fst (nrun gx_recover gx_keccak 1 (repeat x00 32) gx_owns gx_signs n0 gx_win) in
  let h := dg gx_keccak gx_v in
  conv ex_cfg ex_env (PMinLevel 3) = GOk gx_v /\ gx_win = [NEnv 1 (EInject gx_v); NEnv 2 (EInject gx_v); NEnv 0 (EInject gx_v); NAdv 0 (GVaa [x00]); NDeliver 0 1; NLoop 0 0; NDeliver 0 0; NDeliver 0 0] /\
  (forall b, length (gx_keccak b) = 32%nat) /\ Forall nop_wf gx_pre /\ Forall nop_wf gx_win /\
  envelope_ok ex_cfg ex_env gx_v /\ req_wf ex_cfg ex_env /\ payload gx_v <> [] /\
  (forall st0, nth_error (nodes n0) 0 = Some st0 -> cur st0 = Some gx_G /\ alookup h (agg st0) = None) /\ gs_wf gx_G /\
  (forall x, In x gx_win -> target x = 0%nat -> calm_nop x = true /\ no_alias_nop gx_keccak gx_v x) /\
  NoDup (map gx_owns [0; 1; 2]%nat) /\ (forall j, In j [0; 1; 2]%nat -> honest_member gx_recover gx_owns gx_signs gx_G j) /\
  go_quorum (Z.of_nat (length (keys gx_G))) <= Z.of_nat (length [0; 1; 2]%nat) /\
  happens stp (ev_injects 0 gx_v) n0 gx_win /\
  happens stp (ev_delivered gx_owns gx_signs 0 1 h) n0 gx_win /\ happens stp (ev_delivered gx_owns gx_signs 0 2 h) n0 gx_win /\
  (forall st, nth_error (nodes n1) 0 = Some st -> forall o, In o (loopq st) -> o_hash o <> h) /\
  Forall (fun a => length a = 20%nat) (keys gx_G) /\ e_gsi ex_env = gidx gx_G /\
  (* ... and the conclusion, computed: some step of node 0 broadcasts bytes the token-bridge entry point executes *)
  exists b, In (SendVAA b) (concat (snd (nrun gx_recover gx_keccak 1 (repeat x00 32) gx_owns gx_signs n0 gx_win))) /\
    ral_execute gx_recover gx_keccak KMinLevel (contract_for ex_cfg 255 42 gx_G) b =
    Some (([], [("consistencyLevel"%string, RZ 3); ("minimalConsistencyLevel"%string, RZ 3)]), Some (RZ 43)).
Proof.
  assert (Hwf : gs_wf gx_G).
  { split; [|cbn; lia]. repeat (constructor; [cbn; intuition discriminate|]). constructor. }
  cbv zeta.
  split; [vm_compute; reflexivity|].
  split; [exact gx_win_eq|].
  split; [intros b; unfold gx_keccak; rewrite firstn_length, app_length, repeat_length; lia|].
  split; [repeat (constructor; [exact Hwf|]); constructor|].
  split; [rewrite gx_win_eq; repeat (constructor; [exact I|]); constructor|].
  split; [apply create_envelope|].
  split; [unfold req_wf, rng; cbn; repeat split; lia|].
  split; [vm_compute; discriminate|].
  split; [intros st0 H; vm_compute in H; inversion H; subst st0; split; vm_compute; reflexivity|].
  split; [exact Hwf|].
  split; [intros x Hx Ht; rewrite gx_win_eq in Hx; repeat (destruct Hx as [<-|Hx]; [split; [reflexivity|cbn [no_alias_nop]; auto]|]); destruct Hx|].
  split; [repeat (constructor; [cbn; intuition discriminate|]); constructor|].
  split; [intros j [<-|[<-|[<-|[]]]]; (split; [cbn; tauto|split; [reflexivity|]]); intros d Hd; unfold Processor.rec, recover_checked; rewrite Hd; reflexivity|].
  split; [vm_compute; discriminate|].
  split; [rewrite gx_win_eq; cbn [happens]; right; right; left; reflexivity|].
  split; [rewrite gx_win_eq; cbn [happens]; right; right; right; right; right; right; left; exists 0%nat, []; split; [reflexivity|vm_compute; reflexivity]|].
  split; [rewrite gx_win_eq; cbn [happens]; right; right; right; right; left; exists 1%nat, []; split; [reflexivity|vm_compute; reflexivity]|].
  split; [intros st H; vm_compute in H; inversion H; subst st; intros o []|].
  split; [repeat (constructor; [reflexivity|]); constructor|].
  split; [reflexivity|].
  eexists. split; [vm_compute; repeat (first [left; reflexivity|right])|vm_compute; reflexivity].
Qed.

(* the RPC as the source indexes it, on a two-message request: the digests come back in the order of the messages *)
Example C15_rpc_digest_order_ex : forall keccak, exists v1 v2,
  inject_rpc keccak ex_cfg {| q_ts := 1700000000; q_gsi := 3;
                              q_msgs := [{| gm_seq := 42; gm_nonce := 7; gm_tchain := 255; gm_payload := PMinLevel 3 |};
                                         {| gm_seq := 44; gm_nonce := 9; gm_tchain := 0; gm_payload := PMinLevel 4 |}] |} =
  ([v1; v2], IOk [digest keccak v1; digest keccak v2]) /\ seq v1 = 42 /\ seq v2 = 44.
Proof. intros keccak. eexists. eexists. split; [reflexivity|split; reflexivity]. Qed.

(* two requests that differ in the sequence only: different bodies *)
Example C15_different_requests_ex :
  let v1 := create_governance_vaa ex_cfg ex_env (go_TokenBridgeModule ++ [xf1; x03]) in
  let v2 := create_governance_vaa ex_cfg {| e_ts := 1700000000; e_gsi := 3; e_nonce := 7; e_seq := 43; e_tchain := 255 |} (go_TokenBridgeModule ++ [xf1; x03]) in
  wfb v1 = true /\ wfb v2 = true /\ body v1 <> body v2 /\ dg gx_keccak v1 = dg gx_keccak v2.
Proof. cbv zeta. repeat split; try (vm_compute; reflexivity). vm_compute. discriminate. Qed.

Print Assumptions C15_injection_hands_the_vaa_over_unchanged.
Print Assumptions C15_rpc_loop_is_the_model_loop.
Print Assumptions C15_rpc_digest_order.
Print Assumptions C15_same_request_same_vaas_at_every_node.
Print Assumptions C15_operator_signs_the_request_digest.
Print Assumptions C15_injected_vaa_is_published_with_quorum.
Print Assumptions C15_network_publishes_the_request_vaa.
Print Assumptions C15_contract_envelope_parser_accepts_published.
Print Assumptions C15_contract_executes_request.
Print Assumptions C15_governance_end_to_end.
Print Assumptions C15_e2e_message_fee.
Print Assumptions C15_e2e_min_level.
Print Assumptions C15_e2e_guardian_set.
Print Assumptions C15_other_digest_other_entry.
Print Assumptions C15_different_requests_separate_entries.
Print Assumptions C15_recorded_signatures_verify_over_their_digest.
Print Assumptions C15_published_signatures_are_over_its_own_digest.

(* ================================================================================================================================
   Extension X10 - the end-to-end statement for ANY quorum subset of a LARGER guardian set (proofs/ClosureProofs4.v).  In
   C15_governance_end_to_end the operators S are any >= quorum honest members of G; the corollary spells the situation out: the set
   in force consists of the operators' keys and any list [rest] of further members, in any order; NOTHING is assumed about [rest] -
   no node, no signer, no delivery -: they may stay silent, and whatever the adversary sends in their name (or anyone's) is an
   admissible step of the pre-history and of the window (C15_e2e_adversarial_steps_are_admissible).  The operators suffice as soon
   as twice the number of the others is below their own number (Go's quorum formula, C07). *)
From Coq Require Import Sorting.Permutation.
From WH Require Import proofs.ClosureProofs4.

Theorem C15_e2e_adversarial_steps_are_admissible : forall keccak v x,
  (match x with NAdv _ _ | NDeliver _ _ | NLoop _ _ => True | NEnv _ _ => False end) ->
  nop_wf x /\ calm_nop x = true /\ no_alias_nop keccak v x.
Proof. exact adversarial_step_admissible. Qed.

Theorem C15_e2e_operators_are_a_quorum_of_the_larger_set : forall s r : nat, (2 * r < s)%nat -> go_quorum (Z.of_nat (s + r)) <= Z.of_nat s.
Proof. exact quorum_of_larger_set. Qed.

Theorem C15_governance_end_to_end_any_quorum_subset :
  forall recover keccak gov_chain gov_addr owns signs, (forall b, length (keccak b) = 32%nat) ->
  forall N xs0 xs i G (S : list nat) (rest : list addr) k c e v local tseq r,
  (i < N)%nat -> Forall nop_wf xs0 -> Forall nop_wf xs ->
  let stp := fun n x => fst (nstep recover keccak gov_chain gov_addr owns signs n x) in
  let n0 := fst (nrun recover keccak gov_chain gov_addr owns signs (ninit N) xs0) in
  let n1 := fst (nrun recover keccak gov_chain gov_addr owns signs n0 xs) in
  let h := dg keccak v in
  envelope_ok c e v -> req_wf c e -> payload v <> [] -> accepted_by (module_of k) (action_of k) c e v ->
  (forall st0, nth_error (nodes n0) i = Some st0 -> cur st0 = Some G /\ alookup h (agg st0) = None) -> gs_wf G ->
  (forall x, In x xs -> target x = i -> calm_nop x = true) ->
  (forall x, In x xs -> target x = i -> no_alias_nop keccak v x) ->
  Permutation (keys G) (map owns S ++ rest) -> (2 * length rest < length S)%nat ->
  NoDup (map owns S) -> (forall j, In j S -> honest_member recover owns signs G j) -> In i S ->
  happens stp (ev_injects i v) n0 xs ->
  (forall j, In j S -> j <> i -> happens stp (ev_delivered owns signs i j h) n0 xs) ->
  (forall st, nth_error (nodes n1) i = Some st -> forall o, In o (loopq st) -> o_hash o <> h) ->
  Forall (fun a => length a = 20%nat) (keys G) -> (length (keys G) <= 255)%nat -> e_gsi e = gidx G -> tseq <= e_seq e ->
  payload_parser k (contract_for c local tseq G) (RZ (e_tchain e)) (RB (payload v)) = Some r ->
  happens stp (ev_executable recover keccak gov_chain gov_addr owns signs i k (contract_for c local tseq G) r (e_seq e + 1)) n0 xs.
Proof. exact gov_e2e_quorum_subset. Qed.

(* the hypotheses are satisfiable: a set of FOUR keys in which member 3 has no node (silent); three operators (quorum of 4 = 3) submit
   the request; the adversary sends node 0 an observation of the digest in the name of member 3 with a signature that does not
   verify, and a garbage VAA; node 0 receives the other two operators' observations; it publishes a VAA with 3 of 4 signatures, and
   the token-bridge entry point of a contract holding the four-key set executes the published bytes *)
Definition gy_G : gset := {| keys := [gx_owns 0; gx_owns 1; gx_owns 3; gx_owns 2]; gidx := 3 |}.
Definition gy_pre : list nop := [NEnv 0 (ESetGS gy_G); NEnv 1 (ESetGS gy_G); NEnv 2 (ESetGS gy_G)].
Definition gy_junk : obs := {| o_addr := gx_owns 3; o_hash := dg gx_keccak gx_v; o_sig := repeat xff 65; o_tx := [] |}.
Definition gy_win : list nop :=
  [NEnv 1 (EInject gx_v); NEnv 2 (EInject gx_v); NEnv 0 (EInject gx_v); NAdv 0 (GObs gy_junk); NAdv 0 (GVaa [x00]); NDeliver 0 1; NLoop 0 0;
   NAdv 0 (GObs gy_junk); NDeliver 0 0; NDeliver 0 0].

Example C15_end_to_end_quorum_subset_premises_satisfiable :
  let stp := fun n x => fst (nstep gx_recover gx_keccak 1 (repeat x00 32) gx_owns gx_signs n x) in
  let n0 := fst (nrun gx_recover gx_keccak 1 (repeat x00 32) gx_owns gx_signs (ninit 3) gy_pre) in
  let n1 := fst (nrun gx_recover gx_keccak 1 (repeat x00 32) gx_owns gx_signs n0 gy_win) in
  let h := dg gx_keccak gx_v in
  Forall nop_wf gy_pre /\ Forall nop_wf gy_win /\
  (forall st0, nth_error (nodes n0) 0 = Some st0 -> cur st0 = Some gy_G /\ alookup h (agg st0) = None) /\ gs_wf gy_G /\
  (forall x, In x gy_win -> target x = 0%nat -> calm_nop x = true /\ no_alias_nop gx_keccak gx_v x) /\
  Permutation (keys gy_G) (map gx_owns [0; 1; 2]%nat ++ [gx_owns 3]) /\ (2 * length [gx_owns 3] < length [0; 1; 2]%nat)%nat /\
  NoDup (map gx_owns [0; 1; 2]%nat) /\ (forall j, In j [0; 1; 2]%nat -> honest_member gx_recover gx_owns gx_signs gy_G j) /\
  happens stp (ev_injects 0 gx_v) n0 gy_win /\
  happens stp (ev_delivered gx_owns gx_signs 0 1 h) n0 gy_win /\ happens stp (ev_delivered gx_owns gx_signs 0 2 h) n0 gy_win /\
  (forall st, nth_error (nodes n1) 0 = Some st -> forall o, In o (loopq st) -> o_hash o <> h) /\
  Forall (fun a => length a = 20%nat) (keys gy_G) /\ e_gsi ex_env = gidx gy_G /\
  (* ... and the conclusion, computed: node 0 broadcasts bytes carrying 3 signatures (indices 0, 1, 3 of the four-key set) that the
     token-bridge entry point executes *)
  exists b, In (SendVAA b) (concat (snd (nrun gx_recover gx_keccak 1 (repeat x00 32) gx_owns gx_signs n0 gy_win))) /\
    option_map (fun w => map s_idx (sigs w)) (match unmarshal b with Ok w => Some w | Err _ => None end) = Some [0; 1; 3] /\
    ral_execute gx_recover gx_keccak KMinLevel (contract_for ex_cfg 255 42 gy_G) b =
    Some (([], [("consistencyLevel"%string, RZ 3); ("minimalConsistencyLevel"%string, RZ 3)]), Some (RZ 43)).
Proof.
  assert (Hwf : gs_wf gy_G).
  { split; [|cbn; lia]. repeat (constructor; [cbn; intuition discriminate|]). constructor. }
  cbv zeta.
  split; [repeat (constructor; [exact Hwf|]); constructor|].
  split; [repeat (constructor; [exact I|]); constructor|].
  split; [intros st0 H; vm_compute in H; inversion H; subst st0; split; vm_compute; reflexivity|].
  split; [exact Hwf|].
  split; [intros x Hx Ht; repeat (destruct Hx as [<-|Hx]; [split; [reflexivity|cbn [no_alias_nop]; auto]|]); destruct Hx|].
  split; [cbn [keys gy_G map app]; apply perm_skip; apply perm_skip; apply perm_swap|].
  split; [cbn; lia|].
  split; [repeat (constructor; [cbn; intuition discriminate|]); constructor|].
  split; [intros j [<-|[<-|[<-|[]]]]; (split; [cbn; tauto|split; [reflexivity|]]); intros d Hd; unfold Processor.rec, recover_checked; rewrite Hd; reflexivity|].
  split; [cbn [happens gy_win]; right; right; left; reflexivity|].
  split; [cbn [happens gy_win]; do 8 right; left; exists 0%nat, []; split; [reflexivity|vm_compute; reflexivity]|].
  split; [cbn [happens gy_win]; do 5 right; left; exists 1%nat, []; split; [reflexivity|vm_compute; reflexivity]|].
  split; [intros st H; vm_compute in H; inversion H; subst st; intros o []|].
  split; [repeat (constructor; [reflexivity|]); constructor|].
  split; [reflexivity|].
  eexists. split; [vm_compute; repeat (first [left; reflexivity|right])|]. split; vm_compute; reflexivity.
Qed.

Print Assumptions C15_e2e_adversarial_steps_are_admissible.
Print Assumptions C15_e2e_operators_are_a_quorum_of_the_larger_set.
Print Assumptions C15_governance_end_to_end_any_quorum_subset.
(* ================================================================================================================================
   Extension X11 - the contract's VAA entry point as TRANSLATED IN FULL from governance.ral (gen/x_ralverify.py ->
   gen/ExtractedRalVerify.v: every statement of parseAndVerifyVAA incl. the signature loop, getGuardiansInfo; RalVerifyModel.ral_source).
   X6's ral_receive (hand composition of ral_parse, the glue definitions and ral_sig_loop) IS that function with
   isGovernanceVAA = true, for every byte string and every contract state holding ral_receive's set as current; so the pipeline's
   contract-side theorems are theorems about the translated source (proofs/RalVerifyGovProofs.v). *)
From WH Require model.RalVerifyModel proofs.RalVerifyGovProofs.

Theorem C15_ral_receive_is_the_translated_entry_point : forall recover keccak ct st data,
  RalVerifyModel.gs_cur_idx st = rc_gs_index ct -> RalVerifyModel.gs_cur st = rc_guardians ct ->
  ral_receive recover keccak ct data = RalVerifyModel.ral_source keccak (eth_ec_recover recover) st true data.
Proof. exact RalVerifyGovProofs.ral_receive_is_the_translated_source. Qed.

(* C15_contract_envelope_parser_accepts_published, through the translated entry point: what a quorum of guardians publishes for a
   governance request is accepted by governance.ral parseAndVerifyVAA(data, isGovernanceVAA) for either flag (token-bridge callers pass false) — whatever the previous
   set, its expiry and the block time are — and the values handed to the governance checks are the request's *)
Theorem C15_published_vaa_accepted_through_the_translated_entry_point : forall recover keccak ct w K pidx pset now pexp gov,
  qvalid recover keccak w K -> wf w -> Forall (fun k => length k = 20%nat) K -> (0 < length K <= 255)%nat ->
  rc_gs_index ct = gsidx w -> rc_guardians ct = guardians_of K ->
  RalVerifyModel.ral_source keccak (eth_ec_recover recover)
    {| RalVerifyModel.gs_cur_idx := rc_gs_index ct; RalVerifyModel.gs_cur := rc_guardians ct; RalVerifyModel.gs_prev_idx := pidx;
       RalVerifyModel.gs_prev := pset; RalVerifyModel.gs_now := now; RalVerifyModel.gs_prev_exp := pexp |} gov (marshal w) =
  Some [RZ (echain w); RZ (tchain w); RB (eaddr w); RZ (seq w); RB (payload w)].
Proof.
  intros recover keccak ct w K pidx pset now pexp gov Hq W FK LK Hgi Hg.
  apply (RalVerifyGovProofs.ral_source_accepts_published recover keccak ct _ gov w K Hq W FK LK Hgi Hg); reflexivity.
Qed.

(* non-vacuity: the example request of above (gx_v, operators 0..2 of gx_G signing with the toy oracles) goes through the translated
   source of a contract holding gx_G, and through ral_receive, with the same result; one signature short it does not *)
Example C15_translated_entry_point_ex :
  let d := dg gx_keccak gx_v in
  let sg (i : nat) := {| s_idx := Z.of_nat i; s_data := gx_signs i d |} in
  let st := {| RalVerifyModel.gs_cur_idx := 3; RalVerifyModel.gs_cur := guardians_of (keys gx_G); RalVerifyModel.gs_prev_idx := 2;
               RalVerifyModel.gs_prev := []; RalVerifyModel.gs_now := 0; RalVerifyModel.gs_prev_exp := 0 |} in
  RalVerifyModel.ral_source gx_keccak (eth_ec_recover gx_recover) st true (marshal (set_sigs gx_v [sg 0%nat; sg 1%nat; sg 2%nat]))
    = Some [RZ 1; RZ 255; RB (g_addr ex_cfg); RZ 42; RB (go_TokenBridgeModule ++ [xf1; x03])] /\
  ral_receive gx_recover gx_keccak (contract_for ex_cfg 255 42 gx_G) (marshal (set_sigs gx_v [sg 0%nat; sg 1%nat; sg 2%nat]))
    = Some [RZ 1; RZ 255; RB (g_addr ex_cfg); RZ 42; RB (go_TokenBridgeModule ++ [xf1; x03])] /\
  RalVerifyModel.ral_source gx_keccak (eth_ec_recover gx_recover) st true (marshal (set_sigs gx_v [sg 0%nat; sg 2%nat])) = None.
Proof. vm_compute. repeat apply conj; reflexivity. Qed.

Print Assumptions C15_ral_receive_is_the_translated_entry_point.
Print Assumptions C15_published_vaa_accepted_through_the_translated_entry_point.
