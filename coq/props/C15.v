(* C15 — stub while the violations of the unmodified tree are being replayed; replaced by the full statements. *)
