(* C04 — the signing digest is a deterministic, injective function of the message, laid out as the contracts parse it.
   sol_* / ral_* layouts are GENERATED from Messages.sol parseVM and governance.ral parseAndVerifyVAA on every run. *)
From Coq Require Import List ZArith Lia Bool Arith.
From Coq Require Import Strings.Byte.
From WH Require Import lib.Bytes lib.Layout gen.Extracted model.Vaa model.Contracts proofs.VaaProofs proofs.LayoutProofs.
Import ListNotations.
Open Scope Z_scope.

(* the body: big-endian fields at fixed offsets, timestamp in whole seconds (mod 2^32), 53 + |payload| bytes *)
Theorem C04_body_layout : forall v, length (eaddr v) = 32%nat ->
  length (body v) = (53 + length (payload v))%nat /\
  slice (body v) 0 4 = Some (be 4 (ts v)) /\ slice (body v) 4 8 = Some (be 4 (nonce v)) /\
  slice (body v) 8 10 = Some (be 2 (echain v)) /\ slice (body v) 10 12 = Some (be 2 (tchain v)) /\
  slice (body v) 12 44 = Some (eaddr v) /\ slice (body v) 44 52 = Some (be 8 (seq v)) /\
  slice (body v) 52 53 = Some (be 1 (cl v)) /\ slice (body v) 53 (length (body v)) = Some (payload v).
Proof.
  intros v Ha. split; [rewrite body_length, Ha; reflexivity|]. exact (body_field_offsets v Ha).
Qed.

(* the digest is the double Keccak-256 of that body, for whatever function keccak is *)
Theorem C04_digest_is_double_hash : forall keccak v, digest keccak v = keccak (keccak (body v)).
Proof. reflexivity. Qed.

(* it does not depend on version, guardian-set index, signatures or sub-second time ... *)
Theorem C04_independent_of_header : forall keccak v1 v2, same_body_fields v1 v2 ->
  body v1 = body v2 /\ digest keccak v1 = digest keccak v2.
Proof. intros keccak v1 v2 H. pose proof (body_indep v1 v2 H) as E. split; [exact E|unfold digest; rewrite E; reflexivity]. Qed.

(* ... nor on which guardian (under which set index) builds the VAA from the observed message *)
Theorem C04_independent_of_guardian : forall keccak g1 g2 m,
  digest keccak (vaa_of_message g1 m) = digest keccak (vaa_of_message g2 m).
Proof. reflexivity. Qed.

Theorem C04_subsecond_ignored : forall keccak g m ns,
  digest keccak (vaa_of_message g m) =
  digest keccak (vaa_of_message g {| m_tx := m_tx m; m_ts := m_ts m; m_tns := ns; m_nonce := m_nonce m; m_seq := m_seq m;
     m_cl := m_cl m; m_echain := m_echain m; m_tchain := m_tchain m; m_eaddr := m_eaddr m; m_payload := m_payload m |}).
Proof. reflexivity. Qed.

(* injective: equal signing bodies force equal body fields (in-range values: plain equality; in general: equal as written on the wire) *)
Theorem C04_injective : forall v1 v2, wf v1 -> wf v2 -> body v1 = body v2 ->
  ts v1 = ts v2 /\ nonce v1 = nonce v2 /\ echain v1 = echain v2 /\ tchain v1 = tchain v2 /\
  eaddr v1 = eaddr v2 /\ seq v1 = seq v2 /\ cl v1 = cl v2 /\ payload v1 = payload v2.
Proof. exact body_inj_wf. Qed.

Theorem C04_injective_mod : forall v1 v2, length (eaddr v1) = 32%nat -> length (eaddr v2) = 32%nat -> body v1 = body v2 ->
  ts v1 mod 2 ^ 32 = ts v2 mod 2 ^ 32 /\ nonce v1 mod 2 ^ 32 = nonce v2 mod 2 ^ 32 /\
  echain v1 mod 2 ^ 16 = echain v2 mod 2 ^ 16 /\ tchain v1 mod 2 ^ 16 = tchain v2 mod 2 ^ 16 /\
  eaddr v1 = eaddr v2 /\ seq v1 mod 2 ^ 64 = seq v2 mod 2 ^ 64 /\ cl v1 mod 2 ^ 8 = cl v2 mod 2 ^ 8 /\
  payload v1 = payload v2.
Proof. exact body_inj. Qed.

(* Messages.sol parseVM reads from Go's wire form exactly the fields Go wrote and hashes exactly Go's body, twice *)
Theorem C04_solidity_agrees : forall v,
  version v = vaa_version -> (length (sigs v) <= 255)%nat -> Forall wf_sig (sigs v) -> length (eaddr v) = 32%nat ->
  sol_parse (marshal v) =
    Some {| sv_header := go_header_fields v; sv_sigs := map go_sig_fields (sigs v); sv_body := go_body_fields v;
            sv_payload := payload v; sv_hashed := body v |}
  /\ sol_hash_double_keccak = true /\ sol_version_required = vaa_version.
Proof. intros v H1 H2 H3 H4. split; [apply sol_parse_marshal; assumption|split; reflexivity]. Qed.

(* governance.ral parseAndVerifyVAA slices from Go's wire form exactly Go's fields and hashes exactly Go's body *)
Theorem C04_ralph_agrees : forall v, wf v ->
  ral_parse (marshal v) =
    Some {| rv_gsidx := gsidx v; rv_numsigs := Z.of_nat (length (sigs v));
            rv_sig_records := map (fun s => (s_idx s, s_data s)) (sigs v); rv_hashed := body v;
            rv_echain := echain v; rv_tchain := tchain v; rv_eaddr := eaddr v; rv_seq := seq v; rv_payload := payload v |}.
Proof. exact ral_parse_marshal. Qed.

(* non-vacuity: a concrete well-formed VAA with two signatures goes through both parsers *)
Definition ex_vaa : vaa :=
  {| version := 1; gsidx := 3; sigs := [ {| s_idx := 0; s_data := repeat x11 65 |}; {| s_idx := 2; s_data := repeat x22 65 |} ];
     ts := 1700000000; tns := 0; nonce := 7; echain := 255; tchain := 2; eaddr := repeat xab 32; seq := 42; cl := 1;
     payload := [x01; x02; x03] |}.
Example C04_example : wfb ex_vaa = true /\
  option_map sv_hashed (sol_parse (marshal ex_vaa)) = Some (body ex_vaa) /\
  option_map rv_hashed (ral_parse (marshal ex_vaa)) = Some (body ex_vaa) /\
  option_map rv_payload (ral_parse (marshal ex_vaa)) = Some [x01; x02; x03].
Proof. vm_compute. repeat split; reflexivity. Qed.

Print Assumptions C04_body_layout.
Print Assumptions C04_digest_is_double_hash.
Print Assumptions C04_independent_of_header.
Print Assumptions C04_independent_of_guardian.
Print Assumptions C04_subsecond_ignored.
Print Assumptions C04_injective.
Print Assumptions C04_injective_mod.
Print Assumptions C04_solidity_agrees.
Print Assumptions C04_ralph_agrees.
