(* C04 — the signing digest is a deterministic, injective function of the message, laid out as the contracts parse it.
   sol_* / ral_* layouts are GENERATED from Messages.sol parseVM and governance.ral parseAndVerifyVAA on every run. *)
From Coq Require Import List ZArith Lia Bool Arith.
From Coq Require Import Strings.Byte.
From WH Require Import lib.Bytes lib.Layout lib.Keccak gen.Extracted gen.ExtractedKeccak model.Vaa model.Contracts proofs.VaaProofs proofs.LayoutProofs proofs.KeccakProofs.
From WH Require Import gen.ExtractedVaaCodec.
Import ListNotations.
Open Scope Z_scope.

(* the body: big-endian fields at fixed offsets, timestamp in whole seconds (mod 2^32), 53 + |payload| bytes *)
Theorem C04_body_layout : forall v, length (eaddr v) = 32%nat ->
  length (body v) = (53 + length (payload v))%nat /\
  slice (body v) 0 4 = Some (be 4 (ts v)) /\ slice (body v) 4 8 = Some (be 4 (nonce v)) /\
  slice (body v) 8 10 = Some (be 2 (echain v)) /\ slice (body v) 10 12 = Some (be 2 (tchain v)) /\
  slice (body v) 12 44 = Some (eaddr v) /\ slice (body v) 44 52 = Some (be 8 (seq v)) /\
  slice (body v) 52 53 = Some (be 1 (cl v)) /\ slice (body v) 53 (length (body v)) = Some (payload v).
Proof.
  intros v Ha. split; [rewrite body_length, Ha; reflexivity|]. exact (body_field_offsets v Ha).
Qed.

(* the digest is the double Keccak-256 of that body, for whatever function keccak is *)
Theorem C04_digest_is_double_hash : forall keccak v, digest keccak v = keccak (keccak (body v)).
Proof. reflexivity. Qed.

(* ... and for the function the node really calls — Keccak-256 (lib/Keccak.v: Keccak-f[1600], rate 136, pad10*1 with domain byte 0x01,
   executable, compared with go-ethereum crypto.Keccak256 and with SigningMsg on every run) — it is a concrete 32-byte value *)
Theorem C04_digest_is_concrete : forall v,
  digest keccak256 v = keccak256 (keccak256 (body v)) /\ length (digest keccak256 v) = 32%nat.
Proof. intros v. split; [reflexivity|apply keccak256_length]. Qed.

(* tie to the source, regenerated on every run (gen/x_keccak.py): go_signing_digest is GENERATED from the expression in
   structs.go SigningMsg (how many nested crypto.Keccak256Hash calls around v.signingBody()); x_sha3_* are read from the
   golang.org/x/crypto version node/go.mod names (sha3.NewLegacyKeccak256 = what go-ethereum crypto.Keccak256 runs) *)
Theorem C04_digest_follows_source : forall keccak v, digest keccak v = go_signing_digest keccak (body v).
Proof. reflexivity. Qed.

Theorem C04_keccak_parameters_follow_source :
  rate = x_sha3_legacy_rate /\ (forall m, length (keccak256 m) = x_sha3_legacy_outlen) /\ round_constants = x_sha3_rc /\
  (forall m, exists s, pad m = m ++ s /\
     (s = [byte_of_N (N.lor x_sha3_legacy_dsbyte x_sha3_final_bit)] \/
      exists k, s = byte_of_N x_sha3_legacy_dsbyte :: repeat x00 k ++ [byte_of_N x_sha3_final_bit]) /\ (1 <= length s <= rate)%nat).
Proof.
  repeat apply conj; [reflexivity|exact keccak256_length|reflexivity|exact pad_shape].
Qed.

(* the sponge: the padded message is a positive number of whole 136-byte blocks that starts with the message itself, padding loses
   nothing (injective), the blocks are absorbed in order (xor into the 17 rate lanes, then the permutation), 32 bytes are squeezed *)
Theorem C04_keccak_padding : forall m,
  (exists k, (1 <= k)%nat /\ length (pad m) = (k * rate)%nat) /\ firstn (length m) (pad m) = m /\
  concat (blocks (pad m)) = pad m /\ Forall (fun b => length b = rate) (blocks (pad m)) /\
  length (blocks (pad m)) = (length m / rate + 1)%nat /\ Forall (fun b => length (lanes b) = 17%nat) (blocks (pad m)).
Proof.
  intros m. destruct (blocks_pad m) as [H1 [H2 H3]].
  repeat apply conj; [apply pad_positive_multiple|apply pad_prefix|exact H1|exact H2|exact H3|apply blocks_pad_lanes].
Qed.

Theorem C04_keccak_padding_injective : forall m1 m2, pad m1 = pad m2 -> m1 = m2.
Proof. exact pad_inj. Qed.

Theorem C04_keccak_sponge_structure : forall m,
  keccak256 m = squeeze (fold_left absorb (blocks (pad m)) zero_state) /\
  (forall bs b st, fold_left absorb (bs ++ [b]) st = keccak_f (xor_lanes (fold_left absorb bs st) (lanes b))) /\
  length (keccak256 m) = 32%nat.
Proof. intros m. repeat apply conj; [reflexivity|intros bs b st; apply sponge_step|apply keccak256_length]. Qed.

(* the N-valued lanes are 64-bit machine words: every state the sponge goes through, for every message, and every intermediate
   state inside a round, is 25 lanes below 2^64; masking is reduction mod 2^64; the rotation is Go's bits.RotateLeft64 *)
Theorem C04_keccak_lanes_are_64bit :
  (forall m k, state_ok (fold_left absorb (firstn k (blocks (pad m))) zero_state)) /\
  (forall a, state_ok a ->
     state_ok (theta a) /\ state_ok (rho_pi (theta a)) /\ state_ok (chi (rho_pi (theta a))) /\
     (forall rc, In rc round_constants -> state_ok (keccak_round a rc)) /\
     (forall blk, state_ok (xor_lanes a (lanes blk))) /\ state_ok (keccak_f a)) /\
  (forall x, N.land x mask64 = (x mod 2 ^ 64)%N) /\
  (forall x r, w64 x -> (r <= 64)%N -> rotl x r = ((x * 2 ^ r) mod 2 ^ 64 + x / 2 ^ (64 - r))%N) /\
  (forall a b, w64 a -> N.ldiff a b = N.land a (N.lxor b mask64)) /\
  (forall b0 b1 b2 b3 b4 b5 b6 b7, lane_bytes (lane8 b0 b1 b2 b3 b4 b5 b6 b7) = [b0; b1; b2; b3; b4; b5; b6; b7]).
Proof.
  repeat apply conj; [exact sponge_prefix_ok|exact keccak_steps_ok|exact land_mask64|exact rotl_sum|exact ldiff_machine|exact lane_bytes_lane8].
Qed.

(* the written-out step tables of lib/Keccak.v are the ones FIPS 202 generates (rho offsets along the pi orbit, pi as a gather,
   chi / theta neighbours, round constants from the LFSR) *)
Theorem C04_keccak_tables_are_fips202 :
  rho_pi_table = fips_rho_pi_table /\
  (forall x y, (x < 5)%nat -> (y < 5)%nat -> fst (nth (y + 5 * ((2 * x + 3 * y) mod 5)) rho_pi_table (0%nat, 0%N)) = (x + 5 * y)%nat) /\
  chi_table = fips_chi_table /\
  lane_col = map (fun i => (i mod 5)%nat) (List.seq 0 25) /\
  theta_d_src = map (fun x => (((x + 4) mod 5)%nat, ((x + 1) mod 5)%nat)) (List.seq 0 5) /\
  round_constants = map fips_round_constant (List.seq 0 24).
Proof. exact keccak_tables_are_fips202. Qed.

(* a recorded oracle table passes the validator exactly when every pair in it is a value of keccak256 *)
Theorem C04_keccak_table_validator : forall t, keccak_table_ok t = true <-> (forall x y, In (x, y) t -> keccak256 x = y).
Proof. exact keccak_table_ok_spec. Qed.

(* it does not depend on version, guardian-set index, signatures or sub-second time ... *)
Theorem C04_independent_of_header : forall keccak v1 v2, same_body_fields v1 v2 ->
  body v1 = body v2 /\ digest keccak v1 = digest keccak v2.
Proof. intros keccak v1 v2 H. pose proof (body_indep v1 v2 H) as E. split; [exact E|unfold digest; rewrite E; reflexivity]. Qed.

(* ... nor on which guardian (under which set index) builds the VAA from the observed message *)
Theorem C04_independent_of_guardian : forall keccak g1 g2 m,
  digest keccak (vaa_of_message g1 m) = digest keccak (vaa_of_message g2 m).
Proof. reflexivity. Qed.

Theorem C04_subsecond_ignored : forall keccak g m ns,
  digest keccak (vaa_of_message g m) =
  digest keccak (vaa_of_message g {| m_tx := m_tx m; m_ts := m_ts m; m_tns := ns; m_nonce := m_nonce m; m_seq := m_seq m;
     m_cl := m_cl m; m_echain := m_echain m; m_tchain := m_tchain m; m_eaddr := m_eaddr m; m_payload := m_payload m |}).
Proof. reflexivity. Qed.

(* injective: equal signing bodies force equal body fields (in-range values: plain equality; in general: equal as written on the wire) *)
Theorem C04_injective : forall v1 v2, wf v1 -> wf v2 -> body v1 = body v2 ->
  ts v1 = ts v2 /\ nonce v1 = nonce v2 /\ echain v1 = echain v2 /\ tchain v1 = tchain v2 /\
  eaddr v1 = eaddr v2 /\ seq v1 = seq v2 /\ cl v1 = cl v2 /\ payload v1 = payload v2.
Proof. exact body_inj_wf. Qed.

Theorem C04_injective_mod : forall v1 v2, length (eaddr v1) = 32%nat -> length (eaddr v2) = 32%nat -> body v1 = body v2 ->
  ts v1 mod 2 ^ 32 = ts v2 mod 2 ^ 32 /\ nonce v1 mod 2 ^ 32 = nonce v2 mod 2 ^ 32 /\
  echain v1 mod 2 ^ 16 = echain v2 mod 2 ^ 16 /\ tchain v1 mod 2 ^ 16 = tchain v2 mod 2 ^ 16 /\
  eaddr v1 = eaddr v2 /\ seq v1 mod 2 ^ 64 = seq v2 mod 2 ^ 64 /\ cl v1 mod 2 ^ 8 = cl v2 mod 2 ^ 8 /\
  payload v1 = payload v2.
Proof. exact body_inj. Qed.

(* Messages.sol parseVM reads from Go's wire form exactly the fields Go wrote and hashes exactly Go's body, twice *)
Theorem C04_solidity_agrees : forall v,
  version v = vaa_version -> (length (sigs v) <= 255)%nat -> Forall wf_sig (sigs v) -> length (eaddr v) = 32%nat ->
  sol_parse (marshal v) =
    Some {| sv_header := go_header_fields v; sv_sigs := map go_sig_fields (sigs v); sv_body := go_body_fields v;
            sv_payload := payload v; sv_hashed := body v |}
  /\ sol_hash_double_keccak = true /\ sol_version_required = vaa_version.
Proof. intros v H1 H2 H3 H4. split; [apply sol_parse_marshal; assumption|split; reflexivity]. Qed.

(* governance.ral parseAndVerifyVAA slices from Go's wire form exactly Go's fields and hashes exactly Go's body *)
Theorem C04_ralph_agrees : forall v, wf v ->
  ral_parse (marshal v) =
    Some {| rv_gsidx := gsidx v; rv_numsigs := Z.of_nat (length (sigs v));
            rv_sig_records := map (fun s => (s_idx s, s_data s)) (sigs v); rv_hashed := body v;
            rv_echain := echain v; rv_tchain := tchain v; rv_eaddr := eaddr v; rv_seq := seq v; rv_payload := payload v |}.
Proof. exact ral_parse_marshal. Qed.

(* non-vacuity: a concrete well-formed VAA with two signatures goes through both parsers *)
Definition ex_vaa : vaa :=
  {| version := 1; gsidx := 3; sigs := [ {| s_idx := 0; s_data := repeat x11 65 |}; {| s_idx := 2; s_data := repeat x22 65 |} ];
     ts := 1700000000; tns := 0; nonce := 7; echain := 255; tchain := 2; eaddr := repeat xab 32; seq := 42; cl := 1;
     payload := [x01; x02; x03] |}.
Example C04_example : wfb ex_vaa = true /\
  option_map sv_hashed (sol_parse (marshal ex_vaa)) = Some (body ex_vaa) /\
  option_map rv_hashed (ral_parse (marshal ex_vaa)) = Some (body ex_vaa) /\
  option_map rv_payload (ral_parse (marshal ex_vaa)) = Some [x01; x02; x03].
Proof. vm_compute. repeat split; reflexivity. Qed.

(* the digest of that VAA, computed by the Gallina Keccak-256 (the Go harness signs the same VAA on every run: row "ex_vaa") *)
Example C04_example_digest : digest keccak256 ex_vaa =
  [x25; x39; x3c; x21; xf3; xfc; x58; x3e; xaf; x02; x3c; xa5; xac; x90; xae; x40; xda; x2c; x38; xa6; x35; xf6; x2b; xae; x4e; xd8; xcf; xa3; xd1; x5e; x7b; xd9].
Proof. vm_compute. reflexivity. Qed.

(* known answers of Keccak-256 (x/crypto/sha3.NewLegacyKeccak256; the Go harness recomputes them on every run: rows "kk" of kind kat) *)
Example C04_keccak_known_answers :
  keccak256 [] = [xc5; xd2; x46; x01; x86; xf7; x23; x3c; x92; x7e; x7d; xb2; xdc; xc7; x03; xc0; xe5; x00; xb6; x53; xca; x82; x27; x3b; x7b; xfa; xd8; x04; x5d; x85; xa4; x70]
  /\ firstn 4 (keccak256 [x61; x62; x63]) = [x4e; x03; x65; x7a]
  /\ firstn 4 (keccak256 (kat_pat 135)) = [xcb; xdf; xd9; xde] /\ firstn 4 (keccak256 (kat_pat 136)) = [x7c; xe7; x59; xf1]
  /\ firstn 4 (keccak256 (kat_pat 137)) = [xac; x73; xd4; xfa] /\ firstn 4 (keccak256 (kat_pat 1024)) = [x80; x67; xfe; x24]
  /\ state_ok zero_state /\ w64 mask64 /\ keccak_table_ok [([], keccak256 []); ([x61], keccak256 [x61])] = true.
Proof.
  repeat apply conj;
    [exact keccak256_kat_empty|rewrite keccak256_kat_abc; reflexivity|rewrite keccak256_kat_135; reflexivity|rewrite keccak256_kat_136; reflexivity
    |rewrite keccak256_kat_137; reflexivity|rewrite keccak256_kat_1024; reflexivity|exact (proj1 zero_state_ok)|exact (proj2 zero_state_ok)|exact w64_mask64|vm_compute; reflexivity].
Qed.

(* the signing body of the model IS the translation of serializeBody (gen/x_vaacodec.py: statement by statement, widths from the Go type
   declarations, regenerated on every run): a changed field order / width / conversion in the source breaks this theorem *)
Theorem C04_body_follows_source : forall v, go_body v = body v.
Proof. reflexivity. Qed.


(* ---- X11: the FULL translation of governance.ral parseAndVerifyVAA (gen/x_ralverify.py; RalVerifyModel.ral_source, proved equal to the
   hand model over ral_parse for every input: proofs/RalVerifyProofs.ral_source_eq).  On the bytes the node's Marshal produces, the
   translated source consults its recovery oracle over exactly the digest the node signs (digest keccak v = keccak (keccak (body v))),
   reads the signature records the node wrote, and hands back the node's own emitter chain, target chain, emitter address, sequence and
   payload — whatever functions keccak256! and ethEcRecover! are *)
From WH Require lib.Ralph model.RalVerifyModel proofs.RalVerifyProofs.

Theorem C04_ral_source_hashes_what_the_node_signs : forall keccak ecrecover s gov v, wf v ->
  RalVerifyModel.ral_source keccak ecrecover s gov (marshal v) =
  if gov && negb (gsidx v =? RalVerifyModel.gs_cur_idx s) then None else
  match RalVerifyModel.guardians_for s (gsidx v) with
  | None => None
  | Some g =>
    match RalVerifyModel.set_size g with
    | None => None
    | Some n =>
      if n =? 0 then None else
      if negb (go_quorum n <=? Z.of_nat (length (sigs v))) then None else
      if RalVerifyModel.recs_ok ecrecover (digest keccak v) g (-1) (map (fun sg => (s_idx sg, s_data sg)) (sigs v))
      then Some [Ralph.RZ (echain v); Ralph.RZ (tchain v); Ralph.RB (eaddr v); Ralph.RZ (seq v); Ralph.RB (payload v)] else None
    end
  end.
Proof. exact RalVerifyProofs.ral_source_on_marshal. Qed.

(* non-vacuity: ex_vaa (wf, above) with a third signature, a stored set of three keys, toy oracles (address of a signature = its first
   20 bytes); with the real Keccak-256 as keccak256! the digest handed to the recovery is C04_example_digest's function of the body *)
Definition ex_vaa3 : vaa :=
  {| version := 1; gsidx := 3; sigs := [ {| s_idx := 0; s_data := repeat x11 65 |}; {| s_idx := 1; s_data := repeat x22 65 |}; {| s_idx := 2; s_data := repeat x33 65 |} ];
     ts := 1700000000; tns := 0; nonce := 7; echain := 255; tchain := 2; eaddr := repeat xab 32; seq := 42; cl := 1;
     payload := [x01; x02; x03] |}.
Example C04_ral_source_example :
  let st := {| RalVerifyModel.gs_cur_idx := 3; RalVerifyModel.gs_cur := x03 :: repeat x11 20 ++ repeat x22 20 ++ repeat x33 20;
               RalVerifyModel.gs_prev_idx := 2; RalVerifyModel.gs_prev := []; RalVerifyModel.gs_now := 0; RalVerifyModel.gs_prev_exp := 0 |} in
  wfb ex_vaa3 = true /\
  RalVerifyModel.ral_source keccak256 (fun h s => if bytes_eqb h (digest keccak256 ex_vaa3) then Some (firstn 20 s) else None) st true (marshal ex_vaa3)
    = Some [Ralph.RZ 255; Ralph.RZ 2; Ralph.RB (repeat xab 32); Ralph.RZ 42; Ralph.RB [x01; x02; x03]].
Proof. vm_compute. split; reflexivity. Qed.

(* ---- X12: Messages.sol parseVM translated IN FULL (gen/x_solverify.py -> gen/ExtractedSolVerify.v: every statement — reads through
   BytesLib with their bounds requires, `index += k` and `toUint8(index) + 27` as CHECKED uintN additions, the signature loop as a
   Fixpoint, `vm.signatures[i].f = ..` as array updates, `require(vm.version == 1)`, the slice that is hashed, the hash expression).
   src_parseVM is that generated function; None = the call reverts. *)
From WH Require lib.SolRt gen.ExtractedSolVerify proofs.SolVerifyProofs.

(* the translated function IS the contract model of this file's C04_solidity_agrees (sol_parse over the extracted layouts), field for
   field, for EVERY input that fits into memory; it reverts exactly when sol_parse fails or a signature's 65th byte + 27 leaves uint8 *)
Theorem C04_sol_source_parseVM_is_the_model : forall E bs, SolVerifyProofs.fits_memory bs ->
  ExtractedSolVerify.src_parseVM E bs = SolVerifyProofs.sol_parse_vm (ExtractedSolVerify.e_keccak256 E) bs.
Proof. exact SolVerifyProofs.src_parseVM_eq. Qed.

(* on the node's own wire form the translated parseVM returns the node's field values, the node's signature records (v = recovery id +
   27) and, as vm.hash, keccak256(keccak256(.)) of exactly the bytes the node signs — the digest of this file, for whatever function
   keccak256 is (in particular lib/Keccak.v's) *)
Theorem C04_sol_source_hashes_what_the_node_signs : forall E v,
  wf v -> SolVerifyProofs.fits_memory (marshal v) -> Forall SolVerifyProofs.recid_ok (sigs v) ->
  ExtractedSolVerify.src_parseVM E (marshal v) = Some (SolVerifyProofs.vm_of_vaa (ExtractedSolVerify.e_keccak256 E) v) /\
  ExtractedSolVerify.VM_hash (SolVerifyProofs.vm_of_vaa (ExtractedSolVerify.e_keccak256 E) v) = digest (ExtractedSolVerify.e_keccak256 E) v /\
  digest (ExtractedSolVerify.e_keccak256 E) v = ExtractedSolVerify.e_keccak256 E (ExtractedSolVerify.e_keccak256 E (body v)).
Proof. intros E v W M R. repeat apply conj; [apply SolVerifyProofs.src_parseVM_marshal; assumption|reflexivity|reflexivity]. Qed.

(* non-vacuity: ex_vaa (two signatures) with the Gallina Keccak-256 as the hash oracle: the hypotheses hold, the translated parseVM returns
   C04_example_digest as vm.hash; truncated inside the last fixed field, with a wrong version, or with a 65th signature byte of 229
   (229 + 27 = 256) it reverts — the last case is the one input class on which the contract model sol_parse alone does not *)
Definition ex_solenv : ExtractedSolVerify.SolEnv :=
  {| ExtractedSolVerify.e_keccak256 := keccak256; ExtractedSolVerify.e_ecrecover := fun _ _ r _ => firstn 20 r;
     ExtractedSolVerify.e_getGuardianSet := fun _ => ExtractedSolVerify.zero_GuardianSet; ExtractedSolVerify.e_curidx := 3; ExtractedSolVerify.e_now := 0 |}.
Example C04_sol_source_example :
  wfb ex_vaa = true /\ SolVerifyProofs.fits_memory (marshal ex_vaa) /\
  forallb (fun s => unbe (skipn 64 (s_data s)) + 27 <? 2 ^ 8) (sigs ex_vaa) = true /\
  option_map ExtractedSolVerify.VM_hash (ExtractedSolVerify.src_parseVM ex_solenv (marshal ex_vaa)) = Some (digest keccak256 ex_vaa) /\
  option_map ExtractedSolVerify.VM_sequence (ExtractedSolVerify.src_parseVM ex_solenv (marshal ex_vaa)) = Some 42 /\
  option_map (fun vm => map ExtractedSolVerify.Signature_v (ExtractedSolVerify.VM_signatures vm)) (ExtractedSolVerify.src_parseVM ex_solenv (marshal ex_vaa)) = Some [44; 61] /\
  ExtractedSolVerify.src_parseVM ex_solenv (firstn 189 (marshal ex_vaa)) = None /\
  ExtractedSolVerify.src_parseVM ex_solenv (x02 :: skipn 1 (marshal ex_vaa)) = None /\
  ExtractedSolVerify.src_parseVM ex_solenv (firstn 71 (marshal ex_vaa) ++ xe5 :: skipn 72 (marshal ex_vaa)) = None /\
  SolVerifyProofs.sol_parse_vm keccak256 (firstn 71 (marshal ex_vaa) ++ xe5 :: skipn 72 (marshal ex_vaa)) = None /\
  sol_parse (firstn 71 (marshal ex_vaa) ++ xe5 :: skipn 72 (marshal ex_vaa)) <> None.
Proof. vm_compute. repeat apply conj; try reflexivity. discriminate. Qed.

Print Assumptions C04_body_layout.
Print Assumptions C04_digest_is_double_hash.
Print Assumptions C04_independent_of_header.
Print Assumptions C04_independent_of_guardian.
Print Assumptions C04_subsecond_ignored.
Print Assumptions C04_injective.
Print Assumptions C04_injective_mod.
Print Assumptions C04_solidity_agrees.
Print Assumptions C04_ralph_agrees.
Print Assumptions C04_digest_is_concrete.
Print Assumptions C04_keccak_padding.
Print Assumptions C04_keccak_padding_injective.
Print Assumptions C04_keccak_sponge_structure.
Print Assumptions C04_keccak_lanes_are_64bit.
Print Assumptions C04_keccak_table_validator.
Print Assumptions C04_digest_follows_source.
Print Assumptions C04_keccak_parameters_follow_source.
Print Assumptions C04_keccak_tables_are_fips202.
Print Assumptions C04_body_follows_source.
Print Assumptions C04_ral_source_hashes_what_the_node_signs.
Print Assumptions C04_sol_source_parseVM_is_the_model.
Print Assumptions C04_sol_source_hashes_what_the_node_signs.
