(* C09 - every final Alephium token-bridge message is eventually observed, exactly once by the polling path; a malformed
   or foreign event never crashes, stalls or spins the watcher and never makes it drop other messages.

   Same model as C08 (model.AlphWatcher).  The simulated node of the theorems: the governance contract's event stream is
   an append-only list `log`; paging is well-behaved (wb_pages): every page request for index s is answered with a
   segment log[s .. s+n) that exists, and n > 0 while s is below the count the node has already reported - whatever the
   page size and wherever new events land between the count request and the page requests.  The exit test of the page
   loop, the handling of an unconvertible event and the nil tests of GetTokenInfo come from gen.Extracted. *)
From Coq Require Import List ZArith Bool Lia.
From WH Require Import gen.Extracted model.AlphWatcher proofs.AlphWatcherBase proofs.AlphWatcherProofs.
Import ListNotations.
Open Scope Z_scope.

(* ONE POLL: it terminates within its fuel (no spin), delivers - in order - exactly the kept events of
   stream[from .. from'), ends at or above the polled count, and issues at most max(1, count - from) <= count - from + 1
   page requests.  keep_from judges every event on its own: to_unconfirmed + attestation validation. *)
Theorem C09_one_poll : forall log pg tok count from, 0 <= from <= loglen log -> wb_pages log pg count ->
  poll (Some count) pg tok from = PIdle /\ count = from \/
  exists from' nreq, poll (Some count) pg tok from = PBatch from' (keep_from tok from (seg log from (Z.to_nat (from' - from)))) nreq
    /\ count <= from' /\ from <= from' <= loglen log /\ (1 <= nreq)%nat /\ Z.of_nat nreq <= Z.max 1 (count - from)
    /\ Z.of_nat nreq <= Z.max 0 (count - from) + 1.
Proof. exact poll_wb. Qed.

(* EVERY HISTORY of steps without node API error (polls with well-behaved paging, hand-overs, height ticks,
   re-observations, interleaved arbitrarily): the watcher never terminates, no step reports Fatal / Spin / Panic, every
   poll stays within its request bound and reaches its polled count (all_quiet), and the concatenation of all batches is
   exactly the kept events of stream[from0 .. from_final), in order, each exactly once. *)
Theorem C09_partition_all_histories : forall c log T ops from0, 0 <= from0 <= loglen log -> Forall (fine log T) ops ->
  w_dead (final c (init from0) ops) = false /\ all_quiet c (init from0) ops /\
  from0 <= w_from (final c (init from0) ops) <= loglen log /\
  batches c (init from0) ops = keep_from T from0 (seg log from0 (Z.to_nat (w_from (final c (init from0) ops) - from0))).
Proof.
  intros c log T ops from0 Hf H. apply (partition_all_histories c log T ops (init from0)); auto. apply Inv_init.
Qed.

(* what is kept: a well-formed event that is not an attestation is kept whatever its sender (the sender filter is applied
   after confirmation); an attestation iff the token contract's answer equals its payload; a malformed event contributes
   nothing and changes nothing else in the batch *)
Theorem C09_kept_plain : forall a e m, to_unconfirmed e = Some m -> is_attest m = false ->
  keep1 a e = [ {| u_ev := e; u_msg := m; u_chain := None |} ].
Proof. exact keep1_plain. Qed.

Theorem C09_kept_attestation : forall a e m, to_unconfirmed e = Some m -> is_attest m = true ->
  keep1 a e = match validate_attest m a with VaOk t => [ {| u_ev := e; u_msg := m; u_chain := Some t |} ] | _ => [] end.
Proof. exact keep1_attest. Qed.

Theorem C09_malformed_event_is_transparent : forall tok a e b idx, to_unconfirmed e = None ->
  keep_from tok idx (a ++ e :: b) = keep_from tok idx a ++ keep_from tok (idx + Z.of_nat (length a) + 1) b.
Proof. exact keep_from_malformed_transparent. Qed.

Theorem C09_events_judged_independently : forall tok a e b idx,
  keep_from tok idx (a ++ e :: b) =
  keep_from tok idx a ++ keep1 (tok (idx + Z.of_nat (length a))) e ++ keep_from tok (idx + Z.of_nat (length a) + 1) b.
Proof. exact keep_from_one_event. Qed.

(* the control flow of a poll (outcome, fromIndex afterwards, number of page requests) depends only on the nextStart values
   the node reports - not on the contents of any event, nor on what the node says about the contracts they name *)
Theorem C09_poll_control_flow_ignores_event_contents : forall pg1 pg2 tok1 tok2 cn from,
  (forall k s, pnext (pg1 k s) = pnext (pg2 k s)) -> pshape (poll cn pg1 tok1 from) = pshape (poll cn pg2 tok2 from).
Proof. exact poll_shape_independent_of_contents. Qed.

(* for ANY node behaviour: a poll reports an error only after a node API error, and never panics *)
Theorem C09_poll_fails_only_on_api_error : forall cn pg tok from,
  match poll cn pg tok from with
  | PFatal => cn = None \/ exists k s, pg k s = PageErr
  | PPanic => False
  | _ => True
  end.
Proof. exact poll_fatal_only_by_api_error. Qed.

(* GetTokenInfo cannot dereference nil, whatever the multicall returns (each result is nil-tested itself) *)
Theorem C09_token_info_never_panics : forall id a, get_token_info id a <> TiPanic.
Proof. exact get_token_info_no_panic. Qed.

(* re-observation requests never terminate the watcher either *)
Theorem C09_reobservation_never_fails : forall c r, snd (reobserve c r) = FNone.
Proof. exact reobserve_flag. Qed.

(* PENDING EVENTS: an event pending in a block whose header is H blk is forwarded at the first height tick at which it is
   confirmed and its block is reported main-chain - whatever happened in between (other batches, foreign or orphaned
   events being dropped, ticks at which it was not yet confirmed, re-observations), provided the watcher was not
   terminated by a node API error.  (H = the headers of the blocks; the node's header answers are consistent with it.) *)
Theorem C09_pending_event_forwarded_when_final : forall c H pre s height now mc hd blk u,
  InvH H s -> Forall (okH H) pre -> okH H (OTick height now mc hd) ->
  w_dead (fst (step c (final c s pre) (OTick height now mc hd))) = false ->
  pending_in (w_pending s) blk u -> m_sender (u_msg u) = c_bridge c ->
  (forall h' n' mc' hd', In (OTick h' n' mc' hd') pre -> confirmed (c_mainnet c) (u_msg u) (H blk) n' h' = false) ->
  confirmed (c_mainnet c) (u_msg u) (H blk) now height = true -> mc blk = Some true ->
  In (mkfwd u (H blk)) (o_fwd (snd (step c (final c s pre) (OTick height now mc hd)))).
Proof. exact pending_forwarded_when_final. Qed.

(* ... and a delivered batch does become pending: hand-over keeps everything that was pending *)
Theorem C09_delivery_keeps_pending : forall l P blk u, pending_in P blk u -> pending_in (add_batch P l) blk u.
Proof. exact add_batch_keeps. Qed.

(* exactly once: not more often than fetched (for every predicate p on events) *)
Theorem C09_forwarded_at_most_once : forall c p ops from0,
  (cnt p (tick_fwds c (init from0) ops) + cnt p (held (final c (init from0) ops)) <= cnt p (batches c (init from0) ops))%nat.
Proof. intros c p ops from0. pose proof (forwarded_at_most_fetched c p ops (init from0)) as H. cbn in H. exact H. Qed.

(* the height poller stays enabled as long as events are pending (so height ticks keep coming) *)
Theorem C09_poller_enabled_while_pending : forall c ops from0,
  w_pending (final c (init from0) ops) <> [] -> w_enabled (final c (init from0) ops) = true.
Proof. exact poller_enabled_while_pending. Qed.

(* ... and then a tick of _fetchHeight is never gated off: it is a height tick of the event loop.  Together: pending events
   => poller enabled => every successful height poll processes the pending events => forwarded at the first tick at which
   they are final. *)
Theorem C09_height_poll_ticks_while_pending : forall c ops from0 height now mc hd,
  let s := final c (init from0) ops in
  w_pending s <> [] -> fetch_height_tick c s (Some height) now mc hd = step c s (OTick height now mc hd).
Proof. intros c ops from0 height now mc hd s P. apply fetch_height_ticks_while_pending; [apply poller_enabled_while_pending|exact P]. Qed.

(* ------------------------------------------------------------------ the hypotheses are satisfiable: a concrete history *)
Definition ex_c : cfg := {| c_gov := 10; c_bridge := 77; c_mainnet := false |}.
Definition ex_good (uid cl : Z) : cevent :=
  {| e_uid := uid; e_block := 5; e_index := 0; e_conv := Some {| m_sender := 77; m_cl := cl; m_p0 := 1; m_tok := None |} |}.
Definition ex_bad (uid : Z) : cevent := {| e_uid := uid; e_block := 5; e_index := 0; e_conv := None |}.   (* e.g. level 256 *)
Definition ex_att (uid : Z) : cevent :=     (* attestation-shaped event of a foreign sender naming a contract whose second call fails *)
  {| e_uid := uid; e_block := 6; e_index := 0;
     e_conv := Some {| m_sender := 5; m_cl := 0; m_p0 := 2; m_tok := Some {| ti_id := 900; ti_dec := 8; ti_sym := 3; ti_name := 4 |} |} |}.
Definition ex_log : list cevent := [ex_good 1 1; ex_bad 2; ex_att 3; ex_good 4 2; ex_good 5 0].
Definition ex_T : Z -> mc_ans := fun _ => McRes [COk [VBytes (Some 3)]; CFailed; COk [VNum (Some 8)]].
(* page size 2 *)
Definition ex_n (s : Z) : nat := Z.to_nat (Z.min 2 (5 - s)).
Definition ex_pg : nat -> Z -> page_ans := fun _ s => Page (seg ex_log s (ex_n s)) (s + Z.of_nat (ex_n s)).
Definition ex_hd : Z -> option header := fun _ => Some {| h_ts := 1000; h_height := 100 |}.
(* the count is polled as 2, three more events land before the second page request *)
Definition ex_ops : list op :=
  [ OPoll (Some 2) ex_pg ex_T; OPoll (Some 5) ex_pg ex_T; ODeliver; OPoll (Some 5) ex_pg ex_T; ODeliver;
    OTick 101 100000 (fun _ => Some true) ex_hd; OTick 102 100000 (fun _ => Some true) ex_hd ].

Lemma ex_wb : forall count, count <= 5 -> wb_pages ex_log ex_pg count.
Proof.
  intros count Hc k s Hs. change (loglen ex_log) with 5 in Hs. exists (ex_n s). unfold ex_pg, ex_n. change (loglen ex_log) with 5.
  repeat apply conj; [reflexivity|lia|lia].
Qed.

(* the history is error-free; the two polls fetch [1] and [4;5] (2 malformed and 3 invalid are skipped, nothing is
   lost), with 1 and 2 page requests; event 1 and 5 are forwarded at height 101, event 4 (level 2) at height 102 *)
Example C09_hypotheses_satisfiable :
  Forall (fine ex_log ex_T) ex_ops /\
  map (fun x => (map (fun u => e_uid (u_ev u)) (o_batch x), o_nreq x, map (fun f => e_uid (f_ev f)) (o_fwd x))) (fst (run ex_c (init 0) ex_ops))
  = [([1], 1%nat, []); ([], 0%nat, []); ([], 0%nat, []); ([4; 5], 2%nat, []); ([], 0%nat, []); ([], 0%nat, [1; 5]); ([], 0%nat, [4])].
Proof.
  split; [|vm_compute; reflexivity].
  assert (P : forall count, count <= 5 -> fine ex_log ex_T (OPoll (Some count) ex_pg ex_T)).
  { intros count Hc. exists count. repeat apply conj; [reflexivity|apply ex_wb; exact Hc|reflexivity]. }
  assert (Tk : forall h n, fine ex_log ex_T (OTick h n (fun _ => Some true) ex_hd)) by (intros h n; split; intros b; discriminate).
  unfold ex_ops. repeat apply Forall_cons; try apply Forall_nil; try exact I; try apply Tk; apply P; lia.
Qed.

(* one poll of the example: count 5 polled with fromIndex 2, page size 2 *)
Example C09_one_poll_instance :
  0 <= 2 <= loglen ex_log /\ wb_pages ex_log ex_pg 5 /\
  exists b, poll (Some 5) ex_pg ex_T 2 = PBatch 5 b 2 /\ map (fun u => e_uid (u_ev u)) b = [4; 5].
Proof.
  split; [vm_compute; split; discriminate|]. split; [apply ex_wb; lia|].
  eexists. split; [vm_compute; reflexivity|vm_compute; reflexivity].
Qed.

(* a malformed event, and the same pages with every event replaced by a malformed one: same control flow *)
Definition ex_pg_bad : nat -> Z -> page_ans := fun _ s => Page (map (fun _ => ex_bad 0) (seg ex_log s (ex_n s))) (s + Z.of_nat (ex_n s)).
Example C09_robustness_hypotheses_satisfiable :
  to_unconfirmed (ex_bad 2) = None /\ (forall k s, pnext (ex_pg k s) = pnext (ex_pg_bad k s)) /\
  pshape (poll (Some 5) ex_pg ex_T 2) = PBatch 5 [] 2 /\ poll (Some 5) ex_pg_bad ex_T 2 = PBatch 5 [] 2.
Proof. split; [reflexivity|]. split; [intros k s; reflexivity|]. split; vm_compute; reflexivity. Qed.

(* tick liveness: after the two batches of the example have been delivered, event 4 (level 2, block height 100) is pending;
   it is not confirmed at height 101 and confirmed at height 102: all hypotheses of C09_pending_event_forwarded_when_final hold *)
Definition ex_H : Z -> header := fun _ => {| h_ts := 1000; h_height := 100 |}.
Definition ex_s5 : wstate := final ex_c (init 0) (firstn 5 ex_ops).
Definition ex_u4 : uevent := {| u_ev := ex_good 4 2; u_msg := {| m_sender := 77; m_cl := 2; m_p0 := 1; m_tok := None |}; u_chain := None |}.
Example C09_liveness_hypotheses_satisfiable :
  let pre := [OTick 101 100000 (fun _ => Some true) ex_hd] in
  InvH ex_H ex_s5 /\ Forall (okH ex_H) pre /\ okH ex_H (OTick 102 100000 (fun _ => Some true) ex_hd) /\
  w_dead (fst (step ex_c (final ex_c ex_s5 pre) (OTick 102 100000 (fun _ => Some true) ex_hd))) = false /\
  pending_in (w_pending ex_s5) 5 ex_u4 /\ m_sender (u_msg ex_u4) = c_bridge ex_c /\
  (forall h' n' mc' hd', In (OTick h' n' mc' hd') pre -> confirmed (c_mainnet ex_c) (u_msg ex_u4) (ex_H 5) n' h' = false) /\
  confirmed (c_mainnet ex_c) (u_msg ex_u4) (ex_H 5) 100000 102 = true /\
  In (mkfwd ex_u4 (ex_H 5)) (o_fwd (snd (step ex_c (final ex_c ex_s5 pre) (OTick 102 100000 (fun _ => Some true) ex_hd)))).
Proof.
  cbv zeta.
  assert (OK : forall h n, okH ex_H (OTick h n (fun _ => Some true) ex_hd)).
  { intros h n b hh E. unfold ex_hd in E. injection E as <-. reflexivity. }
  assert (I5 : InvH ex_H ex_s5).
  { unfold ex_s5, ex_ops. cbn [firstn final]. repeat (apply step_InvH; [|exact I]). apply Inv_init. }
  assert (P : pending_in (w_pending ex_s5) 5 ex_u4).
  { assert (E : w_pending ex_s5 = [ {| pb_hash := 5; pb_hdr := None; pb_evs := [ {| u_ev := ex_good 1 1; u_msg := {| m_sender := 77; m_cl := 1; m_p0 := 1; m_tok := None |}; u_chain := None |}; ex_u4;
                                        {| u_ev := ex_good 5 0; u_msg := {| m_sender := 77; m_cl := 0; m_p0 := 1; m_tok := None |}; u_chain := None |} ] |} ]) by (vm_compute; reflexivity).
    rewrite E. eexists. split; [left; reflexivity|]. split; [reflexivity|]. right. left. reflexivity. }
  assert (NC : forall h' n' mc' hd', In (OTick h' n' mc' hd') [OTick 101 100000 (fun _ => Some true) ex_hd] -> confirmed (c_mainnet ex_c) (u_msg ex_u4) (ex_H 5) n' h' = false).
  { intros h' n' mc' hd' [E|[]]. injection E as <- <- _ _. vm_compute. reflexivity. }
  assert (D : w_dead (fst (step ex_c (final ex_c ex_s5 [OTick 101 100000 (fun _ => Some true) ex_hd]) (OTick 102 100000 (fun _ => Some true) ex_hd))) = false) by (vm_compute; reflexivity).
  assert (C : confirmed (c_mainnet ex_c) (u_msg ex_u4) (ex_H 5) 100000 102 = true) by (vm_compute; reflexivity).
  assert (PRE : Forall (okH ex_H) [OTick 101 100000 (fun _ => Some true) ex_hd]) by (constructor; [apply OK|constructor]).
  split; [exact I5|]. split; [exact PRE|]. split; [apply OK|]. split; [exact D|]. split; [exact P|]. split; [reflexivity|]. split; [exact NC|]. split; [exact C|].
  apply (C09_pending_event_forwarded_when_final ex_c ex_H); auto.
Qed.

(* in the example, after the two hand-overs events are pending, so the poller is enabled and a height poll is a tick *)
Example C09_height_poll_instance :
  w_pending (final ex_c (init 0) (firstn 5 ex_ops)) <> [] /\ w_enabled (final ex_c (init 0) (firstn 5 ex_ops)) = true /\
  map (fun f => e_uid (f_ev f)) (o_fwd (snd (fetch_height_tick ex_c (final ex_c (init 0) (firstn 5 ex_ops)) (Some 101) 100000 (fun _ => Some true) ex_hd))) = [1; 5].
Proof. split; [vm_compute; discriminate|]. split; vm_compute; reflexivity. Qed.

Print Assumptions C09_one_poll.
Print Assumptions C09_partition_all_histories.
Print Assumptions C09_kept_plain.
Print Assumptions C09_kept_attestation.
Print Assumptions C09_malformed_event_is_transparent.
Print Assumptions C09_events_judged_independently.
Print Assumptions C09_poll_control_flow_ignores_event_contents.
Print Assumptions C09_poll_fails_only_on_api_error.
Print Assumptions C09_token_info_never_panics.
Print Assumptions C09_reobservation_never_fails.
Print Assumptions C09_pending_event_forwarded_when_final.
Print Assumptions C09_delivery_keeps_pending.
Print Assumptions C09_forwarded_at_most_once.
Print Assumptions C09_poller_enabled_while_pending.
Print Assumptions C09_height_poll_ticks_while_pending.
