(* C09 - stub, extended below in the development *)
From Coq Require Import List ZArith Bool Lia.
From WH Require Import gen.Extracted model.AlphWatcher proofs.AlphWatcherProofs.
Import ListNotations.
Open Scope Z_scope.

Theorem C09_confirmed_spec : forall mn m h now height, sane_hdr h (m_cl m) ->
  confirmed mn m h now height = true <-> (h_height h + m_cl m <= height /\ h_ts h + hold mn m <= now).
Proof. exact confirmed_spec. Qed.
Print Assumptions C09_confirmed_spec.
