(* C09 - every final Alephium token-bridge message is eventually observed, exactly once by the polling path; a malformed
   or foreign event never crashes, stalls or spins the watcher and never makes it drop other messages.

   Same model as C08 (model.AlphWatcher).  The simulated node of the theorems: the governance contract's event stream is
   an append-only list `log`; paging is well-behaved (wb_pages): every page request for index s is answered with a
   segment log[s .. s+n) that exists, and n > 0 while s is below the count the node has already reported - whatever the
   page size and wherever new events land between the count request and the page requests.  The exit test of the page
   loop, the handling of an unconvertible event and the nil tests of GetTokenInfo come from gen.Extracted. *)
From Coq Require Import List ZArith Bool Lia.
From WH Require Import gen.Extracted model.AlphWatcher proofs.AlphWatcherBase proofs.AlphWatcherProofs.
Import ListNotations.
Open Scope Z_scope.

(* ONE POLL: it terminates within its fuel (no spin), delivers - in order - exactly the kept events of
   stream[from .. from'), ends at or above the polled count, and issues at most max(1, count - from) <= count - from + 1
   page requests.  keep_from judges every event on its own: to_unconfirmed + attestation validation. *)
Theorem C09_one_poll : forall log pg tok count from, 0 <= from <= loglen log -> wb_pages log pg count ->
  poll (Some count) pg tok from = PIdle /\ count = from \/
  exists from' nreq, poll (Some count) pg tok from = PBatch from' (keep_from tok from (seg log from (Z.to_nat (from' - from)))) nreq
    /\ count <= from' /\ from <= from' <= loglen log /\ (1 <= nreq)%nat /\ Z.of_nat nreq <= Z.max 1 (count - from)
    /\ Z.of_nat nreq <= Z.max 0 (count - from) + 1.
Proof. exact poll_wb. Qed.

(* EVERY HISTORY of steps without node API error (polls with well-behaved paging, hand-overs, height ticks,
   re-observations, interleaved arbitrarily): the watcher never terminates, no step reports Fatal / Spin / Panic, every
   poll stays within its request bound and reaches its polled count (all_quiet), and the concatenation of all batches is
   exactly the kept events of stream[from0 .. from_final), in order, each exactly once. *)
Theorem C09_partition_all_histories : forall c log T ops from0, 0 <= from0 <= loglen log -> Forall (fine log T) ops ->
  w_dead (final c (init from0) ops) = false /\ all_quiet c (init from0) ops /\
  from0 <= w_from (final c (init from0) ops) <= loglen log /\
  batches c (init from0) ops = keep_from T from0 (seg log from0 (Z.to_nat (w_from (final c (init from0) ops) - from0))).
Proof.
  intros c log T ops from0 Hf H. apply (partition_all_histories c log T ops (init from0)); auto. apply Inv_init.
Qed.

(* what is kept: a well-formed event that is not an attestation is kept whatever its sender (the sender filter is applied
   after confirmation); an attestation iff the token contract's answer equals its payload; a malformed event contributes
   nothing and changes nothing else in the batch *)
Theorem C09_kept_plain : forall a e m, to_unconfirmed e = Some m -> is_attest m = false ->
  keep1 a e = [ {| u_ev := e; u_msg := m; u_chain := None |} ].
Proof. exact keep1_plain. Qed.

Theorem C09_kept_attestation : forall a e m, to_unconfirmed e = Some m -> is_attest m = true ->
  keep1 a e = match validate_attest m a with VaOk t => [ {| u_ev := e; u_msg := m; u_chain := Some t |} ] | _ => [] end.
Proof. exact keep1_attest. Qed.

Theorem C09_malformed_event_is_transparent : forall tok a e b idx, to_unconfirmed e = None ->
  keep_from tok idx (a ++ e :: b) = keep_from tok idx a ++ keep_from tok (idx + Z.of_nat (length a) + 1) b.
Proof. exact keep_from_malformed_transparent. Qed.

Theorem C09_events_judged_independently : forall tok a e b idx,
  keep_from tok idx (a ++ e :: b) =
  keep_from tok idx a ++ keep1 (tok (idx + Z.of_nat (length a))) e ++ keep_from tok (idx + Z.of_nat (length a) + 1) b.
Proof. exact keep_from_one_event. Qed.

(* the control flow of a poll (outcome, fromIndex afterwards, number of page requests) depends only on the nextStart values
   the node reports - not on the contents of any event, nor on what the node says about the contracts they name *)
Theorem C09_poll_control_flow_ignores_event_contents : forall pg1 pg2 tok1 tok2 cn from,
  (forall k s, pnext (pg1 k s) = pnext (pg2 k s)) -> pshape (poll cn pg1 tok1 from) = pshape (poll cn pg2 tok2 from).
Proof. exact poll_shape_independent_of_contents. Qed.

(* for ANY node behaviour: a poll reports an error only after a node API error, and never panics *)
Theorem C09_poll_fails_only_on_api_error : forall cn pg tok from,
  match poll cn pg tok from with
  | PFatal => cn = None \/ exists k s, pg k s = PageErr
  | PPanic => False
  | _ => True
  end.
Proof. exact poll_fatal_only_by_api_error. Qed.

(* GetTokenInfo cannot dereference nil, whatever the multicall returns (each result is nil-tested itself) *)
Theorem C09_token_info_never_panics : forall id a, get_token_info id a <> TiPanic.
Proof. exact get_token_info_no_panic. Qed.

(* re-observation requests never terminate the watcher either *)
Theorem C09_reobservation_never_fails : forall c r, snd (reobserve c r) = FNone.
Proof. exact reobserve_flag. Qed.

(* PENDING EVENTS: an event pending in a block whose header is H blk is forwarded at the first height tick at which it is
   confirmed and its block is reported main-chain - whatever happened in between (other batches, foreign or orphaned
   events being dropped, ticks at which it was not yet confirmed, re-observations), provided the watcher was not
   terminated by a node API error.  (H = the headers of the blocks; the node's header answers are consistent with it.) *)
Theorem C09_pending_event_forwarded_when_final : forall c H pre s height now mc hd blk u,
  InvH H s -> Forall (okH H) pre -> okH H (OTick height now mc hd) ->
  w_dead (fst (step c (final c s pre) (OTick height now mc hd))) = false ->
  pending_in (w_pending s) blk u -> m_sender (u_msg u) = c_bridge c ->
  (forall h' n' mc' hd', In (OTick h' n' mc' hd') pre -> confirmed (c_mainnet c) (u_msg u) (H blk) n' h' = false) ->
  confirmed (c_mainnet c) (u_msg u) (H blk) now height = true -> mc blk = Some true ->
  In (mkfwd u (H blk)) (o_fwd (snd (step c (final c s pre) (OTick height now mc hd)))).
Proof. exact pending_forwarded_when_final. Qed.

(* ... and a delivered batch does become pending: hand-over keeps everything that was pending *)
Theorem C09_delivery_keeps_pending : forall l P blk u, pending_in P blk u -> pending_in (add_batch P l) blk u.
Proof. exact add_batch_keeps. Qed.

(* exactly once: not more often than fetched (for every predicate p on events) *)
Theorem C09_forwarded_at_most_once : forall c p ops from0,
  (cnt p (tick_fwds c (init from0) ops) + cnt p (held (final c (init from0) ops)) <= cnt p (batches c (init from0) ops))%nat.
Proof. intros c p ops from0. pose proof (forwarded_at_most_fetched c p ops (init from0)) as H. cbn in H. exact H. Qed.

(* the height poller stays enabled as long as events are pending (so height ticks keep coming) *)
Theorem C09_poller_enabled_while_pending : forall c ops from0,
  w_pending (final c (init from0) ops) <> [] -> w_enabled (final c (init from0) ops) = true.
Proof. exact poller_enabled_while_pending. Qed.

(* ... and then a tick of _fetchHeight is never gated off: it is a height tick of the event loop.  Together: pending events
   => poller enabled => every successful height poll processes the pending events => forwarded at the first tick at which
   they are final. *)
Theorem C09_height_poll_ticks_while_pending : forall c ops from0 height now mc hd,
  let s := final c (init from0) ops in
  w_pending s <> [] -> fetch_height_tick c s (Some height) now mc hd = step c s (OTick height now mc hd).
Proof. intros c ops from0 height now mc hd s P. apply fetch_height_ticks_while_pending; [apply poller_enabled_while_pending|exact P]. Qed.

(* ------------------------------------------------------------------ the hypotheses are satisfiable: a concrete history *)
Definition ex_c : cfg := {| c_gov := 10; c_bridge := 77; c_mainnet := false |}.
Definition ex_good (uid cl : Z) : cevent :=
  {| e_uid := uid; e_block := 5; e_index := 0; e_conv := Some {| m_sender := 77; m_cl := cl; m_p0 := 1; m_tok := None |} |}.
Definition ex_bad (uid : Z) : cevent := {| e_uid := uid; e_block := 5; e_index := 0; e_conv := None |}.   (* e.g. level 256 *)
Definition ex_att (uid : Z) : cevent :=     (* attestation-shaped event of a foreign sender naming a contract whose second call fails *)
  {| e_uid := uid; e_block := 6; e_index := 0;
     e_conv := Some {| m_sender := 5; m_cl := 0; m_p0 := 2; m_tok := Some {| ti_id := 900; ti_dec := 8; ti_sym := 3; ti_name := 4 |} |} |}.
Definition ex_log : list cevent := [ex_good 1 1; ex_bad 2; ex_att 3; ex_good 4 2; ex_good 5 0].
Definition ex_T : Z -> mc_ans := fun _ => McRes [COk [VBytes (Some 3)]; CFailed; COk [VNum (Some 8)]].
(* page size 2 *)
Definition ex_n (s : Z) : nat := Z.to_nat (Z.min 2 (5 - s)).
Definition ex_pg : nat -> Z -> page_ans := fun _ s => Page (seg ex_log s (ex_n s)) (s + Z.of_nat (ex_n s)).
Definition ex_hd : Z -> option header := fun _ => Some {| h_ts := 1000; h_height := 100 |}.
(* the count is polled as 2, three more events land before the second page request *)
Definition ex_ops : list op :=
  [ OPoll (Some 2) ex_pg ex_T; OPoll (Some 5) ex_pg ex_T; ODeliver; OPoll (Some 5) ex_pg ex_T; ODeliver;
    OTick 101 100000 (fun _ => Some true) ex_hd; OTick 102 100000 (fun _ => Some true) ex_hd ].

Lemma ex_wb : forall count, count <= 5 -> wb_pages ex_log ex_pg count.
Proof.
  intros count Hc k s Hs. change (loglen ex_log) with 5 in Hs. exists (ex_n s). unfold ex_pg, ex_n. change (loglen ex_log) with 5.
  repeat apply conj; [reflexivity|lia|lia].
Qed.

(* the history is error-free; the two polls fetch [1] and [4;5] (2 malformed and 3 invalid are skipped, nothing is
   lost), with 1 and 2 page requests; event 1 and 5 are forwarded at height 101, event 4 (level 2) at height 102 *)
Example C09_hypotheses_satisfiable :
  Forall (fine ex_log ex_T) ex_ops /\
  map (fun x => (map (fun u => e_uid (u_ev u)) (o_batch x), o_nreq x, map (fun f => e_uid (f_ev f)) (o_fwd x))) (fst (run ex_c (init 0) ex_ops))
  = [([1], 1%nat, []); ([], 0%nat, []); ([], 0%nat, []); ([4; 5], 2%nat, []); ([], 0%nat, []); ([], 0%nat, [1; 5]); ([], 0%nat, [4])].
Proof.
  split; [|vm_compute; reflexivity].
  assert (P : forall count, count <= 5 -> fine ex_log ex_T (OPoll (Some count) ex_pg ex_T)).
  { intros count Hc. exists count. repeat apply conj; [reflexivity|apply ex_wb; exact Hc|reflexivity]. }
  assert (Tk : forall h n, fine ex_log ex_T (OTick h n (fun _ => Some true) ex_hd)) by (intros h n; split; intros b; discriminate).
  unfold ex_ops. repeat apply Forall_cons; try apply Forall_nil; try exact I; try apply Tk; apply P; lia.
Qed.

(* one poll of the example: count 5 polled with fromIndex 2, page size 2 *)
Example C09_one_poll_instance :
  0 <= 2 <= loglen ex_log /\ wb_pages ex_log ex_pg 5 /\
  exists b, poll (Some 5) ex_pg ex_T 2 = PBatch 5 b 2 /\ map (fun u => e_uid (u_ev u)) b = [4; 5].
Proof.
  split; [vm_compute; split; discriminate|]. split; [apply ex_wb; lia|].
  eexists. split; [vm_compute; reflexivity|vm_compute; reflexivity].
Qed.

(* a malformed event, and the same pages with every event replaced by a malformed one: same control flow *)
Definition ex_pg_bad : nat -> Z -> page_ans := fun _ s => Page (map (fun _ => ex_bad 0) (seg ex_log s (ex_n s))) (s + Z.of_nat (ex_n s)).
Example C09_robustness_hypotheses_satisfiable :
  to_unconfirmed (ex_bad 2) = None /\ (forall k s, pnext (ex_pg k s) = pnext (ex_pg_bad k s)) /\
  pshape (poll (Some 5) ex_pg ex_T 2) = PBatch 5 [] 2 /\ poll (Some 5) ex_pg_bad ex_T 2 = PBatch 5 [] 2.
Proof. split; [reflexivity|]. split; [intros k s; reflexivity|]. split; vm_compute; reflexivity. Qed.

(* tick liveness: after the two batches of the example have been delivered, event 4 (level 2, block height 100) is pending;
   it is not confirmed at height 101 and confirmed at height 102: all hypotheses of C09_pending_event_forwarded_when_final hold *)
Definition ex_H : Z -> header := fun _ => {| h_ts := 1000; h_height := 100 |}.
Definition ex_s5 : wstate := final ex_c (init 0) (firstn 5 ex_ops).
Definition ex_u4 : uevent := {| u_ev := ex_good 4 2; u_msg := {| m_sender := 77; m_cl := 2; m_p0 := 1; m_tok := None |}; u_chain := None |}.
Example C09_liveness_hypotheses_satisfiable :
  let pre := [OTick 101 100000 (fun _ => Some true) ex_hd] in
  InvH ex_H ex_s5 /\ Forall (okH ex_H) pre /\ okH ex_H (OTick 102 100000 (fun _ => Some true) ex_hd) /\
  w_dead (fst (step ex_c (final ex_c ex_s5 pre) (OTick 102 100000 (fun _ => Some true) ex_hd))) = false /\
  pending_in (w_pending ex_s5) 5 ex_u4 /\ m_sender (u_msg ex_u4) = c_bridge ex_c /\
  (forall h' n' mc' hd', In (OTick h' n' mc' hd') pre -> confirmed (c_mainnet ex_c) (u_msg ex_u4) (ex_H 5) n' h' = false) /\
  confirmed (c_mainnet ex_c) (u_msg ex_u4) (ex_H 5) 100000 102 = true /\
  In (mkfwd ex_u4 (ex_H 5)) (o_fwd (snd (step ex_c (final ex_c ex_s5 pre) (OTick 102 100000 (fun _ => Some true) ex_hd)))).
Proof.
  cbv zeta.
  assert (OK : forall h n, okH ex_H (OTick h n (fun _ => Some true) ex_hd)).
  { intros h n b hh E. unfold ex_hd in E. injection E as <-. reflexivity. }
  assert (I5 : InvH ex_H ex_s5).
  { unfold ex_s5, ex_ops. cbn [firstn final]. repeat (apply step_InvH; [|exact I]). apply Inv_init. }
  assert (P : pending_in (w_pending ex_s5) 5 ex_u4).
  { assert (E : w_pending ex_s5 = [ {| pb_hash := 5; pb_hdr := None; pb_evs := [ {| u_ev := ex_good 1 1; u_msg := {| m_sender := 77; m_cl := 1; m_p0 := 1; m_tok := None |}; u_chain := None |}; ex_u4;
                                        {| u_ev := ex_good 5 0; u_msg := {| m_sender := 77; m_cl := 0; m_p0 := 1; m_tok := None |}; u_chain := None |} ] |} ]) by (vm_compute; reflexivity).
    rewrite E. eexists. split; [left; reflexivity|]. split; [reflexivity|]. right. left. reflexivity. }
  assert (NC : forall h' n' mc' hd', In (OTick h' n' mc' hd') [OTick 101 100000 (fun _ => Some true) ex_hd] -> confirmed (c_mainnet ex_c) (u_msg ex_u4) (ex_H 5) n' h' = false).
  { intros h' n' mc' hd' [E|[]]. injection E as <- <- _ _. vm_compute. reflexivity. }
  assert (D : w_dead (fst (step ex_c (final ex_c ex_s5 [OTick 101 100000 (fun _ => Some true) ex_hd]) (OTick 102 100000 (fun _ => Some true) ex_hd))) = false) by (vm_compute; reflexivity).
  assert (C : confirmed (c_mainnet ex_c) (u_msg ex_u4) (ex_H 5) 100000 102 = true) by (vm_compute; reflexivity).
  assert (PRE : Forall (okH ex_H) [OTick 101 100000 (fun _ => Some true) ex_hd]) by (constructor; [apply OK|constructor]).
  split; [exact I5|]. split; [exact PRE|]. split; [apply OK|]. split; [exact D|]. split; [exact P|]. split; [reflexivity|]. split; [exact NC|]. split; [exact C|].
  apply (C09_pending_event_forwarded_when_final ex_c ex_H); auto.
Qed.

(* in the example, after the two hand-overs events are pending, so the poller is enabled and a height poll is a tick *)
Example C09_height_poll_instance :
  w_pending (final ex_c (init 0) (firstn 5 ex_ops)) <> [] /\ w_enabled (final ex_c (init 0) (firstn 5 ex_ops)) = true /\
  map (fun f => e_uid (f_ev f)) (o_fwd (snd (fetch_height_tick ex_c (final ex_c (init 0) (firstn 5 ex_ops)) (Some 101) 100000 (fun _ => Some true) ex_hd))) = [1; 5].
Proof. split; [vm_compute; discriminate|]. split; vm_compute; reflexivity. Qed.

Print Assumptions C09_one_poll.
Print Assumptions C09_partition_all_histories.
Print Assumptions C09_kept_plain.
Print Assumptions C09_kept_attestation.
Print Assumptions C09_malformed_event_is_transparent.
Print Assumptions C09_events_judged_independently.
Print Assumptions C09_poll_control_flow_ignores_event_contents.
Print Assumptions C09_poll_fails_only_on_api_error.
Print Assumptions C09_token_info_never_panics.
Print Assumptions C09_reobservation_never_fails.
Print Assumptions C09_pending_event_forwarded_when_final.
Print Assumptions C09_delivery_keeps_pending.
Print Assumptions C09_forwarded_at_most_once.
Print Assumptions C09_poller_enabled_while_pending.
Print Assumptions C09_height_poll_ticks_while_pending.

(* ================================================================== the watcher COMPOSED with the event conversion (X2) *)
(* model.AlphPipeline: the same watcher over events carrying their RAW fields; "malformed" is no longer an abstract flag but the
   real rejection predicate of the conversion step: the event index is not the WormholeMessage index, or ToWormholeMessage
   rejects the raw fields (C11's rejection cases). *)
From Coq Require Import Strings.Byte.
From WH Require Import lib.Bytes model.Vaa model.AlphPipeline proofs.AlphPipelineRead proofs.AlphPipelineBase proofs.AlphPipelineProofs.
From WH Require proofs.AlphConvProofs.

(* C11's rejection cases are `unfit`: a numeric field outside its range - whatever the other fields are -, a wrong field count *)
Theorem C09_pipeline_rejected_values_are_unfit : forall e f0 s1 s2 f3 f4 s5,
  x_fields e = [f0; C.VU256 Ty.u256 s1; C.VU256 Ty.u256 s2; f3; f4; C.VU256 Ty.u256 s5] ->
  ~ AlphConvProofs.fits 16 (C.parse_dec s1) \/ ~ AlphConvProofs.fits 64 (C.parse_dec s2) \/ ~ AlphConvProofs.fits 8 (C.parse_dec s5) -> unfit e.
Proof. exact rejected_values_unfit. Qed.

Theorem C09_pipeline_wrong_count_is_unfit : forall e, length (x_fields e) <> 6%nat -> unfit e.
Proof. exact wrong_count_unfit. Qed.

(* ROBUSTNESS with the real rejection predicate: a page with an unfit event anywhere in it is processed to the end (no abort,
   no panic), the unfit event yields NO held event (hence no message), and every other event of the page is kept exactly as if
   the unfit one were not there *)
Theorem C09_pipeline_unfit_event_is_transparent : forall tok a e b idx, unfit e ->
  xhandle_unconfirmed tok idx (a ++ e :: b) = XHuOk (xkeep_from tok idx a ++ xkeep_from tok (idx + Z.of_nat (length a) + 1) b).
Proof. exact unfit_event_page. Qed.

(* handleUnconfirmedEvents never aborts a page and never panics, whatever raw fields the events carry and whatever the node says
   about the tokens they name; every event is judged on its own (its raw fields, the answer about the token it names) *)
Theorem C09_pipeline_page_never_aborts : forall tok evs idx, xhandle_unconfirmed tok idx evs = XHuOk (xkeep_from tok idx evs).
Proof. exact xhandle_unconfirmed_spec. Qed.

Theorem C09_pipeline_events_judged_independently : forall tok a e b idx,
  xkeep_from tok idx (a ++ e :: b) =
  xkeep_from tok idx a ++ xkeep1 (tok (idx + Z.of_nat (length a))) e ++ xkeep_from tok (idx + Z.of_nat (length a) + 1) b.
Proof. exact xkeep_from_one_event. Qed.

(* what is kept: a fitting non-attestation event, with exactly the conversion of its raw fields, whatever its sender; a fitting
   attestation iff its metadata matches the token contract's answer; and everything kept is the conversion of its event *)
Theorem C09_pipeline_kept_plain : forall a e w, x_index e = alph_wm_event_index -> C.to_wormhole_message (x_fields e) (x_txid e) = C.COk w ->
  xis_attest w = false -> xkeep1 a e = [ {| xu_ev := e; xu_msg := w; xu_chain := None |} ].
Proof. exact xkeep1_fit_plain. Qed.

Theorem C09_pipeline_kept_attestation : forall a e w, x_index e = alph_wm_event_index -> C.to_wormhole_message (x_fields e) (x_txid e) = C.COk w ->
  xis_attest w = true ->
  xkeep1 a e = match xvalidate_attest w a with XVaOk t => [ {| xu_ev := e; xu_msg := w; xu_chain := Some t |} ] | _ => [] end.
Proof. exact xkeep1_fit_attest. Qed.

Theorem C09_pipeline_kept_is_conversion : forall a e u, In u (xkeep1 a e) ->
  xu_ev u = e /\ x_index e = alph_wm_event_index /\ C.to_wormhole_message (x_fields e) (x_txid e) = C.COk (xu_msg u).
Proof. exact xkeep1_in. Qed.

(* EXACTLY ONCE through the composition, over every error-free history (polls with well-behaved paging over the RAW stream,
   hand-overs, ticks, re-observations, interleaved arbitrarily): the composed watcher never terminates, no step reports
   Fatal / Spin / Panic, and the concatenation of all batches is - in order, each exactly once - the conversions of the fitting
   events of stream[from0 .. from_final) *)
Theorem C09_pipeline_partition_all_histories : forall c log T ops from0, 0 <= from0 <= xloglen log -> Forall (xfine log T) ops ->
  x_dead (xfinal c (xinit from0) ops) = false /\ Forall (fun x => xo_flag x = FNone) (fst (xrun c (xinit from0) ops)) /\
  from0 <= x_from (xfinal c (xinit from0) ops) <= xloglen log /\
  xbatches c (xinit from0) ops = xkeep_from T from0 (gseg log from0 (Z.to_nat (x_from (xfinal c (xinit from0) ops) - from0))).
Proof. exact pipeline_partition. Qed.

(* ... and not more often than fetched: for every predicate of the abstract watcher's events *)
Theorem C09_pipeline_forwarded_at_most_once : forall c (p : uevent -> bool) ops from0,
  let n := fun l => length (filter (fun u => p (abs_u u)) l) in
  (n (xtick_fwds c (xinit from0) ops) + n (xheld (xfinal c (xinit from0) ops)) <= n (xbatches c (xinit from0) ops))%nat.
Proof. exact pipeline_at_most_once. Qed.

(* the composed watcher refines model.AlphWatcher step by step, so every theorem above carries over *)
Theorem C09_pipeline_refines_watcher : forall c s o,
  step (abs_cfg c) (abs_state s) (abs_op o) = (abs_state (fst (xstep c s o)), abs_out (snd (xstep c s o))).
Proof. exact sim_step. Qed.

(* ---- the hypotheses are satisfiable: a concrete raw stream with boundary values *)
Definition px_bridge : bytes := repeat x07 32.
Definition px_c : xcfg := {| xc_gov := 10; xc_bridge := px_bridge; xc_mainnet := false |}.
Definition px_nonce : bytes := [x00; x00; x01; x02].
Definition px_ev (uid : Z) (fields : list C.val) : xevent :=
  {| x_uid := uid; x_block := 5; x_txid := C.to_hex (repeat xaa 32); x_index := 0; x_fields := fields |}.
Definition px_e1 : xevent := px_ev 1 (C.event_fields px_bridge 65535 18446744073709551615 px_nonce [x01; x09] 255).   (* every field at its upper boundary *)
Definition px_e2 : xevent := px_ev 2 (C.event_fields px_bridge 2 8 px_nonce [x01] 256).                               (* level 256 *)
Definition px_e3 : xevent := px_ev 3 (C.event_fields px_bridge 65536 9 px_nonce [x01] 1).                             (* target chain 65536 *)
Definition px_e4 : xevent := px_ev 4 (C.event_fields px_bridge 2 18446744073709551616 px_nonce [x01] 1).              (* sequence 2^64 *)
Definition px_e5 : xevent := px_ev 5 (firstn 5 (C.event_fields px_bridge 2 10 px_nonce [x01] 1)).                     (* five fields *)
Definition px_e6 : xevent := px_ev 6 (C.event_fields (repeat x08 32) 0 11 px_nonce [] 0).                             (* foreign sender, empty payload, all zero *)
Definition px_log : list xevent := [px_e1; px_e2; px_e3; px_e4; px_e5; px_e6].
Definition px_T : Z -> xmc_ans := fun _ => XMcErr.
Definition px_n (s : Z) : nat := Z.to_nat (Z.min 4 (6 - s)).
Definition px_pg : nat -> Z -> xpage_ans := fun _ s => XPage (gseg px_log s (px_n s)) (s + Z.of_nat (px_n s)).
Definition px_hd : Z -> option header := fun _ => Some {| h_ts := 1000; h_height := 100 |}.
Definition px_ops : list xop :=
  [ XPoll (Some 3) px_pg px_T; XDeliver; XPoll (Some 6) px_pg px_T; XDeliver; XTick 400 100000000 (fun _ => Some true) px_hd ].

Lemma px_wb : forall count, count <= 6 -> xwb_pages px_log px_pg count.
Proof.
  intros count Hc k s Hs. change (xloglen px_log) with 6 in Hs. exists (px_n s). unfold px_pg, px_n. change (xloglen px_log) with 6.
  repeat apply conj; [reflexivity|lia|lia].
Qed.

(* events 2..5 are unfit (the hypotheses of the two rejection theorems hold for them); the history is error-free; the batches are
   [1] and [6] - nothing else is lost, nothing aborted -; the tick forwards event 1 with every value at its boundary and drops
   the foreign event 6 *)
Example C09_pipeline_hypotheses_satisfiable :
  unfit px_e2 /\ unfit px_e3 /\ unfit px_e4 /\ unfit px_e5 /\
  Forall (xfine px_log px_T) px_ops /\ 0 <= 0 <= xloglen px_log /\
  map (fun x => (map (fun u => x_uid (xu_ev u)) (xo_batch x), xo_nreq x,
                 map (fun f => let m := xf_pub f in (x_uid (xf_ev f), m_tchain m, m_seq m, Vaa.m_cl m)) (xo_fwd x))) (fst (xrun px_c (xinit 0) px_ops))
  = [([1], 1%nat, []); ([], 0%nat, []); ([6], 1%nat, []); ([], 0%nat, []); ([], 0%nat, [(1, 65535, 18446744073709551615, 255)])].
Proof.
  split; [eapply (C09_pipeline_rejected_values_are_unfit px_e2); [reflexivity|right; right; vm_compute; intros [_ H]; discriminate H]|].
  split; [eapply (C09_pipeline_rejected_values_are_unfit px_e3); [reflexivity|left; vm_compute; intros [_ H]; discriminate H]|].
  split; [eapply (C09_pipeline_rejected_values_are_unfit px_e4); [reflexivity|right; left; vm_compute; intros [_ H]; discriminate H]|].
  split; [apply C09_pipeline_wrong_count_is_unfit; vm_compute; discriminate|].
  split; [|split; [vm_compute; split; discriminate|vm_compute; reflexivity]].
  assert (P : forall count, count <= 6 -> xfine px_log px_T (XPoll (Some count) px_pg px_T)).
  { intros count Hc. exists count. repeat apply conj; [reflexivity|apply px_wb; exact Hc|reflexivity]. }
  unfold px_ops. repeat apply Forall_cons; try apply Forall_nil; try exact I; try (apply P; lia).
  split; intros b; discriminate.
Qed.

Example C09_pipeline_transparency_instance :
  xhandle_unconfirmed px_T 0 ([px_e1] ++ px_e2 :: [px_e6]) = XHuOk (xkeep_from px_T 0 [px_e1] ++ xkeep_from px_T 2 [px_e6]) /\
  map (fun u => x_uid (xu_ev u)) (xkeep_from px_T 0 [px_e1] ++ xkeep_from px_T 2 [px_e6]) = [1; 6].
Proof. split; vm_compute; reflexivity. Qed.

Print Assumptions C09_pipeline_rejected_values_are_unfit.
Print Assumptions C09_pipeline_wrong_count_is_unfit.
Print Assumptions C09_pipeline_unfit_event_is_transparent.
Print Assumptions C09_pipeline_page_never_aborts.
Print Assumptions C09_pipeline_events_judged_independently.
Print Assumptions C09_pipeline_kept_plain.
Print Assumptions C09_pipeline_kept_attestation.
Print Assumptions C09_pipeline_kept_is_conversion.
Print Assumptions C09_pipeline_partition_all_histories.
Print Assumptions C09_pipeline_forwarded_at_most_once.
Print Assumptions C09_pipeline_refines_watcher.

(* ================================================================================================================================
   Extension X10 - PENDING EVENTS on RAW data (proofs/ClosureProofs7.v): C09_pending_event_forwarded_when_final restated on the
   composed pipeline through the refinement.  [xInvH H s] / [xokH H o]: the header invariant and the header-consistency of the node's
   answers, read through the abstraction; reachable states satisfy the invariant (C09_pipeline_header_invariant_reachable).
   A raw event pending in a block whose header is H blk, whose conversion names the token bridge as sender, is handed to the signer
   at the first height tick at which its converted message is confirmed (depth and hold time from the CONVERTED consistency level) and
   its block is reported main-chain - whatever happened in between (other batches, dropped events, earlier ticks, re-observations) -
   provided the watcher was not terminated by a node API error; what is handed over is, up to the abstraction, [mkxfwd] of exactly this
   event with that header (C08_pipeline_end_to_end adds: its publication is toMessagePublication of the conversion of the raw fields) *)
From WH Require Import proofs.ClosureProofs7.

Theorem C09_pipeline_header_invariant_reachable : forall c H ops from0, Forall (xokH H) ops -> xInvH H (xfinal c (xinit from0) ops).
Proof. intros c H ops from0 Hok. apply xInvH_final; [apply xInvH_init|exact Hok]. Qed.

Theorem C09_pipeline_pending_event_forwarded_when_final : forall c H pre s height now mc hd blk u,
  xInvH H s -> Forall (xokH H) pre -> xokH H (XTick height now mc hd) ->
  x_dead (fst (xstep c (xfinal c s pre) (XTick height now mc hd))) = false ->
  xpending_in (x_pending s) blk u -> C.w_sender (xu_msg u) = xc_bridge c ->
  (forall h' n' mc' hd', In (XTick h' n' mc' hd') pre -> xconfirmed (xc_mainnet c) (xu_msg u) (H blk) n' h' = false) ->
  xconfirmed (xc_mainnet c) (xu_msg u) (H blk) now height = true -> mc blk = Some true ->
  exists f, In f (xo_fwd (snd (xstep c (xfinal c s pre) (XTick height now mc hd)))) /\
            abs_fwd f = abs_fwd (mkxfwd (xu_ev u) (xu_msg u) (xu_chain u) (H blk)).
Proof. exact pipeline_pending_forwarded_when_final. Qed.

(* non-vacuity on the raw stream above: after the first poll and hand-over event 1 (consistency level 255, block 5 at height 100) is
   pending; a tick at height 300 finds it unconfirmed (100 + 255 > 300), the tick at height 400 forwards it with the boundary values *)
Definition px_H : Z -> header := fun _ => {| h_ts := 1000; h_height := 100 |}.
Example C09_pipeline_liveness_hypotheses_satisfiable :
  let s := xfinal px_c (xinit 0) (firstn 2 px_ops) in
  let pre := [XTick 300 100000000 (fun _ => Some true) px_hd] in
  let tick := XTick 400 100000000 (fun _ => Some true) px_hd in
  exists b u, x_pending s = [b] /\ xpb_evs b = [u] /\ x_uid (xu_ev u) = 1 /\
    xInvH px_H s /\ Forall (xokH px_H) pre /\ xokH px_H tick /\
    x_dead (fst (xstep px_c (xfinal px_c s pre) tick)) = false /\
    xpending_in (x_pending s) 5 u /\ C.w_sender (xu_msg u) = xc_bridge px_c /\
    (forall h' n' mc' hd', In (XTick h' n' mc' hd') pre -> xconfirmed (xc_mainnet px_c) (xu_msg u) (px_H 5) n' h' = false) /\
    xconfirmed (xc_mainnet px_c) (xu_msg u) (px_H 5) 100000000 400 = true /\
    map (fun f => let m := xf_pub f in (x_uid (xf_ev f), m_tchain m, m_seq m, Vaa.m_cl m)) (xo_fwd (snd (xstep px_c (xfinal px_c s pre) tick)))
      = [(1, 65535, 18446744073709551615, 255)].
Proof.
  cbv zeta.
  assert (OK : forall h n, xokH px_H (XTick h n (fun _ => Some true) px_hd)).
  { intros h n b hh E. unfold px_hd in E. injection E as <-. reflexivity. }
  eexists. eexists. split; [vm_compute; reflexivity|]. split; [reflexivity|]. split; [reflexivity|].
  split; [apply C09_pipeline_header_invariant_reachable; unfold px_ops; cbn [firstn]; repeat (constructor; [exact I|]); constructor|].
  split; [constructor; [apply OK|constructor]|]. split; [apply OK|]. split; [vm_compute; reflexivity|].
  split; [eexists; split; [vm_compute; left; reflexivity|]; split; [reflexivity|left; reflexivity]|].
  split; [vm_compute; reflexivity|].
  split; [intros h' n' mc' hd' [E|[]]; injection E as <- <- _ _; vm_compute; reflexivity|].
  split; vm_compute; reflexivity.
Qed.

Print Assumptions C09_pipeline_header_invariant_reachable.
Print Assumptions C09_pipeline_pending_event_forwarded_when_final.
