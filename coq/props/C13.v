(* C13 — No untrusted input can crash the signing pipeline.
   Model: WH.model.Processor (one atomic step per handler of node/pkg/processor; every explicit panic(..) and every implicit
   nil-dereference found by reading is a Panic outcome).  The two guard shapes on which crash-freedom depends are READ FROM THE
   SOURCE on every run (gen/x_processor.py -> Extracted.v): `proc_stored_unmarshal_failure_panics` (message.go: what happens
   when the stored copy of a VAA does not decode) and `proc_cleanup_nil_gs_guarded` (cleanup.go: is a missing guardian set
   guarded before len(gs.Keys)).  They are discharged below by computation; if the source regresses, this file stops compiling. *)
From Coq Require Import List ZArith Bool.
From Coq Require Import Strings.Byte.
From WH Require Import lib.Bytes gen.Extracted model.Vaa model.Processor proofs.ProcessorProofs proofs.ProcPanicProofs.
Import ListNotations.
Open Scope Z_scope.

(* For every recovery / hash / signing function, every own address and governance emitter, and EVERY finite sequence of
   processor inputs — guardian-set updates (any key list: empty, repeated keys, any length), clock values, chain messages
   (any payload incl. empty, any timestamp/address), injected VAAs, gossiped observations (any bytes), own-signature loopbacks in any
   order, inbound signed VAAs (any bytes) and cleanup ticks — no step produces a Panic outcome. *)
Theorem C13_no_panic :
  forall recover keccak sign own gov_chain gov_addr (ops : list op) (outs : list out),
    In outs (snd (run recover keccak sign own gov_chain gov_addr init ops)) -> forall w, ~ In (Panic w) outs.
Proof. intros recover keccak sign own gc ga. exact (no_panic_ever recover keccak sign own gc ga eq_refl eq_refl). Qed.

(* "Malformed or unexpected inputs are logged and dropped and the node keeps processing": the dropped inputs leave the state
   unchanged and emit nothing, so the rest of the history runs exactly as if they had not arrived. *)
Theorem C13_undecodable_inbound_vaa_is_dropped :
  forall recover keccak st b e, unmarshal b = Err e -> handle_inbound recover keccak st b = (st, []).
Proof. exact inbound_undecodable_dropped. Qed.

Theorem C13_unrecoverable_observation_is_dropped :
  forall recover st o, rec recover (o_hash o) (o_sig o) = None -> handle_obs recover st o = (st, []).
Proof. exact obs_unrecoverable_dropped. Qed.

Theorem C13_message_before_first_set_is_dropped :
  forall keccak sign own gc ga st m, cur st = None -> handle_message keccak sign own gc ga st m = (st, []).
Proof. exact message_before_first_set_dropped. Qed.

(* non-vacuity: the two histories on which the unrepaired code crashed are in the domain of the theorem and (now) produce outputs
   without Panic: an injection before the first guardian set followed by a cleanup tick past the settlement time. *)
Example C13_history_injection_then_cleanup :
  let v := {| version := 1; gsidx := 0; sigs := []; ts := 1700000000; tns := 0; nonce := 7; echain := 1; tchain := 0;
              eaddr := repeat x00 32; seq := 9; cl := 32; payload := [x01] |} in
  let r := run (fun _ _ => None) (fun b => b) (fun _ => repeat x00 65) (repeat x01 20) 1 (repeat x00 32) init
               [Inject v; SetClock (31 * 1000000000); Cleanup] in
  length (agg (fst r)) = 1%nat /\ existsb (fun l => existsb is_panic l) (snd r) = false.
Proof. vm_compute. split; reflexivity. Qed.

(* ================================================================================================================================
   X9 — THE PREMISE OF C13 ("a panic there terminates the whole guardian process") AS A THEOREM ABOUT THE EXTRACTED CONFIGURATION.
   gen/ExtractedTree.v is regenerated from node/cmd/guardiand/node.go on every run: the one supervisor.New call and its options, the
   root runnable statement by statement, and per service whether its function (or a wrapper in node.go) recovers panics.  The option's
   meaning is read from node/pkg/supervisor (processSchedule installs its recover only `if !s.propagatePanic`).  model/NodeTree.v is the
   process-level model: a panic in a supervised runnable's goroutine either is captured by processSchedule (an error exit: C18's restart
   rule) or terminates the process; a panic in a goroutine a service started itself always terminates it. *)
From WH Require Import gen.ExtractedTree model.Supervisor model.NodeTree proofs.SupervisorProofs proofs.NodeTreeProofs.
From Coq Require Import String.
Notation node_step := (pstep sup_done_ready_needs_exit node_tree).
Notation node_run := (prun sup_done_ready_needs_exit node_tree).

(* read from the source, discharged by computation: the supervisor runs with WithPropagatePanic, no service recovers panics itself,
   and the processor is one of the supervised services.  If node.go drops the option or wraps a service in a recover, this stops compiling. *)
Lemma node_config : nt_propagate node_tree = true /\ sup_option_means_no_recover = true /\ no_service_recovers node_tree = true /\
                    exists sv, svc_named node_tree "processor"%string = Some sv /\ sv_recovers sv = false.
Proof. vm_compute. repeat split. eexists. split; reflexivity. Qed.

Definition processor_dn : dn := [sid node_tree "processor"%string].

(* a panic in the processor's Run goroutine — any handler of C13_no_panic's model producing a Panic outcome would be one — terminates the
   process, for every flag configuration and every state in which the processor runs *)
Theorem C13_processor_panic_terminates_the_process : forall c s,
  has (processor_dn, TInst) (s_toks (p_sup s)) = true -> node_step c s (PPanic processor_dn) = PCrash (CPanic processor_dn).
Proof. intros c s. apply panic_terminates_process; [apply node_config|apply no_recover; apply node_config]. Qed.

(* the same for every supervised runnable of the tree (the root runnable, the watchers, p2p, the RPC services, and their children) *)
Theorem C13_supervised_panic_terminates_the_process : forall c s d,
  has (d, TInst) (s_toks (p_sup s)) = true -> node_step c s (PPanic d) = PCrash (CPanic d).
Proof. intros c s d. apply panic_terminates_process; [apply node_config|apply no_recover; apply node_config]. Qed.

(* the converse, for ANY tree: without the option (or with a recover around the service) the panic is an error exit of that runnable and
   the supervisor restarts it (props/C18.v) — the process survives *)
Theorem C13_captured_panic_is_an_error_exit : forall T c s d, nt_propagate T && negb (recovers T d) = false ->
  pstep sup_done_ready_needs_exit T c s (PPanic d) = pstep sup_done_ready_needs_exit T c s (PSup (EReturn d RErr)) \/ d = [].
Proof. exact panic_captured_is_error_exit. Qed.

(* a panic in a goroutine that a service started itself (`go func` inside its Run, outside the supervisor's reach) terminates the process
   WHATEVER the supervisor's options are: T is arbitrary.  Which services have such goroutines is extracted (spawning_services). *)
Theorem C13_spawned_goroutine_panic_terminates_regardless : forall T c s x,
  In x (p_started s) -> spawns_unguarded T x = true -> pstep sup_done_ready_needs_exit T c s (PSpawnPanic x) = PCrash (CSpawnPanic x).
Proof. exact spawn_panic_terminates_regardless. Qed.

Theorem C13_unsupervised_goroutine_panic_terminates : forall c s n,
  (n < List.length (nt_unsupervised node_tree))%nat -> node_step c s (POutsidePanic n) = PCrash (COutsidePanic n).
Proof. exact (outside_panic_terminates node_tree). Qed.

(* and nothing else terminates the process abnormally: after every history a crashing step is a panic event (a runnable panicking, a
   Signal call in the wrong state, a spawned or unsupervised goroutine panicking); the supervisor's own code never panics *)
Theorem C13_crash_only_by_panic : forall c h s e cz, node_run c h pinit = PRun s -> node_step c s e = PCrash cz -> panic_event s e = true.
Proof. intros c h s e cz Hrun. apply crash_only_by_panic. exact (node_inv node_tree c h s Hrun). Qed.

Theorem C13_supervisor_never_crashes_the_process : forall c h, node_run c h pinit <> PCrash CSupervisor.
Proof. exact (node_crash_never_by_supervisor node_tree). Qed.

(* non-vacuity: under the deterministic scheduler every service of the extracted tree gets started, the processor among them; its
   panic then crashes the process; the processor itself has goroutines of its own (broadcastSignature, handleCleanup) *)
Example C13_node_example :
  let m := play sup_done_ready_needs_exit node_tree (fun _ => true) 40 [PPanic processor_dn] (sim_init 0) in
  let m0 := settle sup_done_ready_needs_exit node_tree (fun _ => true) 40 (sim_init 0) in
  sm_out m = PCrash (CPanic processor_dn) /\
  (exists s, sm_out m0 = PRun s /\ has (processor_dn, TInst) (s_toks (p_sup s)) = true /\ In (sid node_tree "processor"%string) (p_started s)) /\
  spawns_unguarded node_tree (sid node_tree "processor"%string) = true.
Proof. vm_compute. split; [reflexivity|]. split; [|reflexivity]. eexists. split; [reflexivity|]. split; [reflexivity|]. auto 20. Qed.

Print Assumptions C13_no_panic.
Print Assumptions C13_undecodable_inbound_vaa_is_dropped.
Print Assumptions C13_unrecoverable_observation_is_dropped.
Print Assumptions C13_message_before_first_set_is_dropped.
Print Assumptions node_config.
Print Assumptions C13_processor_panic_terminates_the_process.
Print Assumptions C13_supervised_panic_terminates_the_process.
Print Assumptions C13_captured_panic_is_an_error_exit.
Print Assumptions C13_spawned_goroutine_panic_terminates_regardless.
Print Assumptions C13_unsupervised_goroutine_panic_terminates.
Print Assumptions C13_crash_only_by_panic.
Print Assumptions C13_supervisor_never_crashes_the_process.
