(* C13 — No untrusted input can crash the signing pipeline.
   Model: WH.model.Processor (one atomic step per handler of node/pkg/processor; every explicit panic(..) and every implicit
   nil-dereference found by reading is a Panic outcome).  The two guard shapes on which crash-freedom depends are READ FROM THE
   SOURCE on every run (gen/x_processor.py -> Extracted.v): `proc_stored_unmarshal_failure_panics` (message.go: what happens
   when the stored copy of a VAA does not decode) and `proc_cleanup_nil_gs_guarded` (cleanup.go: is a missing guardian set
   guarded before len(gs.Keys)).  They are discharged below by computation; if the source regresses, this file stops compiling. *)
From Coq Require Import List ZArith Bool.
From Coq Require Import Strings.Byte.
From WH Require Import lib.Bytes gen.Extracted model.Vaa model.Processor proofs.ProcessorProofs proofs.ProcPanicProofs.
Import ListNotations.
Open Scope Z_scope.

(* For every recovery / hash / signing function, every own address and governance emitter, and EVERY finite sequence of
   processor inputs — guardian-set updates (any key list: empty, repeated keys, any length), clock values, chain messages
   (any payload incl. empty, any timestamp/address), injected VAAs, gossiped observations (any bytes), own-signature loopbacks in any
   order, inbound signed VAAs (any bytes) and cleanup ticks — no step produces a Panic outcome. *)
Theorem C13_no_panic :
  forall recover keccak sign own gov_chain gov_addr (ops : list op) (outs : list out),
    In outs (snd (run recover keccak sign own gov_chain gov_addr init ops)) -> forall w, ~ In (Panic w) outs.
Proof. intros recover keccak sign own gc ga. exact (no_panic_ever recover keccak sign own gc ga eq_refl eq_refl). Qed.

(* "Malformed or unexpected inputs are logged and dropped and the node keeps processing": the dropped inputs leave the state
   unchanged and emit nothing, so the rest of the history runs exactly as if they had not arrived. *)
Theorem C13_undecodable_inbound_vaa_is_dropped :
  forall recover keccak st b e, unmarshal b = Err e -> handle_inbound recover keccak st b = (st, []).
Proof. exact inbound_undecodable_dropped. Qed.

Theorem C13_unrecoverable_observation_is_dropped :
  forall recover st o, rec recover (o_hash o) (o_sig o) = None -> handle_obs recover st o = (st, []).
Proof. exact obs_unrecoverable_dropped. Qed.

Theorem C13_message_before_first_set_is_dropped :
  forall keccak sign own gc ga st m, cur st = None -> handle_message keccak sign own gc ga st m = (st, []).
Proof. exact message_before_first_set_dropped. Qed.

(* non-vacuity: the two histories on which the unrepaired code crashed are in the domain of the theorem and (now) produce outputs
   without Panic: an injection before the first guardian set followed by a cleanup tick past the settlement time. *)
Example C13_history_injection_then_cleanup :
  let v := {| version := 1; gsidx := 0; sigs := []; ts := 1700000000; tns := 0; nonce := 7; echain := 1; tchain := 0;
              eaddr := repeat x00 32; seq := 9; cl := 32; payload := [x01] |} in
  let r := run (fun _ _ => None) (fun b => b) (fun _ => repeat x00 65) (repeat x01 20) 1 (repeat x00 32) init
               [Inject v; SetClock (31 * 1000000000); Cleanup] in
  length (agg (fst r)) = 1%nat /\ existsb (fun l => existsb is_panic l) (snd r) = false.
Proof. vm_compute. split; reflexivity. Qed.

Print Assumptions C13_no_panic.
Print Assumptions C13_undecodable_inbound_vaa_is_dropped.
Print Assumptions C13_unrecoverable_observation_is_dropped.
Print Assumptions C13_message_before_first_set_is_dropped.
