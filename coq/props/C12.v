(* C12 — stored VAAs come back byte-exact and emitter queries never mix streams.
   Model: model/Db.v (store = ordered key/value list; keys rendered with the formats GENERATED from structs.go; the gap
   scan seeks with the prefix GENERATED from db.go).  Histories: [store_all [] vs] = the store after StoreSignedVAA was
   called on the VAAs [vs] in order (unsigned ones panic and change nothing).  [wf v] = the VAA is representable
   (C05's range: 16-bit chains, 32-byte address, 64-bit sequence, ...), [last_stored vs i] = the last signed VAA of the
   history whose identifier is i, [present vs c a t q] = some signed VAA of the history has emitter chain c, emitter
   address a, target chain t and sequence q. *)
From Coq Require Import List ZArith Lia Bool Arith Sorting.Sorted.
From Coq Require Import Strings.Byte.
From WH Require Import lib.Bytes lib.Digits gen.Extracted model.Vaa model.Db proofs.DbProofs.
From WH Require model.Processor model.ProcSpec model.System proofs.SystemProofs.
Import ListNotations.
Open Scope Z_scope.

(* ---------------------------------------------------------------- keys *)
(* two identifiers are stored under the same key only if they are the same identifier *)
Theorem C12_key_injective : forall i j, idwf i -> idwf j -> key i = key j -> i = j.
Proof. exact key_inj. Qed.

(* the store is a map: a write is seen under its own key and under no other *)
Theorem C12_get_put : forall s k v k', get (put s k v) k' = if bytes_eqb k k' then Some v else get s k'.
Proof. exact get_put. Qed.

(* ---------------------------------------------------------------- lookups *)
(* local lookup after ANY history: byte for byte the last VAA stored under exactly that identifier; an identifier under
   which nothing was stored yields not-found *)
Theorem C12_lookup_exact : forall vs i, Forall wf vs -> idwf i ->
  get_signed_vaa_bytes (store_all [] vs) i = match last_stored vs i with Some v => Found (marshal v) | None => NotFound end.
Proof. exact lookup_history. Qed.

(* one store changes the answer for its own identifier and for no other (any store state) *)
Theorem C12_store_changes_only_its_id : forall s v i, wf v -> idwf i -> signed v = true ->
  exists s', store_vaa s v = Stored s' /\
  get_signed_vaa_bytes s' i = if id_eqb (id_of v) i then Found (marshal v) else get_signed_vaa_bytes s i.
Proof. exact lookup_after_store. Qed.

(* the public RPC GetSignedVAA for a well-formed request answers exactly like the local lookup *)
Theorem C12_rpc_lookup_exact : forall vs ec a tc sq, Forall wf vs -> length a = 32%nat -> 0 <= ec < 65536 -> 0 <= tc < 65536 -> 0 <= sq ->
  rpc_get_signed_vaa (store_all [] vs) ec (hex a) tc sq =
  match last_stored vs {| i_ec := ec; i_ea := a; i_tc := tc; i_seq := sq |} with Some v => ROk (marshal v) | None => RErr RNotFound end.
Proof. exact rpc_get_history. Qed.

(* GetNonGovernanceVAABatch: exactly the requested sequences that are present in that stream, each with its stored bytes *)
Theorem C12_rpc_batch_exact : forall s ec a tc seqs, length a = 32%nat -> 0 <= ec < 65536 -> 0 <= tc < 65536 ->
  Z.of_nat (length seqs) <= rpc_max_batch ->
  exists l, rpc_nongov_batch s ec (hex a) tc seqs = ROk l /\
    forall q b, In (q, b) l <-> In q seqs /\ get_signed_vaa_bytes s {| i_ec := ec; i_ea := a; i_tc := tc; i_seq := q |} = Found b.
Proof. exact rpc_batch_exact. Qed.

(* ... over a history: the requested sequences stored in that stream, in request order, with the bytes last stored *)
Theorem C12_rpc_batch_history : forall vs ec a tc seqs, Forall wf vs -> length a = 32%nat -> 0 <= ec < 65536 -> 0 <= tc < 65536 ->
  Forall (fun q => 0 <= q) seqs -> Z.of_nat (length seqs) <= rpc_max_batch ->
  rpc_nongov_batch (store_all [] vs) ec (hex a) tc seqs =
  ROk (flat_map (fun q => match last_stored vs {| i_ec := ec; i_ea := a; i_tc := tc; i_seq := q |} with
                          | Some v => [(q, marshal v)] | None => [] end) seqs).
Proof. exact rpc_batch_history. Qed.

(* ---------------------------------------------------------------- prefixes select exactly one emitter / one stream *)
Theorem C12_gov_prefix_iff : forall c a i, 0 <= c -> length a = 32%nat -> idwf i ->
  (prefix_of (gov_prefix c a) (key i) = true <-> i_ec i = c /\ i_ea i = a).
Proof. exact gov_prefix_iff. Qed.

Theorem C12_gap_prefix_iff : forall c a t i, 0 <= c -> length a = 32%nat -> 0 <= t -> idwf i ->
  (prefix_of (gap_prefix c a t) (key i) = true <-> i_ec i = c /\ i_ea i = a /\ i_tc i = t).
Proof. exact gap_prefix_iff. Qed.

(* Seek(p); ValidForPrefix(p); Next() on an ordered store visits exactly the items whose key starts with p *)
Theorem C12_scan_is_prefix_filter : forall p s, sorted s -> scan p s = filter (has_prefix p) s.
Proof. exact scan_filter. Qed.

(* ---------------------------------------------------------------- stream isolation of the gap scan *)
(* the answer is a function of the sequence numbers stored in exactly that stream *)
Theorem C12_gap_depends_on_stream_only : forall vs c a t, Forall wf vs -> 0 <= c -> length a = 32%nat -> 0 <= t ->
  find_gap (store_all [] vs) c a t = gap_of (stream_seqs vs c a t).
Proof. exact find_gap_stream. Qed.

Theorem C12_gap_isolation : forall vs vs' c a t, Forall wf vs -> Forall wf vs' -> 0 <= c -> length a = 32%nat -> 0 <= t ->
  (forall q, present vs c a t q <-> present vs' c a t q) ->
  find_gap (store_all [] vs) c a t = find_gap (store_all [] vs') c a t.
Proof. exact gap_isolation. Qed.

(* ... and it is exactly: the numbers of [0, max] missing in that stream, in increasing order, with max the largest
   sequence of the stream (0 for an empty stream); first is always 0 (`first := false` in db.go) *)
Theorem C12_gap_exact : forall vs c a t, Forall wf vs -> 0 <= c -> length a = 32%nat -> 0 <= t -> ~ present vs c a t (2 ^ 64 - 1) ->
  exists resp last, find_gap (store_all [] vs) c a t = GapOk resp 0 last /\
    (forall i, In i resp <-> 0 <= i <= last /\ ~ present vs c a t i) /\ StronglySorted Z.lt resp /\
    (forall q, present vs c a t q -> q <= last) /\ (last = 0 \/ present vs c a t last).
Proof. exact gap_exact. Qed.

(* the excluded input of the previous theorem: the Go loop `i <= lastSeq` cannot terminate for lastSeq = 2^64-1 *)
Theorem C12_gap_loop_excluded_input : forall vs c a t, Forall wf vs -> 0 <= c -> length a = 32%nat -> 0 <= t ->
  present vs c a t (2 ^ 64 - 1) -> find_gap (store_all [] vs) c a t = GapLoop.
Proof. exact gap_loop. Qed.

(* FindMissingMessages for a well-formed request: the gap scan of that stream, each number rendered as the id text of
   that stream (key = "signed/" ++ text) *)
Theorem C12_find_missing_exact : forall s ec a tc, length a = 32%nat -> 0 <= ec < 65536 -> 0 <= tc < 65536 ->
  find_missing s ec (hex a) tc =
  match find_gap s ec a tc with
  | GapOk ids f l => MissOk (map (fun q => msg_id_prefix ec a tc ++ dec q) ids) f l
  | GapErr => MissErr RInternal
  | GapLoop => MissLoop
  end.
Proof. exact find_missing_exact. Qed.

Theorem C12_missing_id_is_key_text : forall ec a tc q,
  key {| i_ec := ec; i_ea := a; i_tc := tc; i_seq := q |} = sgn ++ msg_id_prefix ec a tc ++ dec q.
Proof. exact key_msg_id. Qed.

(* ---------------------------------------------------------------- governance batch *)
(* exactly the VAAs left under the governance emitter whose sequence is requested: each once, each with its own target
   chain, sequence and bytes; nothing of any other emitter *)
Theorem C12_gov_batch_exact : forall vs c a seqs, Forall wf vs -> 0 <= c -> length a = 32%nat ->
  exists L, gov_batch (store_all [] vs) c a seqs = GovOk (map entry L) /\ NoDup (map id_of L) /\
    forall v, In v L <-> live vs v /\ echain v = c /\ eaddr v = a /\ In (seq v) seqs.
Proof. exact gov_batch_exact. Qed.

Theorem C12_rpc_gov_batch : forall s c a seqs, Z.of_nat (length seqs) <= rpc_max_batch ->
  rpc_gov_batch s c a seqs = match gov_batch s c a seqs with GovOk l => ROk l | GovErr => RErr RInternal end.
Proof. exact rpc_gov_exact. Qed.

(* ---------------------------------------------------------------- non-vacuity: the deployment's prefix-related chains *)
Definition ex_sig : sig := {| s_idx := 0; s_data := repeat x00 65 |}.
Definition ex_addr : bytes := repeat x00 31 ++ [x04].
Definition ex_v (ec tc sq : Z) : vaa :=
  {| version := vaa_version; gsidx := 0; sigs := [ex_sig]; ts := 1; tns := 0; nonce := 0; echain := ec; tchain := tc;
     eaddr := ex_addr; seq := sq; cl := 1; payload := [x01] |}.
(* one history: targets 2 and 255, 1 and 10 and 10001, 4 and 42 of the same emitter, overlapping sequences, an overwrite *)
Definition ex_hist : list vaa :=
  [ex_v 4 2 0; ex_v 4 255 7; ex_v 4 2 2; ex_v 4 1 1; ex_v 4 10 3; ex_v 4 10001 5; ex_v 4 4 0; ex_v 4 42 9; ex_v 4 2 2; ex_v 255 2 4].

Example C12_hypotheses_satisfiable : Forall wf ex_hist /\ idwf (id_of (ex_v 4 2 2)) /\ length ex_addr = 32%nat.
Proof. split; [|split; [apply wf_idwf, wfb_wf; vm_compute; reflexivity|reflexivity]]. unfold ex_hist. repeat (apply Forall_cons; [apply wfb_wf; vm_compute; reflexivity|]). apply Forall_nil. Qed.

Example C12_example_streams_not_mixed :
  find_gap (store_all [] ex_hist) 4 ex_addr 2 = GapOk [1] 0 2 /\
  find_gap (store_all [] ex_hist) 4 ex_addr 255 = GapOk [0; 1; 2; 3; 4; 5; 6] 0 7 /\
  find_gap (store_all [] ex_hist) 4 ex_addr 1 = GapOk [0] 0 1 /\
  find_gap (store_all [] ex_hist) 4 ex_addr 4 = GapOk [] 0 0 /\
  (exists L, gov_batch (store_all [] ex_hist) 4 ex_addr [2; 7; 8] = GovOk L /\ map (fun e => (g_tc e, g_seq e)) L = [(2, 2); (255, 7)]) /\
  get_signed_vaa_bytes (store_all [] ex_hist) (id_of (ex_v 4 25 5)) = NotFound /\
  present ex_hist 4 ex_addr 255 7 /\ ~ present ex_hist 4 ex_addr 2 7.
Proof.
  repeat apply conj; try (vm_compute; reflexivity).
  - eexists. split; vm_compute; reflexivity.
  - exists (ex_v 4 255 7). repeat apply conj; try reflexivity. right; left; reflexivity.
  - intros (v & Hin & _ & _ & _ & Ht & Hs). cbn [ex_hist In] in Hin.
    repeat (destruct Hin as [<-|Hin]; [cbn in Ht, Hs; try discriminate|]). destruct Hin.
Qed.

(* ---------------------------------------------------------------- served = stored (C01 o C12, model/System.v) *)
(* the public RPC reads the store the processor writes.  [System.db_store d]: the badger view (ordered key/value store of this file)
   of the processor model's store d (newest first).  It answers a lookup exactly like the processor model's own lookup, for
   representable identifiers *)
Theorem C12_rpc_store_view_is_the_processor_store :
  forall d i, Forall (fun p => idwf (System.vid_of (fst p))) d -> idwf (System.vid_of i) ->
  get (System.db_store d) (key (System.vid_of i)) = Processor.dlookup i d.
Proof. exact SystemProofs.db_store_get_exact. Qed.

(* whatever GetSignedVAA of ANY node returns after ANY network history (N guardians, adversarial network: model/System.v), for any
   request, is byte for byte the wire form of a VAA that carries a valid quorum of a guardian set that node learned from chain, stored
   under the key the request renders to — the VAA with exactly the requested identifier when that VAA's identifier is representable *)
Theorem C12_served_by_any_node_is_a_stored_quorum_valid_vaa :
  forall recover keccak gov_chain gov_addr owns signs N xs i st ec ahex tc sq b,
    Forall SystemProofs.nop_wf xs ->
    nth_error (System.nodes (fst (System.nrun recover keccak gov_chain gov_addr owns signs (System.ninit N) xs))) i = Some st ->
    System.serve st ec ahex tc sq = ROk b ->
    exists a v g, decode_emitter ahex = Some a /\ b = marshal v /\
      key (id_of v) = key (rpc_id ec a tc sq) /\
      (idwf (id_of v) -> 0 <= sq -> id_of v = rpc_id ec a tc sq) /\
      In g (SystemProofs.net_learned i xs) /\ ProcSpec.qvalid recover keccak v (Processor.keys g).
Proof. exact SystemProofs.served_is_quorum_valid. Qed.

(* non-vacuity: the two-guardian network history of C01's example; afterwards node 1 (which received the VAA from node 0) serves it *)
Definition nx_owns (i : nat) : bytes := repeat (byte_of_Z (Z.of_nat i + 1)) 20.
Definition nx_signs (i : nat) (d : bytes) : bytes := nx_owns i ++ repeat x00 45.
Definition nx_G : Processor.gset := {| Processor.keys := [nx_owns 0; nx_owns 1]; Processor.gidx := 3 |}.
Definition nx_msg : msgpub := {| m_tx := [x07]; m_ts := 1700000000; m_tns := 0; m_nonce := 1; m_seq := 5; m_cl := 1;
                                 m_echain := 2; m_tchain := 255; m_eaddr := repeat x02 32; m_payload := [x01; x02] |}.
Definition nx_hist : list System.nop :=
  [System.NEnv 0 (System.ESetGS nx_G); System.NEnv 1 (System.ESetGS nx_G); System.NEnv 1 (System.EMsg nx_msg);
   System.NEnv 0 (System.EMsg nx_msg); System.NDeliver 0 0; System.NLoop 0 0; System.NDeliver 1 2].
Example C12_served_example :
  let n := fst (System.nrun (fun h s => Some (firstn 20 s)) (fun _ => repeat x00 32) 1 (repeat x00 32) nx_owns nx_signs (System.ninit 2) nx_hist) in
  match nth_error (System.nodes n) 1, nth_error (System.pool n) 2 with
  | Some st, Some (System.GVaa b) => System.serve st 2 (hex (repeat x02 32)) 255 5 = ROk b /\ System.serve st 2 (hex (repeat x02 32)) 255 6 = RErr RNotFound
  | _, _ => False
  end.
Proof. vm_compute. split; reflexivity. Qed.

Print Assumptions C12_key_injective.
Print Assumptions C12_get_put.
Print Assumptions C12_lookup_exact.
Print Assumptions C12_store_changes_only_its_id.
Print Assumptions C12_rpc_lookup_exact.
Print Assumptions C12_rpc_batch_exact.
Print Assumptions C12_rpc_batch_history.
Print Assumptions C12_gov_prefix_iff.
Print Assumptions C12_gap_prefix_iff.
Print Assumptions C12_scan_is_prefix_filter.
Print Assumptions C12_gap_depends_on_stream_only.
Print Assumptions C12_gap_isolation.
Print Assumptions C12_gap_exact.
Print Assumptions C12_gap_loop_excluded_input.
Print Assumptions C12_find_missing_exact.
Print Assumptions C12_missing_id_is_key_text.
Print Assumptions C12_gov_batch_exact.
Print Assumptions C12_rpc_gov_batch.
Print Assumptions C12_rpc_store_view_is_the_processor_store.
Print Assumptions C12_served_by_any_node_is_a_stored_quorum_valid_vaa.
