(* C12 — placeholder while the proofs are being rebuilt on the repaired scan prefix *)
From Coq Require Import List ZArith Lia Bool Arith.
From Coq Require Import Strings.Byte.
From WH Require Import lib.Bytes lib.Digits gen.Extracted model.Vaa model.Db.
Import ListNotations.
Open Scope Z_scope.

Example C12_gap_prefix_separates_2_from_255 :
  let a := repeat x00 32 in
  prefix_of (gap_prefix 4 a 2) (key {| i_ec := 4; i_ea := a; i_tc := 255; i_seq := 7 |}) = false.
Proof. vm_compute. reflexivity. Qed.
Print Assumptions C12_gap_prefix_separates_2_from_255.
