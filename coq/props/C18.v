(* C18 — supervised services restart after failure and never run twice at once (partial by nature).
   Model: model/Supervisor.v — node/pkg/supervisor as atomic events: one handler call of the processor goroutine (processSchedule,
   processDied, processGC, processKill), one call of a runnable into the supervisor (Signal, RunGroup; all under the supervisor
   mutex), a runnable returning, a back-off sleeper waking up.  Everything in flight outside the tree is a token (pending schedule
   request, sleeper, running instance, pending died request).  The theorems quantify over ALL event sequences: every delivery order
   of the requests, every behaviour of the runnables (any calls in any state, returning nil / their context's error / an error /
   panicking, with or without having signalled), every tree shape and depth.  Whether a DONE node is restartable only once its
   runnable has exited is read from processGC (gen/Extracted.v: sup_done_ready_needs_exit). *)
From Coq Require Import List ZArith Lia Bool Arith.
From WH Require Import gen.Extracted model.Supervisor proofs.SupervisorProofs.
From WH Require Import gen.ExtractedTree model.NodeTree proofs.NodeTreeProofs.
Import ListNotations.
Open Scope Z_scope.

Notation sup_run := (run sup_done_ready_needs_exit).
Notation sup_step := (step sup_done_ready_needs_exit).

(* (1) AT NO TIME DO TWO INSTANCES OF THE SAME SERVICE RUN CONCURRENTLY — after every history, for every service *)
Theorem C18_at_most_one_instance : forall evs s d, sup_run evs init = Ok s -> (running d s <= 1)%nat.
Proof. exact at_most_one_instance. Qed.

(* (1') the bookkeeping behind it, and the supervisor's own goroutine never panics (nodeByDN always finds the node), nor does a
   runnable's call panic with the mutex held *)
Theorem C18_invariant : forall evs s, sup_run evs init = Ok s -> Inv s.
Proof. exact (fun evs s => run_inv evs init s inv_init). Qed.

Theorem C18_no_supervisor_panic : forall evs, sup_run evs init <> ProcessorPanic /\ sup_run evs init <> LockedPanic.
Proof. exact (fun evs => run_no_panic evs init inv_init). Qed.

(* (2) a node is scheduled (again) only when no instance of it or of anything below it is running, and nothing but this one
   schedule request is in flight for that subtree: the previous instances have all returned and their exits have been processed *)
Theorem C18_scheduled_only_when_subtree_idle : forall evs s d s',
  sup_run evs init = Ok s -> sup_step s (EProcSchedule d) = Ok s' ->
  forall d', is_prefix d d' = true -> running d' s = 0%nat /\ (forall k, In (d', k) (s_toks s) -> d' = d /\ k = TSched).
Proof. exact scheduled_only_when_subtree_idle. Qed.

(* (3) THE RESTART RULE.  (a) A service returns (nil, an error, a captured panic; or its context's error while its context is not
   cancelled) other than "completed and nil": the node is DEAD, its context and the contexts of the other members of its group are
   cancelled, nobody else's cancel function is called. *)
Theorem C18_unexpected_exit : forall d k t t' i, NoDup (map fst t) -> proc_died d k t = Some t' -> find d t = Some i ->
  ~ (n_state i = SDone /\ k = RNil) -> ~ (cancelled d t = true /\ k = RCtx) ->
  (exists j, find d t' = Some j /\ n_state j = SDead /\ n_flag j = true /\ n_exited j = true) /\
  (forall x a, find x t = Some a -> x <> d ->
     exists a', find x t' = Some a' /\ n_state a' = n_state a /\
       n_flag a' = (n_flag a || match d with [] => false | _ => sibling_of d (n_group i) x a end)).
Proof. exact died_unexpected. Qed.

(* (b) As long as the supervisor has not been shut down: a DEAD or CANCELED node whose whole subtree has exited, whose parent's
   context is live and which has no such ancestor ([can]) is reset by the next GC (NEW, fresh context, descendants dropped), its
   sleeper offers the schedule request after the back-off (a back-off only after a death), and the runnable is started: one instance. *)
Theorem C18_restart_goes_through : forall evs s d i,
  sup_run evs init = Ok s -> s_killed s = false -> find d (s_tree s) = Some i -> can sup_done_ready_needs_exit d i (s_tree s) = true ->
  exists s', sup_run [EGC; EBackoff d; EProcSchedule d] s = Ok s' /\ running d s' = 1%nat /\
             (exists j, find d (s_tree s') = Some j /\ n_state j = SNew /\ n_flag j = false).
Proof. exact restart_goes_through. Qed.

Theorem C18_gc_restarts_exactly_the_marked : forall t d i, NoDup (map fst t) -> find d t = Some i -> can sup_done_ready_needs_exit d i t = true ->
  find d (fst (gc sup_done_ready_needs_exit t)) = Some (reset_info i) /\
  In (d, TSleep (match n_state i with SDead => true | _ => false end)) (snd (gc sup_done_ready_needs_exit t)) /\
  (forall x, strict_prefix d x = true -> find x (fst (gc sup_done_ready_needs_exit t)) = None).
Proof. exact gc_restarts. Qed.

Theorem C18_gc_leaves_others : forall t x,
  below_target (gc_targets sup_done_ready_needs_exit t) x = false -> is_target (gc_targets sup_done_ready_needs_exit t) x = false ->
  find x (fst (gc sup_done_ready_needs_exit t)) = find x t.
Proof. exact gc_leaves_others. Qed.

(* (4) A SERVICE THAT SIGNALLED COMPLETION IS LEFT ALONE: once a DONE node's runnable has returned nil (exit processed), no event
   changes it or puts anything in flight for it — except a GC that restarts a subtree it lies strictly inside *)
Theorem C18_completed_left_alone : forall s e s' d, Inv s -> completed (s_tree s) d -> sup_step s e = Ok s' ->
  (completed (s_tree s') d /\ tok d (s_toks s') = 0%nat) \/ (e = EGC /\ below_target (gc_targets sup_done_ready_needs_exit (s_tree s)) d = true).
Proof. exact completed_left_alone. Qed.

(* (5) CANCELLING THE SUPERVISOR'S CONTEXT STOPS EVERY SERVICE WITHOUT FURTHER RESTARTS: processKill cancels every context, the
   processor handles nothing afterwards, and from then on the number of running instances of any service only goes down *)
Theorem C18_kill_cancels_everything : forall s s', sup_step s EKill = Ok s' ->
  s_killed s' = true /\ forall d i, find d (s_tree s') = Some i -> n_flag i = true /\ cancelled d (s_tree s') = true.
Proof. exact (kill_cancels_everything sup_done_ready_needs_exit). Qed.

Theorem C18_nothing_processed_after_kill : forall s, s_killed s = true ->
  (forall d, sup_step s (EProcSchedule d) = Disabled) /\ (forall d k, sup_step s (EProcDied d k) = Disabled) /\ sup_step s EGC = Disabled /\ sup_step s EKill = Disabled.
Proof. exact (after_kill sup_done_ready_needs_exit). Qed.

Theorem C18_no_starts_after_kill : forall evs s s' d, s_killed s = true -> sup_run evs s = Ok s' -> s_killed s' = true /\ (running d s' <= running d s)%nat.
Proof. exact (no_starts_after_kill sup_done_ready_needs_exit). Qed.

(* (6) what the repair is for: with `curReady = true` for DONE nodes (the code before 981ee38) a runnable that signalled Done and is
   still on its way out does not hold back the restart of its parent: processor panic, or two live instances *)
Theorem C18_done_exit_in_flight_refuted_processor_panic :
  run false (done_late_history ++ [EReturn [1; 2] RNil; EProcDied [1; 2] RNil]) init = ProcessorPanic.
Proof. exact done_in_flight_processor_panic. Qed.

Theorem C18_done_exit_in_flight_refuted_two_instances :
  exists s, run false (done_late_history ++ [EBackoff [1]; EProcSchedule [1]; ERunGroup [1] [2]; EProcSchedule [1; 2]]) init = Ok s /\ running [1; 2] s = 2%nat.
Proof. exact done_in_flight_two_instances. Qed.

(* (7) RECORDED (open finding): "the service is started again" is refuted for services below a completed member of a group whose
   sibling failed: w is CANCELED below d's cancelled context, d (DONE) is left alone, the failed f is running again — and the GC
   has nothing to do, however often it runs *)
Theorem C18_restart_refuted_below_completed_group_member :
  exists s, sup_run orphan_history init = Ok s /\ s_killed s = false /\
    option_map n_state (find [3; 5] (s_tree s)) = Some SCanceled /\ option_map n_state (find [3] (s_tree s)) = Some SDone /\
    cancelled [3] (s_tree s) = true /\ running [4] s = 1%nat /\ running [] s = 1%nat /\
    s_toks s = [([4], TInst); ([], TInst)] /\
    forall n, sup_run (repeat EGC n) s = Ok s.
Proof. exact below_completed_group_member_never_restarted. Qed.

(* non-vacuity: a history with a group of two, a failure, the sibling's cancellation, the GC restarting both *)
Definition ex_history : list ev :=
  [EProcSchedule []; ERunGroup [] [1; 2]; ESignalHealthy []; EProcSchedule [2]; EProcSchedule [1]; ESignalHealthy [1]; ESignalHealthy [2];
   EReturn [1] RErr; EProcDied [1] RErr; EReturn [2] RCtx; EProcDied [2] RCtx].
Example C18_example :
  exists s, sup_run ex_history init = Ok s /\ s_killed s = false /\
    option_map n_state (find [1] (s_tree s)) = Some SDead /\ option_map n_state (find [2] (s_tree s)) = Some SCanceled /\
    (exists i, find [1] (s_tree s) = Some i /\ can sup_done_ready_needs_exit [1] i (s_tree s) = true) /\
    (exists i, find [2] (s_tree s) = Some i /\ can sup_done_ready_needs_exit [2] i (s_tree s) = true) /\
    gc_targets sup_done_ready_needs_exit (s_tree s) = [([1], true); ([2], false)] /\
    running [] s = 1%nat.
Proof. eexists. split; [vm_compute; reflexivity|]. vm_compute. repeat split; try reflexivity; eexists; split; reflexivity. Qed.

(* ================================================================================================================================
   X9 — THE SUPERVISOR COMPOSED WITH THE GUARDIAN NODE'S OWN SERVICE TREE (node/cmd/guardiand/node.go).
   gen/ExtractedTree.v (regenerated from the source on every run) holds the options of the one supervisor.New call, the root runnable
   statement by statement (every supervisor.Run with its name, its flag condition, what its error does; the fallible constructor; the
   final `<-ctx.Done(); return nil`), and per service what its function does with goroutines / recover / rootCtxCancel.
   model/NodeTree.v runs Supervisor.v's tree under that root program; services below the root stay abstract.  The theorems hold for
   every flag configuration c and every history of process-level events. *)
Notation node_step := (pstep sup_done_ready_needs_exit node_tree).
Notation node_run := (prun sup_done_ready_needs_exit node_tree).

(* what the theorems below need of the extracted tree, by computation: service names and runnables pairwise distinct, one service per
   supervisor.Run statement (no RunGroup), the root runnable never signals and ends `<-ctx.Done(); return nil` *)
Lemma node_tree_ok :
  distinct_ids node_tree = true /\ distinct_runnables node_tree = true /\ singleton_groups node_tree = true /\
  root_never_signals node_tree = true /\ ends_wait_return (nt_prog node_tree) = true.
Proof. vm_compute. repeat split. Qed.

(* C18 (1) for the node: never two instances of a service — by name, and by service FUNCTION (no runnable is started under two names) *)
Theorem C18_node_at_most_one_instance : forall c h s d, node_run c h pinit = PRun s -> (running d (p_sup s) <= 1)%nat.
Proof. exact (node_at_most_one_instance node_tree). Qed.

Theorem C18_node_one_instance_per_service_function : forall c h s r, node_run c h pinit = PRun s -> (instances_of_runnable node_tree r (p_sup s) <= 1)%nat.
Proof. intros c h s r. apply node_one_instance_per_runnable. apply node_tree_ok. Qed.

(* the supervision groups of the services are the statements of the root runnable, after every history (with C18_invariant) *)
Theorem C18_node_groups_are_the_run_statements : forall c h s, node_run c h pinit = PRun s -> PInv node_tree s.
Proof. intros c h s. apply node_pinv. apply node_tree_ok. Qed.

(* C18 (3a) by name: the unexpected exit of service x (nil, an error, a captured panic, its context's error while not cancelled) marks
   x DEAD and cancelled and changes NO other node of the tree: every service is a supervision group of its own *)
Theorem C18_node_service_exit_cancels_nobody_else : forall c h s x k t' i,
  node_run c h pinit = PRun s -> proc_died [x] k (s_tree (p_sup s)) = Some t' -> find [x] (s_tree (p_sup s)) = Some i ->
  ~ (n_state i = SDone /\ k = RNil) -> ~ (cancelled [x] (s_tree (p_sup s)) = true /\ k = RCtx) ->
  (exists j, find [x] t' = Some j /\ n_state j = SDead /\ n_flag j = true /\ n_exited j = true) /\
  forall z a, find z (s_tree (p_sup s)) = Some a -> z <> [x] -> exists a', find z t' = Some a' /\ n_state a' = n_state a /\ n_flag a' = n_flag a.
Proof.
  intros c h s x k t' i Hrun Hpd Hx H1 H2. destruct (C18_node_groups_are_the_run_statements c h s Hrun) as [Hinv Hg]. split.
  - exact (proj1 (service_exit_cancels_exactly_its_group node_tree _ x k t' i Hinv Hg Hpd Hx H1 H2)).
  - apply (service_exit_cancels_nobody_else node_tree (p_sup s) x k t' i); try assumption. apply node_tree_ok.
Qed.

(* C18 (3b) by name: it is started again — next GC, back-off, one instance, fresh context — as long as the supervisor is not shut down,
   everything below it has exited and the root runnable is alive *)
Theorem C18_node_service_restarts : forall c h s x i,
  node_run c h pinit = PRun s -> s_killed (p_sup s) = false -> find [x] (s_tree (p_sup s)) = Some i -> can sup_done_ready_needs_exit [x] i (s_tree (p_sup s)) = true ->
  exists s', node_run c [PSup EGC; PSup (EBackoff [x]); PSup (EProcSchedule [x])] s = PRun s' /\ running [x] (p_sup s') = 1%nat /\ In x (p_started s') /\
             (exists j, find [x] (s_tree (p_sup s')) = Some j /\ n_state j = SNew /\ n_flag j = false).
Proof. exact (service_restarts node_tree). Qed.

Theorem C18_node_restart_condition : forall u x i, Inv u -> find [x] (s_tree u) = Some i -> wanted (n_state i) = true ->
  (forall z j, find z (s_tree u) = Some j -> is_prefix [x] z = true -> restartable sup_done_ready_needs_exit j = true) ->
  (forall r, find [] (s_tree u) = Some r -> n_flag r = false /\ wanted (n_state r) = false) ->
  can sup_done_ready_needs_exit [x] i (s_tree u) = true.
Proof. exact can_service. Qed.

(* ISOLATION: no step that is foreign to service y (see NodeTreeProofs.foreign: another service's or its children's start, calls, exit,
   panic, the processing of its exit, its restart; the root runnable going on; a GC while nothing of y has died) changes y or anything
   below it: nodes, everything in flight for them, and whether their contexts are cancelled.  In particular no failure of one watcher
   ever cancels or restarts the processor or another chain's watcher. *)
Theorem C18_node_isolation : forall c h s e s' y,
  node_run c h pinit = PRun s -> node_step c s e = PRun s' -> foreign node_tree s y e ->
  forall z, is_prefix [y] z = true ->
    find z (s_tree (p_sup s')) = find z (s_tree (p_sup s)) /\
    (forall k, In (z, k) (s_toks (p_sup s')) <-> In (z, k) (s_toks (p_sup s))) /\
    cancelled z (s_tree (p_sup s')) = cancelled z (s_tree (p_sup s)).
Proof. intros c h s e s' y Hrun. apply isolation_step. exact (C18_node_groups_are_the_run_statements c h s Hrun). Qed.

(* ... and over whole histories: while service y is present and nothing of it (nor the root runnable) has died, whatever the other
   services do, any number of times and in any interleaving — fail, panic (captured), have their exits processed, get restarted after their
   back-off, start children — and however the root runnable proceeds, y and everything below it stay exactly as they were: in particular
   y's running instance is the same one: never cancelled, never started again *)
Theorem C18_node_isolation_over_histories : forall c y h s s',
  PInv node_tree s -> quiet y (s_tree (p_sup s)) -> find [y] (s_tree (p_sup s)) <> None -> Forall (foreign_static node_tree y) h -> node_run c h s = PRun s' ->
  forall z, is_prefix [y] z = true ->
    find z (s_tree (p_sup s')) = find z (s_tree (p_sup s)) /\
    (forall k, In (z, k) (s_toks (p_sup s')) <-> In (z, k) (s_toks (p_sup s))) /\
    cancelled z (s_tree (p_sup s')) = cancelled z (s_tree (p_sup s)).
Proof. intros c y h. apply isolation_history. apply node_tree_ok. Qed.

(* the exit of another service x is foreign to y as soon as x <> y: with one service per statement the two are never in one group *)
Theorem C18_node_other_service_exit_is_foreign : forall s x y k, x <> y -> foreign node_tree s y (PSup (EProcDied [x] k)).
Proof.
  intros s x y k Hne. cbn [foreign]. split; [exact Hne|]. destruct (same_stmt node_tree x y) eqn:E; [|reflexivity]. exfalso. apply Hne.
  eapply singleton_same_stmt; [apply node_tree_ok|exact E].
Qed.

(* C18 (5) for the node: processKill happens only after rootCtx was cancelled, which only a started service holding rootCtxCancel can do;
   afterwards nothing is started any more *)
Theorem C18_node_kill_needs_root_cancel : forall c h s, node_run c h pinit = PRun s ->
  (s_killed (p_sup s) = true -> p_rootctx s = true) /\ (p_rootctx s = true -> exists x, In x (p_started s) /\ holds_root_cancel node_tree x = true).
Proof. exact (node_kill_needs_root_cancel node_tree). Qed.

Theorem C18_node_no_starts_after_kill : forall c h s s' d,
  s_killed (p_sup s) = true -> node_run c h s = PRun s' -> s_killed (p_sup s') = true /\ (running d (p_sup s') <= running d (p_sup s))%nat.
Proof. exact (node_no_starts_after_kill node_tree). Qed.

(* (d) THE ROOT RUNNABLE'S OWN RETURN.  `<-ctx.Done()` returns only after processKill (nothing else cancels the root's context while the
   root runnable runs), so its `return nil` is never processed (C18_nothing_processed_after_kill) ... *)
Theorem C18_node_root_wait_returns_only_after_kill : forall c h s f s',
  node_run c h pinit = PRun s -> nth_error (prog_of node_tree c) (p_pc s) = Some RWaitCtx -> node_step c s (PRoot f) = PRun s' -> s_killed (p_sup s) = true.
Proof. exact (root_wait_returns_only_after_kill node_tree). Qed.

(* ... an error return (a rejected supervisor.Run, the failing Alephium watcher constructor) makes the root DEAD and cancels EVERY
   service's context; once all of them have exited the GC drops the whole tree and the root runnable starts again after its back-off *)
Theorem C18_node_root_failure_cancels_every_service : forall u k t' i,
  Inv u -> proc_died [] k (s_tree u) = Some t' -> find [] (s_tree u) = Some i -> ~ (n_state i = SDone /\ k = RNil) -> ~ (cancelled [] (s_tree u) = true /\ k = RCtx) ->
  (exists j, find [] t' = Some j /\ n_state j = SDead /\ n_flag j = true) /\
  (forall z a, find z (s_tree u) = Some a -> exists a', find z t' = Some a' /\ cancelled z t' = true /\ (z <> [] -> n_state a' = n_state a)).
Proof. exact root_failure_cancels_every_service. Qed.

Theorem C18_node_root_restart_drops_the_tree : forall u i, Inv u -> find [] (s_tree u) = Some i -> can sup_done_ready_needs_exit [] i (s_tree u) = true ->
  find [] (fst (gc sup_done_ready_needs_exit (s_tree u))) = Some (reset_info i) /\
  In ([], TSleep (match n_state i with SDead => true | _ => false end)) (snd (gc sup_done_ready_needs_exit (s_tree u))) /\
  (forall z, z <> [] -> find z (fst (gc sup_done_ready_needs_exit (s_tree u))) = None).
Proof. exact root_restart_drops_the_tree. Qed.

(* non-vacuity, on the extracted tree with every flag set, under the deterministic scheduler of model/NodeTree.v: all services are
   started once; then the Ethereum watcher returns an error: it alone is started a second time, the processor and the other watchers keep
   their single instance; a failing constructor restarts the services started before it *)
From Coq Require Import String.
Definition all_flags : cfg := fun _ => true.
Definition svid (nm : string) : Z := sid node_tree nm.
Example C18_node_example :
  let m := play sup_done_ready_needs_exit node_tree all_flags 40 [PSup (EReturn [svid "ethwatch"%string] RErr)] (sim_init 0) in
  let m' := play sup_done_ready_needs_exit node_tree all_flags 40 [] (sim_init 1) in
  starts_of m [svid "ethwatch"%string] = 2%nat /\ starts_of m [svid "processor"%string] = 1%nat /\ starts_of m [svid "bscwatch"%string] = 1%nat /\ starts_of m [svid "alph-watcher"%string] = 1%nat /\
  (exists s, sm_out m = PRun s /\ running [svid "processor"%string] (p_sup s) = 1%nat /\ running [svid "ethwatch"%string] (p_sup s) = 1%nat /\
             foreign node_tree s (svid "processor"%string) (PSup (EProcDied [svid "ethwatch"%string] RErr))) /\
  starts_of m' [svid "p2p"%string] = 2%nat /\ starts_of m' [svid "processor"%string] = 1%nat /\ starts_of m' [] = 2%nat.
Proof. vm_compute. repeat split; try reflexivity. eexists. repeat split; try reflexivity; discriminate. Qed.

(* the hypotheses of C18_node_isolation_over_histories are satisfiable: after the tree has come up the processor is present and quiet, and
   the whole failure-and-restart history of the Ethereum watcher is foreign to it *)
Example C18_node_isolation_example :
  let e := svid "ethwatch"%string in let p := svid "processor"%string in
  let h := [PSup (EReturn [e] RErr); PSup (EProcDied [e] RErr); PSup EGC; PSup (EBackoff [e]); PSup (EProcSchedule [e]); PRoot false; PPanic [e; 7]] in
  Forall (foreign_static node_tree p) h /\
  exists s, sm_out (settle sup_done_ready_needs_exit node_tree all_flags 40 (sim_init 0)) = PRun s /\ find [p] (s_tree (p_sup s)) <> None /\
            forallb (fun q => negb (wanted (n_state (snd q)))) (s_tree (p_sup s)) = true /\
            exists s', node_run all_flags (firstn 5 h) s = PRun s' /\ running [e] (p_sup s') = 1%nat.
Proof.
  vm_compute. split; [repeat constructor; discriminate|]. eexists. split; [reflexivity|]. split; [discriminate|]. split; [reflexivity|]. eexists. split; reflexivity.
Qed.

Print Assumptions C18_at_most_one_instance.
Print Assumptions C18_invariant.
Print Assumptions C18_no_supervisor_panic.
Print Assumptions C18_scheduled_only_when_subtree_idle.
Print Assumptions C18_unexpected_exit.
Print Assumptions C18_restart_goes_through.
Print Assumptions C18_gc_restarts_exactly_the_marked.
Print Assumptions C18_gc_leaves_others.
Print Assumptions C18_completed_left_alone.
Print Assumptions C18_kill_cancels_everything.
Print Assumptions C18_nothing_processed_after_kill.
Print Assumptions C18_no_starts_after_kill.
Print Assumptions C18_done_exit_in_flight_refuted_processor_panic.
Print Assumptions C18_done_exit_in_flight_refuted_two_instances.
Print Assumptions C18_restart_refuted_below_completed_group_member.
Print Assumptions node_tree_ok.
Print Assumptions C18_node_at_most_one_instance.
Print Assumptions C18_node_one_instance_per_service_function.
Print Assumptions C18_node_groups_are_the_run_statements.
Print Assumptions C18_node_service_exit_cancels_nobody_else.
Print Assumptions C18_node_service_restarts.
Print Assumptions C18_node_restart_condition.
Print Assumptions C18_node_isolation.
Print Assumptions C18_node_isolation_over_histories.
Print Assumptions C18_node_other_service_exit_is_foreign.
Print Assumptions C18_node_kill_needs_root_cancel.
Print Assumptions C18_node_no_starts_after_kill.
Print Assumptions C18_node_root_wait_returns_only_after_kill.
Print Assumptions C18_node_root_failure_cancels_every_service.
Print Assumptions C18_node_root_restart_drops_the_tree.
