(* C18 — supervised services restart after failure and never run twice at once (partial by nature).
   Model: model/Supervisor.v — node/pkg/supervisor as atomic events: one handler call of the processor goroutine (processSchedule,
   processDied, processGC, processKill), one call of a runnable into the supervisor (Signal, RunGroup; all under the supervisor
   mutex), a runnable returning, a back-off sleeper waking up.  Everything in flight outside the tree is a token (pending schedule
   request, sleeper, running instance, pending died request).  The theorems quantify over ALL event sequences: every delivery order
   of the requests, every behaviour of the runnables (any calls in any state, returning nil / their context's error / an error /
   panicking, with or without having signalled), every tree shape and depth.  Whether a DONE node is restartable only once its
   runnable has exited is read from processGC (gen/Extracted.v: sup_done_ready_needs_exit). *)
From Coq Require Import List ZArith Lia Bool Arith.
From WH Require Import gen.Extracted model.Supervisor proofs.SupervisorProofs.
Import ListNotations.
Open Scope Z_scope.

Notation sup_run := (run sup_done_ready_needs_exit).
Notation sup_step := (step sup_done_ready_needs_exit).

(* (1) AT NO TIME DO TWO INSTANCES OF THE SAME SERVICE RUN CONCURRENTLY — after every history, for every service *)
Theorem C18_at_most_one_instance : forall evs s d, sup_run evs init = Ok s -> (running d s <= 1)%nat.
Proof. exact at_most_one_instance. Qed.

(* (1') the bookkeeping behind it, and the supervisor's own goroutine never panics (nodeByDN always finds the node), nor does a
   runnable's call panic with the mutex held *)
Theorem C18_invariant : forall evs s, sup_run evs init = Ok s -> Inv s.
Proof. exact (fun evs s => run_inv evs init s inv_init). Qed.

Theorem C18_no_supervisor_panic : forall evs, sup_run evs init <> ProcessorPanic /\ sup_run evs init <> LockedPanic.
Proof. exact (fun evs => run_no_panic evs init inv_init). Qed.

(* (2) a node is scheduled (again) only when no instance of it or of anything below it is running, and nothing but this one
   schedule request is in flight for that subtree: the previous instances have all returned and their exits have been processed *)
Theorem C18_scheduled_only_when_subtree_idle : forall evs s d s',
  sup_run evs init = Ok s -> sup_step s (EProcSchedule d) = Ok s' ->
  forall d', is_prefix d d' = true -> running d' s = 0%nat /\ (forall k, In (d', k) (s_toks s) -> d' = d /\ k = TSched).
Proof. exact scheduled_only_when_subtree_idle. Qed.

(* (3) THE RESTART RULE.  (a) A service returns (nil, an error, a captured panic; or its context's error while its context is not
   cancelled) other than "completed and nil": the node is DEAD, its context and the contexts of the other members of its group are
   cancelled, nobody else's cancel function is called. *)
Theorem C18_unexpected_exit : forall d k t t' i, NoDup (map fst t) -> proc_died d k t = Some t' -> find d t = Some i ->
  ~ (n_state i = SDone /\ k = RNil) -> ~ (cancelled d t = true /\ k = RCtx) ->
  (exists j, find d t' = Some j /\ n_state j = SDead /\ n_flag j = true /\ n_exited j = true) /\
  (forall x a, find x t = Some a -> x <> d ->
     exists a', find x t' = Some a' /\ n_state a' = n_state a /\
       n_flag a' = (n_flag a || match d with [] => false | _ => sibling_of d (n_group i) x a end)).
Proof. exact died_unexpected. Qed.

(* (b) As long as the supervisor has not been shut down: a DEAD or CANCELED node whose whole subtree has exited, whose parent's
   context is live and which has no such ancestor ([can]) is reset by the next GC (NEW, fresh context, descendants dropped), its
   sleeper offers the schedule request after the back-off (a back-off only after a death), and the runnable is started: one instance. *)
Theorem C18_restart_goes_through : forall evs s d i,
  sup_run evs init = Ok s -> s_killed s = false -> find d (s_tree s) = Some i -> can sup_done_ready_needs_exit d i (s_tree s) = true ->
  exists s', sup_run [EGC; EBackoff d; EProcSchedule d] s = Ok s' /\ running d s' = 1%nat /\
             (exists j, find d (s_tree s') = Some j /\ n_state j = SNew /\ n_flag j = false).
Proof. exact restart_goes_through. Qed.

Theorem C18_gc_restarts_exactly_the_marked : forall t d i, NoDup (map fst t) -> find d t = Some i -> can sup_done_ready_needs_exit d i t = true ->
  find d (fst (gc sup_done_ready_needs_exit t)) = Some (reset_info i) /\
  In (d, TSleep (match n_state i with SDead => true | _ => false end)) (snd (gc sup_done_ready_needs_exit t)) /\
  (forall x, strict_prefix d x = true -> find x (fst (gc sup_done_ready_needs_exit t)) = None).
Proof. exact gc_restarts. Qed.

Theorem C18_gc_leaves_others : forall t x,
  below_target (gc_targets sup_done_ready_needs_exit t) x = false -> is_target (gc_targets sup_done_ready_needs_exit t) x = false ->
  find x (fst (gc sup_done_ready_needs_exit t)) = find x t.
Proof. exact gc_leaves_others. Qed.

(* (4) A SERVICE THAT SIGNALLED COMPLETION IS LEFT ALONE: once a DONE node's runnable has returned nil (exit processed), no event
   changes it or puts anything in flight for it — except a GC that restarts a subtree it lies strictly inside *)
Theorem C18_completed_left_alone : forall s e s' d, Inv s -> completed (s_tree s) d -> sup_step s e = Ok s' ->
  (completed (s_tree s') d /\ tok d (s_toks s') = 0%nat) \/ (e = EGC /\ below_target (gc_targets sup_done_ready_needs_exit (s_tree s)) d = true).
Proof. exact completed_left_alone. Qed.

(* (5) CANCELLING THE SUPERVISOR'S CONTEXT STOPS EVERY SERVICE WITHOUT FURTHER RESTARTS: processKill cancels every context, the
   processor handles nothing afterwards, and from then on the number of running instances of any service only goes down *)
Theorem C18_kill_cancels_everything : forall s s', sup_step s EKill = Ok s' ->
  s_killed s' = true /\ forall d i, find d (s_tree s') = Some i -> n_flag i = true /\ cancelled d (s_tree s') = true.
Proof. exact (kill_cancels_everything sup_done_ready_needs_exit). Qed.

Theorem C18_nothing_processed_after_kill : forall s, s_killed s = true ->
  (forall d, sup_step s (EProcSchedule d) = Disabled) /\ (forall d k, sup_step s (EProcDied d k) = Disabled) /\ sup_step s EGC = Disabled /\ sup_step s EKill = Disabled.
Proof. exact (after_kill sup_done_ready_needs_exit). Qed.

Theorem C18_no_starts_after_kill : forall evs s s' d, s_killed s = true -> sup_run evs s = Ok s' -> s_killed s' = true /\ (running d s' <= running d s)%nat.
Proof. exact (no_starts_after_kill sup_done_ready_needs_exit). Qed.

(* (6) what the repair is for: with `curReady = true` for DONE nodes (the code before 981ee38) a runnable that signalled Done and is
   still on its way out does not hold back the restart of its parent: processor panic, or two live instances *)
Theorem C18_done_exit_in_flight_refuted_processor_panic :
  run false (done_late_history ++ [EReturn [1; 2] RNil; EProcDied [1; 2] RNil]) init = ProcessorPanic.
Proof. exact done_in_flight_processor_panic. Qed.

Theorem C18_done_exit_in_flight_refuted_two_instances :
  exists s, run false (done_late_history ++ [EBackoff [1]; EProcSchedule [1]; ERunGroup [1] [2]; EProcSchedule [1; 2]]) init = Ok s /\ running [1; 2] s = 2%nat.
Proof. exact done_in_flight_two_instances. Qed.

(* (7) RECORDED (open finding): "the service is started again" is refuted for services below a completed member of a group whose
   sibling failed: w is CANCELED below d's cancelled context, d (DONE) is left alone, the failed f is running again — and the GC
   has nothing to do, however often it runs *)
Theorem C18_restart_refuted_below_completed_group_member :
  exists s, sup_run orphan_history init = Ok s /\ s_killed s = false /\
    option_map n_state (find [3; 5] (s_tree s)) = Some SCanceled /\ option_map n_state (find [3] (s_tree s)) = Some SDone /\
    cancelled [3] (s_tree s) = true /\ running [4] s = 1%nat /\ running [] s = 1%nat /\
    s_toks s = [([4], TInst); ([], TInst)] /\
    forall n, sup_run (repeat EGC n) s = Ok s.
Proof. exact below_completed_group_member_never_restarted. Qed.

(* non-vacuity: a history with a group of two, a failure, the sibling's cancellation, the GC restarting both *)
Definition ex_history : list ev :=
  [EProcSchedule []; ERunGroup [] [1; 2]; ESignalHealthy []; EProcSchedule [2]; EProcSchedule [1]; ESignalHealthy [1]; ESignalHealthy [2];
   EReturn [1] RErr; EProcDied [1] RErr; EReturn [2] RCtx; EProcDied [2] RCtx].
Example C18_example :
  exists s, sup_run ex_history init = Ok s /\ s_killed s = false /\
    option_map n_state (find [1] (s_tree s)) = Some SDead /\ option_map n_state (find [2] (s_tree s)) = Some SCanceled /\
    (exists i, find [1] (s_tree s) = Some i /\ can sup_done_ready_needs_exit [1] i (s_tree s) = true) /\
    (exists i, find [2] (s_tree s) = Some i /\ can sup_done_ready_needs_exit [2] i (s_tree s) = true) /\
    gc_targets sup_done_ready_needs_exit (s_tree s) = [([1], true); ([2], false)] /\
    running [] s = 1%nat.
Proof. eexists. split; [vm_compute; reflexivity|]. vm_compute. repeat split; try reflexivity; eexists; split; reflexivity. Qed.

Print Assumptions C18_at_most_one_instance.
Print Assumptions C18_invariant.
Print Assumptions C18_no_supervisor_panic.
Print Assumptions C18_scheduled_only_when_subtree_idle.
Print Assumptions C18_unexpected_exit.
Print Assumptions C18_restart_goes_through.
Print Assumptions C18_gc_restarts_exactly_the_marked.
Print Assumptions C18_gc_leaves_others.
Print Assumptions C18_completed_left_alone.
Print Assumptions C18_kill_cancels_everything.
Print Assumptions C18_nothing_processed_after_kill.
Print Assumptions C18_no_starts_after_kill.
Print Assumptions C18_done_exit_in_flight_refuted_processor_panic.
Print Assumptions C18_done_exit_in_flight_refuted_two_instances.
Print Assumptions C18_restart_refuted_below_completed_group_member.
