(* C18 — placeholder while the proofs are being written: witnesses only (replaced below) *)
From Coq Require Import List ZArith Bool Arith.
From WH Require Import gen.Extracted model.Supervisor.
Import ListNotations.
Open Scope Z_scope.
Theorem C18_placeholder : run sup_done_ready_needs_exit [] init = Ok init.
Proof. reflexivity. Qed.
Print Assumptions C18_placeholder.
