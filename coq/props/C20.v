(* C20 — spy subscribers receive exactly the VAAs matching their filters, independently of each other.
   Model: model/Spy.v — node/cmd/spy/spy.go as an interleaving of atomic events (channel sends / receives, critical sections of
   subsMu); the channel capacity, the form of Publish's send and the address length are read from the source (gen/Extracted.v).
   Go's map iteration order is a parameter of every Publish event: all theorems hold for every order. *)
From Coq Require Import List ZArith Lia Bool Arith.
From Coq Require Import Strings.Byte.
From WH Require Import lib.Bytes gen.Extracted model.Vaa model.Spy proofs.SpyProofs.
Import ListNotations.
Open Scope Z_scope.

Notation spy_step := (step spy_chan_cap spy_send_select_done spy_addr_len).
Notation spy_run := (run spy_chan_cap spy_send_select_done spy_addr_len).

(* (1) EXACT DELIVERY SET.  [owed alen i evs] is what the property statement owes subscription i after the history evs: nothing at
   registration, plus [owes fs b] for every Publish(b) started while it is registered (filters fs).  After ANY history from the
   empty server — any interleaving of publishes, registrations, removals, receives, any iteration orders, subscribers stalling and
   disconnecting anywhere — in which the published byte strings are decodable VAAs: whenever no Publish is in progress, every
   registered subscription whose client has not disconnected has taken out of its channel, or still holds in it, exactly the
   owed messages, in publish order, nothing else; and a reading client has been handed everything that was taken out. *)
Theorem C20_exact_delivery : forall evs s,
  spy_run evs init = Some s -> Forall decodable_ev evs -> pub s = None ->
  forall i x, lookup i (subs s) = Some x -> s_state x <> Gone ->
    exists acc, owed spy_addr_len i evs = Some (s_filters x, acc) /\ s_taken x ++ s_chan x = acc /\
                (s_state x = Reading -> s_got x = s_taken x).
Proof. exact (exact_delivery spy_chan_cap spy_send_select_done spy_addr_len). Qed.

(* (1') what is owed, in the property's words: for a decodable VAA with emitter (c, a), a subscription is owed the bytes iff it has
   no filters or one of its filters is (c, a); nothing but those bytes; and — the recorded quirk — one copy PER matching filter *)
Theorem C20_owed_iff_matching : forall fs b c a, emitter_of b = Some (c, a) ->
  (In b (owes fs b) <-> fs = [] \/ exists f, In f fs /\ f_chain f = c /\ f_addr f = a) /\
  (forall m, In m (owes fs b) -> m = b) /\
  length (owes fs b) = match fs with [] => 1%nat | _ => length (filter (fmatch c a) fs) end.
Proof. exact owes_spec. Qed.

(* (1'') the loop of Publish computes exactly that for every iteration order, and returns nil *)
Theorem C20_publish_plan_decodable : forall c a l, NoDup (map fst l) ->
  snd (plan (Some (c, a)) l) = false /\
  forall i s, lookup i l = Some s ->
    zcount i (fst (plan (Some (c, a)) l)) = match s_filters s with [] => 1%nat | fs => length (filter (fmatch c a) fs) end.
Proof. exact plan_decodable. Qed.

(* (1''') recorded quirk: bytes that do not decode are sent to the filterless subscriptions iterated before the first one with
   filters, to nobody else, and Publish returns the error iff some subscription has filters *)
Theorem C20_publish_plan_undecodable : forall l,
  plan None l = (before_filtered l, existsb (fun p => match s_filters (snd p) with [] => false | _ => true end) l).
Proof. exact plan_undecodable. Qed.

(* (2) ISOLATION, the part that holds: as long as no CONNECTED subscriber has stopped reading, from every reachable state (a
   Publish in progress, disconnected subscribers with full channels, ...) every schedule of the goroutines, with further clients
   disconnecting at arbitrary moments, inevitably reaches — within [mu s] events — a state in which Publish has returned, every
   disconnected subscriber has been removed and every reading client has been handed all that was queued for it; there a new
   registration goes through.  Needs the send to give up on finished streams (spy_send_select_done = true, from the source)
   and a buffered channel. *)
Theorem C20_isolation_partial : forall evs s,
  spy_run evs init = Some s -> no_stalled s -> completes spy_chan_cap spy_send_select_done spy_addr_len s.
Proof. exact (fun evs s => isolation_no_stalled spy_chan_cap spy_send_select_done spy_addr_len (proj1 (Nat.leb_le 1 spy_chan_cap) eq_refl) evs s eq_refl). Qed.

Theorem C20_quiescent_then_registration : forall s i rs fs,
  pub s = None -> lookup i (subs s) = None -> parse_filters spy_addr_len rs = Some fs ->
  spy_step s (ESubscribe i rs) = Some (set_subs s (subs s ++ [(i, new_sub fs)])).
Proof. exact (subscribe_enabled spy_chan_cap spy_send_select_done spy_addr_len). Qed.

Theorem C20_event_budget : forall s e s', spy_step s e = Some s' -> quiet e = true -> (mu s' < mu s)%nat.
Proof. exact (step_mu spy_chan_cap spy_send_select_done spy_addr_len (proj1 (Nat.leb_le 1 spy_chan_cap) eq_refl)). Qed.

(* (2') ISOLATION AS STATED IS REFUTED (open finding): a connected subscriber that stops reading.  For the extracted capacity (and
   indeed every capacity >= 1), with or without the select: subscribe 1 and 2, 1 stops reading, cap+2 publishes — a reachable
   state in which no goroutine can move, Publish holds the mutex forever, the copy owed to the reading subscriber 2 is never
   sent, and neither a registration nor another Publish can happen. *)
Theorem C20_isolation_refuted_stalled_subscriber : forall b : bytes,
  exists evs s, spy_run evs init = Some s /\ dead spy_chan_cap spy_send_select_done spy_addr_len s /\
    (exists x, lookup 1 (subs s) = Some x /\ s_state x = Stalled) /\
    (exists x, lookup 2 (subs s) = Some x /\ s_state x = Reading /\ s_filters x = [] /\ In 2 (plan_of s)).
Proof. exact (fun b => stalled_subscriber_blocks_everyone spy_chan_cap spy_send_select_done spy_addr_len b (proj1 (Nat.leb_le 1 spy_chan_cap) eq_refl)). Qed.

(* (2'') what the repaired send is for: with a bare `sub.ch <- msg` a subscriber that DISCONNECTS while Publish waits on its
   full channel deadlocks the server (its deferred removal needs the mutex Publish holds); with the select the same history
   completes *)
Theorem C20_bare_send_refuted_gone_subscriber :
  exists s, run 1 false 32 (gone_history [x01]) init = Some s /\ dead 1 false 32 s /\
            (exists x, lookup 1 (subs s) = Some x /\ s_state x = Gone /\ s_phase x = PExit) /\ no_stalled s.
Proof. exact gone_subscriber_deadlock_without_select. Qed.

Theorem C20_select_send_gone_subscriber_completes :
  exists s, run 1 true 32 (gone_history [x01]) init = Some s /\ completes 1 true 32 s.
Proof. exact gone_subscriber_completes_with_select. Qed.

(* non-vacuity: a history with a filtered and an unfiltered subscriber and a real VAA encoding *)
Definition ex_vaa : vaa :=
  {| version := 1; gsidx := 0; sigs := []; ts := 1; tns := 0; nonce := 2; echain := 2; tchain := 0;
     eaddr := repeat x00 31 ++ [x07]; seq := 9; cl := 1; payload := [x01] |}.
Definition ex_addr : bytes := repeat x00 31 ++ [x07].
Definition ex_history : list ev :=
  [ESubscribe 1 []; ESubscribe 2 [(2, Some ex_addr); (2 + 65536, Some ex_addr)]; ESubscribe 3 [(3, Some ex_addr)];
   EPubStart (marshal ex_vaa) [3; 1; 2]; EPubSend; EPubSend; ERecv 2; EPubSend; EPubEnd; ERecv 1; ERecv 2].
Example C20_example :
  emitter_of (marshal ex_vaa) = Some (2, ex_addr) /\
  Forall decodable_ev ex_history /\
  (exists s, spy_run ex_history init = Some s /\ pub s = None /\ no_stalled s /\
     option_map s_got (lookup 1 (subs s)) = Some [marshal ex_vaa] /\
     option_map s_got (lookup 2 (subs s)) = Some [marshal ex_vaa; marshal ex_vaa] /\
     option_map s_got (lookup 3 (subs s)) = Some []) /\
  owes [] (marshal ex_vaa) = [marshal ex_vaa].
Proof.
  assert (E : emitter_of (marshal ex_vaa) = Some (2, ex_addr)) by (vm_compute; reflexivity).
  split; [exact E|]. split.
  - repeat constructor. cbn [decodable_ev]. rewrite E. discriminate.
  - split; [|vm_compute; reflexivity]. eexists. split; [vm_compute; reflexivity|]. split; [reflexivity|]. split; [|vm_compute; repeat split; reflexivity].
    intros i x. cbn [subs lookup]. destruct (i =? 1); [intros H; inversion H; discriminate|].
    destruct (i =? 2); [intros H; inversion H; discriminate|]. destruct (i =? 3); [intros H; inversion H; discriminate|discriminate].
Qed.

Print Assumptions C20_exact_delivery.
Print Assumptions C20_owed_iff_matching.
Print Assumptions C20_publish_plan_decodable.
Print Assumptions C20_publish_plan_undecodable.
Print Assumptions C20_isolation_partial.
Print Assumptions C20_quiescent_then_registration.
Print Assumptions C20_event_budget.
Print Assumptions C20_isolation_refuted_stalled_subscriber.
Print Assumptions C20_bare_send_refuted_gone_subscriber.
Print Assumptions C20_select_send_gone_subscriber_completes.
