(* C14 — Pending attestations are retried, then expired, on a bounded schedule.
   [cleanup_entry now in_db cur_known e] (WH.model.Processor) is what one cleanup tick at instant [now] (nanoseconds) does to one
   aggregation entry: keep it (possibly re-flagged, with outputs), delete it, or panic.  Its thresholds are the constants
   extracted from cleanup.go on every run; the statements below carry the human-scale literals, so a changed constant, comparison
   or switch order makes this file fail.  [handle_cleanup] applies it to every entry of the map ([C14_tick_applies_per_entry]). *)
From Coq Require Import List ZArith Bool Lia.
From Coq Require Import Strings.Byte.
From WH Require Import lib.Bytes gen.Extracted model.Vaa model.Processor proofs.ProcCleanupProofs.
Import ListNotations.
Open Scope Z_scope.

(* every entry of every reachable state is of one of the three kinds the property speaks about *)
Theorem C14_kinds_are_exhaustive :
  forall recover keccak sign own gov_chain gov_addr ops h e,
    In (h, e) (agg (fst (run recover keccak sign own gov_chain gov_addr init ops))) ->
    submitted e = true \/ (exists o v, pending_own e o v) \/
    (unobserved e /\ cur (fst (run recover keccak sign own gov_chain gov_addr init ops)) <> None).
Proof. exact reachable_entry_kinds. Qed.

(* a message the node has signed and that still lacks quorum is not discarded before its retry budget (14400) is spent,
   unless a quorum VAA for it is already in the store — at any instant, however long the stall before the tick *)
Theorem C14_pending_own_entry_is_kept :
  forall now ck e o v, pending_own e o v -> retries e < 14400 ->
  exists e' out, cleanup_entry now false ck e = CKeep e' out /\ our_msg e' = Some o /\ our_vaa e' = Some v /\ submitted e' = false /\
                 retries e <= retries e' <= retries e + 1.
Proof. exact (own_pending_kept eq_refl). Qed.

(* it is retried exactly when it is >= 5 min old and the previous retry is >= 5 min ago: own observation re-broadcast, a
   re-observation request for the originating transaction on the emitter chain, retry counted, instant remembered *)
Theorem C14_retry_exactly_when_due :
  forall now ck e o v, pending_own e o v -> settled e = true -> retries e < 14400 ->
  cleanup_entry now false ck e =
  if retry_due now e then CKeep (set_retried e now) [ObsReq (echain v mod 2 ^ 32) (txh e); SendObs o] else CKeep e [].
Proof. exact own_pending_retry_iff. Qed.

Theorem C14_retries_at_least_five_minutes_apart :
  forall now ck e o v t, pending_own e o v -> settled e = true -> retries e < 14400 ->
  last_retry e = Some t -> now - t < 300 * sec -> cleanup_entry now false ck e = CKeep e [].
Proof. exact no_retry_within_five_minutes. Qed.

(* with the ticker period extracted from processor.go (30 s): the next retry comes less than 5 min 30 s after the previous one *)
Theorem C14_retry_within_five_and_a_half_minutes :
  forall prev now ck e o v t, pending_own e o v -> settled e = true -> retries e < 14400 ->
  last_retry e = Some t -> 300 * sec <= age now e ->
  prev - t < 300 * sec -> now - prev <= proc_tick_ns -> 300 * sec <= now - t ->
  cleanup_entry now false ck e = CKeep (set_retried e now) [ObsReq (echain v mod 2 ^ 32) (txh e); SendObs o] /\ now - t < 330 * sec.
Proof. exact retry_within_five_and_a_half_minutes. Qed.

Theorem C14_pending_own_entry_with_stored_vaa_is_dropped :
  forall now ck e o v, pending_own e o v -> 30 * sec < age now e -> cleanup_entry now true ck e = CDelete.
Proof. exact own_pending_with_stored_vaa_dropped. Qed.

(* bounded life of a pending own entry: after at most 14400 due ticks (each >= 5 min after the previous) plus one it is gone,
   whatever the store says in between *)
Theorem C14_pending_own_entry_dies_when_budget_spent :
  forall n ticks ck e o v, pending_own e o v -> settled e = true -> 0 <= retries e -> retries e + Z.of_nat n = 14400 ->
  all_due (first_seen e) (last_retry e) ticks -> length ticks = S n -> life e ck ticks = None.
Proof. exact own_pending_dies_when_budget_spent. Qed.

(* signatures for messages the node never observed: gone at the first or second tick once five minutes old *)
Theorem C14_unobserved_entry_gone_after_five_minutes :
  forall now1 now2 indb1 indb2 e, unobserved e -> 300 * sec <= age now1 e -> now1 <= now2 ->
  cleanup_entry now1 indb1 true e = CDelete \/
  (exists e', cleanup_entry now1 indb1 true e = CKeep e' [] /\ cleanup_entry now2 indb2 true e' = CDelete).
Proof. exact (unobserved_gone_after_two_ticks eq_refl). Qed.

(* completed entries: gone at the first or second tick once an hour old; kept (untouched) before that once settled *)
Theorem C14_completed_entry_gone_after_an_hour :
  forall now1 now2 indb1 indb2 ck1 ck2 e, submitted e = true -> 3600 * sec <= age now1 e -> now1 <= now2 ->
  cleanup_entry now1 indb1 ck1 e = CDelete \/
  (exists e', cleanup_entry now1 indb1 ck1 e = CKeep e' [] /\ cleanup_entry now2 indb2 ck2 e' = CDelete).
Proof. exact (submitted_gone_after_two_ticks eq_refl). Qed.

Theorem C14_completed_entry_kept_for_an_hour :
  forall now indb ck e, submitted e = true -> settled e = true -> age now e < 3600 * sec -> cleanup_entry now indb ck e = CKeep e [].
Proof. exact submitted_kept_for_an_hour. Qed.

(* the tick applies the per-entry function to every entry of the aggregation map and emits its outputs *)
Theorem C14_tick_applies_per_entry :
  forall st now l h e, In (h, e) l ->
  match cleanup_entry now (in_db_of st e) (match cur st with Some _ => true | None => false end) e with
  | CKeep e' o => In (h, e') (fst (cleanup_all st now l)) /\ incl o (snd (cleanup_all st now l))
  | CDelete => True
  | CPanic => In (Panic PanicNilGuardianSet) (snd (cleanup_all st now l))
  end.
Proof. exact cleanup_all_entry. Qed.

(* non-vacuity: a concrete pending own entry, 6 minutes old, settled, never retried: the tick retries it *)
Definition ex_v : vaa := {| version := 1; gsidx := 0; sigs := []; ts := 0; tns := 0; nonce := 0; echain := 2; tchain := 0;
                            eaddr := repeat x00 32; seq := 1; cl := 1; payload := [x01] |}.
Definition ex_o : obs := {| o_addr := repeat x01 20; o_hash := repeat x00 32; o_sig := repeat x00 65; o_tx := [x09] |}.
Definition ex_e : entry := {| first_seen := 0; our_vaa := Some ex_v; our_msg := Some ex_o; txh := [x09]; gs_snap := None; esigs := [];
                              submitted := false; settled := true; retries := 0; last_retry := None; from_chain := true |}.
Example C14_example_retry :
  pending_own ex_e ex_o ex_v /\ retry_due (360 * sec) ex_e = true /\
  cleanup_entry (360 * sec) false true ex_e = CKeep (set_retried ex_e (360 * sec)) [ObsReq 2 [x09]; SendObs ex_o].
Proof. repeat split; vm_compute; reflexivity. Qed.

Print Assumptions C14_kinds_are_exhaustive.
Print Assumptions C14_pending_own_entry_is_kept.
Print Assumptions C14_retry_exactly_when_due.
Print Assumptions C14_retries_at_least_five_minutes_apart.
Print Assumptions C14_retry_within_five_and_a_half_minutes.
Print Assumptions C14_pending_own_entry_with_stored_vaa_is_dropped.
Print Assumptions C14_pending_own_entry_dies_when_budget_spent.
Print Assumptions C14_unobserved_entry_gone_after_five_minutes.
Print Assumptions C14_completed_entry_gone_after_an_hour.
Print Assumptions C14_completed_entry_kept_for_an_hour.
Print Assumptions C14_tick_applies_per_entry.

(* ================================================================== extension X7: the cleanup tick INSIDE the re-observation loop =====
   model/ReobsLoop.v feeds the [ObsReq chain tx] output of this tick through PostObservationRequest / obsvReqSendC, p2p's request
   goroutine (local delivery + signed publication), the dispatcher (C17), an oracle for the watchers' re-observation paths (C08 / C10)
   and back into the processor's handle_message, on ONE clock; see props/C17.v for the vocabulary and the dispatcher-side theorems
   (projection, at most one forward per 11 min whatever peers gossip, network hop); the cadence bound of 23 min 30 s is below.  [pending_at st h c tx]: the entry of digest h is a signed,
   unsubmitted, settled entry with budget left, no quorum VAA stored, at least five minutes old; c / tx = what its request carries.
   [lretried st h]: the cleanup step taken in st retries that entry. *)
From WH Require Import gen.ExtractedWiring gen.ExtractedP2P model.ProcSpec model.ReobsLoop proofs.ProcC02Proofs proofs.SystemLiveProofs proofs.ReobsLoopBase proofs.ReobsLoopProofs proofs.ReobsLoopExamples.

(* the cleanup step of the composition IS this model's tick evaluated at the node's clock reading: per entry [cleanup_entry]; the
   tick's outputs are in the trace; every request it emits is posted to obsvReqSendC (queued, or ErrChanFull recorded) *)
Theorem C14_loop_cleanup_step_is_the_tick :
  forall recover keccak sign own gov_chain gov_addr decode_hb decodeq encq self disable watch st,
  let lstep := lstep recover keccak sign own gov_chain gov_addr decode_hb decodeq encq self disable watch in
  KeysND (l_proc st) -> let st' := fst (lstep st LCleanup) in let p := l_proc st in let now := l_now st in
  (forall h, alookup h (agg (l_proc st')) =
     match alookup h (agg p) with
     | None => None
     | Some e => match cleanup_entry now (in_db_of p e) (ckb p) e with CKeep e' _ => Some e' | CDelete => None | CPanic => Some e end
     end) /\
  cur (l_proc st') = cur p /\ db (l_proc st') = db p /\ l_now st' = now /\ l_disp st' = l_disp st /\
  In (now, EProc Cleanup (snd (tick_of p now))) (snd (lstep st LCleanup)) /\
  (forall r, In r (flat_map req_of_out (snd (tick_of p now))) -> In r (l_sendq st') \/ In (now, EPost r Reobserve.PostErrChanFull) (snd (lstep st LCleanup))) /\
  incl (l_sendq st) (l_sendq st').
Proof. exact lcleanup_effect. Qed.

(* a cleanup tick at which the retry of a pending message is due finds it done: that tick retries it (a request for its transaction
   on its chain goes out), unless an earlier tick of the stretch already did *)
Theorem C14_loop_due_tick_retries :
  forall recover keccak sign own gov_chain gov_addr decode_hb decodeq encq self disable watch h c tx H1 st0,
  let lrun := lrun recover keccak sign own gov_chain gov_addr decode_hb decodeq encq self disable watch in
  let lstates := lstates recover keccak sign own gov_chain gov_addr decode_hb decodeq encq self disable watch in
  LInv st0 -> lmono (l_now st0) (H1 ++ [LCleanup]) ->
  (forall s, In (s, LCleanup) (lstates st0 (H1 ++ [LCleanup])) -> pending_at s h c tx) ->
  (forall e L, alookup h (agg (l_proc st0)) = Some e -> last_retry e = Some L -> L + proc_retry_ns <= l_now (fst (lrun st0 H1))) ->
  exists s, In (s, LCleanup) (lstates st0 (H1 ++ [LCleanup])) /\ lretried s h = true.
Proof. exact retry_by_due_tick. Qed.

(* a request waiting in obsvReqSendC reaches the local dispatcher at the clock reading at which it waits, if p2p's goroutine keeps up *)
Theorem C14_loop_posted_request_reaches_the_dispatcher :
  forall recover keccak sign own gov_chain gov_addr decode_hb decodeq encq self disable watch H st r,
  In r (l_sendq st) -> drained recover keccak sign own gov_chain gov_addr decode_hb decodeq encq self disable watch st H ->
  exists s x, In (l_now st, EDisp s (Reobserve.Req r (l_now st)) x)
                 (snd (lrun recover keccak sign own gov_chain gov_addr decode_hb decodeq encq self disable watch st H)).
Proof. exact pumped. Qed.

(* (b) NO AMPLIFICATION at the processor: within one lifetime of its entry, a message retried at L is retried again no earlier than
   L + 5 min - one request per pending message per retry period, however often the ticker fires and whatever else happens *)
Theorem C14_loop_retries_at_least_the_period_apart :
  forall recover keccak sign own gov_chain gov_addr decode_hb decodeq encq self disable watch h H2 st1 e1,
  let lrun := lrun recover keccak sign own gov_chain gov_addr decode_hb decodeq encq self disable watch in
  LInv st1 -> lmono (l_now st1) (H2 ++ [LCleanup]) ->
  alive recover keccak sign own gov_chain gov_addr decode_hb decodeq encq self disable watch st1 (H2 ++ [LCleanup]) h ->
  alookup h (agg (l_proc st1)) = Some e1 ->
  forall L, last_retry e1 = Some L -> lretried (fst (lrun st1 H2)) h = true -> proc_retry_ns <= l_now (fst (lrun st1 H2)) - L.
Proof. exact loop_retries_period_apart. Qed.

(* (e) BUDGET: along every history the retry counter of every entry stays within the extracted budget (14400), and the number of
   retries - requests - of one message within one lifetime of its entry is exactly the growth of its counter *)
Theorem C14_loop_retry_counter_within_budget :
  forall recover keccak sign own gov_chain gov_addr decode_hb decodeq encq self disable watch H st,
  LInv st -> lmono (l_now st) H -> budget_ok (l_proc st) ->
  budget_ok (l_proc (fst (lrun recover keccak sign own gov_chain gov_addr decode_hb decodeq encq self disable watch st H))).
Proof. exact loop_budget. Qed.
Theorem C14_loop_requests_per_message_are_counted :
  forall recover keccak sign own gov_chain gov_addr decode_hb decodeq encq self disable watch h H st e e',
  LInv st -> lmono (l_now st) H -> alive recover keccak sign own gov_chain gov_addr decode_hb decodeq encq self disable watch st H h ->
  alookup h (agg (l_proc st)) = Some e ->
  alookup h (agg (l_proc (fst (lrun recover keccak sign own gov_chain gov_addr decode_hb decodeq encq self disable watch st H)))) = Some e' ->
  nretries h (lstates recover keccak sign own gov_chain gov_addr decode_hb decodeq encq self disable watch st H) = retries e' - retries e.
Proof. exact loop_retry_count. Qed.
Theorem C14_loop_budget_is_14400 : proc_own_retry_budget = 14400 /\ budget_ok (l_proc linit).
Proof. split; [reflexivity|intros h e X; discriminate X]. Qed.

(* (c) SAFETY THROUGH THE LOOP: over every history from the initial state - any requests, of any peer, for any transaction, at any
   rate - every chain message the processor handles was handed over by the environment (a watcher's polling path) or is in the answer
   of the re-observation path of watcher c to a request naming chain c; with the watchers' contract (C08 / C10: only final messages)
   every such message is final; the processor signs only while handling a chain message / injection (the tick re-broadcasts), and
   handling a chain message never publishes a VAA (re-observing an already signed message: same digest by C02, no second publication) *)
Theorem C14_loop_signs_only_what_watchers_forward :
  forall recover keccak sign own gov_chain gov_addr decode_hb decodeq encq self disable watch H u m outs,
  In (u, EProc (LocalMsg m) outs) (snd (lrun recover keccak sign own gov_chain gov_addr decode_hb decodeq encq self disable watch linit H)) ->
  (exists s, In (s, LEnv (VMsg m)) (lstates recover keccak sign own gov_chain gov_addr decode_hb decodeq encq self disable watch linit H)) \/
  (exists s c r, In (s, LWatch c) (lstates recover keccak sign own gov_chain gov_addr decode_hb decodeq encq self disable watch linit H) /\
                 Reobserve.chain_of r = c /\ In m (watch c r (l_now s))).
Proof. exact loop_signs_only_watched. Qed.
Theorem C14_loop_signs_only_final_messages :
  forall recover keccak sign own gov_chain gov_addr decode_hb decodeq encq self disable watch (Final : Z -> msgpub -> Prop) (FinalEnv : msgpub -> Prop) H,
  (forall c r t m, Reobserve.chain_of r = c -> In m (watch c r t) -> Final c m) ->
  (forall s m, In (s, LEnv (VMsg m)) (lstates recover keccak sign own gov_chain gov_addr decode_hb decodeq encq self disable watch linit H) -> FinalEnv m) ->
  forall u m outs, In (u, EProc (LocalMsg m) outs) (snd (lrun recover keccak sign own gov_chain gov_addr decode_hb decodeq encq self disable watch linit H)) ->
  FinalEnv m \/ exists c, Final c m.
Proof. exact loop_signs_only_final. Qed.
Theorem C14_loop_gossip_never_feeds_a_chain_message :
  forall recover keccak sign own gov_chain gov_addr decode_hb decodeq encq self disable watch st o u m outs,
  In (u, EProc (LocalMsg m) outs) (snd (lstep recover keccak sign own gov_chain gov_addr decode_hb decodeq encq self disable watch st o)) ->
  o = LEnv (VMsg m) \/ exists c r, o = LWatch c /\ snd (Reobserve.step (l_disp st) (Reobserve.Drain c)) = Reobserve.Drained (Some r) /\ In m (watch c r (l_now st)).
Proof. exact lstep_localmsg_source. Qed.
Theorem C14_loop_signing_sources : forall recover keccak sign own gov_chain gov_addr p o ob,
  In (SendObs ob) (snd (step recover keccak sign own gov_chain gov_addr p o)) -> (exists m, o = LocalMsg m) \/ (exists v, o = Inject v) \/ o = Cleanup.
Proof. exact sendobs_source. Qed.
Theorem C14_loop_chain_message_never_publishes : forall recover keccak sign own gov_chain gov_addr p m x,
  In x (snd (step recover keccak sign own gov_chain gov_addr p (LocalMsg m))) -> match x with SendVAA _ | Store _ _ => False | _ => True end.
Proof. exact handle_message_never_publishes. Qed.
(* the Alephium watcher's re-observation path (model/AlphPipeline.v: reobserve.go with the conversions) is an instance of the oracle,
   and C08's end-to-end theorem is its contract *)
Theorem C14_loop_alephium_watcher_contract : forall cfg EP HP AP node other,
  (forall r t, AlphPipelineBase.xop_ok cfg EP HP AP (AlphPipeline.XReobs (node r t))) ->
  forall r t m, In m (alph_watch cfg node other Extracted.alph_chain_id r t) ->
  exists f, m = AlphPipeline.xf_pub f /\ AlphPipelineRead.faithful cfg EP HP AP f /\ AlphPipelineSafety.reobs_from cfg (node r t) f /\
    AlphWatcherSafety.justified (AlphPipeline.abs_cfg cfg) (AlphPipelineBase.EPa EP) HP (AlphPipelineBase.APa AP)
      (AlphPipeline.abs_op (AlphPipeline.XReobs (node r t))) (AlphPipeline.abs_fwd f).
Proof. exact alph_watch_contract. Qed.

(* (d) RECOVERY: composition with C02's liveness.  After any history H0 of the composed node, over any continuation H without set
   change and cleanup tick at this node: G in force, nothing known about m (the node missed it), the processor handles m and signs it
   somewhere in H - C14_loop_watcher_answer_is_signed: because its watcher took a request from its queue and answered [m] -, the
   observations of the other members of a quorum arrive, the own signature has looped back: m is published *)
Theorem C14_loop_recovery :
  forall recover keccak sign own gov_chain gov_addr decode_hb decodeq encq self disable watch,
  (forall b, length (keccak b) = 32%nat) -> length own = 20%nat -> (forall d, length d = 32%nat -> rec recover d (sign d) = Some own) ->
  forall G h, In own (keys G) -> forall H0 H (signers : list addr) m,
  let lrun := lrun recover keccak sign own gov_chain gov_addr decode_hb decodeq encq self disable watch in
  let stepf := fun st o => fst (step recover keccak sign own gov_chain gov_addr st o) in
  let st0 := fst (lrun linit H0) in let st := fst (lrun st0 H) in
  let ops0 := pops (snd (lrun linit H0)) in let ops := pops (snd (lrun st0 H)) in
  Forall op_wf ops0 -> Forall op_wf ops -> forallb calm ops = true ->
  cur (l_proc st0) = Some G -> alookup h (agg (l_proc st0)) = None -> ProcSpec.gs_wf G ->
  dg keccak (vaa_of_message 0 m) = h ->
  happens stepf (ev_msg recover keccak sign own gov_chain gov_addr m) (l_proc st0) ops ->
  NoDup signers -> incl signers (keys G) -> go_quorum (Z.of_nat (length (keys G))) <= Z.of_nat (length signers) ->
  (forall a, In a signers -> a <> own -> happens stepf (ev_obs recover h a) (l_proc st0) ops) ->
  (forall o, In o (loopq (l_proc st)) -> o_hash o <> h) ->
  exists e, alookup h (agg (l_proc st)) = Some e /\ our_vaa e <> None /\ gs_snap e = Some G /\ submitted e = true.
Proof. exact loop_recovery. Qed.
Theorem C14_loop_watcher_answer_is_signed :
  forall recover keccak sign own gov_chain gov_addr decode_hb decodeq encq self disable watch st0 H1 H2 c q r rest m,
  let lrun := lrun recover keccak sign own gov_chain gov_addr decode_hb decodeq encq self disable watch in
  let s := fst (lrun st0 H1) in
  Reobserve.find_queue (Reobserve.queues (l_disp s)) c = Some q -> Reobserve.q_items q = r :: rest -> watch c r (l_now s) = [m] ->
  existsb is_sendobs (snd (step recover keccak sign own gov_chain gov_addr (l_proc s) (LocalMsg m))) = true ->
  happens (fun st o => fst (step recover keccak sign own gov_chain gov_addr st o)) (ev_msg recover keccak sign own gov_chain gov_addr m)
          (l_proc st0) (pops (snd (lrun st0 (H1 ++ LWatch c :: H2)))).
Proof. exact loop_watch_observes. Qed.

(* the network hop: what node i's request goroutine publishes for r is on the wire, and when the network delivers it to node j
   (relayed by any peer but j itself), j's receive loop verifies it against j's guardian set and j's dispatcher handles [Req r] at j's
   clock reading - provided i is a member of that set, i's signer is consistent with recovery, the request is decodable and not below
   the verifier's length floor *)
Theorem C14_loop_request_reaches_every_peer :
  forall recover keccak gov_chain gov_addr decode_hb decodeq encq disable owns signs selfs watches n i j from k r stj Gk,
  nth_error (x_nodes n) j = Some stj ->
  nth_error (x_pool n) k = Some (WReq (owns i) (encq r) (signs i (keccak (p2p_req_preimage (encq r))))) ->
  P2PVerify.n_gs (l_p2p stj) = Some Gk -> In (owns i) Gk -> bytes_to_address (owns i) = owns i -> from <> selfs j ->
  decodeq (encq r) = Some r -> p2p_req_too_short (Z.of_nat (length (encq r))) = false ->
  P2PVerify.prec recover (keccak (p2p_req_preimage (encq r))) (signs i (keccak (p2p_req_preimage (encq r)))) = Some (owns i) ->
  In (l_now stj, EDisp (l_disp stj) (Reobserve.Req r (l_now stj)) (snd (Reobserve.step (l_disp stj) (Reobserve.Req r (l_now stj)))))
     (snd (lnstep recover keccak gov_chain gov_addr decode_hb decodeq encq disable owns signs selfs watches n (XDeliver j from k))).
Proof. exact lnet_request_reaches_peer. Qed.

Theorem C14_loop_published_request_is_on_the_wire : forall keccak encq owns signs i u r evs, In (u, EPub r) evs ->
  In (WReq (owns i) (encq r) (signs i (keccak (p2p_req_preimage (encq r))))) (flat_map (wire_of keccak encq owns signs i) evs).
Proof. exact published_on_wire. Qed.


(* ---------------------------------------------------------------- computed: a node that missed the message recovers through the loop - definitions rx_* in proofs/ReobsLoopExamples.v *)
(* the node learns the set; a request for transaction 07 on chain 2 arrives (here: posted locally and pumped), is forwarded; the
   watcher answers with the message; the peer's observation arrives by gossip; the own signature loops back: published *)
Example C14_loop_recovery_computed :
  let st0 := fst (rx_run linit rx_H0) in let tr := snd (rx_run st0 rx_H) in
  map (fun e => match snd e with EDisp _ _ x => x | _ => Reobserve.Purged end) (filter (fun e => match snd e with EDisp _ _ _ => true | _ => false end) tr)
    = [Reobserve.Forward 2; Reobserve.Drained (Some {| Reobserve.r_chain := 2; Reobserve.r_tx := [x07] |})] /\
  existsb (fun e => match snd e with EWatch 2 _ [m] => true | _ => false end) tr = true /\
  existsb (fun e => match snd e with EProc (Loopback 0) outs => existsb is_bcast outs | _ => false end) tr = true /\
  forallb calm (pops tr) = true /\ alookup (repeat x00 32) (agg (l_proc st0)) = None /\ cur (l_proc st0) = Some rx_G.
Proof. exact ex_recovery_computed. Qed.

(* (a) CADENCE of the loop, upper bound B = window + purge period + retry period + cleanup ticker period = 23 min 30 s (all four
   extracted).  From any state reached with the invariant (the initial state is one), over any continuation with monotone clock, for
   any instant t: if the message of digest h (emitter chain c, transaction tx) is pending - signed, not submitted, settled, budget
   not spent, no quorum VAA stored, five minutes old - at every cleanup tick in (t, t + B], a purge tick falls in (t + 11, t + 18 min],
   cleanup ticks come at most 30 s apart in (t + 11, t + 23 min], p2p's request goroutine keeps up, and neither obsvReqSendC nor the
   watcher queue of chain c overflows, then the watcher of chain c receives a request for tx at some instant in (t, t + B] *)
Theorem C14_loop_cadence :
  forall recover keccak sign own gov_chain gov_addr decode_hb decodeq encq self disable watch H st0 h c tx t,
  let lrun := lrun recover keccak sign own gov_chain gov_addr decode_hb decodeq encq self disable watch in
  let lstates := lstates recover keccak sign own gov_chain gov_addr decode_hb decodeq encq self disable watch in
  LInv st0 -> ReobserveProofs.cache_wf (l_disp st0) -> ReobserveProofs.known (l_disp st0) (c mod 65536) ->
  (forall t', In (key_of_msg c tx, t') (Reobserve.cache (l_disp st0)) -> t' <= t) ->
  lmono (l_now st0) H -> l_now st0 <= t ->
  (forall s, In (s, LCleanup) (lstates st0 H) -> t < l_now s <= t + loop_bound -> pending_at s h c tx) ->
  (exists s, In (s, LPurge) (lstates st0 H) /\ t + reobs_window < l_now s <= t + reobs_window + reobs_period) ->
  (forall a, t + reobs_window < a <= t + reobs_window + reobs_period + proc_retry_ns ->
     exists s, In (s, LCleanup) (lstates st0 H) /\ a < l_now s <= a + proc_tick_ns) ->
  drained recover keccak sign own gov_chain gov_addr decode_hb decodeq encq self disable watch st0 H ->
  (forall u r, ~ In (u, EPost r Reobserve.PostErrChanFull) (snd (lrun st0 H))) ->
  (forall u s r f, Reobserve.key_of r = key_of_msg c tx -> ~ In (u, EDisp s (Reobserve.Req r f) Reobserve.DropFull) (snd (lrun st0 H))) ->
  exists u s r f x, In (u, EDisp s (Reobserve.Req r f) (Reobserve.Forward x)) (snd (lrun st0 H)) /\
    Reobserve.key_of r = key_of_msg c tx /\ t < f <= t + loop_bound.
Proof. exact loop_forward_within. Qed.

Theorem C14_loop_bound_is_23_min_30_s : loop_bound = reobs_window + reobs_period + proc_retry_ns + proc_tick_ns /\ loop_bound = 1410 * 10 ^ 9.
Proof. split; [reflexivity|exact loop_bound_value]. Qed.


(* ---------------------------------------------------------------- a computed history of the composed node (toy crypto oracles; definitions lx_* and
   the evaluations in proofs/ReobsLoopExamples.v): two guardians (the node alone never has quorum), one chain-2 message of transaction 07,
   then every 30 s the clock, the purge ticker at multiples of 7 min, the cleanup ticker, p2p's request goroutine, the watcher *)
(* THE NAIVE EXPECTATION "a re-observation every five minutes" IS FALSE FOR THE COMPOSITION: the pending message is retried every
   5 minutes for an hour (12 requests), the watcher sees 3 of them: at 5, 25 and 45 minutes (gaps of 20 min <= B = 23.5 min) *)
Example C14_loop_every_five_minutes_is_false :
  lx_requests (snd (lx_run linit lx_H)) =
  [(300, 0); (600, 1); (900, 1); (1200, 1); (1500, 0); (1800, 1); (2100, 1); (2400, 1); (2700, 0); (3000, 1); (3300, 1); (3600, 1)].
Proof. exact ex_every_five_minutes_is_false. Qed.

(* the hypotheses of C14_loop_cadence hold for that history with t = 5 min (first forward): invariant, empty cache, monotone clock,
   pending at every cleanup tick in (5 min, 28.5 min], the purge tick at 21 min, a cleanup tick every 30 s, request goroutine keeping
   up, no overflow - and the conclusion: a forward in (5 min, 28.5 min] (it is the one at 25 min) *)
Example C14_loop_cadence_hypotheses_satisfiable :
  let t := 300 * lx_sec in
  LInv linit /\ ReobserveProofs.cache_wf (l_disp linit) /\ ReobserveProofs.known (l_disp linit) (2 mod 65536) /\
  lmono (l_now linit) lx_H2 /\ l_now linit <= t /\
  (forall s, In (s, LCleanup) (lx_states linit lx_H2) -> t < l_now s <= t + loop_bound -> pending_at s lx_h 2 [x07]) /\
  (exists s, In (s, LPurge) (lx_states linit lx_H2) /\ t + reobs_window < l_now s <= t + reobs_window + reobs_period) /\
  (forall a, t + reobs_window < a <= t + reobs_window + reobs_period + proc_retry_ns ->
     exists s, In (s, LCleanup) (lx_states linit lx_H2) /\ a < l_now s <= a + proc_tick_ns) /\
  drained lx_recover lx_keccak lx_sign lx_own 1 (repeat x00 32) (fun _ => None) (fun _ => None) (fun _ => []) [x09] false (fun _ _ _ => []) linit lx_H2 /\
  (forall u r, ~ In (u, EPost r Reobserve.PostErrChanFull) (snd (lx_run linit lx_H2))) /\
  (forall u s r f, Reobserve.key_of r = key_of_msg 2 [x07] -> ~ In (u, EDisp s (Reobserve.Req r f) Reobserve.DropFull) (snd (lx_run linit lx_H2))) /\
  exists u s r f x, In (u, EDisp s (Reobserve.Req r f) (Reobserve.Forward x)) (snd (lx_run linit lx_H2)) /\ Reobserve.key_of r = key_of_msg 2 [x07] /\ t < f <= t + loop_bound.
Proof. exact ex_cadence_hypotheses_satisfiable. Qed.

Print Assumptions C14_loop_cleanup_step_is_the_tick.
Print Assumptions C14_loop_due_tick_retries.
Print Assumptions C14_loop_posted_request_reaches_the_dispatcher.
Print Assumptions C14_loop_retries_at_least_the_period_apart.
Print Assumptions C14_loop_retry_counter_within_budget.
Print Assumptions C14_loop_requests_per_message_are_counted.
Print Assumptions C14_loop_budget_is_14400.
Print Assumptions C14_loop_signs_only_what_watchers_forward.
Print Assumptions C14_loop_signs_only_final_messages.
Print Assumptions C14_loop_gossip_never_feeds_a_chain_message.
Print Assumptions C14_loop_signing_sources.
Print Assumptions C14_loop_chain_message_never_publishes.
Print Assumptions C14_loop_alephium_watcher_contract.
Print Assumptions C14_loop_recovery.
Print Assumptions C14_loop_watcher_answer_is_signed.
Print Assumptions C14_loop_cadence.
Print Assumptions C14_loop_bound_is_23_min_30_s.
Print Assumptions C14_loop_request_reaches_every_peer.
Print Assumptions C14_loop_published_request_is_on_the_wire.

(* ================================================================================================================================
   Extension X10 — the NETWORK of loop nodes ([lnet], model/ReobsLoop.v) refines the guardian network of model/System.v on the
   processor component, and C14's recovery at the network level (proofs/ClosureProofs1.v; definitions model/Closure.v).
   [proj n]: the processor state of every loop node and the observations / VAAs on the wire (signed re-observation requests are not
   part of System.net).  [sim n xs]: the System.net history the loop-network history xs amounts to from n - one System.net step per
   processor input, in order; the delivery of the k-th wire item stays the DELIVERY of the same item ([NDeliver i (pidx pool k)]),
   watcher answers / injections / set updates / clock / cleanup ticks are environment steps, adversarial items adversarial items. *)
From WH Require Import model.System model.Closure proofs.SystemProofs proofs.ClosureProofs1 proofs.ClosureProofs2 proofs.ClosureProofs6
     proofs.ClosureProofsEx0 proofs.ClosureProofsExA.

(* one step: running the projected network over the System.net steps of a loop-network step ends in the projection of the loop
   network's next state and puts out exactly the outputs the processor events of the step record *)
Theorem C14_lnet_step_refines_system_net :
  forall recover keccak gov_chain gov_addr decode_hb decodeq encq disable owns signs selfs watches n x,
  System.nrun recover keccak gov_chain gov_addr owns signs (proj n)
    (sim1 recover keccak gov_chain gov_addr decode_hb decodeq encq disable owns signs selfs watches n x) =
  (proj (fst (lnstep recover keccak gov_chain gov_addr decode_hb decodeq encq disable owns signs selfs watches n x)),
   map snd (proc_of (snd (lnstep recover keccak gov_chain gov_addr decode_hb decodeq encq disable owns signs selfs watches n x)))).
Proof. exact sim_step. Qed.

(* whole histories, from any state: same per-node processor states, same observations / VAAs on the wire, same processor outputs
   (published VAAs included); the initial loop network projects to the initial System.net; well-formed sets stay well-formed *)
Theorem C14_lnet_refines_system_net :
  forall recover keccak gov_chain gov_addr decode_hb decodeq encq disable owns signs selfs watches xs n,
  let sm := sim recover keccak gov_chain gov_addr decode_hb decodeq encq disable owns signs selfs watches n xs in
  let lr := lnrun recover keccak gov_chain gov_addr decode_hb decodeq encq disable owns signs selfs watches n xs in
  fst (System.nrun recover keccak gov_chain gov_addr owns signs (proj n) sm) = proj (fst lr) /\
  concat (snd (System.nrun recover keccak gov_chain gov_addr owns signs (proj n) sm)) = louts (snd lr) /\
  (Forall lnop_wf xs -> Forall nop_wf sm) /\
  (forall N, proj (lninit N) = ninit N).
Proof.
  intros recover keccak gov_chain gov_addr decode_hb decodeq encq disable owns signs selfs watches xs n. cbv zeta.
  split; [apply refinement|]. split; [apply refinement|]. split; [apply sim_wf|exact proj_init].
Qed.

(* a consequence: C01's network statement holds of the loop network - whatever any loop node stores after any history is a
   quorum-valid VAA of a set that node was given *)
Theorem C14_lnet_stores_hold_only_quorum_valid_vaas :
  forall recover keccak gov_chain gov_addr decode_hb decodeq encq disable owns signs selfs watches N xs i lst, Forall lnop_wf xs ->
  nth_error (x_nodes (fst (lnrun recover keccak gov_chain gov_addr decode_hb decodeq encq disable owns signs selfs watches (lninit N) xs))) i = Some lst ->
  Forall (ProcSpec.stored_ok recover keccak
            (net_learned i (sim recover keccak gov_chain gov_addr decode_hb decodeq encq disable owns signs selfs watches (lninit N) xs)))
         (db (l_proc lst)).
Proof. exact lnet_store. Qed.

(* (d) RECOVERY AT THE NETWORK LEVEL = C14_loop_recovery o C02_network_liveness through the refinement.  N loop nodes, adversarial
   network.  After ANY pre-history xs0, over ANY continuation xs in which node i gets no guardian-set change and no cleanup tick
   ([lcalm]): G in force at node i, which knows nothing about m (it MISSED the message); S a set of >= quorum honest members of G
   containing i (their signers consistent with recovery).  FAIRNESS PREMISES, explicit: (1) [lev_reobserved]: at some step node i's
   OWN watcher takes the request at the head of its queue, its re-observation path answers [m], and the processor signs m; (2)
   [lev_delivered] for every other j in S: at some step the network delivers to i - relayed by any peer but i itself - the
   observation of m's digest that j put on the wire (C14_lnet_observer_item_is_on_the_wire: it is there once j observed m); any
   order, duplication, interleaving with requests, adversarial items and other nodes' steps; (3) i's own signature has looped back.
   Then node i's entry of m is submitted under G, and at some step of the window node i's processor broadcasts a
   SignedVAAWithQuorum (by the refinement and C01: a quorum-valid VAA of G built from i's observation of m) *)
Theorem C14_lnet_recovery :
  forall recover keccak gov_chain gov_addr decode_hb decodeq encq disable owns signs selfs watches, (forall b, length (keccak b) = 32%nat) ->
  forall N xs0 xs i G m (S : list nat), (i < N)%nat -> Forall lnop_wf xs0 -> Forall lnop_wf xs ->
  let lnrun := lnrun recover keccak gov_chain gov_addr decode_hb decodeq encq disable owns signs selfs watches in
  let stp := fun n x => fst (lnstep recover keccak gov_chain gov_addr decode_hb decodeq encq disable owns signs selfs watches n x) in
  let n0 := fst (lnrun (lninit N) xs0) in
  let n1 := fst (lnrun n0 xs) in
  let h := dg keccak (vaa_of_message 0 m) in
  (forall st0, nth_error (x_nodes n0) i = Some st0 -> cur (l_proc st0) = Some G /\ alookup h (agg (l_proc st0)) = None) -> ProcSpec.gs_wf G ->
  (forall x, In x xs -> ltarget x = i -> lcalm x = true) ->
  NoDup (map owns S) -> (forall j, In j S -> honest_member recover owns signs G j) ->
  go_quorum (Z.of_nat (length (keys G))) <= Z.of_nat (length S) -> In i S ->
  happens stp (lev_reobserved recover keccak gov_chain gov_addr owns signs watches i m) n0 xs ->
  (forall j, In j S -> j <> i -> happens stp (lev_delivered owns signs selfs i j h) n0 xs) ->
  (forall st, nth_error (x_nodes n1) i = Some st -> forall o, In o (loopq (l_proc st)) -> o_hash o <> h) ->
  (exists st e, nth_error (x_nodes n1) i = Some st /\ alookup h (agg (l_proc st)) = Some e /\
                our_vaa e <> None /\ gs_snap e = Some G /\ submitted e = true) /\
  happens stp (lev_publishes recover keccak gov_chain gov_addr decode_hb decodeq encq disable owns signs selfs watches i) n0 xs.
Proof. exact lnet_recovery. Qed.

(* the item premise (2) speaks about: when an honest node signs a chain message handed over by its watcher's polling path, exactly
   that observation is on the loop network's wire afterwards *)
Theorem C14_lnet_observer_item_is_on_the_wire :
  forall recover keccak gov_chain gov_addr decode_hb decodeq encq disable owns signs selfs watches n j m st,
  nth_error (x_nodes n) j = Some st ->
  existsb is_sendobs (snd (step recover keccak (signs j) (owns j) gov_chain gov_addr (l_proc st) (LocalMsg m))) = true ->
  In (WObs {| o_addr := owns j; o_hash := dg keccak (vaa_of_message 0 m); o_sig := signs j (dg keccak (vaa_of_message 0 m)); o_tx := m_tx m |})
     (x_pool (fst (lnstep recover keccak gov_chain gov_addr decode_hb decodeq encq disable owns signs selfs watches n (XLocal j (LEnv (VMsg m)))))).
Proof. exact observer_item_on_wire. Qed.

(* non-vacuity: two loop nodes (toy oracles), set {0, 1} (quorum 2); node 1 observes the message by polling (its observation is item 0
   on the wire), node 0 MISSED it; window at node 0: a request for the transaction is posted and pumped (forwarded to the chain-2
   queue, published as a signed request), the watcher answers with the message and the processor signs, an adversarial item, node 1's
   observation is delivered, the own signature loops back - every premise holds, and the conclusion computed: the entry is submitted
   and a SignedVAAWithQuorum is on the wire that was not there before *)
Example C14_lnet_recovery_premises_satisfiable :
  let stp := fun n x => fst (qx_lnstep n x) in
  let n0 := fst (qx_lnrun (lninit 2) qx_pre) in
  let n1 := fst (qx_lnrun n0 qx_win) in
  let h := dg qx_keccak (vaa_of_message 0 qx_msg) in
  Forall lnop_wf qx_pre /\ Forall lnop_wf qx_win /\
  (forall st0, nth_error (x_nodes n0) 0 = Some st0 -> cur (l_proc st0) = Some qx_G /\ alookup h (agg (l_proc st0)) = None) /\ ProcSpec.gs_wf qx_G /\
  (forall x, In x qx_win -> ltarget x = 0%nat -> lcalm x = true) /\
  NoDup (map qx_owns [0; 1]%nat) /\ (forall j, In j [0; 1]%nat -> honest_member qx_recover qx_owns qx_signs qx_G j) /\
  go_quorum (Z.of_nat (length (keys qx_G))) <= Z.of_nat (length [0; 1]%nat) /\
  happens stp (lev_reobserved qx_recover qx_keccak 1 (repeat x00 32) qx_owns qx_signs qx_watches 0 qx_msg) n0 qx_win /\
  happens stp (lev_delivered qx_owns qx_signs qx_selfs 0 1 h) n0 qx_win /\
  (forall st, nth_error (x_nodes n1) 0 = Some st -> forall o, In o (loopq (l_proc st)) -> o_hash o <> h) /\
  (exists st e, nth_error (x_nodes n1) 0 = Some st /\ alookup h (agg (l_proc st)) = Some e /\ submitted e = true) /\
  existsb (fun w => match w with WVaa _ => true | _ => false end) (x_pool n1) = true /\
  existsb (fun w => match w with WVaa _ => true | _ => false end) (x_pool n0) = false.
Proof. exact ex_lnet_recovery. Qed.

(* (c) SAFETY THROUGH THE LOOP, EVM chains: the EVM watcher's re-observation path (model/EvmLog.v [xreobserve]: by_transaction.go over
   raw receipts + watcher.go's depth test) as the oracle of the chains node.go wires to an EVM watcher ([evm_chains] = 2, 4), with
   C10's re-observation theorem as its contract ([evm_confirmed], props/C10.v C10_evm_reobservation_oracle_contract).  Over every
   history of the composed node from its initial state - whatever requests arrive, from whatever peer, for whatever transaction, at
   whatever rate - every chain message the processor handles (hence every one it signs: C14_loop_signing_sources) was handed over by
   a watcher's polling path, or is in the answer of watcher c to a request naming chain c; and for an EVM chain it is the content of
   ONE core-contract LogMessagePublished log of a STATUS-1 receipt the node served, deep enough w.r.t. the head the watcher read
   before it asked for the receipt *)
Theorem C14_loop_evm_chains_are_the_wired_ones : evm_chains = [2; 4] /\ incl evm_chains watched_chains /\ is_evm_chain Extracted.alph_chain_id = false.
Proof. split; [exact evm_chains_are|split; [exact evm_chains_watched|exact evm_not_alph]]. Qed.

Theorem C14_loop_signs_only_confirmed_evm_messages :
  forall recover keccak sign own gov_chain gov_addr decode_hb decodeq encq self disable ecfg enode other H u m outs,
  let watch := evm_watch ecfg enode other in
  In (u, EProc (LocalMsg m) outs) (snd (lrun recover keccak sign own gov_chain gov_addr decode_hb decodeq encq self disable watch linit H)) ->
  (exists s, In (s, LEnv (VMsg m)) (lstates recover keccak sign own gov_chain gov_addr decode_hb decodeq encq self disable watch linit H)) \/
  (exists s c r, In (s, LWatch c) (lstates recover keccak sign own gov_chain gov_addr decode_hb decodeq encq self disable watch linit H) /\
     Reobserve.chain_of r = c /\
     if is_evm_chain c then evm_confirmed (ecfg c) (enode c r (l_now s)) m else In m (other c r (l_now s))).
Proof. exact loop_evm_signs_only_confirmed. Qed.

(* computed: the EVM oracle inside the loop - a request for the transaction is forwarded to the chain-2 queue, the watcher's answer
   (a status-1 receipt in block 1000, head 1255) is the message of the receipt's log, and the processor signs it *)
Example C14_loop_evm_watcher_computed :
  In cx_m (cx_watch 2 {| Reobserve.r_chain := 2; Reobserve.r_tx := cx_tx |} 1000) /\
  existsb (fun e => match snd e with EWatch 2 _ [m] => true | _ => false end) (snd (cx_run linit cx_H)) = true /\
  existsb (fun e => match snd e with EProc (LocalMsg m) outs => existsb is_sendobs outs | _ => false end) (snd (cx_run linit cx_H)) = true.
Proof. exact ex_evm_loop. Qed.

Print Assumptions C14_lnet_step_refines_system_net.
Print Assumptions C14_lnet_refines_system_net.
Print Assumptions C14_lnet_stores_hold_only_quorum_valid_vaas.
Print Assumptions C14_lnet_recovery.
Print Assumptions C14_lnet_observer_item_is_on_the_wire.
Print Assumptions C14_loop_evm_chains_are_the_wired_ones.
Print Assumptions C14_loop_signs_only_confirmed_evm_messages.

(* ... and over windows that DO contain cleanup steps at the recovering node (its ticker fires every 30 s; the peers re-send their
   observations on their own retries, minutes apart): composition with C02_network_liveness_with_cleanup_ticks.  Only guardian-set
   changes are excluded at node i ([lsetgs_free]); [lnet_ticks_keep i h n0 xs]: at every cleanup step of node i in the window the
   per-entry function, evaluated at the node's clock reading ([at_clock (l_proc st) (l_now st - 1)]: the composition sets the
   processor's clock one nanosecond back for the tick), does not delete node i's entry of m (C02_entry_survives_tick: e.g. the entry
   holds the node's own observation, budget left, no quorum VAA stored yet) *)
From WH Require Import proofs.ClosureProofs3 proofs.ClosureProofs8.

Theorem C14_lnet_recovery_with_cleanup_ticks :
  forall recover keccak gov_chain gov_addr decode_hb decodeq encq disable owns signs selfs watches, (forall b, length (keccak b) = 32%nat) ->
  forall N xs0 xs i G m (S : list nat), (i < N)%nat -> Forall lnop_wf xs0 -> Forall lnop_wf xs ->
  let lnrun := lnrun recover keccak gov_chain gov_addr decode_hb decodeq encq disable owns signs selfs watches in
  let stp := fun n x => fst (lnstep recover keccak gov_chain gov_addr decode_hb decodeq encq disable owns signs selfs watches n x) in
  let n0 := fst (lnrun (lninit N) xs0) in
  let n1 := fst (lnrun n0 xs) in
  let h := dg keccak (vaa_of_message 0 m) in
  (forall st0, nth_error (x_nodes n0) i = Some st0 -> cur (l_proc st0) = Some G /\ alookup h (agg (l_proc st0)) = None) -> ProcSpec.gs_wf G ->
  (forall x, In x xs -> ltarget x = i -> lsetgs_free x = true) ->
  always stp (fun n x => x = XLocal i LCleanup -> forall st, nth_error (x_nodes n) i = Some st -> tick_keeps h (at_clock (l_proc st) (l_now st - 1))) n0 xs ->
  NoDup (map owns S) -> (forall j, In j S -> honest_member recover owns signs G j) ->
  go_quorum (Z.of_nat (length (keys G))) <= Z.of_nat (length S) -> In i S ->
  happens stp (lev_reobserved recover keccak gov_chain gov_addr owns signs watches i m) n0 xs ->
  (forall j, In j S -> j <> i -> happens stp (lev_delivered owns signs selfs i j h) n0 xs) ->
  (forall st, nth_error (x_nodes n1) i = Some st -> forall o, In o (loopq (l_proc st)) -> o_hash o <> h) ->
  (exists st e, nth_error (x_nodes n1) i = Some st /\ alookup h (agg (l_proc st)) = Some e /\
                our_vaa e <> None /\ gs_snap e = Some G /\ submitted e = true) /\
  happens stp (lev_publishes recover keccak gov_chain gov_addr decode_hb decodeq encq disable owns signs selfs watches i) n0 xs.
Proof. exact lnet_recovery_ticks. Qed.

(* non-vacuity: the two-node history above with three cleanup steps of node 0 inside the window - nothing due (10 s), SETTLE (45 s),
   RETRY (350 s: the node's own re-observation request goes out and is published by the next pump) - every premise holds (the
   pre-history premises are those of C14_lnet_recovery_premises_satisfiable) and the conclusion is computed *)
Example C14_lnet_recovery_with_cleanup_ticks_premises_satisfiable :
  let stp := fun n x => fst (qx_lnstep n x) in
  let n0 := fst (qx_lnrun (lninit 2) qx_pre) in
  let n1 := fst (qx_lnrun n0 qy_win) in
  let h := dg qx_keccak (vaa_of_message 0 qx_msg) in
  Forall lnop_wf qy_win /\
  (forall x, In x qy_win -> ltarget x = 0%nat -> lsetgs_free x = true) /\
  lnet_ticks_keep qx_recover qx_keccak 1 (repeat x00 32) (fun _ => None) (fun _ => None) (fun _ => []) false qx_owns qx_signs qx_selfs qx_watches 0 h n0 qy_win /\
  happens stp (lev_reobserved qx_recover qx_keccak 1 (repeat x00 32) qx_owns qx_signs qx_watches 0 qx_msg) n0 qy_win /\
  happens stp (lev_delivered qx_owns qx_signs qx_selfs 0 1 h) n0 qy_win /\
  (forall st, nth_error (x_nodes n1) 0 = Some st -> forall o, In o (loopq (l_proc st)) -> o_hash o <> h) /\
  (exists st e, nth_error (x_nodes n1) 0 = Some st /\ alookup h (agg (l_proc st)) = Some e /\ submitted e = true /\ settled e = true /\ retries e = 1) /\
  existsb (fun w => match w with WVaa _ => true | _ => false end) (x_pool n1) = true /\
  length (filter (fun w => match w with WReq _ _ _ => true | _ => false end) (x_pool n1)) = 2%nat.
Proof. exact ex_lnet_recovery_ticks. Qed.

Print Assumptions C14_lnet_recovery_with_cleanup_ticks.
