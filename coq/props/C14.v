(* C14 — Pending attestations are retried, then expired, on a bounded schedule.
   [cleanup_entry now in_db cur_known e] (WH.model.Processor) is what one cleanup tick at instant [now] (nanoseconds) does to one
   aggregation entry: keep it (possibly re-flagged, with outputs), delete it, or panic.  Its thresholds are the constants
   extracted from cleanup.go on every run; the statements below carry the human-scale literals, so a changed constant, comparison
   or switch order makes this file fail.  [handle_cleanup] applies it to every entry of the map ([C14_tick_applies_per_entry]). *)
From Coq Require Import List ZArith Bool Lia.
From Coq Require Import Strings.Byte.
From WH Require Import lib.Bytes gen.Extracted model.Vaa model.Processor proofs.ProcCleanupProofs.
Import ListNotations.
Open Scope Z_scope.

(* every entry of every reachable state is of one of the three kinds the property speaks about *)
Theorem C14_kinds_are_exhaustive :
  forall recover keccak sign own gov_chain gov_addr ops h e,
    In (h, e) (agg (fst (run recover keccak sign own gov_chain gov_addr init ops))) ->
    submitted e = true \/ (exists o v, pending_own e o v) \/
    (unobserved e /\ cur (fst (run recover keccak sign own gov_chain gov_addr init ops)) <> None).
Proof. exact reachable_entry_kinds. Qed.

(* a message the node has signed and that still lacks quorum is not discarded before its retry budget (14400) is spent,
   unless a quorum VAA for it is already in the store — at any instant, however long the stall before the tick *)
Theorem C14_pending_own_entry_is_kept :
  forall now ck e o v, pending_own e o v -> retries e < 14400 ->
  exists e' out, cleanup_entry now false ck e = CKeep e' out /\ our_msg e' = Some o /\ our_vaa e' = Some v /\ submitted e' = false /\
                 retries e <= retries e' <= retries e + 1.
Proof. exact (own_pending_kept eq_refl). Qed.

(* it is retried exactly when it is >= 5 min old and the previous retry is >= 5 min ago: own observation re-broadcast, a
   re-observation request for the originating transaction on the emitter chain, retry counted, instant remembered *)
Theorem C14_retry_exactly_when_due :
  forall now ck e o v, pending_own e o v -> settled e = true -> retries e < 14400 ->
  cleanup_entry now false ck e =
  if retry_due now e then CKeep (set_retried e now) [ObsReq (echain v mod 2 ^ 32) (txh e); SendObs o] else CKeep e [].
Proof. exact own_pending_retry_iff. Qed.

Theorem C14_retries_at_least_five_minutes_apart :
  forall now ck e o v t, pending_own e o v -> settled e = true -> retries e < 14400 ->
  last_retry e = Some t -> now - t < 300 * sec -> cleanup_entry now false ck e = CKeep e [].
Proof. exact no_retry_within_five_minutes. Qed.

(* with the ticker period extracted from processor.go (30 s): the next retry comes less than 5 min 30 s after the previous one *)
Theorem C14_retry_within_five_and_a_half_minutes :
  forall prev now ck e o v t, pending_own e o v -> settled e = true -> retries e < 14400 ->
  last_retry e = Some t -> 300 * sec <= age now e ->
  prev - t < 300 * sec -> now - prev <= proc_tick_ns -> 300 * sec <= now - t ->
  cleanup_entry now false ck e = CKeep (set_retried e now) [ObsReq (echain v mod 2 ^ 32) (txh e); SendObs o] /\ now - t < 330 * sec.
Proof. exact retry_within_five_and_a_half_minutes. Qed.

Theorem C14_pending_own_entry_with_stored_vaa_is_dropped :
  forall now ck e o v, pending_own e o v -> 30 * sec < age now e -> cleanup_entry now true ck e = CDelete.
Proof. exact own_pending_with_stored_vaa_dropped. Qed.

(* bounded life of a pending own entry: after at most 14400 due ticks (each >= 5 min after the previous) plus one it is gone,
   whatever the store says in between *)
Theorem C14_pending_own_entry_dies_when_budget_spent :
  forall n ticks ck e o v, pending_own e o v -> settled e = true -> 0 <= retries e -> retries e + Z.of_nat n = 14400 ->
  all_due (first_seen e) (last_retry e) ticks -> length ticks = S n -> life e ck ticks = None.
Proof. exact own_pending_dies_when_budget_spent. Qed.

(* signatures for messages the node never observed: gone at the first or second tick once five minutes old *)
Theorem C14_unobserved_entry_gone_after_five_minutes :
  forall now1 now2 indb1 indb2 e, unobserved e -> 300 * sec <= age now1 e -> now1 <= now2 ->
  cleanup_entry now1 indb1 true e = CDelete \/
  (exists e', cleanup_entry now1 indb1 true e = CKeep e' [] /\ cleanup_entry now2 indb2 true e' = CDelete).
Proof. exact (unobserved_gone_after_two_ticks eq_refl). Qed.

(* completed entries: gone at the first or second tick once an hour old; kept (untouched) before that once settled *)
Theorem C14_completed_entry_gone_after_an_hour :
  forall now1 now2 indb1 indb2 ck1 ck2 e, submitted e = true -> 3600 * sec <= age now1 e -> now1 <= now2 ->
  cleanup_entry now1 indb1 ck1 e = CDelete \/
  (exists e', cleanup_entry now1 indb1 ck1 e = CKeep e' [] /\ cleanup_entry now2 indb2 ck2 e' = CDelete).
Proof. exact (submitted_gone_after_two_ticks eq_refl). Qed.

Theorem C14_completed_entry_kept_for_an_hour :
  forall now indb ck e, submitted e = true -> settled e = true -> age now e < 3600 * sec -> cleanup_entry now indb ck e = CKeep e [].
Proof. exact submitted_kept_for_an_hour. Qed.

(* the tick applies the per-entry function to every entry of the aggregation map and emits its outputs *)
Theorem C14_tick_applies_per_entry :
  forall st now l h e, In (h, e) l ->
  match cleanup_entry now (in_db_of st e) (match cur st with Some _ => true | None => false end) e with
  | CKeep e' o => In (h, e') (fst (cleanup_all st now l)) /\ incl o (snd (cleanup_all st now l))
  | CDelete => True
  | CPanic => In (Panic PanicNilGuardianSet) (snd (cleanup_all st now l))
  end.
Proof. exact cleanup_all_entry. Qed.

(* non-vacuity: a concrete pending own entry, 6 minutes old, settled, never retried: the tick retries it *)
Definition ex_v : vaa := {| version := 1; gsidx := 0; sigs := []; ts := 0; tns := 0; nonce := 0; echain := 2; tchain := 0;
                            eaddr := repeat x00 32; seq := 1; cl := 1; payload := [x01] |}.
Definition ex_o : obs := {| o_addr := repeat x01 20; o_hash := repeat x00 32; o_sig := repeat x00 65; o_tx := [x09] |}.
Definition ex_e : entry := {| first_seen := 0; our_vaa := Some ex_v; our_msg := Some ex_o; txh := [x09]; gs_snap := None; esigs := [];
                              submitted := false; settled := true; retries := 0; last_retry := None; from_chain := true |}.
Example C14_example_retry :
  pending_own ex_e ex_o ex_v /\ retry_due (360 * sec) ex_e = true /\
  cleanup_entry (360 * sec) false true ex_e = CKeep (set_retried ex_e (360 * sec)) [ObsReq 2 [x09]; SendObs ex_o].
Proof. repeat split; vm_compute; reflexivity. Qed.

Print Assumptions C14_kinds_are_exhaustive.
Print Assumptions C14_pending_own_entry_is_kept.
Print Assumptions C14_retry_exactly_when_due.
Print Assumptions C14_retries_at_least_five_minutes_apart.
Print Assumptions C14_retry_within_five_and_a_half_minutes.
Print Assumptions C14_pending_own_entry_with_stored_vaa_is_dropped.
Print Assumptions C14_pending_own_entry_dies_when_budget_spent.
Print Assumptions C14_unobserved_entry_gone_after_five_minutes.
Print Assumptions C14_completed_entry_gone_after_an_hour.
Print Assumptions C14_completed_entry_kept_for_an_hour.
Print Assumptions C14_tick_applies_per_entry.
