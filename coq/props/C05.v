(* C05 — the VAA wire encoding round-trips exactly and the decoder is total.
   [unmarshal] is the model of vaa.Unmarshal with the payload-buffer size GENERATED from the source (vaa_paycap). *)
From Coq Require Import List ZArith Lia Bool Arith.
From Coq Require Import Strings.Byte.
From WH Require Import lib.Bytes gen.Extracted model.Vaa proofs.VaaProofs gen.ExtractedVaaCodec.
Import ListNotations.
Open Scope Z_scope.

(* the decoder reads the whole remaining input as payload (holds only if the source sizes the buffer by the input) *)
Lemma paycap_none : vaa_paycap = None.
Proof. reflexivity. Qed.

(* (a) decode (encode v) = v for every VAA in the representable range, whatever the payload length *)
Theorem C05_decode_encode : forall v, wf v -> unmarshal (marshal v) = Ok v.
Proof. intros v W. unfold unmarshal. rewrite paycap_none. apply unmarshal_marshal_nocap. exact W. Qed.

(* ... hence the same digest *)
Theorem C05_digest_preserved : forall keccak v, wf v ->
  exists v', unmarshal (marshal v) = Ok v' /\ digest keccak v' = digest keccak v.
Proof. intros keccak v W. exists v. split; [apply C05_decode_encode; exact W|reflexivity]. Qed.

(* (b) any accepted byte string re-encodes to exactly the same bytes; (c) what is returned is completely filled and in range *)
Theorem C05_encode_decode : forall bs v, unmarshal bs = Ok v -> marshal v = bs /\ wf v.
Proof. intros bs v. unfold unmarshal. rewrite paycap_none. apply marshal_unmarshal_nocap. Qed.

(* the accepted strings are exactly the encodings of representable VAAs; every other byte string yields an error (total function) *)
Theorem C05_accepts_exactly : forall bs, (exists v, unmarshal bs = Ok v) <-> (exists v, wf v /\ bs = marshal v).
Proof.
  intros bs. split.
  - intros [v H]. apply C05_encode_decode in H as [E W]. exists v. split; [exact W|symmetry; exact E].
  - intros [v [W ->]]. exists v. apply C05_decode_encode. exact W.
Qed.

Theorem C05_error_otherwise : forall bs, (~ exists v, wf v /\ bs = marshal v) -> exists e, unmarshal bs = Err e.
Proof.
  intros bs H. destruct (unmarshal bs) as [v|e] eqn:E; [|exists e; reflexivity].
  exfalso. apply H. apply C05_accepts_exactly. exists v. exact E.
Qed.

(* non-vacuity: a 1001-byte payload (one more than the historical fixed buffer) round-trips *)
Example C05_long_payload : wfb (long_payload_vaa 1000) = true /\
  match unmarshal (marshal (long_payload_vaa 1000)) with Ok v => length (payload v) = 1001%nat | Err _ => False end.
Proof. vm_compute. split; reflexivity. Qed.


(* ---------------------------------------------------------------- the model IS the source (translator tie)
   gen/x_vaacodec.py translates serializeBody, Marshal and Unmarshal of node/pkg/vaa/structs.go statement by statement (widths from
   the Go type declarations) into go_body / go_marshal / go_parse_sigs / go_unmarshal_with on every run; the hand model the theorems
   above are about is that translation, definition by definition.  A changed field order, width, conversion, error path or a
   statement the translator does not know breaks this theorem (or the extractor). *)
Lemma go_parse_sigs_is_model : forall n l, go_parse_sigs n l = parse_sigs n l.
Proof. induction n as [|n IH]; intros l; cbn [go_parse_sigs parse_sigs]; [reflexivity|].
  destruct (rd 1 ESigIndex l) as [[i l1]|e]; [|reflexivity]. destruct (rd 65 ESig l1) as [[d l2]|e]; [|reflexivity]. rewrite IH. reflexivity. Qed.

Theorem C05_codec_follows_source :
  (forall v, go_body v = body v) /\ (forall v, go_marshal v = marshal v) /\
  (forall n l, go_parse_sigs n l = parse_sigs n l) /\
  (forall pc d, go_unmarshal_with pc d = unmarshal_with pc d) /\ (forall d, go_unmarshal d = unmarshal d).
Proof.
  assert (U : forall pc d, go_unmarshal_with pc d = unmarshal_with pc d).
  { intros pc d. unfold go_unmarshal_with, unmarshal_with.
    destruct (length d <? vaa_min_len)%nat; [reflexivity|]. destruct (rd 1 ETooShort d) as [[ver l0]|e]; [|reflexivity].
    destruct (negb (unbe ver =? vaa_version)); [reflexivity|]. destruct (rd 4 EGsIndex l0) as [[gi l1]|e]; [|reflexivity].
    destruct (rd 1 ESigLen l1) as [[ns l2]|e]; [|reflexivity]. rewrite go_parse_sigs_is_model. reflexivity. }
  repeat apply conj; [reflexivity|reflexivity|exact go_parse_sigs_is_model|exact U|intros d; exact (U vaa_paycap d)].
Qed.

(* so the round-trip theorems hold of the translated source text itself *)
Theorem C05_source_round_trip : forall v, wf v -> go_unmarshal (go_marshal v) = Ok v.
Proof. intros v W. destruct C05_codec_follows_source as (_ & M & _ & _ & U). rewrite M, U. apply C05_decode_encode. exact W. Qed.

Theorem C05_source_accepted_reencodes : forall bs v, go_unmarshal bs = Ok v -> go_marshal v = bs /\ wf v.
Proof. intros bs v H. destruct C05_codec_follows_source as (_ & M & _ & _ & U). rewrite U in H. rewrite M. apply C05_encode_decode. exact H. Qed.

Print Assumptions C05_decode_encode.
Print Assumptions C05_digest_preserved.
Print Assumptions C05_encode_decode.
Print Assumptions C05_accepts_exactly.
Print Assumptions C05_error_otherwise.
Print Assumptions C05_codec_follows_source.
Print Assumptions C05_source_round_trip.
Print Assumptions C05_source_accepted_reencodes.
