(* C07 — quorum threshold = floor(2n/3)+1 in node and contracts, BFT-safe.
   go_quorum / sol_quorum / ral_quorum are GENERATED from quorum.go, Messages.sol, governance.ral on every run. *)
From Coq Require Import List ZArith Lia Bool.
From WH Require Import gen.Extracted gen.ExtractedContractVerify proofs.QuorumProofs proofs.ContractVerifyProofs.
Open Scope Z_scope.

(* the node's threshold is floor(2n/3)+1, for every n >= 0 (unbounded) *)
Theorem C07_go_formula : forall n, 0 <= n -> go_quorum n = 2 * n / 3 + 1.
Proof. exact go_quorum_spec. Qed.

(* ... and the 64-bit Go computation cannot overflow below 2^59 guardians *)
Theorem C07_go_no_overflow : forall n, 0 <= n < 2 ^ 59 ->
  0 <= n * 10 < 2 ^ 63 /\ 0 <= Z.quot (n * 10) 3 * 2 < 2 ^ 63 /\ 0 <= go_quorum n < 2 ^ 63.
Proof. exact go_quorum_no_overflow. Qed.

(* both contracts compute the same value *)
Theorem C07_contracts_agree : forall n, 0 <= n ->
  sol_quorum n = go_quorum n /\ ral_quorum n = go_quorum n.
Proof.
  intros n Hn. rewrite sol_quorum_spec, ral_quorum_spec, go_quorum_spec by assumption. split; reflexivity.
Qed.

(* a VAA the node considers complete (k >= go_quorum n signatures) passes both contracts' count test, an incomplete one does not *)
Theorem C07_accept_iff : forall n k, 0 <= n ->
  (sol_quorum_accepts (sol_quorum n) k = true <-> go_quorum n <= k) /\
  (ral_quorum_accepts (ral_quorum n) k = true <-> go_quorum n <= k).
Proof.
  intros n k Hn. rewrite sol_quorum_spec, ral_quorum_spec, go_quorum_spec by assumption.
  unfold sol_quorum_accepts, ral_quorum_accepts. rewrite Z.leb_le. split; reflexivity.
Qed.

(* The count test where it stands in the contracts.  sol_verifyVM / ral_parse_and_verify are GENERATED statement by statement from
   Messages.sol verifyVM and governance.ral parseAndVerifyVAA (gen/x_contractverify.py) on every run, so the conditions under which the
   quorum test is evaluated at all are part of what is proved: for every guardian count n >= 0, signature count k, set indices, expiry
   and block times, each contract accepts exactly when the node's threshold is met and its other guards (non-empty known set, set not
   expired unless current / governance VAAs only from the current set, version byte, every signature valid) pass. *)
Theorem C07_sol_verifyVM_accepts_iff : forall n k vidx curidx exptime now sigs_valid, 0 <= n ->
  sol_verifyVM n k vidx curidx exptime now sigs_valid = true <->
  n <> 0 /\ (vidx = curidx \/ now <= exptime) /\ go_quorum n <= k /\ sigs_valid = true.
Proof. exact sol_accepts_iff. Qed.

Theorem C07_ral_parse_and_verify_accepts_iff : forall ver version_const vidx curidx n k gov sigs_ok, 0 <= n ->
  ral_parse_and_verify ver version_const vidx curidx n k gov sigs_ok = true <->
  ver = version_const /\ (gov = true -> vidx = curidx) /\ n <> 0 /\ go_quorum n <= k /\ sigs_ok = true.
Proof. exact ral_accepts_iff. Qed.

(* the statement's sentence, both directions: complete => accepted on chain (current set, valid signatures), incomplete => rejected
   whatever else holds *)
Theorem C07_complete_accepted_incomplete_rejected : forall n k idx exptime now ver, 1 <= n ->
  (go_quorum n <= k ->
     sol_verifyVM n k idx idx exptime now true = true /\ forall gov, ral_parse_and_verify ver ver idx idx n k gov true = true) /\
  (k < go_quorum n ->
     (forall vidx curidx sv, sol_verifyVM n k vidx curidx exptime now sv = false) /\
     (forall vc vidx curidx gov sg, ral_parse_and_verify ver vc vidx curidx n k gov sg = false)).
Proof.
  intros n k idx exptime now ver Hn. split; intros Hq.
  - split; [|intros gov]; [apply sol_accepts_iff | apply ral_accepts_iff]; intuition lia.
  - split; intros; apply not_true_is_false; intros A; [apply sol_accepts_iff in A | apply ral_accepts_iff in A]; intuition lia.
Qed.

Example C07_contract_values :
  sol_verifyVM 19 13 4 4 0 100 true = true /\ sol_verifyVM 19 12 4 4 0 100 true = false /\ sol_verifyVM 19 13 3 4 0 100 true = false /\
  ral_parse_and_verify 1 1 4 4 19 13 false true = true /\ ral_parse_and_verify 1 1 3 4 19 12 false true = false /\
  ral_parse_and_verify 1 1 3 4 19 13 true true = false.
Proof. vm_compute. repeat split; reflexivity. Qed.

(* more than two thirds, never more than n *)
Theorem C07_bounds : forall n, 1 <= n -> 3 * go_quorum n > 2 * n /\ 1 <= go_quorum n <= n.
Proof.
  intros n Hn. rewrite go_quorum_spec by lia.
  pose proof (quorum_gt_two_thirds n ltac:(lia)). pose proof (quorum_le n Hn). pose proof (quorum_pos n ltac:(lia)). lia.
Qed.

(* any two quorums of distinct members of one set share more than a third of the set *)
Theorem C07_intersection : forall (A : Type) (eqb : A -> A -> bool), (forall a b, reflect (a = b) (eqb a b)) ->
  forall keys l1 l2 : list A,
  NoDup l1 -> NoDup l2 -> incl l1 keys -> incl l2 keys ->
  go_quorum (Z.of_nat (length keys)) <= Z.of_nat (length l1) ->
  go_quorum (Z.of_nat (length keys)) <= Z.of_nat (length l2) ->
  3 * Z.of_nat (length (inter eqb l1 l2)) > Z.of_nat (length keys).
Proof.
  intros A eqb sp keys l1 l2 N1 N2 I1 I2. rewrite go_quorum_spec by lia. apply quorums_intersect; assumption.
Qed.

(* non-vacuity / concrete values *)
Example C07_values : go_quorum 1 = 1 /\ go_quorum 3 = 3 /\ go_quorum 4 = 3 /\ go_quorum 19 = 13 /\ go_quorum 255 = 171
  /\ sol_quorum 19 = 13 /\ ral_quorum 19 = 13.
Proof. vm_compute. repeat split; reflexivity. Qed.

(* ---- X11: governance.ral parseAndVerifyVAA translated IN FULL (gen/x_ralverify.py -> gen/ExtractedRalVerify.v: every statement, the
   signature loop as a Fixpoint on fuel with its `mut` locals as state, getGuardiansInfo, keccak256! / ethEcRecover! as oracles).
   RalVerifyModel.ral_source = that generated function applied to the contract state (current / previous set with their indices,
   expiry, block time).  For EVERY data, state, flag and oracles it equals the hand model: Contracts.ral_parse (C04's layout model)
   + set selection + governance index test + size and quorum tests with the NODE's threshold + the signature loop. *)
From Coq Require Strings.Byte.
From WH Require lib.Bytes lib.Ralph model.Vaa model.Contracts model.RalVerifyModel proofs.RalVerifyProofs proofs.RalVerifyNodeProofs.

Theorem C07_ral_source_is_the_hand_model : forall keccak ecrecover s gov data,
  RalVerifyModel.ral_source keccak ecrecover s gov data =
  option_map RalVerifyModel.rets_of (RalVerifyModel.ral_accepts keccak ecrecover s gov data).
Proof. exact RalVerifyProofs.ral_source_eq. Qed.

(* accepted (with these return values) exactly when: the bytes parse, a governance VAA names the current set, the named set is the
   current one or the unexpired previous one, it is not empty, the NODE's quorum for its size is met by the signature count, the
   guardian indices are strictly ascending from -1 and every signature (recovery id + 27) recovers, over keccak(keccak(body)), to the
   20-byte key at 1 + 20 * index of the stored set; in every other case the VM aborts *)
Theorem C07_ral_source_accepts_iff : forall keccak ecrecover s gov data rets,
  RalVerifyModel.ral_source keccak ecrecover s gov data = Some rets <->
  exists r g n, Contracts.ral_parse data = Some r /\ (gov = true -> Contracts.rv_gsidx r = RalVerifyModel.gs_cur_idx s) /\
    RalVerifyModel.guardians_for s (Contracts.rv_gsidx r) = Some g /\ RalVerifyModel.set_size g = Some n /\ n <> 0 /\
    go_quorum n <= Contracts.rv_numsigs r /\
    RalVerifyModel.recs_ok ecrecover (keccak (keccak (Contracts.rv_hashed r))) g (-1) (Contracts.rv_sig_records r) = true /\
    rets = (Ralph.RZ (Contracts.rv_echain r) :: Ralph.RZ (Contracts.rv_tchain r) :: Ralph.RB (Contracts.rv_eaddr r) ::
            Ralph.RZ (Contracts.rv_seq r) :: Ralph.RB (Contracts.rv_payload r) :: nil)%list.
Proof. exact RalVerifyProofs.ral_source_accepts_iff. Qed.

(* the decision of the fully translated function is ral_parse_and_verify (the separately translated guards around the quorum test,
   theorems above) with its oracle bit := the verdict of the translated signature loop: one function, not two readings *)
Theorem C07_ral_source_decision_is_parse_and_verify : forall keccak ecrecover s gov data r g n,
  Contracts.ral_parse data = Some r -> RalVerifyModel.guardians_for s (Contracts.rv_gsidx r) = Some g -> RalVerifyModel.set_size g = Some n ->
  RalVerifyProofs.is_some (RalVerifyModel.ral_source keccak ecrecover s gov data) =
  ral_parse_and_verify ral_version_byte ral_version_byte (Contracts.rv_gsidx r) (RalVerifyModel.gs_cur_idx s) n (Contracts.rv_numsigs r) gov
    (RalVerifyModel.recs_ok ecrecover (keccak (keccak (Contracts.rv_hashed r))) g (-1) (Contracts.rv_sig_records r)).
Proof. exact RalVerifyProofs.ral_source_decision. Qed.

(* THE sentence of the statement for the one translated function, against the node's own acceptance (Vaa.verify_sigs = the model of
   VAA.VerifySignatures, compared with the Go code by C06's harness; go_quorum generated from quorum.go): on the bytes Marshal produces
   for a well-formed VAA, with the named guardian set (20-byte keys, no key twice) stored as the contract stores it and usable for this
   kind of VAA, governance.ral parseAndVerifyVAA returns the node's field values EXACTLY when the node considers the VAA complete, and
   aborts otherwise.  vm_is_node relates the two recovery oracles: on r ++ s ++ (v + 27) the VM recovers what go-ethereum recovers on
   r ++ s ++ v (and where v + 27 does not fit a byte go-ethereum refuses v). *)
Theorem C07_ral_contract_accepts_iff_node_complete : forall keccak recover ecrecover,
  (forall h sg, length sg = 65%nat ->
     (if Bytes.unbe (skipn 64 sg) + 27 <? 256 then ecrecover h (firstn 64 sg ++ Bytes.be 1 (Bytes.unbe (skipn 64 sg) + 27))%list else None) = recover h sg) ->
  forall s gov v K, Vaa.wf v -> RalVerifyNodeProofs.keys20 K -> NoDup K -> (1 <= length K <= 255)%nat ->
  RalVerifyModel.guardians_for s (Vaa.gsidx v) = Some (RalVerifyModel.stored_set K) -> (gov = true -> Vaa.gsidx v = RalVerifyModel.gs_cur_idx s) ->
  RalVerifyModel.ral_source keccak ecrecover s gov (Vaa.marshal v) =
  if Vaa.verify_sigs recover keccak v K && (go_quorum (Z.of_nat (length K)) <=? Z.of_nat (length (Vaa.sigs v)))
  then Some (Ralph.RZ (Vaa.echain v) :: Ralph.RZ (Vaa.tchain v) :: Ralph.RB (Vaa.eaddr v) :: Ralph.RZ (Vaa.seq v) :: Ralph.RB (Vaa.payload v) :: nil)%list
  else None.
Proof. exact RalVerifyNodeProofs.contract_accepts_iff_node_complete. Qed.

Module X11Example.
Import List ListNotations Coq.Strings.Byte Ralph Vaa RalVerifyModel.
(* toy oracles: the "address" of a signature is its first 20 bytes *)
Definition toy_keccak (b : list byte) : list byte := firstn 32 (b ++ repeat x00 32).
Definition toy_recover (h s : list byte) : option (list byte) := if (length h =? 32)%nat then Some (firstn 20 s) else None.
Definition st : ral_gstate :=
  {| gs_cur_idx := 3; gs_cur := x04 :: repeat x11 20 ++ repeat x22 20 ++ repeat x33 20 ++ repeat x44 20;
     gs_prev_idx := 2; gs_prev := x01 :: repeat x11 20; gs_now := 50; gs_prev_exp := 40 |}.
Definition sg (i : Z) (b : byte) : sig := {| s_idx := i; s_data := repeat b 64 ++ [x01] |}.
Definition v (idx : Z) (ss : list sig) : vaa :=
  {| version := 1; gsidx := idx; sigs := ss; ts := 1700000000; tns := 0; nonce := 7; echain := 5; tchain := 0; eaddr := repeat xab 32;
     seq := 42; cl := 1; payload := [x07] |}.
Example C07_ral_source_example :
  (* 3 of 4 in ascending order: accepted, the node's fields are handed back *)
  ral_source toy_keccak toy_recover st true (marshal (v 3 [sg 0 x11; sg 2 x33; sg 3 x44])) = Some [RZ 5; RZ 0; RB (repeat xab 32); RZ 42; RB [x07]] /\
  (* 2 of 4: below the quorum *)
  ral_source toy_keccak toy_recover st false (marshal (v 3 [sg 0 x11; sg 2 x33])) = None /\
  (* the same guardian three times / descending order / a key of another slot *)
  ral_source toy_keccak toy_recover st false (marshal (v 3 [sg 0 x11; sg 0 x11; sg 0 x11])) = None /\
  ral_source toy_keccak toy_recover st false (marshal (v 3 [sg 2 x33; sg 0 x11; sg 3 x44])) = None /\
  ral_source toy_keccak toy_recover st false (marshal (v 3 [sg 0 x11; sg 1 x33; sg 3 x44])) = None /\
  (* the previous set: expired here; not expired: accepted unless it is a governance VAA *)
  ral_source toy_keccak toy_recover st false (marshal (v 2 [sg 0 x11])) = None /\
  ral_source toy_keccak toy_recover {| gs_cur_idx := 3; gs_cur := gs_cur st; gs_prev_idx := 2; gs_prev := gs_prev st; gs_now := 40; gs_prev_exp := 40 |}
    false (marshal (v 2 [sg 0 x11])) = Some [RZ 5; RZ 0; RB (repeat xab 32); RZ 42; RB [x07]] /\
  ral_source toy_keccak toy_recover {| gs_cur_idx := 3; gs_cur := gs_cur st; gs_prev_idx := 2; gs_prev := gs_prev st; gs_now := 40; gs_prev_exp := 40 |}
    true (marshal (v 2 [sg 0 x11])) = None.
Proof. vm_compute. repeat apply conj; reflexivity. Qed.
(* the premises of C07_ral_contract_accepts_iff_node_complete hold of a concrete VAA, set and pair of oracles (conclusion: accepted) *)
Definition K4 : list (list byte) := [repeat x11 20; repeat x22 20; repeat x33 20; repeat x44 20].
Definition toy_node_recover (h sg : list byte) : option (list byte) := if Bytes.unbe (skipn 64 sg) + 27 <? 256 then Some (firstn 20 sg) else None.
Definition toy_vm_recover (h sg : list byte) : option (list byte) := Some (firstn 20 sg).
Definition v3 : vaa := v 3 [sg 0 x11; sg 2 x33; sg 3 x44].
Example C07_ral_contract_accepts_iff_node_complete_ex :
  (forall h sg, length sg = 65%nat ->
     (if Bytes.unbe (skipn 64 sg) + 27 <? 256 then toy_vm_recover h (firstn 64 sg ++ Bytes.be 1 (Bytes.unbe (skipn 64 sg) + 27)) else None) = toy_node_recover h sg) /\
  wf v3 /\ RalVerifyNodeProofs.keys20 K4 /\ NoDup K4 /\ (1 <= length K4 <= 255)%nat /\
  guardians_for st (gsidx v3) = Some (stored_set K4) /\ gsidx v3 = gs_cur_idx st /\
  verify_sigs toy_node_recover toy_keccak v3 K4 = true /\ go_quorum 4 <= 3 /\
  ral_source toy_keccak toy_vm_recover st true (marshal v3) = Some [RZ 5; RZ 0; RB (repeat xab 32); RZ 42; RB [x07]].
Proof.
  split.
  { intros h s L. unfold toy_vm_recover, toy_node_recover. destruct (Bytes.unbe (skipn 64 s) + 27 <? 256); [|reflexivity].
    f_equal. rewrite firstn_app, firstn_firstn, firstn_length, L. change (Init.Nat.min 20 64) with 20%nat.
    change (20 - Init.Nat.min 64 65)%nat with 0%nat. cbn [firstn]. apply app_nil_r. }
  split.
  { constructor; try reflexivity; unfold rng; cbn; try lia; try discriminate.
    repeat constructor; unfold rng; cbn; lia. }
  split; [repeat constructor|].
  split; [repeat constructor; cbn; intuition discriminate|].
  split; [cbn; lia|].
  vm_compute. repeat apply conj; try reflexivity. discriminate.
Qed.
End X11Example.

(* ---- X12: Messages.sol parseVM / verifySignatures / verifyVM / parseAndVerifyVM translated IN FULL (gen/x_solverify.py ->
   gen/ExtractedSolVerify.v).  src_* are the generated functions over an environment record E (keccak256 and ecrecover as oracles,
   getGuardianSet / current index / block time as the contract state); None = the call reverts. *)
From WH Require lib.SolRt gen.ExtractedSolVerify model.Vaa proofs.SolVerifyProofs.

(* the translated verifyVM — with the translated verifySignatures plugged in — IS sol_verifyVM of the theorems above at sigs_valid := the
   verdict of that verifySignatures: C07_sol_verifyVM_accepts_iff is about ONE function, not two readings of the source *)
Theorem C07_sol_source_verifyVM_is_sol_verifyVM : forall E vm,
  let gs := ExtractedSolVerify.e_getGuardianSet E (ExtractedSolVerify.VM_guardianSetIndex vm) in
  SolVerifyProofs.accepted (ExtractedSolVerify.src_verifyVM E vm) =
  sol_verifyVM (Z.of_nat (length (ExtractedSolVerify.GuardianSet_keys gs))) (Z.of_nat (length (ExtractedSolVerify.VM_signatures vm)))
               (ExtractedSolVerify.VM_guardianSetIndex vm) (ExtractedSolVerify.e_curidx E) (ExtractedSolVerify.GuardianSet_expirationTime gs)
               (ExtractedSolVerify.e_now E)
               (SolVerifyProofs.accepted (ExtractedSolVerify.src_verifySignatures E (ExtractedSolVerify.VM_hash vm) (ExtractedSolVerify.VM_signatures vm) gs)).
Proof. exact SolVerifyProofs.src_verifyVM_eq. Qed.

(* the translated signature loop accepts exactly: guardian indices strictly ascending from the SECOND record on (`i == 0 ||`), every
   index inside the key list, every recovered address equal to the key at its index; the first record that breaks the order or points
   outside the key list reverts the call (array bounds panic: the source has no explicit bound test), a wrong signer returns (false, _) *)
Theorem C07_sol_source_verifySignatures_accepts_iff : forall E h sigs gs,
  (exists r, ExtractedSolVerify.src_verifySignatures E h sigs gs = Some (true, r)) <->
  SolVerifyProofs.ascending (List.map ExtractedSolVerify.Signature_guardianIndex sigs) /\
  List.Forall (SolVerifyProofs.sig_valid E h (ExtractedSolVerify.GuardianSet_keys gs)) sigs.
Proof. exact SolVerifyProofs.src_verifySignatures_accepts_iff. Qed.

Theorem C07_sol_source_verifySignatures_outcomes : forall E h gs pre s post,
  SolVerifyProofs.ascending (List.map ExtractedSolVerify.Signature_guardianIndex pre) ->
  List.Forall (SolVerifyProofs.sig_valid E h (ExtractedSolVerify.GuardianSet_keys gs)) pre ->
  let gi := ExtractedSolVerify.Signature_guardianIndex s in
  let ordered := match pre with nil => True | _ => ExtractedSolVerify.Signature_guardianIndex (List.last pre ExtractedSolVerify.zero_Signature) < gi end in
  (~ ordered -> ExtractedSolVerify.src_verifySignatures E h (pre ++ s :: post) gs = None) /\
  (ordered -> List.nth_error (ExtractedSolVerify.GuardianSet_keys gs) (Z.to_nat gi) = None ->
     ExtractedSolVerify.src_verifySignatures E h (pre ++ s :: post) gs = None) /\
  (ordered -> forall k, List.nth_error (ExtractedSolVerify.GuardianSet_keys gs) (Z.to_nat gi) = Some k -> SolVerifyProofs.sig_signer E h s <> k ->
     ExtractedSolVerify.src_verifySignatures E h (pre ++ s :: post) gs = Some (false, SolVerifyProofs.reason_signature_invalid)).
Proof. exact SolVerifyProofs.src_verifySignatures_outcomes. Qed.

(* the statement's sentence on the contract's real entry point: a wire VAA produced by the node's Marshal goes through the translated
   parseAndVerifyVM exactly when the set it names is non-empty and current or unexpired, the NODE's quorum for that set's size is met,
   the guardian indices are strictly ascending and every signature recovers — over the digest the node signs — the key at its index;
   hence an accepted VAA carries at least quorum many pairwise DISTINCT signers and one with fewer is never accepted *)
Theorem C07_sol_source_accepts_iff : forall E v,
  Vaa.wf v -> SolVerifyProofs.fits_memory (Vaa.marshal v) -> List.Forall SolVerifyProofs.recid_ok (Vaa.sigs v) ->
  let gs := ExtractedSolVerify.e_getGuardianSet E (Vaa.gsidx v) in
  let n := Z.of_nat (length (ExtractedSolVerify.GuardianSet_keys gs)) in
  (SolVerifyProofs.accepted3 (ExtractedSolVerify.src_parseAndVerifyVM E (Vaa.marshal v)) = true <->
   n <> 0 /\ (Vaa.gsidx v = ExtractedSolVerify.e_curidx E \/ ExtractedSolVerify.e_now E <= ExtractedSolVerify.GuardianSet_expirationTime gs) /\
   go_quorum n <= Z.of_nat (length (Vaa.sigs v)) /\ SolVerifyProofs.ascending (List.map Vaa.s_idx (Vaa.sigs v)) /\
   List.Forall (fun s => SolVerifyProofs.sig_valid E (Vaa.digest (ExtractedSolVerify.e_keccak256 E) v) (ExtractedSolVerify.GuardianSet_keys gs)
                           (SolVerifyProofs.sig_of_go s)) (Vaa.sigs v)) /\
  (SolVerifyProofs.accepted3 (ExtractedSolVerify.src_parseAndVerifyVM E (Vaa.marshal v)) = true ->
   List.NoDup (List.map Vaa.s_idx (Vaa.sigs v)) /\ go_quorum n <= Z.of_nat (length (List.map Vaa.s_idx (Vaa.sigs v)))).
Proof.
  intros E v W M R gs n. split; [apply SolVerifyProofs.sol_source_accepts_iff; assumption|].
  apply SolVerifyProofs.sol_source_accepted_has_quorum_of_distinct_signers; assumption.
Qed.

Theorem C07_sol_source_parseAndVerifyVM_composes : forall E bs,
  ExtractedSolVerify.src_parseAndVerifyVM E bs =
  match ExtractedSolVerify.src_parseVM E bs with
  | None => None
  | Some vm => match ExtractedSolVerify.src_verifyVM E vm with None => None | Some (valid, reason) => Some (vm, valid, reason) end
  end.
Proof. exact SolVerifyProofs.src_parseAndVerifyVM_eq. Qed.

Module X12Example.
Import Coq.Strings.String List ListNotations Coq.Strings.Byte Vaa ExtractedSolVerify SolVerifyProofs.
(* toy oracles: keccak256 = first 32 bytes of the input padded with zeros; the "signer" of (hash, v, r, s) is the first 20 bytes of r when
   the hash is 32 bytes long *)
Definition toy_keccak (b : list byte) : list byte := firstn 32 (b ++ repeat x00 32).
Definition E3 : SolEnv :=
  {| e_keccak256 := toy_keccak; e_ecrecover := fun h _ r _ => if (List.length h =? 32)%nat then firstn 20 r else SolRt.zero_address;
     e_getGuardianSet := fun i => if i =? 3 then {| GuardianSet_keys := [repeat x11 20; repeat x22 20; repeat x33 20; repeat x44 20]; GuardianSet_expirationTime := 0 |}
                                  else if i =? 2 then {| GuardianSet_keys := [repeat x11 20]; GuardianSet_expirationTime := 40 |} else zero_GuardianSet;
     e_curidx := 3; e_now := 50 |}.
Definition sg (i : Z) (b : byte) : sig := {| s_idx := i; s_data := repeat b 64 ++ [x01] |}.
Definition v (idx : Z) (ss : list sig) : vaa :=
  {| version := 1; gsidx := idx; sigs := ss; ts := 1700000000; tns := 0; nonce := 7; echain := 5; tchain := 2; eaddr := repeat xab 32;
     seq := 42; cl := 1; payload := [x07] |}.
Definition verdict (x : vaa) := option_map (fun r => snd (fst r)) (src_parseAndVerifyVM E3 (marshal x)).
Example C07_sol_source_example :
  (* hypotheses of C07_sol_source_accepts_iff hold for the accepted VAA *)
  wfb (v 3 [sg 0 x11; sg 2 x33; sg 3 x44]) = true /\ fits_memory (marshal (v 3 [sg 0 x11; sg 2 x33; sg 3 x44])) /\
  forallb (fun s => Bytes.unbe (skipn 64 (s_data s)) + 27 <? 2 ^ 8) [sg 0 x11; sg 2 x33; sg 3 x44] = true /\
  (* 3 of 4 ascending: accepted; 2 of 4: "no quorum" *)
  verdict (v 3 [sg 0 x11; sg 2 x33; sg 3 x44]) = Some true /\ verdict (v 3 [sg 0 x11; sg 2 x33]) = Some false /\
  (* one guardian three times / descending order: revert; a key of another slot: (false, "VM signature invalid"); index = number of keys: revert *)
  verdict (v 3 [sg 0 x11; sg 0 x11; sg 0 x11]) = None /\ verdict (v 3 [sg 2 x33; sg 0 x11; sg 3 x44]) = None /\
  verdict (v 3 [sg 0 x11; sg 1 x33; sg 3 x44]) = Some false /\ verdict (v 3 [sg 0 x11; sg 2 x33; sg 4 x44]) = None /\
  (* an expired earlier set; an unknown set *)
  verdict (v 2 [sg 0 x11]) = Some false /\ verdict (v 9 [sg 0 x11]) = Some false /\
  option_map snd (src_parseAndVerifyVM E3 (marshal (v 2 [sg 0 x11]))) = Some "guardian set has expired"%string.
Proof. vm_compute. repeat apply conj; reflexivity. Qed.
End X12Example.

Print Assumptions C07_go_formula.
Print Assumptions C07_go_no_overflow.
Print Assumptions C07_contracts_agree.
Print Assumptions C07_accept_iff.
Print Assumptions C07_sol_verifyVM_accepts_iff.
Print Assumptions C07_ral_parse_and_verify_accepts_iff.
Print Assumptions C07_complete_accepted_incomplete_rejected.
Print Assumptions C07_bounds.
Print Assumptions C07_intersection.
Print Assumptions C07_ral_source_is_the_hand_model.
Print Assumptions C07_ral_source_accepts_iff.
Print Assumptions C07_ral_source_decision_is_parse_and_verify.
Print Assumptions C07_sol_source_verifyVM_is_sol_verifyVM.
Print Assumptions C07_sol_source_verifySignatures_accepts_iff.
Print Assumptions C07_sol_source_verifySignatures_outcomes.
Print Assumptions C07_sol_source_accepts_iff.
Print Assumptions C07_sol_source_parseAndVerifyVM_composes.
Print Assumptions C07_ral_contract_accepts_iff_node_complete.
