(* C07 — quorum threshold = floor(2n/3)+1 in node and contracts, BFT-safe.
   go_quorum / sol_quorum / ral_quorum are GENERATED from quorum.go, Messages.sol, governance.ral on every run. *)
From Coq Require Import List ZArith Lia Bool.
From WH Require Import gen.Extracted gen.ExtractedContractVerify proofs.QuorumProofs proofs.ContractVerifyProofs.
Open Scope Z_scope.

(* the node's threshold is floor(2n/3)+1, for every n >= 0 (unbounded) *)
Theorem C07_go_formula : forall n, 0 <= n -> go_quorum n = 2 * n / 3 + 1.
Proof. exact go_quorum_spec. Qed.

(* ... and the 64-bit Go computation cannot overflow below 2^59 guardians *)
Theorem C07_go_no_overflow : forall n, 0 <= n < 2 ^ 59 ->
  0 <= n * 10 < 2 ^ 63 /\ 0 <= Z.quot (n * 10) 3 * 2 < 2 ^ 63 /\ 0 <= go_quorum n < 2 ^ 63.
Proof. exact go_quorum_no_overflow. Qed.

(* both contracts compute the same value *)
Theorem C07_contracts_agree : forall n, 0 <= n ->
  sol_quorum n = go_quorum n /\ ral_quorum n = go_quorum n.
Proof.
  intros n Hn. rewrite sol_quorum_spec, ral_quorum_spec, go_quorum_spec by assumption. split; reflexivity.
Qed.

(* a VAA the node considers complete (k >= go_quorum n signatures) passes both contracts' count test, an incomplete one does not *)
Theorem C07_accept_iff : forall n k, 0 <= n ->
  (sol_quorum_accepts (sol_quorum n) k = true <-> go_quorum n <= k) /\
  (ral_quorum_accepts (ral_quorum n) k = true <-> go_quorum n <= k).
Proof.
  intros n k Hn. rewrite sol_quorum_spec, ral_quorum_spec, go_quorum_spec by assumption.
  unfold sol_quorum_accepts, ral_quorum_accepts. rewrite Z.leb_le. split; reflexivity.
Qed.

(* The count test where it stands in the contracts.  sol_verifyVM / ral_parse_and_verify are GENERATED statement by statement from
   Messages.sol verifyVM and governance.ral parseAndVerifyVAA (gen/x_contractverify.py) on every run, so the conditions under which the
   quorum test is evaluated at all are part of what is proved: for every guardian count n >= 0, signature count k, set indices, expiry
   and block times, each contract accepts exactly when the node's threshold is met and its other guards (non-empty known set, set not
   expired unless current / governance VAAs only from the current set, version byte, every signature valid) pass. *)
Theorem C07_sol_verifyVM_accepts_iff : forall n k vidx curidx exptime now sigs_valid, 0 <= n ->
  sol_verifyVM n k vidx curidx exptime now sigs_valid = true <->
  n <> 0 /\ (vidx = curidx \/ now <= exptime) /\ go_quorum n <= k /\ sigs_valid = true.
Proof. exact sol_accepts_iff. Qed.

Theorem C07_ral_parse_and_verify_accepts_iff : forall ver version_const vidx curidx n k gov sigs_ok, 0 <= n ->
  ral_parse_and_verify ver version_const vidx curidx n k gov sigs_ok = true <->
  ver = version_const /\ (gov = true -> vidx = curidx) /\ n <> 0 /\ go_quorum n <= k /\ sigs_ok = true.
Proof. exact ral_accepts_iff. Qed.

(* the statement's sentence, both directions: complete => accepted on chain (current set, valid signatures), incomplete => rejected
   whatever else holds *)
Theorem C07_complete_accepted_incomplete_rejected : forall n k idx exptime now ver, 1 <= n ->
  (go_quorum n <= k ->
     sol_verifyVM n k idx idx exptime now true = true /\ forall gov, ral_parse_and_verify ver ver idx idx n k gov true = true) /\
  (k < go_quorum n ->
     (forall vidx curidx sv, sol_verifyVM n k vidx curidx exptime now sv = false) /\
     (forall vc vidx curidx gov sg, ral_parse_and_verify ver vc vidx curidx n k gov sg = false)).
Proof.
  intros n k idx exptime now ver Hn. split; intros Hq.
  - split; [|intros gov]; [apply sol_accepts_iff | apply ral_accepts_iff]; intuition lia.
  - split; intros; apply not_true_is_false; intros A; [apply sol_accepts_iff in A | apply ral_accepts_iff in A]; intuition lia.
Qed.

Example C07_contract_values :
  sol_verifyVM 19 13 4 4 0 100 true = true /\ sol_verifyVM 19 12 4 4 0 100 true = false /\ sol_verifyVM 19 13 3 4 0 100 true = false /\
  ral_parse_and_verify 1 1 4 4 19 13 false true = true /\ ral_parse_and_verify 1 1 3 4 19 12 false true = false /\
  ral_parse_and_verify 1 1 3 4 19 13 true true = false.
Proof. vm_compute. repeat split; reflexivity. Qed.

(* more than two thirds, never more than n *)
Theorem C07_bounds : forall n, 1 <= n -> 3 * go_quorum n > 2 * n /\ 1 <= go_quorum n <= n.
Proof.
  intros n Hn. rewrite go_quorum_spec by lia.
  pose proof (quorum_gt_two_thirds n ltac:(lia)). pose proof (quorum_le n Hn). pose proof (quorum_pos n ltac:(lia)). lia.
Qed.

(* any two quorums of distinct members of one set share more than a third of the set *)
Theorem C07_intersection : forall (A : Type) (eqb : A -> A -> bool), (forall a b, reflect (a = b) (eqb a b)) ->
  forall keys l1 l2 : list A,
  NoDup l1 -> NoDup l2 -> incl l1 keys -> incl l2 keys ->
  go_quorum (Z.of_nat (length keys)) <= Z.of_nat (length l1) ->
  go_quorum (Z.of_nat (length keys)) <= Z.of_nat (length l2) ->
  3 * Z.of_nat (length (inter eqb l1 l2)) > Z.of_nat (length keys).
Proof.
  intros A eqb sp keys l1 l2 N1 N2 I1 I2. rewrite go_quorum_spec by lia. apply quorums_intersect; assumption.
Qed.

(* non-vacuity / concrete values *)
Example C07_values : go_quorum 1 = 1 /\ go_quorum 3 = 3 /\ go_quorum 4 = 3 /\ go_quorum 19 = 13 /\ go_quorum 255 = 171
  /\ sol_quorum 19 = 13 /\ ral_quorum 19 = 13.
Proof. vm_compute. repeat split; reflexivity. Qed.

Print Assumptions C07_go_formula.
Print Assumptions C07_go_no_overflow.
Print Assumptions C07_contracts_agree.
Print Assumptions C07_accept_iff.
Print Assumptions C07_sol_verifyVM_accepts_iff.
Print Assumptions C07_ral_parse_and_verify_accepts_iff.
Print Assumptions C07_complete_accepted_incomplete_rejected.
Print Assumptions C07_bounds.
Print Assumptions C07_intersection.
