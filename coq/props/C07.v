(* C07 — quorum threshold = floor(2n/3)+1 in node and contracts, BFT-safe.
   go_quorum / sol_quorum / ral_quorum are GENERATED from quorum.go, Messages.sol, governance.ral on every run. *)
From Coq Require Import List ZArith Lia Bool.
From WH Require Import gen.Extracted proofs.QuorumProofs.
Open Scope Z_scope.

(* the node's threshold is floor(2n/3)+1, for every n >= 0 (unbounded) *)
Theorem C07_go_formula : forall n, 0 <= n -> go_quorum n = 2 * n / 3 + 1.
Proof. exact go_quorum_spec. Qed.

(* ... and the 64-bit Go computation cannot overflow below 2^59 guardians *)
Theorem C07_go_no_overflow : forall n, 0 <= n < 2 ^ 59 ->
  0 <= n * 10 < 2 ^ 63 /\ 0 <= Z.quot (n * 10) 3 * 2 < 2 ^ 63 /\ 0 <= go_quorum n < 2 ^ 63.
Proof. exact go_quorum_no_overflow. Qed.

(* both contracts compute the same value *)
Theorem C07_contracts_agree : forall n, 0 <= n ->
  sol_quorum n = go_quorum n /\ ral_quorum n = go_quorum n.
Proof.
  intros n Hn. rewrite sol_quorum_spec, ral_quorum_spec, go_quorum_spec by assumption. split; reflexivity.
Qed.

(* a VAA the node considers complete (k >= go_quorum n signatures) passes both contracts' count test, an incomplete one does not *)
Theorem C07_accept_iff : forall n k, 0 <= n ->
  (sol_quorum_accepts (sol_quorum n) k = true <-> go_quorum n <= k) /\
  (ral_quorum_accepts (ral_quorum n) k = true <-> go_quorum n <= k).
Proof.
  intros n k Hn. rewrite sol_quorum_spec, ral_quorum_spec, go_quorum_spec by assumption.
  unfold sol_quorum_accepts, ral_quorum_accepts. rewrite Z.leb_le. split; reflexivity.
Qed.

(* more than two thirds, never more than n *)
Theorem C07_bounds : forall n, 1 <= n -> 3 * go_quorum n > 2 * n /\ 1 <= go_quorum n <= n.
Proof.
  intros n Hn. rewrite go_quorum_spec by lia.
  pose proof (quorum_gt_two_thirds n ltac:(lia)). pose proof (quorum_le n Hn). pose proof (quorum_pos n ltac:(lia)). lia.
Qed.

(* any two quorums of distinct members of one set share more than a third of the set *)
Theorem C07_intersection : forall (A : Type) (eqb : A -> A -> bool), (forall a b, reflect (a = b) (eqb a b)) ->
  forall keys l1 l2 : list A,
  NoDup l1 -> NoDup l2 -> incl l1 keys -> incl l2 keys ->
  go_quorum (Z.of_nat (length keys)) <= Z.of_nat (length l1) ->
  go_quorum (Z.of_nat (length keys)) <= Z.of_nat (length l2) ->
  3 * Z.of_nat (length (inter eqb l1 l2)) > Z.of_nat (length keys).
Proof.
  intros A eqb sp keys l1 l2 N1 N2 I1 I2. rewrite go_quorum_spec by lia. apply quorums_intersect; assumption.
Qed.

(* non-vacuity / concrete values *)
Example C07_values : go_quorum 1 = 1 /\ go_quorum 3 = 3 /\ go_quorum 4 = 3 /\ go_quorum 19 = 13 /\ go_quorum 255 = 171
  /\ sol_quorum 19 = 13 /\ ral_quorum 19 = 13.
Proof. vm_compute. repeat split; reflexivity. Qed.

Print Assumptions C07_go_formula.
Print Assumptions C07_go_no_overflow.
Print Assumptions C07_contracts_agree.
Print Assumptions C07_accept_iff.
Print Assumptions C07_bounds.
Print Assumptions C07_intersection.
