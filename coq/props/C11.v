(* C11 — placeholder while the defect is being replayed; replaced by the full statements *)
From Coq Require Import Strings.String.
From Coq Require Import List ZArith Bool Arith Strings.Byte.
From WH Require Import lib.Bytes lib.Digits gen.Extracted model.Vaa model.AlphConv.
Import ListNotations. Open Scope Z_scope.
(* the statement the property needs; FAILS on the unrepaired source (65535 is rejected by `Cmp(max) < 0`) *)
Example C11_target_65535_accepted : to_uint16 (vu256 65535) = COk 65535.
Proof. vm_compute. reflexivity. Qed.
Example C11_negative_rejected : to_uint8 (VU256 (str "U256") (str "-1")) = CErr EUint8.
Proof. vm_compute. reflexivity. Qed.
