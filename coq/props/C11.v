(* C11 — Alephium event fields map faithfully to the attested message.
   The model (model/AlphConv.v) follows node/pkg/alephium/utils.go statement by statement; the range tests of
   toUint8/toUint16, the field positions, the nonce width, the timestamp split, the chain id, the slices of
   parseAttestToken and the contract-address shape are GENERATED from the Go source, the attestation payload
   concatenation, its size assertions and the event's field order from the Ralph sources (gen/Extracted.v). *)
From Coq Require Import Strings.String.
From Coq Require Import List ZArith Lia Bool Arith.
From Coq Require Import Strings.Byte.
From WH Require Import lib.Bytes lib.Digits gen.Extracted model.Vaa model.AlphConv proofs.AlphConvProofs.
Import ListNotations.
Open Scope Z_scope.

(* ------------------------------------------------------------------ (1) every fitting event is decoded exactly *)
(* [event_fields] is the event as an Alephium node reports it (ByteVec as lower-case hex, U256 as canonical decimal
   string) with the field order of the `event WormholeMessage` declaration of governance.ral. *)
Theorem C11_fitting_event_decoded : forall sender target sequence nonce payload level txid,
  length sender = 32%nat -> 0 <= target <= 65535 -> 0 <= sequence < 2 ^ 64 -> length nonce = 4%nat -> 0 <= level <= 255 ->
  to_wormhole_message (event_fields sender target sequence nonce payload level) txid =
  COk {| w_txid := txid; w_sender := sender; w_target := target; w_nonce := unbe nonce; w_payload := payload;
         w_seq := sequence; w_cl := level |}.
Proof. intros. apply wm_decodes; assumption. Qed.

Example C11_fitting_event_decoded_ex :
  to_wormhole_message (event_fields (repeat xab 32) 65535 18446744073709551615 [x12; xe5; x51; xd9] [x01; x02; x03] 255) (str "9fb8") =
  COk {| w_txid := str "9fb8"; w_sender := repeat xab 32; w_target := 65535; w_nonce := 317018585; w_payload := [x01; x02; x03];
         w_seq := 18446744073709551615; w_cl := 255 |}.
Proof. vm_compute. reflexivity. Qed.

(* ------------------------------------------------------------------ (2) what is accepted, exactly *)
(* An event is accepted iff it has exactly six fields of the right variants and type strings, the hex strings decode,
   sender has 32 bytes, nonce 4, and the three decimal strings denote integers inside the target's ranges; the result
   carries exactly the denoted values (no wrap, no truncation).  Everything else is an error ([cres] has two cases). *)
Theorem C11_accepted_exactly : forall fields txid m,
  to_wormhole_message fields txid = COk m <->
  exists s0 s1 s2 s3 s4 s5 nonce,
    fields = [VByteVec (str "ByteVec") s0; VU256 (str "U256") s1; VU256 (str "U256") s2;
              VByteVec (str "ByteVec") s3; VByteVec (str "ByteVec") s4; VU256 (str "U256") s5] /\
    hex_decode s0 = Some (w_sender m) /\ length (w_sender m) = 32%nat /\
    parse_dec s1 = Some (w_target m) /\ 0 <= w_target m <= 65535 /\
    parse_dec s2 = Some (w_seq m) /\ 0 <= w_seq m < 2 ^ 64 /\
    hex_decode s3 = Some nonce /\ length nonce = 4%nat /\ w_nonce m = unbe nonce /\
    hex_decode s4 = Some (w_payload m) /\
    parse_dec s5 = Some (w_cl m) /\ 0 <= w_cl m <= 255 /\
    w_txid m = txid.
Proof.
  intros fields txid m. split; [apply wm_accepts_only|].
  intros (s0 & s1 & s2 & s3 & s4 & s5 & nonce & -> & D0 & L0 & P1 & R1 & P2 & R2 & D3 & L3 & EN & D4 & P5 & R5 & ET).
  rewrite (wm_accepts_if s0 s1 s2 s3 s4 s5 _ _ _ _ _ _ txid D0 L0 P1 R1 P2 R2 D3 L3 D4 P5 R5).
  destruct m as [tx se ta no pa sq cl]. cbn [w_txid w_sender w_target w_nonce w_payload w_seq w_cl] in *. subst. reflexivity.
Qed.

(* ------------------------------------------------------------------ (3) values that do not fit are rejected *)
(* [fits bits (parse_dec s)]: the decimal string s denotes an integer in [0, 2^bits).  Whatever the other fields are. *)
Theorem C11_unfit_value_rejected : forall f0 s1 s2 f3 f4 s5 txid,
  ~ fits 16 (parse_dec s1) \/ ~ fits 64 (parse_dec s2) \/ ~ fits 8 (parse_dec s5) ->
  exists e, to_wormhole_message [f0; VU256 (str "U256") s1; VU256 (str "U256") s2; f3; f4; VU256 (str "U256") s5] txid = CErr e.
Proof. apply wm_rejects. Qed.

Example C11_unfit_value_rejected_ex : ~ fits 16 (parse_dec (str "65536")) /\ ~ fits 8 (parse_dec (str "-1")) /\ ~ fits 64 (parse_dec (str "1e3")).
Proof. repeat split; vm_compute; intros H; try destruct H; try discriminate; try contradiction. Qed.

(* the same for the strings a node (or anything else) can put there, spelled out: canonical decimals above the range and
   every negative decimal string *)
Theorem C11_too_large_rejected : forall sender target sequence nonce payload level txid,
  0 <= target -> 0 <= sequence -> 0 <= level -> 65535 < target \/ 2 ^ 64 <= sequence \/ 255 < level ->
  exists e, to_wormhole_message (event_fields sender target sequence nonce payload level) txid = CErr e.
Proof.
  intros sender target sequence nonce payload level txid Ht Hs Hl H. rewrite event_fields_eq. apply wm_rejects.
  rewrite !parse_dec_dec by assumption. cbn [fits]. change (2 ^ 16) with 65536. change (2 ^ 8) with 256. lia.
Qed.

Theorem C11_negative_rejected : forall f0 f3 f4 a b c n txid, 0 < n ->
  let neg := VU256 (str "U256") ("-"%byte :: dec n) in
  (exists e, to_wormhole_message [f0; neg; VU256 (str "U256") b; f3; f4; VU256 (str "U256") c] txid = CErr e) /\
  (exists e, to_wormhole_message [f0; VU256 (str "U256") a; neg; f3; f4; VU256 (str "U256") c] txid = CErr e) /\
  (exists e, to_wormhole_message [f0; VU256 (str "U256") a; VU256 (str "U256") b; f3; f4; neg] txid = CErr e).
Proof.
  intros f0 f3 f4 a b c n txid Hn. cbv zeta.
  repeat apply conj; apply wm_rejects; [left|right; left|right; right]; rewrite parse_dec_neg by lia; cbn [fits]; lia.
Qed.

Example C11_negative_rejected_ex : to_uint8 (VU256 (str "U256") (str "-1")) = CErr EUint8 /\ to_uint16 (VU256 (str "U256") (str "-65537")) = CErr EUint16.
Proof. vm_compute. split; reflexivity. Qed.

(* wrong field count *)
Theorem C11_wrong_count_rejected : forall fields txid, length fields <> 6%nat -> to_wormhole_message fields txid = CErr EFieldCount.
Proof.
  intros fields txid H. unfold to_wormhole_message. change go_wm_field_size with 6%nat.
  destruct (Nat.eqb_spec (length fields) 6); [contradiction|reflexivity].
Qed.

(* the three narrowing conversions accept exactly the type's range and return the denoted value *)
Theorem C11_narrowing_exact : forall f x,
  (to_uint8 f = COk x <-> exists v, to_u256 f = COk v /\ v = x /\ 0 <= x <= 255) /\
  (to_uint16 f = COk x <-> exists v, to_u256 f = COk v /\ v = x /\ 0 <= x <= 65535) /\
  (to_uint64 f = COk x <-> exists v, to_u256 f = COk v /\ v = x /\ 0 <= x < 2 ^ 64).
Proof. intros f x. split; [apply to_uint8_ok|split; [apply to_uint16_ok|apply to_uint64_ok]]. Qed.

Example C11_boundaries_accepted : to_uint8 (vu256 255) = COk 255 /\ to_uint16 (vu256 65535) = COk 65535 /\
  to_uint64 (vu256 18446744073709551615) = COk 18446744073709551615 /\ to_uint8 (vu256 256) = CErr EUint8 /\
  to_uint16 (vu256 65536) = CErr EUint16 /\ to_uint64 (vu256 18446744073709551616) = CErr EUint64.
Proof. vm_compute. repeat split; reflexivity. Qed.

(* ------------------------------------------------------------------ (4) toMessagePublication *)
(* chain id 255, every decoded value carried over, and the timestamp is exactly the block timestamp (milliseconds):
   seconds * 10^9 + nanoseconds = ms * 10^6 with normalised nanoseconds, for every int64 ms (negative ones included) *)
Theorem C11_message_publication : forall w ms,
  let m := to_message_publication w ms in
  m_echain m = 255 /\ m_tchain m = w_target w /\ m_eaddr m = w_sender w /\ m_seq m = w_seq w /\ m_cl m = w_cl w /\
  m_nonce m = w_nonce w /\ m_payload m = w_payload w /\ m_tx m = hex_to_hash (w_txid w) /\
  m_ts m * 1000000000 + m_tns m = ms * 1000000 /\ 0 <= m_tns m < 1000000000.
Proof.
  intros w ms. cbv zeta. pose proof (mp_fields w ms) as F. pose proof (mp_time w ms) as T. cbv zeta in F, T.
  destruct F as (F1 & F2 & F3 & F4 & F5 & F6 & F7 & F8). destruct T as [T1 T2]. repeat apply conj; try assumption; lia.
Qed.

Theorem C11_timestamp_split : forall w ms, 0 <= ms ->
  let m := to_message_publication w ms in m_ts m = ms / 1000 /\ m_tns m = (ms mod 1000) * 1000000.
Proof. intros w ms H. apply mp_time_nonneg. exact H. Qed.

Example C11_timestamp_split_ex :
  let m := to_message_publication {| w_txid := []; w_sender := []; w_target := 2; w_nonce := 0; w_payload := []; w_seq := 7; w_cl := 1 |} 1663000000123 in
  m_ts m = 1663000000 /\ m_tns m = 123000000 /\ m_echain m = 255.
Proof. vm_compute. repeat split; reflexivity. Qed.

(* a transaction id reported as 64 lower-case hex digits becomes exactly those 32 bytes *)
Theorem C11_tx_hash : forall w ms id, length id = 32%nat -> w_txid w = to_hex id -> m_tx (to_message_publication w ms) = id.
Proof.
  intros w ms id L E. pose proof (mp_fields w ms) as F. cbv zeta in F.
  destruct F as (_ & _ & _ & _ & _ & _ & _ & F8). rewrite F8, E. apply hex_to_hash_to_hex. exact L.
Qed.

(* ------------------------------------------------------------------ (5) hex <-> Byte32 are mutually inverse *)
Theorem C11_hex_of_byte32 : forall b, length b = 32%nat -> hex_to_byte32 (to_hex b) = COk b.
Proof. apply hex_to_byte32_to_hex. Qed.

Theorem C11_byte32_of_hex : forall s b, hex_to_byte32 s = COk b -> forallb is_lower_hex s = true -> to_hex b = s /\ length b = 32%nat.
Proof. apply to_hex_hex_to_byte32. Qed.

Example C11_byte32_of_hex_ex : let s := str "deae14cf3bcfaea1f8f7e905fd8b554833d1bccaa8a9a1dd01f29fea6c7bca07" in
  forallb is_lower_hex s = true /\ exists b, hex_to_byte32 s = COk b /\ to_hex b = s.
Proof. cbv zeta. split; [vm_compute; reflexivity|]. eexists. split; vm_compute; reflexivity. Qed.

(* ------------------------------------------------------------------ (6) contract id <-> contract address *)
Theorem C11_contract_id_of_address : forall id a, length id = 32%nat ->
  to_contract_address (to_hex id) = COk a -> to_contract_id a = COk id.
Proof.
  intros id a L H. rewrite (to_contract_address_hex id L) in H. inversion H; subst. apply contract_id_of_address. exact L.
Qed.

Theorem C11_contract_address_total : forall id, length id = 32%nat -> exists a, to_contract_address (to_hex id) = COk a.
Proof. intros id L. eexists. apply to_contract_address_hex. exact L. Qed.

(* conversely: an address that decodes to the contract type byte 3 followed by an id is the address of that id *)
Theorem C11_contract_address_of_id : forall a id, to_contract_id a = COk id ->
  length id = 32%nat /\ exists p, b58_decode a = p :: id /\ (p = x03 -> to_contract_address (to_hex id) = COk a).
Proof. apply contract_address_of_id. Qed.

Example C11_contract_address_ex : let id := repeat x00 31 ++ [x01] in
  exists a, to_contract_address (to_hex id) = COk a /\ to_contract_id a = COk id /\ length a = 44%nat.
Proof. cbv zeta. eexists. repeat split; vm_compute; reflexivity. Qed.

(* ------------------------------------------------------------------ (7) attestation payloads *)
(* [attest_payload] = what token_bridge.ral attestToken builds (generated concatenation, size assertions and
   u256ToNByte! ranges); the node decodes it to the same id and decimals, and to symbol / name with the NUL padding
   removed *)
Theorem C11_attest_roundtrip : forall id decimals symbol name nonce p,
  attest_payload id go_chain_id_alephium decimals symbol name nonce = Some p ->
  parse_attest_token p = COk {| t_id := id; t_decimals := decimals; t_symbol := bytes_to_string symbol; t_name := bytes_to_string name |}.
Proof.
  intros id decimals symbol name nonce p H. apply attest_payload_inv in H as (-> & Li & Ls & Ln & _ & Hc & Hd).
  rewrite (parse_attest_payload id go_chain_id_alephium decimals symbol name Li Ls Ln Hc Hd). rewrite Z.eqb_refl. reflexivity.
Qed.

(* a token bridge deployed with another chain id is rejected, not misread *)
Theorem C11_attest_other_chain : forall id chain decimals symbol name nonce p, chain <> go_chain_id_alephium ->
  attest_payload id chain decimals symbol name nonce = Some p -> parse_attest_token p = CErr EAttestChain.
Proof.
  intros id chain decimals symbol name nonce p N H. apply attest_payload_inv in H as (-> & Li & Ls & Ln & _ & Hc & Hd).
  rewrite (parse_attest_payload id chain decimals symbol name Li Ls Ln Hc Hd).
  destruct (Z.eqb_spec chain go_chain_id_alephium); [contradiction|reflexivity].
Qed.

(* NUL padding on either side of a string that neither starts nor ends with NUL is removed exactly *)
Theorem C11_padding_removed : forall k j s, no_nul_ends s -> bytes_to_string (repeat x00 k ++ s ++ repeat x00 j) = s.
Proof. apply bytes_to_string_padded. Qed.

Theorem C11_attest_padded : forall id decimals sym name nonce p ks kn,
  no_nul_ends sym -> no_nul_ends name ->
  attest_payload id go_chain_id_alephium decimals (repeat x00 ks ++ sym) (repeat x00 kn ++ name) nonce = Some p ->
  parse_attest_token p = COk {| t_id := id; t_decimals := decimals; t_symbol := sym; t_name := name |}.
Proof.
  intros id decimals sym name nonce p ks kn Hs Hn H. rewrite (C11_attest_roundtrip _ _ _ _ _ _ H).
  pose proof (bytes_to_string_padded ks 0 sym Hs) as E1. pose proof (bytes_to_string_padded kn 0 name Hn) as E2.
  cbn [repeat] in E1, E2. rewrite app_nil_r in E1, E2. rewrite E1, E2. reflexivity.
Qed.

Example C11_attest_padded_ex : no_nul_ends (str "ALPH") /\
  exists p, attest_payload (repeat x07 32) go_chain_id_alephium 18 (repeat x00 28 ++ str "ALPH") (repeat x00 24 ++ str "Alephium") [x00; x00; x00; x01] = Some p /\
            length p = 100%nat.
Proof.
  split; [apply no_nul_no_nul_ends; repeat constructor; discriminate|]. eexists. split; vm_compute; reflexivity.
Qed.

(* end to end: the event attestToken publishes, as reported by a node, decodes to a message whose payload parses to the
   attested token *)
Theorem C11_attest_event : forall bridge id decimals symbol name nonce p sequence level txid,
  length bridge = 32%nat -> 0 <= sequence < 2 ^ 64 -> 0 <= level <= 255 ->
  attest_payload id go_chain_id_alephium decimals symbol name nonce = Some p ->
  exists w, to_wormhole_message (event_fields bridge ral_attest_target_chain sequence nonce p level) txid = COk w /\
            w_sender w = bridge /\ w_target w = 0 /\ w_seq w = sequence /\ w_cl w = level /\
            parse_attest_token (w_payload w) =
            COk {| t_id := id; t_decimals := decimals; t_symbol := bytes_to_string symbol; t_name := bytes_to_string name |}.
Proof.
  intros bridge id decimals symbol name nonce p sequence level txid Lb Hs Hl H.
  pose proof (attest_payload_inv _ _ _ _ _ _ _ H) as (_ & _ & _ & _ & Ln & _ & _).
  eexists. split; [apply wm_decodes; try assumption; change ral_attest_target_chain with 0; lia|].
  cbn [w_sender w_target w_seq w_cl w_payload]. repeat apply conj; try reflexivity.
  apply (C11_attest_roundtrip _ _ _ _ _ _ H).
Qed.

Print Assumptions C11_fitting_event_decoded.
Print Assumptions C11_accepted_exactly.
Print Assumptions C11_unfit_value_rejected.
Print Assumptions C11_too_large_rejected.
Print Assumptions C11_negative_rejected.
Print Assumptions C11_wrong_count_rejected.
Print Assumptions C11_narrowing_exact.
Print Assumptions C11_message_publication.
Print Assumptions C11_timestamp_split.
Print Assumptions C11_tx_hash.
Print Assumptions C11_hex_of_byte32.
Print Assumptions C11_byte32_of_hex.
Print Assumptions C11_contract_id_of_address.
Print Assumptions C11_contract_address_total.
Print Assumptions C11_contract_address_of_id.
Print Assumptions C11_attest_roundtrip.
Print Assumptions C11_attest_other_chain.
Print Assumptions C11_padding_removed.
Print Assumptions C11_attest_padded.
Print Assumptions C11_attest_event.

(* ================================================================== (8) the conversions inside the running watcher (X2) *)
(* model.AlphPipeline composes this file's conversions with the watcher of C08 / C09: events carry their raw fields, and
   ToWormholeMessage / parseAttestToken / GetTokenInfo / toMessagePublication are applied where watcher.go / reobserve.go apply
   them.  `faithful c EP HP AP f` is what proofs.AlphPipelineProofs.pipeline_end_to_end (props/C08.v: C08_pipeline_end_to_end)
   establishes for EVERY message f handed to the signer along EVERY history, on either path. *)
From WH Require Import model.AlphPipeline proofs.AlphPipelineRead.
From WH Require model.AlphWatcher.

(* a forwarded message whose event is the one the contract emits and a node reports (event_fields, all values in range) has
   exactly that event's values, the block timestamp (whole seconds + millisecond remainder) and the Alephium chain id *)
Theorem C11_pipeline_fitting_event_message : forall c EP HP AP f sender target sequence nonce payload level,
  faithful c EP HP AP f -> x_fields (xf_ev f) = event_fields sender target sequence nonce payload level ->
  length sender = 32%nat -> 0 <= target <= 65535 -> 0 <= sequence < 18446744073709551616 -> length nonce = 4%nat -> 0 <= level <= 255 ->
  0 <= AlphWatcher.h_ts (xf_hdr f) ->
  let m := xf_pub f in
  m_eaddr m = sender /\ sender = xc_bridge c /\ m_tchain m = target /\ m_seq m = sequence /\ m_nonce m = unbe nonce /\ m_payload m = payload /\ m_cl m = level /\
  m_echain m = 255 /\ m_tx m = hex_to_hash (x_txid (xf_ev f)) /\
  m_ts m = AlphWatcher.h_ts (xf_hdr f) / 1000 /\ m_tns m = (AlphWatcher.h_ts (xf_hdr f) mod 1000) * 1000000.
Proof. exact fitting_event_message. Qed.

(* for ANY raw fields: the message carries exactly the values the six fields denote (C11_accepted_exactly inside the pipeline) *)
Theorem C11_pipeline_message_fields : forall c EP HP AP f, faithful c EP HP AP f -> 0 <= AlphWatcher.h_ts (xf_hdr f) ->
  let m := xf_pub f in
  exists s0 s1 s2 s3 s4 s5 nonce,
    x_fields (xf_ev f) = [VByteVec Ty.bytevec s0; VU256 Ty.u256 s1; VU256 Ty.u256 s2; VByteVec Ty.bytevec s3; VByteVec Ty.bytevec s4; VU256 Ty.u256 s5] /\
    hex_decode s0 = Some (m_eaddr m) /\ length (m_eaddr m) = 32%nat /\ m_eaddr m = xc_bridge c /\
    parse_dec s1 = Some (m_tchain m) /\ 0 <= m_tchain m <= 65535 /\
    parse_dec s2 = Some (m_seq m) /\ 0 <= m_seq m < 18446744073709551616 /\
    hex_decode s3 = Some nonce /\ length nonce = 4%nat /\ m_nonce m = unbe nonce /\
    hex_decode s4 = Some (m_payload m) /\
    parse_dec s5 = Some (m_cl m) /\ 0 <= m_cl m <= 255 /\
    m_echain m = 255 /\ m_tx m = hex_to_hash (x_txid (xf_ev f)) /\
    m_ts m = AlphWatcher.h_ts (xf_hdr f) / 1000 /\ m_tns m = (AlphWatcher.h_ts (xf_hdr f) mod 1000) * 1000000.
Proof. exact faithful_message_fields. Qed.

(* events whose values do not fit produce NO message: toUnconfirmedEvent rejects them (nothing is ever held for them on the
   polling path), and no handed-over message stems from one - on either path *)
Theorem C11_pipeline_unfit_no_message : forall e, unfit e ->
  xto_unconfirmed e = None /\ (forall c EP HP AP f, faithful c EP HP AP f -> xf_ev f <> e).
Proof.
  intros e H. split; [apply unfit_unconv; exact H|].
  intros c EP HP AP f Hf E. apply (faithful_not_unfit c EP HP AP f Hf). rewrite E. exact H.
Qed.

Theorem C11_pipeline_rejected_values_are_unfit : forall e f0 s1 s2 f3 f4 s5,
  x_fields e = [f0; VU256 Ty.u256 s1; VU256 Ty.u256 s2; f3; f4; VU256 Ty.u256 s5] ->
  ~ fits 16 (parse_dec s1) \/ ~ fits 64 (parse_dec s2) \/ ~ fits 8 (parse_dec s5) -> unfit e.
Proof. exact rejected_values_unfit. Qed.

(* attestations end to end: a forwarded attest-token message whose payload is the one token_bridge.ral builds for
   (id, decimals, symbol, name) was compared with - and equals - what GetTokenInfo made of an answer of the node about token id:
   (id, decimals, NUL-trimmed symbol, NUL-trimmed name) *)
Theorem C11_pipeline_contract_attestation : forall c EP HP AP f id decimals symbol name nonce,
  faithful c EP HP AP f -> xis_attest (xf_msg f) = true ->
  attest_payload id go_chain_id_alephium decimals symbol name nonce = Some (m_payload (xf_pub f)) ->
  exists a, AP a /\ xget_token_info id a =
    XTiOk {| t_id := id; t_decimals := decimals; t_symbol := bytes_to_string symbol; t_name := bytes_to_string name |}.
Proof. exact forwarded_contract_attestation. Qed.

Theorem C11_pipeline_attestation_equals_chain : forall c EP HP AP f, faithful c EP HP AP f -> xis_attest (xf_msg f) = true ->
  exists t a, parse_attest_token (m_payload (xf_pub f)) = COk t /\ xf_chain f = Some t /\ AP a /\ xget_token_info (t_id t) a = XTiOk t.
Proof. exact forwarded_attestation_equals_chain. Qed.

(* ---- the hypotheses are satisfiable: one fitting event (every numeric field at its upper boundary) and one attestation through
   the composed watcher (poll, hand-over, height tick) *)
Definition px_bridge : bytes := repeat x07 32.
Definition px_c : xcfg := {| xc_gov := 10; xc_bridge := px_bridge; xc_mainnet := false |}.
Definition px_nonce : bytes := [x12; xe5; x51; xd9].
Definition px_tokid : bytes := repeat x09 31 ++ [x01].
Definition px_sym : bytes := repeat x00 28 ++ str "USDT".
Definition px_name : bytes := repeat x00 26 ++ str "Tether".
Definition px_attest : bytes := match attest_payload px_tokid 255 8 px_sym px_name px_nonce with Some p => p | None => [] end.
Definition px_e1 : xevent := {| x_uid := 1; x_block := 5; x_txid := to_hex (repeat xaa 32); x_index := 0;
                                x_fields := event_fields px_bridge 65535 18446744073709551615 px_nonce [x01; x02; x03] 255 |}.
Definition px_e2 : xevent := {| x_uid := 2; x_block := 5; x_txid := to_hex (repeat xab 32); x_index := 0;
                                x_fields := event_fields px_bridge 0 7 px_nonce px_attest 0 |}.
Definition px_e3 : xevent := {| x_uid := 3; x_block := 5; x_txid := to_hex (repeat xac 32); x_index := 0;
                                x_fields := event_fields px_bridge 2 8 px_nonce [x01] 256 |}.
Definition px_ans : xmc_ans := XMcRes [XOk [vbytes (str "USDT")]; XOk [vbytes (str "Tether")]; XOk [vu256 8]].
Definition px_hdr : AlphWatcher.header := {| AlphWatcher.h_ts := 1663000000123; AlphWatcher.h_height := 100 |}.
Definition px_EP (e : xevent) : Prop := x_block e = 5.
Definition px_HP (b : Z) (h : AlphWatcher.header) : Prop := h = px_hdr.
Definition px_AP (a : xmc_ans) : Prop := a = px_ans.
Definition px_w (e : xevent) : wmsg := match conv e with Some w => w | None => {| w_txid := []; w_sender := []; w_target := 0; w_nonce := 0; w_payload := []; w_seq := 0; w_cl := 0 |} end.
(* the two messages as the hand-over builds them (mkxfwd = `msgChan <- msg.toMessagePublication(header)`) *)
Definition px_f : xfwd := mkxfwd px_e1 (px_w px_e1) None px_hdr.
Definition px_g : xfwd := mkxfwd px_e2 (px_w px_e2) (Some {| t_id := px_tokid; t_decimals := 8; t_symbol := str "USDT"; t_name := str "Tether" |}) px_hdr.

Example C11_pipeline_hypotheses_satisfiable :
  faithful px_c px_EP px_HP px_AP px_f /\ faithful px_c px_EP px_HP px_AP px_g /\
  x_fields (xf_ev px_f) = event_fields px_bridge 65535 18446744073709551615 px_nonce [x01; x02; x03] 255 /\ 0 <= AlphWatcher.h_ts (xf_hdr px_f) /\
  (let m := xf_pub px_f in m_tchain m = 65535 /\ m_seq m = 18446744073709551615 /\ m_cl m = 255 /\ m_nonce m = 317018585 /\ m_ts m = 1663000000 /\ m_tns m = 123000000 /\ m_echain m = 255) /\
  xis_attest (xf_msg px_g) = true /\ attest_payload px_tokid go_chain_id_alephium 8 px_sym px_name px_nonce = Some (m_payload (xf_pub px_g)) /\
  xvalidate_attest (xf_msg px_g) px_ans = XVaOk {| t_id := px_tokid; t_decimals := 8; t_symbol := str "USDT"; t_name := str "Tether" |} /\
  unfit px_e3.
Proof.
  assert (NA : xis_attest (xf_msg px_f) = false) by (vm_compute; reflexivity).
  split.
  { unfold faithful. do 6 (split; [vm_compute; reflexivity|]). intro A. rewrite NA in A. discriminate A. }
  split.
  { unfold faithful. do 6 (split; [vm_compute; reflexivity|]). intros _.
    exists {| t_id := px_tokid; t_decimals := 8; t_symbol := str "USDT"; t_name := str "Tether" |}, px_ans.
    split; [reflexivity|]. split; [vm_compute; reflexivity|]. split; [reflexivity|vm_compute; reflexivity]. }
  split; [vm_compute; reflexivity|]. split; [vm_compute; discriminate|]. split; [vm_compute; repeat split; reflexivity|].
  split; [vm_compute; reflexivity|]. split; [vm_compute; reflexivity|]. split; [vm_compute; reflexivity|].
  eapply (C11_pipeline_rejected_values_are_unfit px_e3); [reflexivity|right; right; vm_compute; intros [_ H]; discriminate H].
Qed.

Print Assumptions C11_pipeline_fitting_event_message.
Print Assumptions C11_pipeline_message_fields.
Print Assumptions C11_pipeline_unfit_no_message.
Print Assumptions C11_pipeline_rejected_values_are_unfit.
Print Assumptions C11_pipeline_contract_attestation.
Print Assumptions C11_pipeline_attestation_equals_chain.
