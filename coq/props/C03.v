(* C03 — gossip not signed by a current guardian cannot change node state.
   Every theorem holds for EVERY recover / keccak / sign / protobuf-decoding function (Section variables of the models), for
   every guardian set, table, state and history; nothing is bounded.  "Valid signature of a over d" is recover d s = Some a. *)
From Coq Require Import List ZArith Lia Bool Arith.
From Coq Require Import Strings.Byte.
From WH Require Import lib.Bytes gen.Extracted gen.ExtractedP2P model.Vaa model.Processor model.P2PVerify proofs.ObsAuthProofs proofs.P2PVerifyProofs.
Import ListNotations.
Open Scope Z_scope.

(* ================================================================== observations (node/pkg/processor/observation.go) *)

(* an observation that is not (signature recovers to the claimed address, address in the applicable set: the snapshot taken with
   the node's own observation of that digest, else the current set) leaves the whole processor state as it was and emits nothing *)
Theorem C03_obs_invalid_dropped : forall recover keccak sign own gov_chain gov_addr st o,
  (~ exists a g, obs_valid recover st o a g) ->
  Processor.step recover keccak sign own gov_chain gov_addr st (Obs o) = (st, []).
Proof. intros. cbn [Processor.step]. apply obs_invalid_no_effect. assumption. Qed.

Theorem C03_obs_effect_only_if_valid : forall recover keccak sign own gov_chain gov_addr st o,
  Processor.step recover keccak sign own gov_chain gov_addr st (Obs o) <> (st, []) ->
  exists a g, Processor.rec recover (o_hash o) (o_sig o) = Some a /\ a = bytes_to_address (o_addr o) /\
              applicable_set st (o_hash o) = Some g /\ In a (keys g).
Proof. intros recover keccak sign own gc ga st o H. cbn [Processor.step] in H. exact (obs_effect_only_if_valid recover st o H). Qed.

(* and a valid one is recorded, under exactly the authenticated address (the theorem above is not vacuous) *)
Theorem C03_obs_valid_recorded : forall recover st o a g, obs_valid recover st o a g ->
  exists e', alookup (o_hash o) (agg (fst (Processor.handle_obs recover st o))) = Some e' /\ alookup a (esigs e') = Some (o_sig o).
Proof. exact obs_valid_recorded. Qed.

(* over every history of processor operations (guardian-set changes anywhere): the aggregation state only holds signatures
   that recover, over the digest they are filed under, to the address they are filed under, and that address is a key of a
   guardian set the history installed *)
Theorem C03_obs_history : forall recover keccak sign own gov_chain gov_addr ops h e a s,
  In (h, e) (agg (fst (Processor.run recover keccak sign own gov_chain gov_addr init ops))) -> In (a, s) (esigs e) ->
  Processor.rec recover h s = Some a /\ exists g, In (SetGS g) ops /\ In a (keys g).
Proof. exact agg_only_authenticated. Qed.

(* the three guards stand in front of the first write to the aggregation map in the current source (extractor obs_guards) *)
Example C03_obs_guards_in_source : obs_guard_signature && obs_guard_address && obs_guard_member = true.
Proof. reflexivity. Qed.

(* ================================================================== heartbeats (node/pkg/p2p/p2p.go processSignedHeartbeat) *)

(* verification enabled: a heartbeat is accepted only if the envelope address a is in the set, the signed bytes
   prefix ++ payload are longer than 32 bytes (above the floor), the signature recovers over keccak (prefix ++ payload) to a,
   and it is stored under a by SetHeartbeat *)
Theorem C03_heartbeat_accept_only_if_valid : forall recover keccak decode_hb gs t from eaddr hb sig t' v,
  process_heartbeat recover keccak decode_hb gs t from eaddr hb sig false = (t', HOk v) ->
  exists a ts, a = bytes_to_address eaddr /\ In a gs /\ 32 < Z.of_nat (length (p2p_hb_prefix ++ hb)) /\
               P2PVerify.prec recover (keccak (p2p_hb_prefix ++ hb)) sig = Some a /\
               decode_hb hb = Some ts /\ v = {| hv_payload := hb; hv_ts := ts |} /\ set_heartbeat t a from v = Some t'.
Proof.
  intros recover keccak decode_hb gs t from eaddr hb sig t' v H.
  destruct (heartbeat_accept_only_if_valid recover keccak decode_hb _ _ _ _ _ _ _ _ H) as (a & ts & (H1 & H2 & H3 & _ & H5) & H6 & H7 & H8).
  rewrite hb_preimage_spec in H3, H5. exists a, ts. auto 10.
Qed.

(* everything else is an error that leaves the table untouched (with or without verification) *)
Theorem C03_heartbeat_error_no_effect : forall recover keccak decode_hb gs t from eaddr hb sig disable t' e,
  process_heartbeat recover keccak decode_hb gs t from eaddr hb sig disable = (t', HErr e) -> t' = t.
Proof. exact heartbeat_error_no_effect. Qed.

(* converse: every validly signed, decodable heartbeat is accepted as long as the guardian's row has room *)
Theorem C03_heartbeat_valid_accepted : forall recover keccak decode_hb gs t from eaddr hb sig a ts t',
  hb_valid recover keccak gs eaddr hb sig a -> decode_hb hb = Some ts ->
  set_heartbeat t a from {| hv_payload := hb; hv_ts := ts |} = Some t' ->
  process_heartbeat recover keccak decode_hb gs t from eaddr hb sig false = (t', HOk {| hv_payload := hb; hv_ts := ts |}).
Proof. exact heartbeat_valid_accepted. Qed.

(* devnet flag disableHeartbeatVerify: the address checks are off by design, but the floor, the recovery and
   "stored under the RECOVERED signer, never under the unauthenticated envelope address" remain *)
Theorem C03_heartbeat_disabled_stored_under_signer : forall recover keccak decode_hb gs t from eaddr hb sig t' v,
  process_heartbeat recover keccak decode_hb gs t from eaddr hb sig true = (t', HOk v) ->
  exists a ts, 32 < Z.of_nat (length (p2p_hb_preimage hb)) /\ P2PVerify.prec recover (keccak (p2p_hb_preimage hb)) sig = Some a /\
               decode_hb hb = Some ts /\ v = {| hv_payload := hb; hv_ts := ts |} /\ set_heartbeat t a from v = Some t'.
Proof. exact heartbeat_disabled_still. Qed.

(* SetHeartbeat writes exactly one slot: guardian a's row, peer p *)
Theorem C03_set_heartbeat_frame : forall t a p v t', set_heartbeat t a p v = Some t' ->
  (forall a', a' <> a -> tl_get a' t' = tl_get a' t) /\
  (exists row', tl_get a t' = Some row' /\ tl_get p row' = Some v /\
                forall q, q <> p -> tl_get q row' = match tl_get a t with Some row => tl_get q row | None => None end).
Proof. exact set_heartbeat_frame. Qed.

(* ================================================================== re-observation requests (processSignedObservationRequest) *)
(* the verifier is a pure function (no state); it returns the request iff the envelope address is in the set, the signed bytes
   are above the floor, the signature recovers to that address under the request prefix, and the payload decodes *)
Theorem C03_obsreq_iff : forall recover keccak decode_req gs eaddr req sig r,
  process_obsreq recover keccak decode_req gs eaddr req sig = ROk r <->
  r = req /\ decode_req req = true /\
  exists a, a = bytes_to_address eaddr /\ In a gs /\ 32 < Z.of_nat (length (p2p_req_preimage req)) /\
            p2p_req_too_short (Z.of_nat (length req)) = false /\
            P2PVerify.prec recover (keccak (p2p_req_preimage req)) sig = Some a.
Proof. exact obsreq_iff. Qed.

Theorem C03_obsreq_preimage : forall b, p2p_req_preimage b = p2p_req_prefix ++ b.
Proof. exact req_preimage_spec. Qed.
Theorem C03_heartbeat_preimage : forall b, p2p_hb_preimage b = p2p_hb_prefix ++ b.
Proof. exact hb_preimage_spec. Qed.

(* ================================================================== domain separation *)
(* the bytes signed for a heartbeat never equal the bytes signed for a request *)
Theorem C03_sep_heartbeat_request : forall b b', p2p_hb_prefix ++ b <> p2p_req_prefix ++ b'.
Proof. intros b b'. rewrite <- hb_preimage_spec, <- req_preimage_spec. apply sep_hb_req. Qed.

(* above the floor they never equal a 32-byte string, in particular never the signed pre-image keccak(body) of a VAA digest *)
Theorem C03_sep_heartbeat_vaa : forall b d, p2p_hb_too_short (Z.of_nat (length b)) = false -> length d = 32%nat -> p2p_hb_prefix ++ b <> d.
Proof. intros b d H1 H2. rewrite <- hb_preimage_spec. apply sep_hb_32; assumption. Qed.
Theorem C03_sep_request_vaa : forall b d, p2p_req_too_short (Z.of_nat (length b)) = false -> length d = 32%nat -> p2p_req_prefix ++ b <> d.
Proof. intros b d H1 H2. rewrite <- req_preimage_spec. apply sep_req_32; assumption. Qed.

(* hence a digest accepted for one purpose equals a digest of another purpose only if Keccak collides (the named assumption:
   collision resistance; here the collision is exhibited) *)
Theorem C03_heartbeat_vaa_digest_clash_is_collision : forall keccak b v,
  length (keccak (body v)) = 32%nat -> p2p_hb_too_short (Z.of_nat (length b)) = false ->
  keccak (p2p_hb_preimage b) = digest keccak v -> collision keccak.
Proof. exact hb_digest_clash_is_collision. Qed.
Theorem C03_request_vaa_digest_clash_is_collision : forall keccak b v,
  length (keccak (body v)) = 32%nat -> p2p_req_too_short (Z.of_nat (length b)) = false ->
  keccak (p2p_req_preimage b) = digest keccak v -> collision keccak.
Proof. exact req_digest_clash_is_collision. Qed.
Theorem C03_heartbeat_request_digest_clash_is_collision : forall keccak b b',
  keccak (p2p_hb_preimage b) = keccak (p2p_req_preimage b') -> collision keccak.
Proof. exact hb_req_digest_clash_is_collision. Qed.

(* ================================================================== the node under arbitrary gossip histories *)
(* histories: heartbeats and requests from the network, guardian-set changes, cleanup ticks, the node's own heartbeats, in any order *)

(* the heartbeat table never holds more than MaxNodesPerGuardian entries for a guardian *)
Theorem C03_table_bound : forall recover keccak decode_hb decode_req disable ms a row,
  tl_get a (n_tbl (fst (gossip_run recover keccak decode_hb decode_req disable ninit ms))) = Some row ->
  Z.of_nat (length row) <= gst_max_nodes.
Proof. exact table_bound. Qed.

(* every entry of the table was put there by a heartbeat of the history that was validly signed by a member of the set in force
   when it arrived, and sits under the signer's address and the sending peer (or is one of the node's own heartbeats) *)
Theorem C03_table_provenance : forall recover keccak decode_hb decode_req ms a row p v,
  tl_get a (n_tbl (fst (gossip_run recover keccak decode_hb decode_req false ninit ms))) = Some row -> tl_get p row = Some v ->
  exists pre m post, ms = pre ++ m :: post /\
    (m = GOwn a p v \/
     exists eaddr sig gs, m = GHeartbeat p eaddr (hv_payload v) sig /\
       n_gs (fst (gossip_run recover keccak decode_hb decode_req false ninit pre)) = Some gs /\
       decode_hb (hv_payload v) = Some (hv_ts v) /\
       a = bytes_to_address eaddr /\ In a gs /\ 32 < Z.of_nat (length (p2p_hb_preimage (hv_payload v))) /\
       P2PVerify.prec recover (keccak (p2p_hb_preimage (hv_payload v))) sig = Some a).
Proof.
  intros recover keccak decode_hb decode_req ms a row p v Hg Hp.
  destruct (table_provenance_run recover keccak decode_hb decode_req false ms a row p v Hg Hp) as (pre & m & post & E & [J|(eaddr & sig & gs & H1 & H2 & H3 & (H4 & H5 & H6 & _ & H8))]);
    exists pre, m, post; (split; [exact E|]); [left; exact J|right; exists eaddr, sig, gs; auto 10].
Qed.

(* every request forwarded to the chain watchers was validly signed, under the request prefix, by a member of the set in force *)
Theorem C03_forwarded_request_valid : forall recover keccak decode_hb decode_req disable ms i os r,
  nth_error (snd (gossip_run recover keccak decode_hb decode_req disable ninit ms)) i = Some os -> In (FwdReq r) os ->
  exists eaddr sig gs a, nth_error ms i = Some (GObsReq eaddr r sig) /\
    n_gs (fst (gossip_run recover keccak decode_hb decode_req disable ninit (firstn i ms))) = Some gs /\
    a = bytes_to_address eaddr /\ In a gs /\ 32 < Z.of_nat (length (p2p_req_preimage r)) /\
    P2PVerify.prec recover (keccak (p2p_req_preimage r)) sig = Some a.
Proof.
  intros recover keccak decode_hb decode_req disable ms i os r Hn Hin.
  destruct (forwarded_request_valid_run recover keccak decode_hb decode_req disable ms i os r Hn Hin) as (eaddr & sig & gs & a & H1 & H2 & (H3 & H4 & H5 & _ & H7) & _).
  exists eaddr, sig, gs, a. auto 10.
Qed.

(* Cleanup keeps exactly the entries the expiry test does not select, and never adds one *)
Theorem C03_cleanup_exact : forall now t a r', In (a, r') (cleanup now t) ->
  exists r, In (a, r) t /\ forall p v, In (p, v) r' <-> In (p, v) r /\ gst_expired (now - hv_ts v) = false.
Proof.
  intros now t a r' H. apply cleanup_In in H as (r & Hin & ->). exists r. split; [exact Hin|]. intros p v. apply cleanup_row_In.
Qed.

(* the dispatch switch of p2p.Run has the shape the model assumes (extractor p2p_verify; the loop itself cannot run here) *)
Example C03_dispatch_shape : p2p_dispatch_shape_ok = true.
Proof. reflexivity. Qed.

(* ================================================================== non-vacuity: concrete values satisfying the hypotheses *)
(* toy oracles: keccak = first 32 bytes (zero padded), recover = first 20 bytes of the signature *)
Definition ex_keccak (b : bytes) : bytes := firstn 32 (b ++ repeat x00 32).
Definition ex_recover (h s : bytes) : option bytes := Some (firstn 20 s).
Definition ex_A : bytes := repeat x0a 20.
Definition ex_B : bytes := repeat x0b 20.
Definition ex_sig (a : bytes) : bytes := a ++ repeat x00 45.
Definition ex_hb : bytes := repeat x01 60.      (* 10 + 60 signed bytes: above any floor near 34 *)
Definition ex_short : bytes := repeat x01 5.    (* 10 + 5 = 15 signed bytes: below 32, so below every admissible floor *)
Definition ex_req : bytes := repeat x02 40.     (* 27 + 40 *)
Definition ex_dec (b : bytes) : option Z := Some 5.
Definition ex_peer (k : nat) : bytes := [x70; byte_of_Z (Z.of_nat k)].

(* accepted: member A signs 70 bytes; rejected: non-member B, A's address with B's signature, 15 signed bytes; no-verify flag: stored under the signer B *)
Example C03_example_heartbeat :
  process_heartbeat ex_recover ex_keccak ex_dec [ex_A] [] (ex_peer 0) ex_A ex_hb (ex_sig ex_A) false
    = ([(ex_A, [(ex_peer 0, {| hv_payload := ex_hb; hv_ts := 5 |})])], HOk {| hv_payload := ex_hb; hv_ts := 5 |}) /\
  process_heartbeat ex_recover ex_keccak ex_dec [ex_A] [] (ex_peer 0) ex_B ex_hb (ex_sig ex_B) false = ([], HErr ENotInSet) /\
  process_heartbeat ex_recover ex_keccak ex_dec [ex_A; ex_B] [] (ex_peer 0) ex_A ex_hb (ex_sig ex_B) false = ([], HErr ESigner) /\
  process_heartbeat ex_recover ex_keccak ex_dec [ex_A] [] (ex_peer 0) ex_A ex_short (ex_sig ex_A) false = ([], HErr ETooShort) /\
  process_heartbeat ex_recover ex_keccak ex_dec [ex_A; ex_B] [] (ex_peer 0) ex_A ex_hb (ex_sig ex_B) true
    = ([(ex_B, [(ex_peer 0, {| hv_payload := ex_hb; hv_ts := 5 |})])], HOk {| hv_payload := ex_hb; hv_ts := 5 |}).
Proof. vm_compute. repeat apply conj; reflexivity. Qed.

Example C03_example_obsreq :
  process_obsreq ex_recover ex_keccak (fun _ => true) [ex_A] ex_A ex_req (ex_sig ex_A) = ROk ex_req /\
  process_obsreq ex_recover ex_keccak (fun _ => true) [ex_A] ex_B ex_req (ex_sig ex_B) = RErr ENotInSet /\
  process_obsreq ex_recover ex_keccak (fun _ => true) [ex_A; ex_B] ex_A ex_req (ex_sig ex_B) = RErr ESigner /\
  process_obsreq ex_recover ex_keccak (fun _ => true) [ex_A] ex_A (repeat x02 2) (ex_sig ex_A) = RErr ETooShort.
Proof. vm_compute. repeat apply conj; reflexivity. Qed.

(* a history that fills guardian A's row to the cap: 60 peers send valid heartbeats, A is then removed from the set and sends again *)
Definition ex_history : list gmsg :=
  GSetGS [ex_A] :: map (fun k => GHeartbeat (ex_peer k) ex_A ex_hb (ex_sig ex_A)) (List.seq 0%nat 60%nat)
  ++ [GObsReq ex_A ex_req (ex_sig ex_A); GSetGS [ex_B]; GHeartbeat (ex_peer 99) ex_A ex_hb (ex_sig ex_A); GObsReq ex_A ex_req (ex_sig ex_A)].
Example C03_example_history :
  let r := gossip_run ex_recover ex_keccak ex_dec (fun _ => true) false ninit ex_history in
  (match tl_get ex_A (n_tbl (fst r)) with Some row => Z.of_nat (length row) = gst_max_nodes /\ tl_get (ex_peer 99) row = None | None => False end) /\
  nth_error (snd r) 61 = Some [FwdReq ex_req] /\ nth_error (snd r) 64 = Some [].
Proof. vm_compute. repeat apply conj; reflexivity. Qed.

(* the observation half on a concrete state: member A's observation is recorded, B's (not in the set) changes nothing *)
Definition ex_obs (a : bytes) : obs := {| o_addr := a; o_hash := repeat x07 32; o_sig := ex_sig a; o_tx := [] |}.
Definition ex_st : pstate := {| cur := Some {| keys := [ex_A]; gidx := 0 |}; agg := []; db := []; loopq := []; clock := 0 |}.
Example C03_example_obs :
  (exists g, obs_valid ex_recover ex_st (ex_obs ex_A) ex_A g) /\
  (~ exists a g, obs_valid ex_recover ex_st (ex_obs ex_B) a g) /\
  length (agg (fst (Processor.handle_obs ex_recover ex_st (ex_obs ex_A)))) = 1%nat /\
  Processor.handle_obs ex_recover ex_st (ex_obs ex_B) = (ex_st, []).
Proof.
  split; [|split; [|split]].
  - exists {| keys := [ex_A]; gidx := 0 |}. split; [vm_compute; reflexivity|]. split; [vm_compute; reflexivity|].
    split; [vm_compute; reflexivity|]. left; reflexivity.
  - intros (a & g & H1 & H2 & H3 & H4). vm_compute in H3. inversion H3; subst g. vm_compute in H2. subst a.
    cbn [keys In] in H4. destruct H4 as [E|[]]. vm_compute in E. discriminate E.
  - vm_compute. reflexivity.
  - vm_compute. reflexivity.
Qed.

(* recorded observation OUTSIDE the property (DESIGN.md 5, C03): the cap also refuses the update of a peer that is already stored,
   so replays of one validly signed heartbeat of guardian A from MaxNodesPerGuardian peer ids make the node's own next heartbeat
   fail (p2p.Run then panics) until the entries expire *)
Example C03_note_own_heartbeat_refused_at_cap :
  let ms := GSetGS [ex_A] :: map (fun k => GHeartbeat (ex_peer k) ex_A ex_hb (ex_sig ex_A)) (List.seq 0%nat (Z.to_nat gst_max_nodes))
            ++ [GOwn ex_A (ex_peer 200) {| hv_payload := []; hv_ts := 0 |}] in
  last (snd (gossip_run ex_recover ex_keccak ex_dec (fun _ => true) false ninit ms)) [] = [OwnPanic].
Proof. vm_compute. reflexivity. Qed.

(* ================================================================== extension X5: the receive / dispatch loop of p2p.Run
   model.P2PVerify.p2p_dispatch = one iteration of `for { sub.Next; proto.Unmarshal; loopback test; switch }`, loop_run = any
   interleaving of iterations with guardian-set changes, locally originated requests, cleanup ticks and own heartbeats.
   harness/p2p_run executes the real loop (working tree's p2p.go, transport swapped) and every recorded history is re-evaluated
   with loop_run inside Coq.  O / V = whatever the loop hands on to the processor without looking at it. *)

(* an envelope that does not decode, carries none of the four message types, or was published by the node itself changes nothing *)
Theorem C03_loop_ignored : forall recover keccak decode_hb decode_req (O V : Type) disable self st from (m : gossip_msg O V),
  m = MInvalid \/ m = MUnknown \/ from = self ->
  loop_step recover keccak decode_hb decode_req disable self st (LRecv from m) = (st, []).
Proof. intros. apply loop_step_ignored. assumption. Qed.

(* one iteration does exactly one of five things (nothing else has any effect): nothing | observation handed on | VAA handed on |
   request forwarded after passing the request verifier under the set in force | heartbeat stored after the heartbeat verifier
   accepted it under the set in force *)
Theorem C03_loop_iteration_classified : forall recover keccak decode_hb decode_req (O V : Type) disable self t gs from (m : gossip_msg O V),
  let r := p2p_dispatch recover keccak decode_hb decode_req disable self t gs from m in
  r = (t, []) \/
  (exists o, m = MObservation o /\ from <> self /\ r = (t, [OutObs o])) \/
  (exists v, m = MSignedVaa v /\ from <> self /\ r = (t, [OutVaa v])) \/
  (exists eaddr req sig g a, m = MObsReq eaddr req sig /\ from <> self /\ gs = Some g /\ r = (t, [OutReq req]) /\ decode_req req = true /\
     a = bytes_to_address eaddr /\ In a g /\ 32 < Z.of_nat (length (p2p_req_preimage req)) /\
     P2PVerify.prec recover (keccak (p2p_req_preimage req)) sig = Some a) \/
  (exists eaddr hb sig g t' v, m = MHeartbeat eaddr hb sig /\ from <> self /\ gs = Some g /\ r = (t', []) /\
     process_heartbeat recover keccak decode_hb g t from eaddr hb sig (p2p_loop_hb_disable disable) = (t', HOk v)).
Proof.
  intros recover keccak decode_hb decode_req O V disable self t gs from m r. subst r.
  destruct (dispatch_classified recover keccak decode_hb decode_req disable self t gs from m)
    as [|o Em Hn|v Em Hn|eaddr r0 sig g a Em Hn Eg (H1 & H2 & H3 & _ & H5) Hd|eaddr hb sig g t' v Em Hn Eg Ep].
  - left. reflexivity.
  - right; left. exists o. auto.
  - right; right; left. exists v. auto.
  - right; right; right; left. exists eaddr, r0, sig, g, a. auto 12.
  - right; right; right; right. exists eaddr, hb, sig, g, t', v. auto 10.
Qed.

(* the verification flag the loop hands to the heartbeat verifier is Run's disableHeartbeatVerify parameter, nothing else *)
Theorem C03_loop_heartbeat_flag : forall f, p2p_loop_hb_disable f = f.
Proof. exact loop_hb_flag_is_parameter. Qed.

(* over EVERY sequence of events: a request on obsvReqC was originated locally or came from another peer and passed the request
   verifier under the guardian set in force at that moment *)
Theorem C03_loop_requests_only_verified : forall recover keccak decode_hb decode_req (O V : Type) disable self (es : list (levent O V)) i outs r,
  nth_error (snd (loop_run recover keccak decode_hb decode_req disable self ninit es)) i = Some outs -> In (OutReq r) outs ->
  nth_error es i = Some (LLocalReq r) \/
  exists from eaddr sig gs a, nth_error es i = Some (LRecv from (MObsReq eaddr r sig)) /\ from <> self /\
    n_gs (fst (loop_run recover keccak decode_hb decode_req disable self ninit (firstn i es))) = Some gs /\
    a = bytes_to_address eaddr /\ In a gs /\ 32 < Z.of_nat (length (p2p_req_preimage r)) /\
    P2PVerify.prec recover (keccak (p2p_req_preimage r)) sig = Some a /\ decode_req r = true.
Proof.
  intros recover keccak decode_hb decode_req O V disable self es i outs r Hn Hin.
  destruct (loop_requests_only_verified recover keccak decode_hb decode_req disable self es i outs r Hn Hin)
    as [H|(from & eaddr & sig & gs & a & H1 & H2 & H3 & (H4 & H5 & H6 & _ & H8) & H9)]; [left; exact H|].
  right. exists from, eaddr, sig, gs, a. auto 12.
Qed.

(* over EVERY sequence of events, verification enabled: an entry of the heartbeat table is one of the node's own heartbeats or was
   put there by an envelope from another peer, validly signed under the heartbeat prefix by a member of the set in force when it
   was dispatched, and sits under that member's address and the sending peer *)
Theorem C03_loop_table_provenance : forall recover keccak decode_hb decode_req (O V : Type) self (es : list (levent O V)) a row p v,
  tl_get a (n_tbl (fst (loop_run recover keccak decode_hb decode_req false self ninit es))) = Some row -> tl_get p row = Some v ->
  exists pe e po, es = pe ++ e :: po /\
    (e = LOwn a p v \/
     exists eaddr sig gs, e = LRecv p (MHeartbeat eaddr (hv_payload v) sig) /\ p <> self /\
       n_gs (fst (loop_run recover keccak decode_hb decode_req false self ninit pe)) = Some gs /\
       decode_hb (hv_payload v) = Some (hv_ts v) /\
       a = bytes_to_address eaddr /\ In a gs /\ 32 < Z.of_nat (length (p2p_hb_preimage (hv_payload v))) /\
       P2PVerify.prec recover (keccak (p2p_hb_preimage (hv_payload v))) sig = Some a).
Proof.
  intros recover keccak decode_hb decode_req O V self es a row p v Hg Hp.
  destruct (loop_table_provenance recover keccak decode_hb decode_req false self es a row p v (loop_hb_flag_is_parameter false) Hg Hp)
    as (pe & e & po & E & [J|(eaddr & sig & gs & H1 & H2 & H3 & H4 & (H5 & H6 & H7 & _ & H9))]);
    exists pe, e, po; (split; [exact E|]); [left; exact J|right; exists eaddr, sig, gs; auto 12].
Qed.

Theorem C03_loop_table_bound : forall recover keccak decode_hb decode_req (O V : Type) disable self (es : list (levent O V)) a row,
  tl_get a (n_tbl (fst (loop_run recover keccak decode_hb decode_req disable self ninit es))) = Some row -> Z.of_nat (length row) <= gst_max_nodes.
Proof. intros recover keccak decode_hb decode_req O V. exact (loop_table_bound recover keccak decode_hb decode_req). Qed.

(* what reaches the processor on obsvC / signedInC is exactly what another peer sent: handed on unverified *)
Theorem C03_loop_passthrough : forall recover keccak decode_hb decode_req (O V : Type) disable self (es : list (levent O V)) i outs,
  nth_error (snd (loop_run recover keccak decode_hb decode_req disable self ninit es)) i = Some outs ->
  (forall o, In (OutObs o) outs -> exists from, nth_error es i = Some (LRecv from (MObservation o)) /\ from <> self /\ outs = [OutObs o]) /\
  (forall v, In (OutVaa v) outs -> exists from, nth_error es i = Some (LRecv from (MSignedVaa v)) /\ from <> self /\ outs = [OutVaa v]).
Proof. intros recover keccak decode_hb decode_req O V. exact (loop_passthrough recover keccak decode_hb decode_req). Qed.

(* ... and the processor authenticates it itself: an observation the loop handed on (in any state of the loop, with or without a
   guardian set) that is not a valid member signature leaves the processor as it was (C03_obs_invalid_dropped) *)
Theorem C03_loop_observation_authenticated_downstream :
  forall recover keccak decode_hb decode_req sign own gov_chain gov_addr disable self t gs from (o : obs) (pst : pstate),
  from <> self ->
  p2p_dispatch (V := bytes) recover keccak decode_hb decode_req disable self t gs from (MObservation o) = (t, [OutObs o]) /\
  ((~ exists a g, obs_valid recover pst o a g) -> Processor.step recover keccak sign own gov_chain gov_addr pst (Obs o) = (pst, [])).
Proof.
  intros recover keccak decode_hb decode_req sign own gc ga disable self t gs from o pst Hn. split.
  - apply dispatch_obs. exact Hn.
  - apply C03_obs_invalid_dropped.
Qed.

(* with no guardian set ever installed nothing but that hand-on happens: no gossip request is forwarded, the table holds only the
   node's own heartbeats *)
Theorem C03_loop_no_set : forall recover keccak decode_hb decode_req (O V : Type) disable self (es : list (levent O V)),
  (forall ks, ~ In (LSetGS ks) es) ->
  (forall i outs r, nth_error (snd (loop_run recover keccak decode_hb decode_req disable self ninit es)) i = Some outs -> In (OutReq r) outs ->
     nth_error es i = Some (LLocalReq r)) /\
  (forall a row p v, tl_get a (n_tbl (fst (loop_run recover keccak decode_hb decode_req disable self ninit es))) = Some row -> tl_get p row = Some v ->
     In (LOwn a p v) es).
Proof. intros recover keccak decode_hb decode_req O V. exact (loop_no_set recover keccak decode_hb decode_req). Qed.

(* the own-peer-id test stands in front of the switch in the current source (extractor p2p_loop) *)
Example C03_loop_loopback_guard_in_source : p2p_loop_loopback_guard = true.
Proof. reflexivity. Qed.

(* non-vacuity: a concrete loop history.  Before a set is known a valid heartbeat / request does nothing while an observation is
   handed on; after SetGS [A] the heartbeat is stored, the request forwarded; the same request published by the node itself,
   an undecodable envelope and an unknown type do nothing; a locally originated request is delivered *)
Definition ex_self : bytes := ex_peer 77.
Definition ex_loop : list (levent bytes bytes) :=
  [LRecv (ex_peer 0) (MHeartbeat ex_A ex_hb (ex_sig ex_A)); LRecv (ex_peer 0) (MObsReq ex_A ex_req (ex_sig ex_A)); LRecv (ex_peer 0) (MObservation [x01]);
   LSetGS [ex_A];
   LRecv (ex_peer 0) (MHeartbeat ex_A ex_hb (ex_sig ex_A)); LRecv (ex_peer 1) (MObsReq ex_A ex_req (ex_sig ex_A)); LRecv ex_self (MObsReq ex_A ex_req (ex_sig ex_A));
   LRecv ex_self (MHeartbeat ex_A ex_hb (ex_sig ex_A)); LRecv (ex_peer 0) MInvalid; LRecv (ex_peer 0) MUnknown; LRecv (ex_peer 1) (MSignedVaa [x02]);
   LRecv (ex_peer 1) (MObsReq ex_B ex_req (ex_sig ex_B)); LLocalReq [x03]].
Example C03_example_loop :
  let r := loop_run ex_recover ex_keccak ex_dec (fun _ => true) false ex_self ninit ex_loop in
  snd r = [[]; []; [OutObs [x01]]; []; []; [OutReq ex_req]; []; []; []; []; [OutVaa [x02]]; []; [OutReq [x03]]] /\
  n_tbl (fst r) = [(ex_A, [(ex_peer 0, {| hv_payload := ex_hb; hv_ts := 5 |})])].
Proof. vm_compute. repeat apply conj; reflexivity. Qed.

(* the hypothesis of C03_loop_no_set is satisfiable by a history in which things do arrive: the first three events of ex_loop *)
Example C03_example_loop_no_set :
  (forall ks, ~ In (LSetGS ks) (firstn 3 ex_loop)) /\
  loop_run ex_recover ex_keccak ex_dec (fun _ => true) false ex_self ninit (firstn 3 ex_loop) = (ninit, [[]; []; [OutObs [x01]]]).
Proof. split; [intros ks [H|[H|[H|[]]]]; discriminate H|vm_compute; reflexivity]. Qed.

Print Assumptions C03_obs_invalid_dropped.
Print Assumptions C03_obs_effect_only_if_valid.
Print Assumptions C03_obs_valid_recorded.
Print Assumptions C03_obs_history.
Print Assumptions C03_heartbeat_accept_only_if_valid.
Print Assumptions C03_heartbeat_error_no_effect.
Print Assumptions C03_heartbeat_valid_accepted.
Print Assumptions C03_heartbeat_disabled_stored_under_signer.
Print Assumptions C03_set_heartbeat_frame.
Print Assumptions C03_obsreq_iff.
Print Assumptions C03_obsreq_preimage.
Print Assumptions C03_heartbeat_preimage.
Print Assumptions C03_sep_heartbeat_request.
Print Assumptions C03_sep_heartbeat_vaa.
Print Assumptions C03_sep_request_vaa.
Print Assumptions C03_heartbeat_vaa_digest_clash_is_collision.
Print Assumptions C03_request_vaa_digest_clash_is_collision.
Print Assumptions C03_heartbeat_request_digest_clash_is_collision.
Print Assumptions C03_table_bound.
Print Assumptions C03_table_provenance.
Print Assumptions C03_forwarded_request_valid.
Print Assumptions C03_cleanup_exact.
Print Assumptions C03_loop_ignored.
Print Assumptions C03_loop_iteration_classified.
Print Assumptions C03_loop_heartbeat_flag.
Print Assumptions C03_loop_requests_only_verified.
Print Assumptions C03_loop_table_provenance.
Print Assumptions C03_loop_table_bound.
Print Assumptions C03_loop_passthrough.
Print Assumptions C03_loop_observation_authenticated_downstream.
Print Assumptions C03_loop_no_set.
