(* C01 — Only quorum-signed, verifiable VAAs are ever stored or broadcast.
   Model: WH.model.Processor (handlers of node/pkg/processor, one atomic step each; the own-signature goroutine is the explicit
   loopback queue).  Specification vocabulary: WH.model.ProcSpec.  All statements are for EVERY recover / keccak / sign function
   (no cryptographic assumption: "valid signature of a over d" is [recover d s = Some a]), every own address, every
   governance emitter and every finite history of inputs whose guardian sets have pairwise distinct keys (<= 256). *)
From Coq Require Import List ZArith Bool Lia.
From Coq Require Import Strings.Byte.
From WH Require Import lib.Bytes gen.Extracted gen.ExtractedWiring model.Vaa model.Processor model.ProcSpec model.System proofs.VaaProofs proofs.ProcC01Proofs
     proofs.SystemProofs.
Import ListNotations.
Open Scope Z_scope.

(* Every output of every step of every history ([steps_c01], unfolded in ProcSpec.v):
   - only the handling of an observation (gossiped or own loopback) or of an inbound VAA ever stores or broadcasts a VAA;
   - a VAA published while handling an observation is [marshal (set_sigs v sg)] where v is a message the node itself observed or
     was injected earlier in the history (recorded together with the set g in force at that moment), g was learned from chain,
     sg are valid signatures over v's own digest by >= CalculateQuorum(|g|) pairwise distinct members of g in strictly
     ascending index order, it is stored under v's own id, and for a chain observation g is the set the VAA names;
   - a VAA stored while handling an inbound VAA verifies in the same sense against the CURRENT set, and no VAA was stored under
     its id before (an already stored VAA is never replaced by a peer's copy). *)
Theorem C01_every_published_vaa_is_quorum_valid :
  forall recover keccak sign own gov_chain gov_addr (ops : list op),
    Forall op_wf ops -> steps_c01 recover keccak sign own gov_chain gov_addr init [] [] ops.
Proof. exact c01_all_steps. Qed.

(* what the node persists and serves: after any history every stored value is the wire form of a VAA, stored under its own id,
   that is a valid quorum VAA of a guardian set learned from chain during that history *)
Theorem C01_store_holds_only_quorum_valid_vaas :
  forall recover keccak sign own gov_chain gov_addr (ops : list op),
    Forall op_wf ops ->
    Forall (stored_ok recover keccak (learned [] ops)) (db (fst (run recover keccak sign own gov_chain gov_addr init ops))).
Proof. exact c01_store. Qed.

(* "valid quorum VAA" spelled out: at least quorum DISTINCT members of the set signed the VAA's own digest *)
Theorem C01_quorum_valid_means_distinct_members :
  forall recover keccak v K, qvalid recover keccak v K ->
  exists signers : list addr, NoDup signers /\ incl signers K /\ go_quorum (Z.of_nat (length K)) <= Z.of_nat (length signers) /\
    Forall2 (fun s a => rec recover (dg keccak v) (s_data s) = Some a) (sigs v) signers.
Proof. exact qvalid_distinct_members. Qed.

(* ... in strictly ascending guardian order, each signature by the member at its index *)
Theorem C01_quorum_valid_means_ascending_and_in_place :
  forall recover keccak v K, qvalid recover keccak v K ->
  increasing (-1) (map s_idx (sigs v)) /\
  Forall (fun s => s_idx s < Z.of_nat (length K) /\
                   exists a, rec recover (dg keccak v) (s_data s) = Some a /\ nth_error K (Z.to_nat (s_idx s)) = Some a) (sigs v).
Proof. intros recover keccak v K [(H1 & H2 & _) _]. split; [exact H1|exact H2]. Qed.

(* downstream: such a VAA passes VerifySignatures against that set (what peers and the explorer run, C06/C19) and the signature
   count test of both contracts (formulas and comparison directions extracted from Messages.sol and governance.ral, C07) *)
Theorem C01_published_vaa_passes_VerifySignatures :
  forall recover keccak v K, qvalid recover keccak v K -> verify_sigs (rec recover) keccak v K = true.
Proof. exact qvalid_passes_verify. Qed.

Theorem C01_published_vaa_passes_contract_quorum :
  forall recover keccak v K, qvalid recover keccak v K ->
  sol_quorum_accepts (sol_quorum (Z.of_nat (length K))) (Z.of_nat (length (sigs v))) = true /\
  ral_quorum_accepts (ral_quorum (Z.of_nat (length K))) (Z.of_nat (length (sigs v))) = true.
Proof. exact qvalid_passes_contract_quorum. Qed.

(* two nodes: what one guardian publishes, every peer whose current set is that set (at most 255 keys: the signature count is one
   byte on the wire) and that does not store the id yet accepts and stores, byte for byte — composition of the assembly path (above),
   the codec round trip (C05, with the payload-buffer shape read from the source) and the inbound path.  [wf (set_sigs v [])]: the
   message's fields fit the wire format and its payload is not empty (an empty payload cannot be decoded by anyone: C05/C13). *)
Theorem C01_peers_store_what_a_guardian_publishes :
  forall recover keccak v g stB,
    qvalid recover keccak v (keys g) -> (length (keys g) <= 255)%nat -> wf (set_sigs v []) ->
    cur stB = Some g -> dlookup (id_of v) (db stB) = None ->
    handle_inbound recover keccak stB (marshal v) =
    ({| cur := cur stB; agg := agg stB; db := (id_of v, marshal v) :: db stB; loopq := loopq stB; clock := clock stB |},
     [Store (id_of v) (marshal v)]).
Proof. intros recover keccak v g stB. exact (peer_stores_published_vaa recover keccak v g stB eq_refl). Qed.

(* non-vacuity: a concrete history (toy oracles) in which the node, sole member of its set, observes a message and publishes it *)
Definition ex_own : addr := repeat x01 20.
Definition ex_recover (h s : bytes) : option bytes := Some (firstn 20 s).
Definition ex_keccak (b : bytes) : bytes := repeat x00 32.
Definition ex_sign (d : bytes) : bytes := ex_own ++ repeat x00 45.
Definition ex_msg : msgpub := {| m_tx := [x07]; m_ts := 1700000000; m_tns := 0; m_nonce := 1; m_seq := 5; m_cl := 1;
                                 m_echain := 2; m_tchain := 255; m_eaddr := repeat x02 32; m_payload := [x01; x02] |}.
Definition ex_ops : list op := [SetGS {| keys := [ex_own]; gidx := 3 |}; LocalMsg ex_msg; Loopback 0].
Example C01_history_with_a_publish :
  Forall op_wf ex_ops /\
  existsb (fun outs => existsb (fun x => match x with Store _ _ => true | _ => false end) outs)
          (snd (run ex_recover ex_keccak ex_sign ex_own 1 (repeat x00 32) init ex_ops)) = true.
Proof.
  split; [|vm_compute; reflexivity].
  constructor; [split; [constructor; [intros []|constructor]|cbn; lia]|].
  constructor; [exact I|]. constructor; [exact I|constructor].
Qed.

(* why [op_wf] asks for pairwise distinct keys: with a REPEATED key the local assembly loop counts one guardian twice.  Witness
   (toy oracles): set [a; a] (quorum 2), the node (= a) observes a message and its single own signature is assembled at both
   positions and published; [verify_sigs] (C06) refuses that VAA.  Guardian sets come from the governance contract, which is
   trusted to hold distinct keys; the statement above quantifies over such sets, as the property does ("distinct members"). *)
Example C01_repeated_key_is_counted_twice :
  let ops := [SetGS {| keys := [ex_own; ex_own]; gidx := 3 |}; LocalMsg ex_msg; Loopback 0] in
  let r := run ex_recover ex_keccak ex_sign ex_own 1 (repeat x00 32) init ops in
  existsb (fun outs => existsb (fun x => match x with
                                         | SendVAA b => match unmarshal b with
                                                        | Ok v => (length (sigs v) =? 2)%nat && negb (verify_sigs ex_recover ex_keccak v [ex_own; ex_own])
                                                        | Err _ => false end
                                         | _ => false end) outs) (snd r) = true.
Proof. vm_compute. reflexivity. Qed.

(* ================================================================ EXTENSION X4 (own block): where the sets "learned from chain" come from ==========
   Model: model/EvmGuardianSet.v (fetchCurrentGuardianSet / fetchAndUpdateGuardianSet of node/pkg/ethereum/watcher.go, Run's
   initial fetch and 15 s ticker, restarts of Run on the same Watcher value, `case p.gs = <-p.setC` of the processor); the index
   comparison is read from the source on every run (gen/ExtractedEvmGs.v).  A fetch makes TWO eth_calls: the current index, then
   the set of THAT index; [gans] = the two answers (the second as a function of the index asked); every history below is an
   arbitrary list of ticker fetches, restarts, logs, heads, re-observations and poller ticks with arbitrary answers and errors.
   node.go hands setC to the Ethereum AND to the BSC watcher: [source]s. *)
From WH Require Import gen.ExtractedEvmGs model.EvmGuardianSet proofs.EvmGuardianSetProofs proofs.EvmGuardianSetProcProofs.

(* every value ever sent on setChan is exactly the (keys, index) pair of ONE fetch: the index that fetch read, and the contract's
   answer to getGuardianSet(that index) - never keys of one fetch under the index of another *)
Theorem C01_set_sent_is_the_answer_pair_of_one_fetch : forall (K : Type) c (ops : list (gop K)) s ks i,
  In (ks, i) (sent (snd (grun c s ops))) ->
  exists a, In a (flat_map (@answers_of K) ops) /\ ga_idx a = Some i /\ ga_set a i = Some ks.
Proof. intros K. exact sent_is_answer_pair. Qed.

(* no set is sent twice in a row with the same index - across errors and restarts (w.currentGuardianSet lives in the Watcher value) *)
Theorem C01_no_set_sent_twice_in_a_row : forall (K : Type) c (ops : list (gop K)) s l1 g1 g2 l2, g_chan c = true ->
  sent (snd (grun c s ops)) = l1 ++ g1 :: g2 :: l2 -> snd g1 <> snd g2.
Proof. intros K. exact sent_never_twice_in_a_row. Qed.

(* a failing call: Run returns (the supervisor re-enters it), nothing is sent, nothing is forgotten *)
Theorem C01_failed_fetch_sends_nothing : forall (K : Type) c s (o : gop K) a, fetch_like o a ->
  (ga_idx a = None \/ exists i, ga_idx a = Some i /\ ga_set a i = None) ->
  snd (gstep c s o) = [WDied] /\ w_cur (fst (gstep c s o)) = w_cur s /\ w_pending (fst (gstep c s o)) = w_pending s.
Proof. intros K. exact fetch_step_error. Qed.

(* liveness per tick: after a history ending in a fetch whose two calls succeed with index i, the processor - having received what
   was sent, in order, interleaved with any other inputs - holds a set with index i whose keys are the contract's answer to
   getGuardianSet(i) in one fetch of the history *)
Theorem C01_error_free_fetch_reaches_the_processor :
  forall recover keccak sign own gov_chain gov_addr c ops o a i ks pops,
  g_chan c = true -> fetch_like o a -> ga_idx a = Some i -> ga_set a i = Some ks ->
  setgs_of pops = map to_gset (sent (snd (grun c winit (ops ++ [o])))) ->
  exists g, cur (fst (run recover keccak sign own gov_chain gov_addr init pops)) = Some g /\ gidx g = i /\
            exists a', In a' (flat_map (@answers_of addr) (ops ++ [o])) /\ ga_idx a' = Some i /\ ga_set a' i = Some (keys g).
Proof. exact fetch_reaches_processor. Qed.

(* composition with the processor model: the [learned] list of the theorems above consists of contract answer pairs ... *)
Theorem C01_learned_sets_are_contract_answers : forall sources pops,
  delivered_from sources pops -> forall g, In g (learned [] pops) -> answer_pair sources g.
Proof. exact learned_sets_are_contract_answers. Qed.

(* ... hence, when the contract only ever returns pairwise distinct keys (<= 256): every stored VAA is a valid quorum VAA of a key
   list the governance contract itself returned for the index that set carries - for every history of the watchers (answers,
   errors, restarts) and of the processor *)
Theorem C01_stored_vaas_verify_against_contract_answers :
  forall recover keccak sign own gov_chain gov_addr sources pops,
  answers_wf sources -> delivered_from sources pops ->
  Forall (fun p => exists v g, snd p = marshal v /\ fst p = id_of v /\ qvalid recover keccak v (keys g) /\ answer_pair sources g)
         (db (fst (run recover keccak sign own gov_chain gov_addr init pops))).
Proof. exact stored_vaas_verify_against_contract_answers. Qed.

(* the contract as Solidity makes it ([chain]: append-only sets, current index = last; the two calls of a fetch are separate, upgrades
   [mid] may land between them).  For every schedule of upgrades, fetches, failing calls, restarts and everything else:
   what is sent is (set i of the contract, i) - keys of set i labelled i, also when the index changes between the two calls (then
   the PREVIOUS current set is published under its own index, and the next error-free fetch publishes the newer one) - with
   strictly increasing i: a restart never resurrects an older set; and the remembered index never exceeds the contract's *)
Theorem C01_sets_sent_are_contract_sets_under_their_own_index : forall (K : Type) c evs (ch : chain K) s,
  g_chan c = true -> ch <> [] -> cur_le s ch ->
  let r := crun c ch s evs in
  (exists more, fst (fst r) = ch ++ more) /\
  cur_le (snd (fst r)) (fst (fst r)) /\
  incr_chain (w_cur s) (map snd (sent (snd r))) /\
  Forall (fun g => 0 <= snd g <= chain_idx (fst (fst r)) /\ fst g = chain_set (fst (fst r)) (snd g)) (sent (snd r)).
Proof. intros K. exact chain_run_spec. Qed.

Theorem C01_restart_never_resurrects_an_older_set : forall (K : Type) c evs (ch : chain K) s,
  g_chan c = true -> ch <> [] -> cur_le s ch ->
  Sorted.StronglySorted Z.lt (map snd (sent (snd (crun c ch s evs)))).
Proof. intros K. exact chain_sent_strictly_increasing. Qed.

Theorem C01_learned_sets_are_contract_sets :
  forall c evs (ch : chain addr) pops, g_chan c = true -> ch <> [] ->
  (forall g, In (SetGS g) pops -> In (keys g, gidx g) (sent (snd (crun c ch winit evs)))) ->
  forall g, In g (learned [] pops) ->
  0 <= gidx g <= chain_idx (fst (fst (crun c ch winit evs))) /\ keys g = chain_set (fst (fst (crun c ch winit evs))) (gidx g).
Proof. exact learned_sets_are_contract_sets. Qed.

(* liveness against the contract: after any schedule that ends in a fetch (ticker or restart) whose two calls succeed with no upgrade
   in between, the watcher remembers the contract's current index and the processor - once it has received what was sent - holds
   exactly the contract's current set under its own index *)
Theorem C01_error_free_fetch_delivers_the_current_contract_set : forall (K : Type) c evs (ch : chain K) last,
  g_chan c = true -> ch <> [] ->
  (last = CFetch [] false false \/ exists h0, last = CRestart [] false false h0) ->
  let r := crun c ch winit (evs ++ [last]) in
  w_cur (snd (fst r)) = Some (chain_idx (fst (fst r))) /\
  last_set None (sent (snd r)) = Some (chain_set (fst (fst r)) (chain_idx (fst (fst r))), chain_idx (fst (fst r))).
Proof. intros K. exact chain_fetch_delivers_current_set. Qed.

Theorem C01_processor_holds_the_last_set_sent : forall recover keccak sign own gov_chain gov_addr pops (outs : list (list (wout addr))),
  setgs_of pops = map to_gset (sent outs) ->
  cur (fst (run recover keccak sign own gov_chain gov_addr init pops)) = option_map to_gset (last_set None (sent outs)).
Proof. exact processor_holds_last_sent. Qed.

(* ---------------------------------------------------------------- witnesses: what CAN happen (keys are integers here) *)
Definition gx_c : gcfg := mkGCfg (EvmWatcher.mkCfg true 1 4) true.
(* the contract is upgraded between the two calls of the first fetch: the watcher publishes the PREVIOUS current set [11; 12] under
   ITS index 0 (consistent, one tick stale); the next fetch publishes ([11; 12; 13], 1) *)
Example C01_upgrade_between_the_two_calls_publishes_the_previous_set :
  sent (snd (crun gx_c [[11; 12]] winit [CRestart [[11; 12; 13]] false false 100; CFetch [] false false; CFetch [] false false])) =
  [([11; 12], 0); ([11; 12; 13], 1)].
Proof. vm_compute. reflexivity. Qed.

(* errors on either call, then a restart whose initial fetch fails too, then success: one set, once *)
Example C01_errors_and_restarts_send_each_set_once :
  sent (snd (crun gx_c [[11; 12]] winit [CRestart [] true false 100; CRestart [] false true 100; CRestart [] false false 100;
                                         CFetch [] false false; CFetch [] true false; CRestart [] false false 130; CUpgrade [21];
                                         CFetch [] false true; CRestart [] false false 150; CFetch [] false false])) =
  [([11; 12], 0); ([21], 1)].
Proof. vm_compute. reflexivity. Qed.

(* REFUTED without the contract's discipline (reported, not a violation of C01): the node behind the RPC endpoint answers the
   index call from a state that knows set 1 and the set call from a state that does not yet (load-balanced backends, or a reorg
   between the calls): getGuardianSet(1) = the empty set of an unset mapping slot.  The watcher publishes ([], 1), remembers index
   1 and - the comparison is on the index alone - never corrects it: later error-free fetches answering (1, [21]) send nothing *)
Example C01_inconsistent_node_leaves_an_empty_set_refuted :
  let lag : gans Z := mkGAns (Some 1) (fun _ => Some []) in
  let good : gans Z := mkGAns (Some 1) (fun i => if i =? 1 then Some [21] else Some [11; 12]) in
  sent (snd (grun gx_c winit [GRestart (mkGAns (Some 0) (fun _ => Some [11; 12])) 100; GFetch lag; GFetch good; GRestart good 120; GFetch good])) =
  [([11; 12], 0); ([], 1)].
Proof. vm_compute. reflexivity. Qed.

(* REFUTED without a monotone index: a node that answers from an older state makes the watcher publish the older set again (`==`, not
   `<`); no restart is needed for that, and restarts do not cause it *)
Example C01_index_regression_republishes_the_older_set_refuted :
  let a0 : gans Z := mkGAns (Some 0) (fun _ => Some [11; 12]) in
  let a1 : gans Z := mkGAns (Some 1) (fun _ => Some [21]) in
  map snd (sent (snd (grun gx_c winit [GRestart a0 100; GFetch a1; GFetch a0; GFetch a1]))) = [0; 1; 0; 1].
Proof. vm_compute. reflexivity. Qed.

(* the hypotheses of the composition theorems are satisfiable: one watcher, two sets, the processor receives both *)
Definition gx_k1 : addr := repeat x01 20.
Definition gx_k2 : addr := repeat x02 20.
Definition gx_a (i : Z) (ks : list addr) : gans addr := mkGAns (Some i) (fun j => if j =? i then Some ks else Some []).
Definition gx_src : source := (gx_c, [GRestart (gx_a 0 [gx_k1]) 100; GFetch (gx_a 0 [gx_k1]); GFetch (mkGAns None (fun _ => None));
                                     GRestart (gx_a 1 [gx_k1; gx_k2]) 120]).
Definition gx_pops : list op := [SetGS {| keys := [gx_k1]; gidx := 0 |}; LocalMsg ex_msg; SetGS {| keys := [gx_k1; gx_k2]; gidx := 1 |}; Cleanup].
Example C01_composition_hypotheses_hold :
  source_sent gx_src = [([gx_k1], 0); ([gx_k1; gx_k2], 1)] /\
  delivered_from [gx_src] gx_pops /\ answers_wf [gx_src] /\
  setgs_of gx_pops = map to_gset (source_sent gx_src).
Proof.
  assert (E : source_sent gx_src = [([gx_k1], 0); ([gx_k1; gx_k2], 1)]) by (vm_compute; reflexivity).
  repeat apply conj.
  - exact E.
  - intros g Hg. exists gx_src. split; [left; reflexivity|]. rewrite E.
    cbn [gx_pops In] in Hg. destruct Hg as [Hg|[Hg|[Hg|[Hg|Hg]]]]; try discriminate Hg; try contradiction; inversion Hg; subst g; cbn [keys gidx].
    + left. reflexivity.
    + right. left. reflexivity.
  - intros src a i ks [Hs|Hs] Ha Hk; [subst src|contradiction]. cbn [gx_src snd flat_map answers_of app In] in Ha.
    assert (Hnd1 : NoDup [gx_k1]) by (constructor; [intros []|constructor]).
    assert (Hnd2 : NoDup [gx_k1; gx_k2]).
    { constructor; [|constructor; [intros []|constructor]]. intros [H|[]]. discriminate H. }
    destruct Ha as [Ha|[Ha|[Ha|[Ha|Ha]]]]; try contradiction; subst a; cbn [ga_set gx_a] in Hk.
    + destruct (i =? 0); inversion Hk; subst ks; split; try exact Hnd1; try constructor; cbn; lia.
    + destruct (i =? 0); inversion Hk; subst ks; split; try exact Hnd1; try constructor; cbn; lia.
    + discriminate Hk.
    + destruct (i =? 1); inversion Hk; subst ks; split; try exact Hnd2; try constructor; cbn; lia.
  - rewrite E. reflexivity.
Qed.

(* ================================================================== the network (model/System.v) ==================================
   N guardian nodes, each the processor model above with its own signer and address ([owns i], [signs i]), and an adversarial
   network: a step is an environment input to one node, the delivery to one node of any item put on the wire earlier (any order,
   duplication, loss) or of an arbitrary adversary-made observation / VAA byte string, or a node's own loopback.
   The composition's wiring (which component feeds which processor handler, who reads the processor's outputs, how the downstream
   consumers get the bytes) is the wiring read from node.go, processor.go, explorer-backend/main.go and spy.go on every run. *)
Theorem C01_composition_wiring_is_the_wiring_of_node_go :
  system_wiring = extracted_wiring /\ system_consumers = extracted_consumers.
Proof. exact (conj wiring_matches consumers_match). Qed.

(* network-level C01: in EVERY network history (any number of nodes, any adversary traffic, any interleaving) every output of
   every step of every node satisfies the single-node statement, with respect to what THAT node observed and the sets THAT node
   learned from chain ([net_steps_c01], unfolded in proofs/SystemProofs.v) *)
Theorem C01_network_every_published_vaa_is_quorum_valid :
  forall recover keccak gov_chain gov_addr owns signs N (xs : list nop),
    Forall nop_wf xs -> net_steps_c01 recover keccak gov_chain gov_addr owns signs (ninit N) ghost0 xs.
Proof. exact net_c01. Qed.

(* ... and what every node persists (and serves, C12) after any network history *)
Theorem C01_network_stores_hold_only_quorum_valid_vaas :
  forall recover keccak gov_chain gov_addr owns signs N (xs : list nop) i st,
    Forall nop_wf xs ->
    nth_error (nodes (fst (nrun recover keccak gov_chain gov_addr owns signs (ninit N) xs))) i = Some st ->
    Forall (stored_ok recover keccak (net_learned i xs)) (db st).
Proof. exact net_store. Qed.

(* the lifting principle: what happens to node i in a network history IS a history of the single-node model (the inputs the network
   resolved for it, in order), so every single-node theorem (C01, C02, C03, C13, C14) holds of every node of every network *)
Theorem C01_network_node_history_is_a_processor_history :
  forall recover keccak gov_chain gov_addr owns signs N (xs : list nop) i, (i < N)%nat ->
    let ops := ops_of i (trace recover keccak gov_chain gov_addr owns signs (ninit N) xs) in
    nth_error (nodes (fst (nrun recover keccak gov_chain gov_addr owns signs (ninit N) xs))) i =
      Some (fst (run recover keccak (signs i) (owns i) gov_chain gov_addr init ops)) /\
    (Forall nop_wf xs -> Forall op_wf ops).
Proof.
  intros recover keccak gov_chain gov_addr owns signs N xs i Hi. split.
  - exact (projection_init recover keccak gov_chain gov_addr owns signs N xs i Hi).
  - exact (projected_wf recover keccak gov_chain gov_addr owns signs (ninit N) xs i).
Qed.

(* agreement.  Any two quorum-valid VAAs of one guardian set, whatever their bodies, carry valid signatures of a common set of more
   than a third of the guardians (C07's intersection) ... *)
Theorem C01_two_quorum_vaas_share_signers :
  forall recover keccak v1 v2 K, qvalid recover keccak v1 K -> qvalid recover keccak v2 K ->
  exists common : list addr, NoDup common /\ incl common K /\ 3 * Z.of_nat (length common) > Z.of_nat (length K) /\
    forall a, In a common -> signed_by recover keccak v1 a /\ signed_by recover keccak v2 a.
Proof. exact two_quorums_share_signers. Qed.

(* ... hence equivocation resistance WITHOUT a cryptographic assumption: if at most a third of the set is faulty and no other
   member has valid signatures over two different digests (a hypothesis about the recovery oracle: honest signers sign one digest
   per message and signatures cannot be forged), two quorum-valid VAAs of the set have the same digest *)
Theorem C01_no_conflicting_quorum_vaas :
  forall recover keccak v1 v2 K (faulty : list addr), qvalid recover keccak v1 K -> qvalid recover keccak v2 K ->
  3 * Z.of_nat (length faulty) <= Z.of_nat (length K) ->
  (forall a, In a K -> ~ In a faulty -> signed_by recover keccak v1 a -> signed_by recover keccak v2 a -> dg keccak v1 = dg keccak v2) ->
  dg keccak v1 = dg keccak v2.
Proof. exact no_conflicting_quorums. Qed.

(* two honest nodes that publish for the same chain message under the same set publish the same VAA up to the signature section:
   same body, digest, identifier and header, and their signer sets overlap in more than a third of the set *)
Theorem C01_honest_publications_of_one_message_agree :
  forall recover keccak m g sgi sgj,
  let vi := set_sigs (vaa_of_message (gidx g) m) sgi in let vj := set_sigs (vaa_of_message (gidx g) m) sgj in
  qvalid recover keccak vi (keys g) -> qvalid recover keccak vj (keys g) ->
  body vi = body vj /\ dg keccak vi = dg keccak vj /\ id_of vi = id_of vj /\ set_sigs vi [] = set_sigs vj [] /\
  exists common : list addr, NoDup common /\ incl common (keys g) /\ 3 * Z.of_nat (length common) > Z.of_nat (length (keys g)) /\
    forall a, In a common -> signed_by recover keccak vi a /\ signed_by recover keccak vj a.
Proof. exact honest_publications_agree. Qed.

(* the ghost log names, for a chain observation, exactly the VAA built from the message's fields under the set in force *)
Theorem C01_chain_origin_is_the_message_under_the_set_in_force :
  forall keccak sign own gc ga st o v snap, In (v, snap, true) (origin_of keccak sign own gc ga st o) ->
  exists m g, o = LocalMsg m /\ cur st = Some g /\ v = vaa_of_message (gidx g) m /\ snap = Some g.
Proof. exact origin_of_chain_form. Qed.

(* non-vacuity: two guardians (toy oracles), both observe the message, node 1's observation travels to node 0, node 0's own
   signature loops back, node 0 publishes, the published bytes travel to node 1, which stores them byte for byte *)
Definition nx_owns (i : nat) : addr := repeat (byte_of_Z (Z.of_nat i + 1)) 20.
Definition nx_signs (i : nat) (d : bytes) : bytes := nx_owns i ++ repeat x00 45.
Definition nx_G : gset := {| keys := [nx_owns 0; nx_owns 1]; gidx := 3 |}.
Definition nx_hist : list nop :=
  [NEnv 0 (ESetGS nx_G); NEnv 1 (ESetGS nx_G); NEnv 1 (EMsg ex_msg); NEnv 0 (EMsg ex_msg); NDeliver 0 0; NLoop 0 0; NDeliver 1 2].
Example C01_network_history_with_a_publish_and_a_peer_store :
  Forall nop_wf nx_hist /\
  let r := nrun ex_recover ex_keccak 1 (repeat x00 32) nx_owns nx_signs (ninit 2) nx_hist in
  match nth_error (snd r) 5, nth_error (snd r) 6 with
  | Some [Store i b; SendVAA b'], Some [Store i' b''] => i = i' /\ b = b' /\ b = b'' /\ pool (fst r) <> []
  | _, _ => False
  end.
Proof.
  split.
  - repeat constructor; try exact I; cbn [nx_G keys length]; try lia; try (intros [H|[]]; discriminate H); intros [].
  - vm_compute. repeat split; discriminate.
Qed.

(* ... and two different quorum VAAs of one set of four (signers 0,1,2 and 1,2,3: quorum 3, two common signers) satisfy the
   premises of the sharing theorem *)
Definition nx_K : list addr := [nx_owns 0; nx_owns 1; nx_owns 2; nx_owns 3].
Definition nx_v (ss : list (Z * nat)) (p : byte) : vaa :=
  {| version := 1; gsidx := 3; sigs := map (fun q => {| s_idx := fst q; s_data := nx_signs (snd q) [] |}) ss; ts := 1; tns := 0; nonce := 0;
     echain := 2; tchain := 0; eaddr := repeat x02 32; seq := 5; cl := 1; payload := [p] |}.
Example C01_two_quorums_premises_satisfiable :
  qvalid ex_recover ex_keccak (nx_v [(0, 0%nat); (1, 1%nat); (2, 2%nat)] x01) nx_K /\
  qvalid ex_recover ex_keccak (nx_v [(1, 1%nat); (2, 2%nat); (3, 3%nat)] x02) nx_K.
Proof.
  split; (split; [apply verify_sigs_iff; vm_compute; reflexivity|vm_compute; discriminate]).
Qed.

Print Assumptions C01_every_published_vaa_is_quorum_valid.
Print Assumptions C01_store_holds_only_quorum_valid_vaas.
Print Assumptions C01_quorum_valid_means_distinct_members.
Print Assumptions C01_quorum_valid_means_ascending_and_in_place.
Print Assumptions C01_published_vaa_passes_VerifySignatures.
Print Assumptions C01_published_vaa_passes_contract_quorum.
Print Assumptions C01_peers_store_what_a_guardian_publishes.
(* X4 block *)
Print Assumptions C01_set_sent_is_the_answer_pair_of_one_fetch.
Print Assumptions C01_no_set_sent_twice_in_a_row.
Print Assumptions C01_failed_fetch_sends_nothing.
Print Assumptions C01_error_free_fetch_reaches_the_processor.
Print Assumptions C01_learned_sets_are_contract_answers.
Print Assumptions C01_stored_vaas_verify_against_contract_answers.
Print Assumptions C01_sets_sent_are_contract_sets_under_their_own_index.
Print Assumptions C01_restart_never_resurrects_an_older_set.
Print Assumptions C01_learned_sets_are_contract_sets.
Print Assumptions C01_error_free_fetch_delivers_the_current_contract_set.
Print Assumptions C01_processor_holds_the_last_set_sent.
Print Assumptions C01_composition_wiring_is_the_wiring_of_node_go.
Print Assumptions C01_network_every_published_vaa_is_quorum_valid.
Print Assumptions C01_network_stores_hold_only_quorum_valid_vaas.
Print Assumptions C01_network_node_history_is_a_processor_history.
Print Assumptions C01_two_quorum_vaas_share_signers.
Print Assumptions C01_no_conflicting_quorum_vaas.
Print Assumptions C01_honest_publications_of_one_message_agree.
Print Assumptions C01_chain_origin_is_the_message_under_the_set_in_force.
