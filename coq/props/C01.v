(* C01 — Only quorum-signed, verifiable VAAs are ever stored or broadcast.
   Model: WH.model.Processor (handlers of node/pkg/processor, one atomic step each; the own-signature goroutine is the explicit
   loopback queue).  Specification vocabulary: WH.model.ProcSpec.  All statements are for EVERY recover / keccak / sign function
   (no cryptographic assumption: "valid signature of a over d" is [recover d s = Some a]), every own address, every
   governance emitter and every finite history of inputs whose guardian sets have pairwise distinct keys (<= 256). *)
From Coq Require Import List ZArith Bool Lia.
From Coq Require Import Strings.Byte.
From WH Require Import lib.Bytes gen.Extracted model.Vaa model.Processor model.ProcSpec proofs.VaaProofs proofs.ProcC01Proofs.
Import ListNotations.
Open Scope Z_scope.

(* Every output of every step of every history ([steps_c01], unfolded in ProcSpec.v):
   - only the handling of an observation (gossiped or own loopback) or of an inbound VAA ever stores or broadcasts a VAA;
   - a VAA published while handling an observation is [marshal (set_sigs v sg)] where v is a message the node itself observed or
     was injected earlier in the history (recorded together with the set g in force at that moment), g was learned from chain,
     sg are valid signatures over v's own digest by >= CalculateQuorum(|g|) pairwise distinct members of g in strictly
     ascending index order, it is stored under v's own id, and for a chain observation g is the set the VAA names;
   - a VAA stored while handling an inbound VAA verifies in the same sense against the CURRENT set, and no VAA was stored under
     its id before (an already stored VAA is never replaced by a peer's copy). *)
Theorem C01_every_published_vaa_is_quorum_valid :
  forall recover keccak sign own gov_chain gov_addr (ops : list op),
    Forall op_wf ops -> steps_c01 recover keccak sign own gov_chain gov_addr init [] [] ops.
Proof. exact c01_all_steps. Qed.

(* what the node persists and serves: after any history every stored value is the wire form of a VAA, stored under its own id,
   that is a valid quorum VAA of a guardian set learned from chain during that history *)
Theorem C01_store_holds_only_quorum_valid_vaas :
  forall recover keccak sign own gov_chain gov_addr (ops : list op),
    Forall op_wf ops ->
    Forall (stored_ok recover keccak (learned [] ops)) (db (fst (run recover keccak sign own gov_chain gov_addr init ops))).
Proof. exact c01_store. Qed.

(* "valid quorum VAA" spelled out: at least quorum DISTINCT members of the set signed the VAA's own digest *)
Theorem C01_quorum_valid_means_distinct_members :
  forall recover keccak v K, qvalid recover keccak v K ->
  exists signers : list addr, NoDup signers /\ incl signers K /\ go_quorum (Z.of_nat (length K)) <= Z.of_nat (length signers) /\
    Forall2 (fun s a => rec recover (dg keccak v) (s_data s) = Some a) (sigs v) signers.
Proof. exact qvalid_distinct_members. Qed.

(* ... in strictly ascending guardian order, each signature by the member at its index *)
Theorem C01_quorum_valid_means_ascending_and_in_place :
  forall recover keccak v K, qvalid recover keccak v K ->
  increasing (-1) (map s_idx (sigs v)) /\
  Forall (fun s => s_idx s < Z.of_nat (length K) /\
                   exists a, rec recover (dg keccak v) (s_data s) = Some a /\ nth_error K (Z.to_nat (s_idx s)) = Some a) (sigs v).
Proof. intros recover keccak v K [(H1 & H2 & _) _]. split; [exact H1|exact H2]. Qed.

(* downstream: such a VAA passes VerifySignatures against that set (what peers and the explorer run, C06/C19) and the signature
   count test of both contracts (formulas and comparison directions extracted from Messages.sol and governance.ral, C07) *)
Theorem C01_published_vaa_passes_VerifySignatures :
  forall recover keccak v K, qvalid recover keccak v K -> verify_sigs (rec recover) keccak v K = true.
Proof. exact qvalid_passes_verify. Qed.

Theorem C01_published_vaa_passes_contract_quorum :
  forall recover keccak v K, qvalid recover keccak v K ->
  sol_quorum_accepts (sol_quorum (Z.of_nat (length K))) (Z.of_nat (length (sigs v))) = true /\
  ral_quorum_accepts (ral_quorum (Z.of_nat (length K))) (Z.of_nat (length (sigs v))) = true.
Proof. exact qvalid_passes_contract_quorum. Qed.

(* two nodes: what one guardian publishes, every peer whose current set is that set (at most 255 keys: the signature count is one
   byte on the wire) and that does not store the id yet accepts and stores, byte for byte — composition of the assembly path (above),
   the codec round trip (C05, with the payload-buffer shape read from the source) and the inbound path.  [wf (set_sigs v [])]: the
   message's fields fit the wire format and its payload is not empty (an empty payload cannot be decoded by anyone: C05/C13). *)
Theorem C01_peers_store_what_a_guardian_publishes :
  forall recover keccak v g stB,
    qvalid recover keccak v (keys g) -> (length (keys g) <= 255)%nat -> wf (set_sigs v []) ->
    cur stB = Some g -> dlookup (id_of v) (db stB) = None ->
    handle_inbound recover keccak stB (marshal v) =
    ({| cur := cur stB; agg := agg stB; db := (id_of v, marshal v) :: db stB; loopq := loopq stB; clock := clock stB |},
     [Store (id_of v) (marshal v)]).
Proof. intros recover keccak v g stB. exact (peer_stores_published_vaa recover keccak v g stB eq_refl). Qed.

(* non-vacuity: a concrete history (toy oracles) in which the node, sole member of its set, observes a message and publishes it *)
Definition ex_own : addr := repeat x01 20.
Definition ex_recover (h s : bytes) : option bytes := Some (firstn 20 s).
Definition ex_keccak (b : bytes) : bytes := repeat x00 32.
Definition ex_sign (d : bytes) : bytes := ex_own ++ repeat x00 45.
Definition ex_msg : msgpub := {| m_tx := [x07]; m_ts := 1700000000; m_tns := 0; m_nonce := 1; m_seq := 5; m_cl := 1;
                                 m_echain := 2; m_tchain := 255; m_eaddr := repeat x02 32; m_payload := [x01; x02] |}.
Definition ex_ops : list op := [SetGS {| keys := [ex_own]; gidx := 3 |}; LocalMsg ex_msg; Loopback 0].
Example C01_history_with_a_publish :
  Forall op_wf ex_ops /\
  existsb (fun outs => existsb (fun x => match x with Store _ _ => true | _ => false end) outs)
          (snd (run ex_recover ex_keccak ex_sign ex_own 1 (repeat x00 32) init ex_ops)) = true.
Proof.
  split; [|vm_compute; reflexivity].
  constructor; [split; [constructor; [intros []|constructor]|cbn; lia]|].
  constructor; [exact I|]. constructor; [exact I|constructor].
Qed.

(* why [op_wf] asks for pairwise distinct keys: with a REPEATED key the local assembly loop counts one guardian twice.  Witness
   (toy oracles): set [a; a] (quorum 2), the node (= a) observes a message and its single own signature is assembled at both
   positions and published; [verify_sigs] (C06) refuses that VAA.  Guardian sets come from the governance contract, which is
   trusted to hold distinct keys; the statement above quantifies over such sets, as the property does ("distinct members"). *)
Example C01_repeated_key_is_counted_twice :
  let ops := [SetGS {| keys := [ex_own; ex_own]; gidx := 3 |}; LocalMsg ex_msg; Loopback 0] in
  let r := run ex_recover ex_keccak ex_sign ex_own 1 (repeat x00 32) init ops in
  existsb (fun outs => existsb (fun x => match x with
                                         | SendVAA b => match unmarshal b with
                                                        | Ok v => (length (sigs v) =? 2)%nat && negb (verify_sigs ex_recover ex_keccak v [ex_own; ex_own])
                                                        | Err _ => false end
                                         | _ => false end) outs) (snd r) = true.
Proof. vm_compute. reflexivity. Qed.

Print Assumptions C01_every_published_vaa_is_quorum_valid.
Print Assumptions C01_store_holds_only_quorum_valid_vaas.
Print Assumptions C01_quorum_valid_means_distinct_members.
Print Assumptions C01_quorum_valid_means_ascending_and_in_place.
Print Assumptions C01_published_vaa_passes_VerifySignatures.
Print Assumptions C01_published_vaa_passes_contract_quorum.
Print Assumptions C01_peers_store_what_a_guardian_publishes.
