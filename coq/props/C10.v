(* C10 - EVM messages reach the signer only from the core contract and when final; orphaned / re-mined / failed
   transactions are dropped; a message whose transaction stays in its block is forwarded exactly once after the depth is
   reached, however far the observed head advances between two polls, and is abandoned only after the node has failed
   to confirm it for the whole abandonment window.

   Model: model/EvmWatcher.v (pending : key -> (msg, height); operations OLog / OHead / OReobs; every answer of the node
   is an input of the step that obtains it).  Constants, comparison operators, filters and the ORDER of the tests of the
   per-head scan come from gen/Extracted.v, regenerated from node/pkg/ethereum/{watcher,by_transaction}.go on every run.
   All theorems are over arbitrary states / histories / head sequences; `wf_p`, `wf_ev` and `0 <= n < two64` say that the
   uint64 additions of the source do not wrap (block numbers below 2^64 - 255 - maxWaitConfirmations).

   Vocabulary (proofs/EvmWatcherProofs.v): `decisions k outs` = all Confirmed / Dropped events about key k in the
   per-step outputs `outs`; `no_relog k ops` = no log with key k is delivered in ops; `early_heads c k p pre` = every head
   in pre is below height+expected, or is inside the abandonment window with a transient failure of the receipt lookup;
   `expected_of wait safe p` = if wait && not safe then consistency level else 0 (extracted). *)
From Coq Require Import List ZArith Bool Lia Sorted.
From WH Require Import gen.Extracted model.EvmWatcher proofs.EvmWatcherProofs.
Import ListNotations.
Open Scope Z_scope.

(* ---------------------------------------------------------------- safety, per-head scan, over every history from the empty watcher *)
Theorem C10_scan_forward_safe : forall c hist n safe orc k m,
  (forall e tm, In (OLog e (Some tm)) hist -> wf_ev e) -> 0 <= n < two64 ->
  In (Confirmed k m) (snd (step c (fst (run c init hist)) (OHead n safe orc))) ->
  exists e tm, In (OLog e (Some tm)) hist /\ key_of e = k /\ m = msg_of c e tm /\
    e_h e + evm_expected (c_wait c) safe (e_cl e) <= n /\
    orc k = mkAns (Some (1, e_bh e)) ENone.
Proof. exact scan_forward_safe. Qed.

(* the same for an arbitrary state, in the source's uint64 arithmetic (no range hypothesis) *)
Theorem C10_scan_step_safe : forall c s n safe orc k m,
  In (Confirmed k m) (snd (step c s (OHead n safe orc))) ->
  exists p, In (k, p) s /\ m = p_msg p /\ thr_of (c_wait c) safe p <= u64 n /\ orc k = mkAns (Some (1, k_bh k)) ENone.
Proof. exact scan_step_safe. Qed.

(* ---------------------------------------------------------------- safety, re-observation path *)
Theorem C10_reobserve_safe : forall c hb ha rc bt m,
  (forall r blk, rc = Some r -> r_blk r = Some blk -> 0 <= blk /\ blk + 255 < two64) ->
  (forall hd, hb = Some hd -> 0 <= hd < two64) ->
  (forall r l e, rc = Some r -> In (Some l) (r_logs r) -> l_ev l = Some e -> 0 <= e_cl e <= 255) ->
  In (Reobserved m) (reobserve c hb ha rc bt) ->
  exists hd r t blk l e,
    hb = Some hd /\ rc = Some r /\ r_status r = 1 /\ bt = Some t /\ r_blk r = Some blk /\
    In (Some l) (r_logs r) /\ l_addr l = c_contract c /\ l_topic0 l = Some evm_lmp_topic /\ l_ev l = Some e /\
    m = msg_of c e t /\
    blk + (if c_wait c then e_cl e else 0) <= hd.
Proof. exact reobserve_safe_math. Qed.

Theorem C10_reobserve_safe_u64 : forall c hb ha rc bt m,
  In (Reobserved m) (reobserve c hb ha rc bt) ->
  exists hd r t blk l e,
    hb = Some hd /\ rc = Some r /\ r_status r = 1 /\ bt = Some t /\ r_blk r = Some blk /\
    In (Some l) (r_logs r) /\ l_addr l = c_contract c /\ l_topic0 l = Some evm_lmp_topic /\ l_ev l = Some e /\
    m = msg_of c e t /\ u64 hd <> 0 /\
    u64 (u64 blk + (if c_wait c then e_cl e else 0)) <= u64 hd.
Proof. exact reobserve_safe. Qed.

(* ---------------------------------------------------------------- liveness: exactly once, at the first deep head that answers *)
Theorem C10_forwarded_exactly_once : forall c s k p pre n safe orc post,
  NoDup (keys s) -> find k s = Some p -> wf_p p ->
  no_relog k pre -> no_relog k post -> early_heads c k p pre ->
  0 <= n < two64 ->
  p_height p + expected_of (c_wait c) safe p <= n ->            (* however far beyond *)
  orc k = mkAns (Some (1, k_bh k)) ENone ->                     (* status 1, same block, no error *)
  let r := run c s (pre ++ OHead n safe orc :: post) in
  decisions k (snd r) = [Confirmed k (p_msg p)] /\
  In (Confirmed k (p_msg p)) (nth (length pre) (snd r) []) /\
  find k (fst r) = None.
Proof. exact forwarded_exactly_once. Qed.

(* the general form: the first head that is deep enough and whose lookup does not fail transiently inside the window decides *)
Theorem C10_first_decisive_head : forall c s k p pre n safe orc post,
  NoDup (keys s) -> find k s = Some p -> wf_p p ->
  no_relog k pre -> no_relog k post -> early_heads c k p pre ->
  0 <= n < two64 ->
  p_height p + expected_of (c_wait c) safe p <= n ->
  (is_transient (a_err (orc k)) = true -> p_height p + expected_of (c_wait c) safe p + evm_max_wait <= n) ->
  let v := verdict_math (c_wait c) safe n (orc k) k p in
  let r := run c s (pre ++ OHead n safe orc :: post) in
  decisions k (snd r) = decision_of v k p /\
  (forall o, In o (decision_of v k p) -> In o (nth (length pre) (snd r) [])) /\
  find k (fst r) = None.
Proof. exact first_decisive_head. Qed.

Theorem C10_still_pending_while_early : forall c s k p ops,
  NoDup (keys s) -> find k s = Some p -> wf_p p -> no_relog k ops -> early_heads c k p ops ->
  find k (fst (run c s ops)) = Some p /\ decisions k (snd (run c s ops)) = [].
Proof. exact still_pending_while_early. Qed.

(* ---------------------------------------------------------------- orphaned / failed / re-mined transactions are dropped, never forwarded *)
Theorem C10_dropped : forall c s k p pre n safe orc post,
  NoDup (keys s) -> find k s = Some p -> wf_p p ->
  no_relog k pre -> no_relog k post -> early_heads c k p pre ->
  0 <= n < two64 ->
  p_height p + expected_of (c_wait c) safe p <= n ->
  let r := run c s (pre ++ OHead n safe orc :: post) in
  ((is_transient (a_err (orc k)) = false /\ is_orphan (orc k) = true) ->
     decisions k (snd r) = [Dropped k WOrphan] /\ find k (fst r) = None) /\
  (forall st h, orc k = mkAns (Some (st, h)) ENone -> st <> 1 ->
     decisions k (snd r) = [Dropped k WFailed] /\ find k (fst r) = None) /\
  (forall h, orc k = mkAns (Some (1, h)) ENone -> h <> k_bh k ->
     decisions k (snd r) = [Dropped k WRemined] /\ find k (fst r) = None).
Proof. exact dropped_when_resolved_otherwise. Qed.

(* ---------------------------------------------------------------- abandonment only after the whole window of failed lookups *)
Theorem C10_abandoned_only_after_window : forall c s k p pre n safe orc post,
  NoDup (keys s) -> find k s = Some p -> wf_p p -> no_relog k pre ->
  (forall n' safe' orc', In (OHead n' safe' orc') pre -> 0 <= n' < two64) -> 0 <= n < two64 ->
  In (Dropped k WTimeout) (nth (length pre) (snd (run c s (pre ++ OHead n safe orc :: post))) []) ->
  is_transient (a_err (orc k)) = true /\
  p_height p + expected_of (c_wait c) safe p + evm_max_wait <= n /\
  (forall n' safe' orc', In (OHead n' safe' orc') pre -> p_height p + expected_of (c_wait c) safe' p <= n' ->
     is_transient (a_err (orc' k)) = true /\ n' < p_height p + expected_of (c_wait c) safe' p + evm_max_wait).
Proof. exact abandoned_only_after_window. Qed.

(* ---------------------------------------------------------------- never twice, whatever the node answers *)
Theorem C10_at_most_once : forall c s k ops, NoDup (keys s) -> no_relog k ops ->
  (length (filter (confirmedb k) (concat (snd (run c s ops)))) <= 1)%nat.
Proof. exact at_most_once. Qed.

(* ---------------------------------------------------------------- entries do not influence each other *)
Theorem C10_key_independence : forall c k ops s, NoDup (keys s) ->
  map (filter (aboutb k)) (snd (run c s ops)) = fst (fate c k (find k s) ops) /\
  find k (fst (run c s ops)) = snd (fate c k (find k s) ops).
Proof. exact run_fate. Qed.

Theorem C10_pending_keys_distinct : forall c ops, NoDup (keys (fst (run c init ops))).
Proof. intros c ops. apply nodup_run. constructor. Qed.

(* ---------------------------------------------------------------- the block poller that produces the observed heads (poller.go) *)
(* whatever the node answers (errors, older blocks, jumps): the published heads are strictly increasing, each is a head the
   node served in that poll, none carries the Safe flag, and lastBlock ends at least as high as every answer *)
Theorem C10_poller_heads : forall answers last,
  last <= fst (poll_seq last answers) /\
  (forall a, In (Some a) answers -> a <= fst (poll_seq last answers)) /\
  StronglySorted Z.lt (map fst (snd (poll_seq last answers))) /\
  Forall (fun h => last < fst h /\ fst h <= fst (poll_seq last answers) /\ In (Some (fst h)) answers /\ snd h = false)
         (snd (poll_seq last answers)).
Proof. exact poll_seq_spec. Qed.

(* hence on polled heads the scan waits for the full consistency level in wait mode, and for nothing otherwise *)
Theorem C10_polled_head_expected : forall last answers n sf wait p,
  In (n, sf) (snd (poll_seq last answers)) -> expected_of wait sf p = if wait then m_cl (p_msg p) else 0.
Proof. exact polled_head_expected. Qed.

(* ---------------------------------------------------------------- poller and watcher together, end to end *)
(* the node's answers to the polls are arbitrary (errors, stale blocks, jumps of any size, e.g. 990 -> 1065); as soon as one
   of them is a new head at or beyond height + consistency level, the message - whose receipt stays - has been forwarded
   exactly once by the scans of the published heads *)
Theorem C10_end_to_end : forall c s k p orc last answers,
  NoDup (keys s) -> find k s = Some p -> wf_p p ->
  orc k = mkAns (Some (1, k_bh k)) ENone ->
  0 <= last -> (forall a, In (Some a) answers -> a < two64) ->
  (exists a, In (Some a) answers /\ last < a /\ p_height p + (if c_wait c then m_cl (p_msg p) else 0) <= a) ->
  let r := run c s (heads_ops orc (snd (poll_seq last answers))) in
  decisions k (snd r) = [Confirmed k (p_msg p)] /\ find k (fst r) = None.
Proof. exact end_to_end. Qed.

(* ---------------------------------------------------------------- the order of the tests before repo commit 40922fc violated the liveness clause *)
Theorem C10_original_order_refuted :
  (* log at block 1000, level 1, first observed head 1065, receipt unchanged *)
  scan_entry_gen true false true false 1065 ex_good ex_key ex_pm = (false, [Dropped ex_key WTimeout]) /\
  scan_entry_gen false true true false 1065 ex_good ex_key ex_pm = (false, [Looked ex_key; Confirmed ex_key (p_msg ex_pm)]) /\
  (* one transient RPC error at the first ready head *)
  scan_entry_gen true false true false 1001 (mkAns None EOther) ex_key ex_pm = (false, [Looked ex_key; Dropped ex_key WOrphan]) /\
  scan_entry_gen false true true false 1001 (mkAns None EOther) ex_key ex_pm = (true, [Looked ex_key]).
Proof.
  destruct original_order_head_jump as [A B]. destruct original_order_transient_error as [C D].
  repeat apply conj; assumption.
Qed.

(* ---------------------------------------------------------------- why the range hypotheses are there: uint64 wrap-around *)
(* a log reported for block 2^64 - 1 with level 1 is "deep enough" at head 5 in the source's arithmetic *)
Theorem C10_range_hypothesis_needed :
  scan_entry true false 5 ex_good ex_key (mkP (p_msg ex_pm) (two64 - 1)) = (false, [Looked ex_key; Confirmed ex_key (p_msg ex_pm)]).
Proof. vm_compute. reflexivity. Qed.

(* ================================================================ the hypotheses are satisfiable: concrete instances *)
Definition exc : cfg := mkCfg true 1 4.
Definition exk2 : key := mkKey 2 2 1 2.
Definition exs : pending := [(ex_key, ex_pm); (exk2, mkP (mkMsg 2 1600000014 15 2 4 3 1 2 200) 1003)].
Definition ex_err : key -> rans := fun _ => mkAns None EOther.
Definition ex_ok : key -> rans := fun k => mkAns (Some (1, k_bh k)) ENone.
Definition ex_pre : list op := [OHead 990 false ex_ok; OLog (mkEv 7 7 1000 1 7 1 50 1 7) (Some 1600000049); OHead 1001 false ex_err;
                                OReobs (Some 1001) (Some 1001) None None; OHead (1000 + evm_max_wait) false ex_err].
Definition ex_post : list op := [OHead (1006 + evm_max_wait) false ex_ok; OHead (1300 + evm_max_wait) false ex_err].
Definition ex_n : Z := 1005 + evm_max_wait.   (* far beyond the depth 1001, and past the window *)

Lemma ex_nodup : NoDup (keys exs).
Proof.
  cbn [exs keys map fst]. constructor; [|constructor; [|constructor]].
  - intros [H|H]; [discriminate H|contradiction].
  - intros H; contradiction.
Qed.
Lemma ex_wf : wf_p ex_pm.
Proof. unfold wf_p, ex_pm, two64, evm_max_wait. cbn [p_height p_msg m_cl]. lia. Qed.
Lemma ex_norelog_pre : no_relog ex_key ex_pre.
Proof.
  intros o H. cbn [ex_pre In] in H.
  repeat (destruct H as [H|H]; [subst o; reflexivity|]). contradiction.
Qed.
Lemma ex_norelog_post : no_relog ex_key ex_post.
Proof.
  intros o H. cbn [ex_post In] in H.
  repeat (destruct H as [H|H]; [subst o; reflexivity|]). contradiction.
Qed.
Lemma ex_early : early_heads exc ex_key ex_pm ex_pre.
Proof.
  intros n safe orc H. cbn [ex_pre In] in H.
  destruct H as [H|[H|[H|[H|[H|H]]]]]; try discriminate H; try contradiction; inversion H; subst.
  - split; [unfold two64; lia|]. left. cbn. lia.
  - split; [unfold two64; lia|]. right. split; [unfold evm_max_wait; cbn; lia|reflexivity].
  - split; [unfold two64, evm_max_wait; lia|]. right. split; [unfold evm_max_wait; cbn; lia|reflexivity].
Qed.
Lemma ex_n_range : 0 <= ex_n < two64.
Proof. unfold ex_n, two64, evm_max_wait. lia. Qed.
Lemma ex_n_deep : p_height ex_pm + expected_of (c_wait exc) false ex_pm <= ex_n.
Proof. unfold ex_n, evm_max_wait. cbn. lia. Qed.

(* log at block 1000 (level 1): heads 990 (shallow), 1001 and 1000 + maxWait (lookup fails transiently), then
   1005 + maxWait - far past the depth and even past the window - with the receipt unchanged: forwarded there, exactly
   once, in a state that holds another entry *)
Example C10_example_forwarded_exactly_once :
  let r := run exc exs (ex_pre ++ OHead ex_n false ex_ok :: ex_post) in
  decisions ex_key (snd r) = [Confirmed ex_key (p_msg ex_pm)] /\
  In (Confirmed ex_key (p_msg ex_pm)) (nth (length ex_pre) (snd r) []) /\
  find ex_key (fst r) = None.
Proof.
  apply (C10_forwarded_exactly_once exc exs ex_key ex_pm ex_pre ex_n false ex_ok ex_post).
  - exact ex_nodup.
  - reflexivity.
  - exact ex_wf.
  - exact ex_norelog_pre.
  - exact ex_norelog_post.
  - exact ex_early.
  - exact ex_n_range.
  - exact ex_n_deep.
  - reflexivity.
Qed.

(* the same history ending in an orphaned / failed / re-mined transaction *)
Example C10_example_dropped :
  decisions ex_key (snd (run exc exs (ex_pre ++ OHead ex_n false (fun _ => mkAns None ENotFound) :: ex_post))) = [Dropped ex_key WOrphan] /\
  decisions ex_key (snd (run exc exs (ex_pre ++ OHead ex_n false (fun _ => mkAns (Some (0, 1)) ENone) :: ex_post))) = [Dropped ex_key WFailed] /\
  decisions ex_key (snd (run exc exs (ex_pre ++ OHead ex_n false (fun _ => mkAns (Some (1, 77)) ENone) :: ex_post))) = [Dropped ex_key WRemined].
Proof.
  pose proof ex_n_range as Hn. pose proof ex_n_deep as Hd.
  repeat apply conj.
  - destruct (C10_dropped exc exs ex_key ex_pm ex_pre ex_n false (fun _ => mkAns None ENotFound) ex_post
                ex_nodup eq_refl ex_wf ex_norelog_pre ex_norelog_post ex_early Hn Hd) as [A _].
    apply A. split; reflexivity.
  - destruct (C10_dropped exc exs ex_key ex_pm ex_pre ex_n false (fun _ => mkAns (Some (0, 1)) ENone) ex_post
                ex_nodup eq_refl ex_wf ex_norelog_pre ex_norelog_post ex_early Hn Hd) as [_ [A _]].
    apply (A 0 1); [reflexivity|lia].
  - destruct (C10_dropped exc exs ex_key ex_pm ex_pre ex_n false (fun _ => mkAns (Some (1, 77)) ENone) ex_post
                ex_nodup eq_refl ex_wf ex_norelog_pre ex_norelog_post ex_early Hn Hd) as [_ [_ A]].
    apply (A 77); [reflexivity|cbn; lia].
Qed.

(* abandonment: the lookups at 1001, 1000 + maxWait and 1001 + maxWait (the end of the window) all fail transiently *)
Example C10_example_abandoned :
  In (Dropped ex_key WTimeout) (nth (length ex_pre) (snd (run exc exs (ex_pre ++ OHead (1001 + evm_max_wait) false ex_err :: ex_post))) []) /\
  (is_transient (a_err (ex_err ex_key)) = true /\ p_height ex_pm + expected_of (c_wait exc) false ex_pm + evm_max_wait <= 1001 + evm_max_wait).
Proof.
  assert (H : In (Dropped ex_key WTimeout) (nth (length ex_pre) (snd (run exc exs (ex_pre ++ OHead (1001 + evm_max_wait) false ex_err :: ex_post))) [])).
  { vm_compute. repeat ((left; reflexivity) || right). }
  split; [exact H|].
  destruct (C10_abandoned_only_after_window exc exs ex_key ex_pm ex_pre (1001 + evm_max_wait) false ex_err ex_post
              ex_nodup eq_refl ex_wf ex_norelog_pre) as [A [B _]].
  - intros n' safe' orc' Hin. destruct (ex_early n' safe' orc' Hin) as [R _]. exact R.
  - unfold two64, evm_max_wait. lia.
  - exact H.
  - split; assumption.
Qed.

(* a history from the empty watcher: two logs, one forwarded at head 1002 in wait mode (level 2) *)
Definition ex_hist : list op := [OLog (mkEv 1 1 1000 1 1 2 8 2 1) (Some 1600000007); OHead 1001 false ex_ok; OLog (mkEv 2 2 1001 1 2 200 15 3 2) (Some 1600000014)].
Example C10_example_scan_safe :
  In (Confirmed (mkKey 1 1 1 1) (mkMsg 1 1600000007 8 1 4 2 1 1 2)) (snd (step exc (fst (run exc init ex_hist)) (OHead 1002 false ex_ok))) /\
  exists e tm, In (OLog e (Some tm)) ex_hist /\ key_of e = mkKey 1 1 1 1 /\ e_h e + evm_expected (c_wait exc) false (e_cl e) <= 1002.
Proof.
  assert (H : In (Confirmed (mkKey 1 1 1 1) (mkMsg 1 1600000007 8 1 4 2 1 1 2)) (snd (step exc (fst (run exc init ex_hist)) (OHead 1002 false ex_ok)))).
  { vm_compute. repeat ((left; reflexivity) || right). }
  split; [exact H|].
  assert (Hwf : forall e tm, In (OLog e (Some tm)) ex_hist -> wf_ev e).
  { intros e tm Hin. cbn [ex_hist In] in Hin.
    destruct Hin as [Hin|[Hin|[Hin|Hin]]]; try discriminate Hin; try contradiction;
      inversion Hin; subst; unfold wf_ev, two64, evm_max_wait; cbn; lia. }
  assert (Hn : 0 <= 1002 < two64) by (unfold two64; lia).
  destruct (C10_scan_forward_safe exc ex_hist 1002 false ex_ok _ _ Hwf Hn H) as [e [tm [A [B [_ [D _]]]]]].
  exists e, tm. repeat apply conj; assumption.
Qed.

(* re-observation: receipt in block 1000 with a foreign-contract log, a core-contract log under another topic and the real
   one (level 2): forwarded with head 1002 read before the receipt, not with head 1001 (even though the chain has advanced since) *)
Definition ex_rcpt : rcpt :=
  mkRcpt 1 (Some 1000) [Some (mkRLog 2 (Some evm_lmp_topic) (Some (mkEv 1 1 1000 1 5 0 1 1 50)));
                        Some (mkRLog 1 (Some 17) None); None;
                        Some (mkRLog 1 (Some evm_lmp_topic) (Some (mkEv 1 1 1000 1 1 2 8 2 1)))].
Example C10_example_reobserve :
  reobserve exc (Some 1002) (Some 1002) (Some ex_rcpt) (Some 1600000007) = [Reobserved (mkMsg 1 1600000007 8 1 4 2 1 1 2)] /\
  reobserve exc (Some 1001) (Some 1300) (Some ex_rcpt) (Some 1600000007) = [] /\
  reobserve exc (Some 1002) (Some 1002) (Some (mkRcpt 0 (Some 1000) (r_logs ex_rcpt))) (Some 1600000007) = [].
Proof. vm_compute. repeat apply conj; reflexivity. Qed.

(* the poller: errors, a stale answer, a jump of 64 blocks, the same block again *)
Example C10_example_poller :
  poll_seq 990 [None; Some 989; Some 991; Some 1065; Some 1065; None; Some 1066] = (1066, [(991, false); (1065, false); (1066, false)]) /\
  poll_tick true 990 [None; None; Some 1065] = (1065, [(1065, false)], false) /\
  poll_tick true 990 [None; None; None; Some 1065] = (990, [], true) /\
  poll_tick false 990 [Some 1065] = (990, [], false).
Proof. vm_compute. repeat apply conj; reflexivity. Qed.

(* end to end: the witness of the repaired defect - lastBlock 990, the next successful poll answers 1065 *)
Example C10_example_end_to_end :
  let r := run exc exs (heads_ops ex_ok (snd (poll_seq 990 [None; Some 990; Some 1065; Some 1066]))) in
  decisions ex_key (snd r) = [Confirmed ex_key (p_msg ex_pm)] /\ find ex_key (fst r) = None.
Proof.
  apply (C10_end_to_end exc exs ex_key ex_pm ex_ok 990 [None; Some 990; Some 1065; Some 1066]).
  - exact ex_nodup.
  - reflexivity.
  - exact ex_wf.
  - reflexivity.
  - lia.
  - intros a H. cbn [In] in H. unfold two64.
    destruct H as [H|[H|[H|[H|H]]]]; try discriminate H; try contradiction; inversion H; lia.
  - exists 1065. repeat apply conj; [right; right; left; reflexivity|lia|cbn; lia].
Qed.

(* ================================================================ EXTENSION X4: C10 across restarts of Watcher.Run ================================
   Model: model/EvmGuardianSet.v.  The Watcher value outlives Run: the supervisor re-enters `w.Run` on the same value after every
   errC (failed guardian-set fetch, failed block-time lookup of a log, three failed polls, subscription error).  What survives:
   w.pending and w.currentGuardianSet.  What is re-created: w.ethConn = a NEW BlockPollConnector whose poller starts OFF, is
   switched on at once when messages are still pending (repo commit b274c5a; before it: only by the next log), and whose lastBlock
   is the node's head at that moment.  Operations: GFetch (ticker
   fetch of the guardian set), GRestart (Run re-entered; its initial fetch), GEvm (log / head / re-observation as above), GPoll
   (one poller tick: the heads it publishes are scanned).  [gtrace] = the EVM-watcher operations a history executes. *)
From WH Require Import gen.ExtractedEvmGs model.EvmGuardianSet proofs.EvmGuardianSetProofs.

(* SAFETY survives any number of restarts, fetches and poller ticks: forwarded => a delivered log with that key, depth reached at
   the scanned head (uint64 arithmetic of the source, no range hypothesis), receipt of THAT scan error-free / status 1 / same block *)
Theorem C10_restart_forward_safe : forall (K : Type) c (ops : list (gop K)) k m,
  In (WEvm (Confirmed k m)) (concat (snd (grun c winit ops))) ->
  exists e tm n safe orc,
    In (GEvm (OLog e (Some tm))) ops /\ key_of e = k /\ m = msg_of (g_evm c) e tm /\
    In (OHead n safe orc) (gtrace c winit ops) /\
    thr_of (c_wait (g_evm c)) safe (pm_of (g_evm c) e tm) <= u64 n /\
    orc k = mkAns (Some (1, e_bh e)) ENone.
Proof. intros K. exact restart_forward_safe. Qed.

Theorem C10_restart_forward_safe_math : forall (K : Type) c (ops : list (gop K)) k m,
  (forall e tm, In (GEvm (OLog e (Some tm))) ops -> wf_ev e) ->
  (forall n safe orc, In (OHead n safe orc) (gtrace c winit ops) -> 0 <= n < two64) ->
  In (WEvm (Confirmed k m)) (concat (snd (grun c winit ops))) ->
  exists e tm n safe orc,
    In (GEvm (OLog e (Some tm))) ops /\ key_of e = k /\ m = msg_of (g_evm c) e tm /\
    In (OHead n safe orc) (gtrace c winit ops) /\
    e_h e + evm_expected (c_wait (g_evm c)) safe (e_cl e) <= n /\
    orc k = mkAns (Some (1, e_bh e)) ENone.
Proof. intros K. exact restart_forward_safe_math. Qed.

Theorem C10_restart_at_most_once : forall (K : Type) c (ops : list (gop K)) s k,
  NoDup (keys (w_pending s)) -> no_relog k (gtrace c s ops) ->
  (length (filter (confirmedb k) (evm_outs (snd (grun c s ops)))) <= 1)%nat.
Proof. intros K. exact restart_at_most_once. Qed.

Theorem C10_restart_pending_keys_distinct : forall (K : Type) c (ops : list (gop K)), NoDup (keys (w_pending (fst (grun c winit ops)))).
Proof. intros K. exact restart_pending_keys_distinct. Qed.

(* the executed operations change w.pending exactly as in the restart-free model: every theorem above about `run` applies to
   `gtrace` *)
Theorem C10_restart_refines_watcher : forall (K : Type) c (ops : list (gop K)) s,
  w_pending (fst (grun c s ops)) = fst (run (g_evm c) (w_pending s) (gtrace c s ops)) /\
  evm_outs (snd (grun c s ops)) = filter not_died (concat (snd (run (g_evm c) (w_pending s) (gtrace c s ops)))).
Proof. intros K. exact grun_evm. Qed.

(* LIVENESS after a restart.  Before repo commit b274c5a the new poller stayed off although w.pending still held the entries of the
   previous Run (witness below); the repaired Run switches it on at once (`if len(w.pending) > 0 { EnablePoller() }`, whose presence
   the extractor reads from the source).  (1) In EVERY reachable state - any number of restarts, failing fetches, logs, heads,
   re-observations, poller ticks - messages pending imply that the block poller is switched on *)
Theorem C10_poller_on_while_pending : forall (K : Type) c (ops : list (gop K)),
  w_pending (fst (grun c winit ops)) <> [] -> w_enabled (fst (grun c winit ops)) = true.
Proof. intros K c ops. exact (poller_on_while_pending c ops winit winit_inv). Qed.

(* (1') hence, after ANY such history and with no further log: a pending message is forwarded by the first poller tick that publishes
   a head at or beyond its depth, if its receipt is unchanged - however far the chain has advanced while Run was down *)
Theorem C10_restart_liveness : forall (K : Type) c (pre : list (gop K)) k p answers orc n sf last' err,
  let s := fst (grun c winit pre) in
  find k (w_pending s) = Some p -> wf_p p ->
  poll_tick true (w_last s) answers = (last', [(n, sf)], err) ->
  0 <= n < two64 -> p_height p + expected_of (c_wait (g_evm c)) sf p <= n ->
  orc k = mkAns (Some (1, k_bh k)) ENone ->
  In (WEvm (Confirmed k (p_msg p))) (snd (@gstep K c s (GPoll answers orc))) /\
  find k (w_pending (fst (@gstep K c s (GPoll answers orc)))) = None.
Proof. intros K. exact restart_liveness. Qed.

(* REFUTED for the shape of Run before repo commit b274c5a (gstep_gen false = the same machine without the guard): a restart leaves
   the poller off whatever is pending, and poller ticks - however many, whatever the node answers - process no head, emit nothing and
   leave w.pending as it is (findings/C10_restart_pending_stalled.json) *)
Theorem C10_restart_without_guard_stalls_refuted : forall (K : Type) c s (a : gans K) h0 (polls : list (list (option Z) * (key -> rans))),
  let s1 := fst (gstep_gen false c s (GRestart a h0)) in
  w_enabled s1 = false /\
  w_pending (fst (grun_gen false c s1 (map (fun p => @GPoll K (fst p) (snd p)) polls))) = w_pending s /\
  Forall (fun l => l = []) (snd (grun_gen false c s1 (map (fun p => @GPoll K (fst p) (snd p)) polls))).
Proof. intros K. exact unrepaired_restart_stalls. Qed.

(* (2) the one-step form for an arbitrary state: a delivered log switches the poller on, and the first tick that then publishes a head at
   or beyond the depth of a pending entry forwards it if its receipt is unchanged *)
Theorem C10_restart_resumes_after_next_log : forall (K : Type) c s e tm k p answers orc n sf last' err,
  let s1 := fst (@gstep K c s (GEvm (OLog e (Some tm)))) in
  NoDup (keys (w_pending s)) -> find k (w_pending s1) = Some p -> wf_p p ->
  poll_tick true (w_last s1) answers = (last', [(n, sf)], err) ->
  0 <= n < two64 -> p_height p + expected_of (c_wait (g_evm c)) sf p <= n ->
  orc k = mkAns (Some (1, k_bh k)) ENone ->
  In (WEvm (Confirmed k (p_msg p))) (snd (@gstep K c s1 (GPoll answers orc))) /\
  find k (w_pending (fst (@gstep K c s1 (GPoll answers orc)))) = None.
Proof.
  intros K c s e tm k p answers orc n sf last' err s1 Hnd Hf Hp Hpt Hn Hd Hg.
  apply (restart_resumes_after_next_log c s1 k p answers orc n sf last' err); try assumption.
  - reflexivity.
  - subst s1. cbn [gstep evm_step step fst w_pending]. apply nodup_insert. exact Hnd.
Qed.

(* (3) a log whose block-time lookup fails makes Run return before anything is recorded: the message is never forwarded unless the
   node announces the log again - although its transaction stays in its block and no receipt lookup ever failed *)
Theorem C10_log_lost_when_block_time_lookup_fails : forall (K : Type) c s e (ops : list (gop K)),
  NoDup (keys (w_pending s)) -> find (key_of e) (w_pending s) = None -> no_relog (key_of e) (gtrace c s ops) ->
  @gstep K c s (GEvm (OLog e None)) = (s, [WDied]) /\
  forall x, In x (evm_outs (snd (grun c s (GEvm (OLog e None) :: ops)))) -> aboutb (key_of e) x = false.
Proof. intros K. exact log_lost_when_block_time_lookup_fails. Qed.

(* ---------------------------------------------------------------- concrete history (keys are integers here) *)
Definition exg : gcfg := mkGCfg exc true.
Definition ex_ans (i : Z) (ks : list Z) : gans Z := mkGAns (Some i) (fun j => if j =? i then Some ks else Some []).
Definition ex_evA : ev := mkEv 1 1 1000 1 1 2 8 2 1.          (* log A, block 1000, level 2 *)
Definition ex_evB : ev := mkEv 2 2 1001 1 2 1 9 2 2.          (* log B: its block-time lookup fails *)
Definition ex_evC : ev := mkEv 3 3 1100 1 3 1 9 2 3.          (* log C, after the restart *)
(* start; log A; upgrade seen by the next tick; log B kills Run; restart (no new set: index unchanged) - A is still pending, so the new
   poller is on: the first tick (head 1150, the chain ran on while Run was down) forwards A; nothing pending: later ticks do nothing;
   log C; one more tick forwards C; B never *)
Definition ex_ghist : list (gop Z) :=
  [GRestart (ex_ans 0 [11; 12]) 990; GEvm (OLog ex_evA (Some 1600000007)); GFetch (ex_ans 1 [11; 12; 13]);
   GEvm (OLog ex_evB None);
   GRestart (ex_ans 1 [11; 12; 13]) 1050; GPoll [Some 1150] ex_ok; GFetch (ex_ans 1 [11; 12; 13]); GPoll [Some 1160] ex_ok;
   GEvm (OLog ex_evC (Some 1600000021)); GPoll [Some 1200] ex_ok].

Example C10_example_restart :
  let r := grun exg winit ex_ghist in
  sent (snd r) = [([11; 12], 0); ([11; 12; 13], 1)] /\
  nth 3 (snd r) [] = [WDied] /\
  w_pending (fst (grun exg winit (firstn 5 ex_ghist))) = [(key_of ex_evA, pm_of exc ex_evA 1600000007)] /\
  w_enabled (fst (grun exg winit (firstn 5 ex_ghist))) = true /\
  flat_map (@evm_of Z) (nth 5 (snd r) []) = [Looked (key_of ex_evA); Confirmed (key_of ex_evA) (msg_of exc ex_evA 1600000007)] /\
  flat_map (@evm_of Z) (nth 7 (snd r) []) = [] /\
  flat_map (@evm_of Z) (last (snd r) []) = [Looked (key_of ex_evC); Confirmed (key_of ex_evC) (msg_of exc ex_evC 1600000021)] /\
  w_pending (fst r) = [] /\
  (forall x, In x (evm_outs (snd r)) -> aboutb (key_of ex_evB) x = false).
Proof.
  cbv zeta. repeat apply conj; try (vm_compute; reflexivity).
  intros x H. vm_compute in H. repeat (destruct H as [H|H]; [subst x; reflexivity|]). contradiction.
Qed.

(* the same history on the shape of Run before repo commit b274c5a: after the restart the poller is off, the ticks at heads 1150 and
   1160 process nothing although A has been confirmable since head 1002, and A is forwarded only by the tick that follows log C *)
Example C10_example_restart_without_guard_refuted :
  let r := grun_gen false exg winit ex_ghist in
  w_pending (fst (grun_gen false exg winit (firstn 8 ex_ghist))) = [(key_of ex_evA, pm_of exc ex_evA 1600000007)] /\
  w_enabled (fst (grun_gen false exg winit (firstn 8 ex_ghist))) = false /\
  evm_outs (snd (grun_gen false exg winit (firstn 8 ex_ghist))) = [] /\
  (forall k m, In (WEvm (Confirmed k m)) (last (snd r) []) <-> (k = key_of ex_evA /\ m = msg_of exc ex_evA 1600000007) \/ (k = key_of ex_evC /\ m = msg_of exc ex_evC 1600000021)).
Proof.
  cbv zeta. repeat apply conj; try (vm_compute; reflexivity).
  intros k m. vm_compute. split.
  - intros H. repeat (destruct H as [H|H]; [try discriminate H; inversion H; subst; (left; split; reflexivity) || (right; split; reflexivity)|]). contradiction.
  - intros [[H1 H2]|[H1 H2]]; subst; [right; right; right; left; reflexivity|right; left; reflexivity].
Qed.

(* the hypotheses of the liveness theorem and of the lost-log theorem hold in that history *)
Example C10_example_restart_hypotheses :
  find (key_of ex_evA) (w_pending (fst (grun exg winit (firstn 5 ex_ghist)))) = Some (pm_of exc ex_evA 1600000007) /\
  poll_tick true (w_last (fst (grun exg winit (firstn 5 ex_ghist)))) [Some 1150] = (1150, [(1150, false)], false) /\
  no_relog (key_of ex_evB) (gtrace exg (fst (grun exg winit (firstn 3 ex_ghist))) (skipn 4 ex_ghist)).
Proof.
  repeat apply conj; try (vm_compute; reflexivity).
  intros o H. vm_compute in H. repeat (destruct H as [H|H]; [subst o; reflexivity|]). contradiction.
Qed.

(* ================================================================ EXTENSION X8: from the raw log to the message handed to the signer ================
   Model: model/EvmLog.v.  A raw log (address, topics, data, block hash / number, tx hash) is decoded as go-ethereum's UnpackLog
   decodes it for the LogMessagePublished entry of abi.go's ABI (word reads at i*32, the dynamic `bytes` through offset and length
   with the library's bounds checks in their order; this library version reads an integer from the LOW bytes of its word and does not
   look at the padding), turned into the MessagePublication literal of the source - generated field by field for the subscription
   path and for MessageEventsForTransaction - and the watcher of model/EvmWatcher.v is re-run over entries that carry their content.
   `sol_emit` = the log Implementation.sol's publishMessage emits (declaration and emit arguments read from the Solidity source). *)
From Coq Require Import Strings.Byte.
From WH Require Import lib.Bytes lib.EvmAbi lib.Keccak gen.ExtractedEvmLog model.EvmLog proofs.EvmLogProofs.

(* the event id abigen compares Topics[0] with = Keccak-256 of the signature built from the ABI JSON = the topic constant of
   by_transaction.go = the id of the event the contract declares *)
Theorem C10_event_id_is_the_topic_constant :
  evm_abi_lmp_id = keccak256 evm_abi_lmp_sig /\ unbe evm_abi_lmp_id = evm_lmp_topic /\ sol_lmp_id = evm_abi_lmp_id /\
  sol_lmp_decl = evm_abi_lmp /\ sol_lmp_emit_args = map (fun x : ainput => fst (fst x)) sol_lmp_decl.
Proof. exact (conj lmp_id_is_keccak (conj lmp_id_is_topic (conj sol_id_is_abi_id (conj sol_decl_is_abi sol_emit_args_match)))). Qed.

(* what UnpackLog returns for ANY raw log (any topics, any data bytes), in closed form: panic on an empty topic list; signature error;
   empty data = all fields zero; fewer than 128 / 160 bytes, offset + 32 or offset + 32 + length beyond the data = error; topic count
   other than 2 = error; otherwise the fields are the low 2 / 8 / 4 / 1 bytes of words 0 / 1 / 2 / 4, the payload is
   data[offset+32 : offset+32+length] and the sender the last 20 bytes of topic 1 - padding bytes, the position of the tail and
   trailing bytes do not matter *)
Theorem C10_unpack_log_closed_form : forall r, decode_log r = decode_closed r.
Proof. exact decode_log_closed_form. Qed.

Theorem C10_malformed_data_yields_no_event :
  (forall r, (0 < length (rl_data r))%nat -> blen (rl_data r) < 160 -> forall e, decode_log r <> DOk e) /\
  (forall r, (0 < length (rl_data r))%nat -> unbe (sub (rl_data r) 96 32) + 32 > blen (rl_data r) -> forall e, decode_log r <> DOk e) /\
  (forall r, (0 < length (rl_data r))%nat ->
     let off := unbe (sub (rl_data r) 96 32) in off + 32 + unbe (sub (rl_data r) off 32) > blen (rl_data r) -> forall e, decode_log r <> DOk e) /\
  (forall r, length (rl_topics r) <> 2%nat -> forall e, decode_log r <> DOk e) /\
  (forall r t0 ts, rl_topics r = t0 :: ts -> t0 <> evm_abi_lmp_id -> decode_log r = DErr DSig) /\
  (forall r, decode_log r = DPanic <-> rl_topics r = []).
Proof.
  exact (conj decode_short_data (conj decode_offset_out_of_range (conj decode_length_out_of_range
        (conj decode_wrong_topic_count (conj decode_other_signature decode_panic_iff))))).
Qed.

(* decode (encode x) = x for what the contract emits: every sender, every value in the range of its Solidity type, every payload *)
Theorem C10_decode_of_emitted_log : forall contract a bh num tx, in_range a -> decode_log (sol_emit contract a bh num tx) = DOk a.
Proof. exact decode_sol_emit. Qed.

(* ... and the message and pending key such a log stands for: the sender left-padded to 32 bytes, sequence, nonce, target chain,
   consistency level, the payload byte for byte, the block time in whole seconds, the watcher's chain id, the transaction hash *)
Theorem C10_emitted_log_message_fields : forall chain contract a bh num tx bt, in_range a -> 0 <= bt < two63 ->
  decode_log (sol_emit contract a bh num tx) = DOk a /\
  message_of_log chain (sol_emit contract a bh num tx) bt a =
    mkXMsg tx bt (x_nonce a) (x_seq a) chain (x_target a) (repeat x00 12 ++ x_sender a) (x_payload a) (x_cl a) /\
  key_of_raw (sol_emit contract a bh num tx) a = mkXKey tx bh (repeat x00 12 ++ x_sender a) (x_seq a).
Proof. exact emitted_message_fields. Qed.

(* REFINEMENT: the abstraction (byte strings -> the identifiers of model/EvmWatcher.v, injective) commutes with every step, so every
   theorem above about `run` (safety, exactly once, drops, abandonment, key independence) holds for the watcher over raw logs *)
Theorem C10_log_refines_watcher : forall c ops s,
  abs_state (fst (xrun c s ops)) = fst (run (abs_cfg c) (abs_state s) (map (abs_op c) ops)) /\
  map (map abs_out) (snd (xrun c s ops)) = snd (run (abs_cfg c) (abs_state s) (map (abs_op c) ops)).
Proof. exact xrun_refines. Qed.

Theorem C10_abstraction_injective :
  (forall a b, abs_key a = abs_key b -> a = b) /\ (forall a b, abs_msg a = abs_msg b -> a = b).
Proof. exact (conj abs_key_inj abs_msg_inj). Qed.

(* END TO END, subscription path, every history of raw logs / heads / re-observations from the empty watcher: a message that leaves
   the per-head scan carries exactly the fields of ONE delivered log that unpacked - tx hash, int64(block time) of that delivery,
   nonce, sequence, the watcher's chain id, target chain, the padded sender, the payload as sliced out of the data, consistency level -
   under the key (tx, block hash, padded sender, sequence) of that log, and is justified in that very step (depth reached in the
   source's uint64 arithmetic, receipt error-free with status 1 and the block hash of the log) *)
Theorem C10_forwarded_message_is_log_content : forall c hist n safe orc k m,
  In (XConfirmed k m) (snd (xstep c (fst (xrun c [] hist)) (XHead n safe orc))) ->
  exists r t e,
    In (XLog r (Some t)) hist /\ decode_log r = DOk e /\
    m = message_of_log (xc_chain c) r t e /\ k = key_of_raw r e /\
    u64 (rl_num r + evm_expected (xc_wait c) safe (x_cl e)) <= u64 n /\
    orc (abs_key k) = mkAns (Some (1, enc (rl_bh r))) ENone.
Proof. exact forwarded_is_log_content. Qed.

(* the pending key is a function of the log alone *)
Theorem C10_pending_key_is_a_function_of_the_log : forall c r t e, xkey_of_log c r t e = key_of_raw r e.
Proof. exact pending_key_of_log. Qed.

(* END TO END, re-observation path: a re-observed message carries exactly the fields of ONE log of the receipt with address = the
   configured contract, topics = [event id; sender] that unpacked, out of a status-1 receipt, with the block time of the receipt's
   block, deep enough w.r.t. the head read before the receipt *)
Theorem C10_reobserved_message_is_log_content : forall c hb ha rc bt m,
  In (XReobserved m) (xreobserve c hb ha rc bt) ->
  exists hd r t blk l e,
    hb = Some hd /\ rc = Some r /\ xr_status r = 1 /\ bt = Some t /\ xr_blk r = Some blk /\
    In (Some l) (xr_logs r) /\ rl_addr l = xc_contract c /\ (exists t1, rl_topics l = [evm_abi_lmp_id; t1]) /\ decode_log l = DOk e /\
    m = message_of_log (xc_chain c) l t e /\
    u64 hd <> 0 /\ u64 (u64 blk + (if xc_wait c then x_cl e else 0)) <= u64 hd.
Proof. exact reobserved_is_log_content. Qed.

(* MALFORMED logs.  Subscription path: abigen's goroutine returns the error, the subscription ends, Run returns (XDied; the supervisor
   re-enters it) - nothing is forwarded and w.pending is exactly what it was; a log without topics panics there (Topics[0]) *)
Theorem C10_malformed_log_ends_run_and_leaves_pending_untouched : forall c s r bt x,
  decode_log r = DErr x -> xstep c s (XLog r bt) = (s, [XDied]).
Proof. exact malformed_log_on_subscription. Qed.
Theorem C10_topicless_log_panics : forall c s r bt, rl_topics r = [] -> xstep c s (XLog r bt) = (s, [XPanic]).
Proof. exact topicless_log_on_subscription. Qed.
(* re-observation path: one core-contract LogMessagePublished log in the receipt that does not unpack, and the request forwards
   nothing at all (MessageEventsForTransaction returns "failed to parse log") *)
Theorem C10_malformed_log_in_receipt_forwards_nothing : forall c hb ha r bt l x,
  In (Some l) (xr_logs r) -> rl_addr l = xc_contract c -> (exists ts, rl_topics l = evm_abi_lmp_id :: ts) -> decode_log l = DErr x ->
  forall m, ~ In (XReobserved m) (xreobserve c hb ha (Some r) bt).
Proof. exact malformed_log_in_receipt. Qed.

(* ---------------------------------------------------------------- concrete instances (boundary values) *)
Definition ex8_contract : bytes := be 20 14651161671794117674551848346179720820815891478.
Definition ex8_id : bytes := evm_abi_lmp_id.
(* sender with leading zero bytes, target chain 65535, sequence 2^64-1, nonce 2^32-1, level 255, payload of 33 bytes *)
Definition ex8_ev : xev := mkXev (be 20 4660) 65535 18446744073709551615 4294967295 (repeat xab 33) 255.
Definition ex8_tx : bytes := be 32 777.
Definition ex8_bh : bytes := be 32 888.
Definition ex8_log : rawlog := sol_emit ex8_contract ex8_ev ex8_bh 1000 ex8_tx.
Definition ex8_cfg : xcfg := mkXCfg true ex8_contract 4.
Lemma ex8_in_range : in_range ex8_ev.
Proof. unfold in_range, ex8_ev, two63, blen. cbn [x_sender x_target x_seq x_nonce x_cl x_payload]. rewrite be_length, repeat_length. cbn. lia. Qed.

Example C10_example_emitted_log_roundtrip :
  decode_log ex8_log = DOk ex8_ev /\ length (rl_data ex8_log) = 256%nat /\
  message_of_log 4 ex8_log 1600000007 ex8_ev =
    mkXMsg ex8_tx 1600000007 4294967295 18446744073709551615 4 65535 (repeat x00 12 ++ be 20 4660) (repeat xab 33) 255.
Proof.
  destruct (C10_emitted_log_message_fields 4 ex8_contract ex8_ev ex8_bh 1000 ex8_tx 1600000007 ex8_in_range) as [A [B _]];
    [unfold two63; lia|].
  repeat apply conj; [exact A|vm_compute; reflexivity|exact B].
Qed.

(* the same log with non-zero bytes in the padding of the uint16 / uint64 / uint32 / uint8 words and 7 trailing bytes decodes to the
   same event; cut one byte short of its payload, or with an offset word pointing past the data, it yields an error *)
Definition ex8_dirty (d : bytes) : bytes :=
  repeat xff 30 ++ firstn 2 (skipn 30 d) ++ repeat xee 24 ++ firstn 8 (skipn 56 d) ++ repeat xdd 28 ++ firstn 4 (skipn 92 d) ++
  firstn 32 (skipn 96 d) ++ repeat xcc 31 ++ skipn 159 d ++ repeat x77 7.
Definition ex8_with_data (d : bytes) : rawlog := mkRaw ex8_contract (rl_topics ex8_log) d ex8_bh 1000 ex8_tx.
Example C10_example_padding_and_malformed :
  decode_log (ex8_with_data (ex8_dirty (rl_data ex8_log))) = DOk ex8_ev /\
  decode_log (ex8_with_data (firstn 224 (rl_data ex8_log))) = DErr DLength /\
  decode_log (ex8_with_data (firstn 100 (rl_data ex8_log))) = DErr DShort /\
  decode_log (ex8_with_data (firstn 159 (rl_data ex8_log))) = DErr DOffset /\
  decode_log (ex8_with_data (firstn 96 (rl_data ex8_log) ++ be 32 225 ++ skipn 128 (rl_data ex8_log))) = DErr DOffset /\
  decode_log (ex8_with_data []) = DOk (mkXev (be 20 4660) 0 0 0 [] 0) /\
  decode_log (mkRaw ex8_contract [] (rl_data ex8_log) ex8_bh 1000 ex8_tx) = DPanic /\
  decode_log (mkRaw ex8_contract [ex8_id] (rl_data ex8_log) ex8_bh 1000 ex8_tx) = DErr DTopics.
Proof. vm_compute. repeat apply conj; reflexivity. Qed.

(* a history: the log above, another emitter's log, a log that does not unpack (Run returns, both entries stay), a head below the depth,
   the head 1255 = block 1000 + level 255: the first message leaves with exactly the emitted fields *)
Definition ex8_ev2 : xev := mkXev (be 20 99) 2 0 0 [] 1.
Definition ex8_log2 : rawlog := sol_emit ex8_contract ex8_ev2 (be 32 889) 1001 (be 32 778).
Definition ex8_ok : key -> rans := fun k => mkAns (Some (1, k_bh k)) ENone.
Definition ex8_hist : list xop :=
  [XLog ex8_log (Some 1600000007); XLog ex8_log2 (Some 1600000014); XLog (ex8_with_data (firstn 224 (rl_data ex8_log))) (Some 1600000007);
   XHead 1254 false ex8_ok].
Example C10_example_raw_history :
  let r := xrun ex8_cfg [] ex8_hist in
  nth 2 (snd r) [] = [XDied] /\
  map fst (fst (xrun ex8_cfg [] (firstn 2 ex8_hist))) = map fst (fst (xrun ex8_cfg [] (firstn 3 ex8_hist))) /\
  In (XConfirmed (key_of_raw ex8_log2 ex8_ev2) (message_of_log 4 ex8_log2 1600000014 ex8_ev2)) (nth 3 (snd r) []) /\
  In (XConfirmed (mkXKey ex8_tx ex8_bh (repeat x00 12 ++ be 20 4660) 18446744073709551615)
                 (mkXMsg ex8_tx 1600000007 4294967295 18446744073709551615 4 65535 (repeat x00 12 ++ be 20 4660) (repeat xab 33) 255))
     (snd (xstep ex8_cfg (fst r) (XHead 1255 false ex8_ok))).
Proof.
  cbv zeta. split; [vm_compute; reflexivity|]. split; [vm_compute; reflexivity|]. split.
  - vm_compute. repeat ((left; reflexivity) || right).
  - vm_compute. repeat ((left; reflexivity) || right).
Qed.
(* the hypothesis of the end-to-end theorem holds there, and its conclusion names the log *)
Example C10_example_forwarded_is_log_content :
  exists r t e, In (XLog r (Some t)) ex8_hist /\ decode_log r = DOk e /\
    mkXMsg ex8_tx 1600000007 4294967295 18446744073709551615 4 65535 (repeat x00 12 ++ be 20 4660) (repeat xab 33) 255 = message_of_log 4 r t e.
Proof.
  destruct C10_example_raw_history as [_ [_ [_ H]]].
  destruct (C10_forwarded_message_is_log_content ex8_cfg ex8_hist 1255 false ex8_ok _ _ H) as [r [t [e [A [B [C _]]]]]].
  exists r, t, e. repeat apply conj; assumption.
Qed.

(* re-observation: a receipt with a foreign-contract copy of the log, the log itself and the second log forwards both messages in
   receipt order; with a core-contract log that does not unpack in front, nothing *)
Definition ex8_foreign : rawlog := mkRaw (be 20 7) (rl_topics ex8_log) (rl_data ex8_log) ex8_bh 1000 ex8_tx.
Example C10_example_raw_reobserve :
  xreobserve ex8_cfg (Some 1255) (Some 1255) (Some (mkXRcpt 1 (Some 1000) [Some ex8_foreign; Some ex8_log; None; Some ex8_log2])) (Some 1600000007) =
    [XReobserved (message_of_log 4 ex8_log 1600000007 ex8_ev); XReobserved (message_of_log 4 ex8_log2 1600000007 ex8_ev2)] /\
  xreobserve ex8_cfg (Some 1255) (Some 1255)
    (Some (mkXRcpt 1 (Some 1000) [Some ex8_log; Some (ex8_with_data (firstn 224 (rl_data ex8_log)))])) (Some 1600000007) = [] /\
  xreobserve ex8_cfg (Some 1254) (Some 1300) (Some (mkXRcpt 1 (Some 1000) [Some ex8_log])) (Some 1600000007) = [].
Proof. vm_compute. repeat apply conj; reflexivity. Qed.

(* ================================================================================================================================
   Extension X10 - the re-observation path as the WATCHER ORACLE of the re-observation loop (model/ReobsLoop.v).  [Closure.evm_watch]
   (model/Closure.v) answers a request of the loop with the messages [xreobserve] forwards for the node's answers (head before /
   after, receipt, block time: [Closure.evm_ans]), as the processor receives them ([Closure.evm_pub]: common.MessagePublication with
   whole-second timestamp), for the chains node.go wires to an EVM watcher.  Its contract is the re-observation theorem above; the
   loop-level consequence (through the loop the processor signs only such messages) is props/C14.v
   C14_loop_signs_only_confirmed_evm_messages. *)
From WH Require model.Vaa model.Closure proofs.ClosureProofs2.

Theorem C10_evm_oracle_chains_are_the_wired_ones : Closure.evm_chains = [2; 4].
Proof. exact ClosureProofs2.evm_chains_are. Qed.

(* every message the oracle answers is the content of ONE log of the receipt the node served - emitted by the configured core contract,
   topics [event id; sender], unpacked by UnpackLog - out of a STATUS-1 receipt, stamped with the time of the receipt's block, and the
   receipt's block (plus the consistency level when the watcher waits for confirmations) is not above the non-zero head the watcher
   read BEFORE it asked for the receipt *)
Theorem C10_evm_reobservation_oracle_contract : forall c a m, In m (Closure.evm_reobs_msgs c a) ->
  exists hd r t blk l e,
    Closure.ea_hb a = Some hd /\ Closure.ea_rc a = Some r /\ xr_status r = 1 /\ Closure.ea_bt a = Some t /\ xr_blk r = Some blk /\
    In (Some l) (xr_logs r) /\ rl_addr l = xc_contract c /\ (exists t1, rl_topics l = [evm_abi_lmp_id; t1]) /\ decode_log l = DOk e /\
    m = Closure.evm_pub (message_of_log (xc_chain c) l t e) /\
    u64 hd <> 0 /\ u64 (u64 blk + (if xc_wait c then x_cl e else 0)) <= u64 hd.
Proof. exact ClosureProofs2.evm_reobs_contract. Qed.

Theorem C10_evm_watch_oracle_contract : forall ecfg enode other c r t m, Closure.is_evm_chain c = true ->
  In m (Closure.evm_watch ecfg enode other c r t) -> ClosureProofs2.evm_confirmed (ecfg c) (enode c r t) m.
Proof. exact ClosureProofs2.evm_watch_contract. Qed.

(* computed (boundary values): a status-1 receipt in block 1000 with one core-contract log, level 1, waiting for confirmations: answered
   with the log's message for heads 1255 and 1001 (exactly deep enough), with nothing for head 1000, for status 0, for no receipt *)
Example C10_evm_oracle_example :
  Closure.evm_reobs_msgs ClosureProofs2.cx_cfg ClosureProofs2.cx_ans = [ClosureProofs2.cx_m] /\
  Vaa.m_echain ClosureProofs2.cx_m = 2 /\ Vaa.m_seq ClosureProofs2.cx_m = 5 /\ Vaa.m_payload ClosureProofs2.cx_m = [Byte.x01; Byte.x02] /\
  Vaa.m_tx ClosureProofs2.cx_m = ClosureProofs2.cx_tx /\ Vaa.m_tns ClosureProofs2.cx_m = 0 /\
  Closure.evm_reobs_msgs ClosureProofs2.cx_cfg {| Closure.ea_hb := Some 1000; Closure.ea_ha := Some 1300; Closure.ea_rc := Closure.ea_rc ClosureProofs2.cx_ans; Closure.ea_bt := Closure.ea_bt ClosureProofs2.cx_ans |} = [] /\
  Closure.evm_reobs_msgs ClosureProofs2.cx_cfg {| Closure.ea_hb := Some 1001; Closure.ea_ha := Some 1001; Closure.ea_rc := Closure.ea_rc ClosureProofs2.cx_ans; Closure.ea_bt := Closure.ea_bt ClosureProofs2.cx_ans |} = [ClosureProofs2.cx_m] /\
  Closure.evm_reobs_msgs ClosureProofs2.cx_cfg {| Closure.ea_hb := Some 1255; Closure.ea_ha := Some 1255; Closure.ea_rc := Some (mkXRcpt 0 (Some 1000) [Some ClosureProofs2.cx_log]); Closure.ea_bt := Closure.ea_bt ClosureProofs2.cx_ans |} = [] /\
  Closure.evm_reobs_msgs ClosureProofs2.cx_cfg ClosureProofs2.cx_none = [].
Proof. exact ClosureProofs2.ex_evm_oracle. Qed.

Print Assumptions C10_scan_forward_safe.
Print Assumptions C10_scan_step_safe.
Print Assumptions C10_reobserve_safe.
Print Assumptions C10_reobserve_safe_u64.
Print Assumptions C10_forwarded_exactly_once.
Print Assumptions C10_first_decisive_head.
Print Assumptions C10_still_pending_while_early.
Print Assumptions C10_dropped.
Print Assumptions C10_abandoned_only_after_window.
Print Assumptions C10_at_most_once.
Print Assumptions C10_key_independence.
Print Assumptions C10_pending_keys_distinct.
Print Assumptions C10_poller_heads.
Print Assumptions C10_polled_head_expected.
Print Assumptions C10_end_to_end.
Print Assumptions C10_original_order_refuted.
Print Assumptions C10_range_hypothesis_needed.
Print Assumptions C10_restart_forward_safe.
Print Assumptions C10_restart_forward_safe_math.
Print Assumptions C10_restart_at_most_once.
Print Assumptions C10_restart_pending_keys_distinct.
Print Assumptions C10_restart_refines_watcher.
Print Assumptions C10_poller_on_while_pending.
Print Assumptions C10_restart_liveness.
Print Assumptions C10_restart_without_guard_stalls_refuted.
Print Assumptions C10_restart_resumes_after_next_log.
Print Assumptions C10_log_lost_when_block_time_lookup_fails.
Print Assumptions C10_event_id_is_the_topic_constant.
Print Assumptions C10_unpack_log_closed_form.
Print Assumptions C10_malformed_data_yields_no_event.
Print Assumptions C10_decode_of_emitted_log.
Print Assumptions C10_emitted_log_message_fields.
Print Assumptions C10_log_refines_watcher.
Print Assumptions C10_abstraction_injective.
Print Assumptions C10_forwarded_message_is_log_content.
Print Assumptions C10_pending_key_is_a_function_of_the_log.
Print Assumptions C10_reobserved_message_is_log_content.
Print Assumptions C10_malformed_log_ends_run_and_leaves_pending_untouched.
Print Assumptions C10_topicless_log_panics.
Print Assumptions C10_malformed_log_in_receipt_forwards_nothing.
Print Assumptions C10_evm_oracle_chains_are_the_wired_ones.
Print Assumptions C10_evm_reobservation_oracle_contract.
Print Assumptions C10_evm_watch_oracle_contract.
