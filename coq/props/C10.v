(* C10 - placeholder while the proofs are being written *)
From Coq Require Import List ZArith Bool.
From WH Require Import gen.Extracted model.EvmWatcher.
Theorem C10_placeholder : evm_max_wait = evm_max_wait.
Proof. reflexivity. Qed.
Print Assumptions C10_placeholder.
