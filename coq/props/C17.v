(* C17 — re-observation requests are routed once per transaction and never block.
   Model: model/Reobserve.v, the dispatcher loop of cmd/guardiand/reobserve.go step by step (request / purge tick /
   watcher taking a request) and common.PostObservationRequest; the purge period (7 min), the window (11 min) and its
   strict comparison, the non-blocking shape of both sends, "remember only after a successful send" and the channel
   capacities are GENERATED from the source (gen/x_reobserve.py).  Times are nanoseconds; [run st ops] lists every step
   of a history as (state before, step, outcome); [mono t0 ops]: the clock readings of the history never decrease. *)
From Coq Require Import List ZArith Lia Bool Arith.
From Coq Require Import Strings.Byte.
From WH Require Import lib.Bytes gen.Extracted model.Reobserve proofs.ReobserveProofs.
Import ListNotations.
Open Scope Z_scope.

(* a request is forwarded only to the queue of the chain it names: that queue grows by exactly this request, every
   other queue is untouched, and the (chain, transaction) pair is remembered with the time of the forward *)
Theorem C17_forward_only_to_named_chain : forall st r now st' c, step st (Req r now) = (st', Forward c) ->
  c = chain_of r /\ cache_get (cache st) (key_of r) = None /\ cache_get (cache st') (key_of r) = Some now /\
  (exists q, find_queue (queues st) c = Some q /\ full q = false /\ items st' c = Some (q_items q ++ [r])) /\
  (forall c', c' <> c -> items st' c' = items st c').
Proof. exact forward_to_named_chain. Qed.

(* at most once per (chain, transaction) within the window: any two forwards of the same pair in any history, from
   any starting state, are MORE than 11 minutes apart *)
Theorem C17_forwards_more_than_window_apart : forall st t0 ops pre s1 r1 t1 c1 mid s2 r2 t2 c2 post, mono t0 ops ->
  run st ops = pre ++ (s1, Req r1 t1, Forward c1) :: mid ++ (s2, Req r2 t2, Forward c2) :: post ->
  key_of r1 = key_of r2 -> reobs_window < t2 - t1.
Proof. exact forwards_window_apart. Qed.

(* and again once the window has lapsed: after a purge tick later than (forward + 11 min) the next request of the pair
   is forwarded, unless its watcher queue is full at that moment *)
Theorem C17_forwarded_again_after_purge : forall st ops pre s1 r1 t1 c1 mid s2 r2 t2 o2 post, cache_wf st ->
  run st ops = pre ++ (s1, Req r1 t1, Forward c1) :: mid ++ (s2, Req r2 t2, o2) :: post ->
  key_of r1 = key_of r2 -> nofwd (key_of r1) mid ->
  (exists s tau, In (s, Tick tau, Purged) mid /\ reobs_window < tau - t1) ->
  exists q, find_queue (queues s2) (chain_of r2) = Some q /\ o2 = if full q then DropFull else Forward (chain_of r2).
Proof. exact forwarded_again_after_purge. Qed.

(* with purge ticks at most 7 minutes apart, 18 minutes after the last forward suffice *)
Theorem C17_forwarded_again_after_18_minutes : forall st ops pre s1 r1 t1 c1 mid s2 r2 t2 o2 post, cache_wf st ->
  run st ops = pre ++ (s1, Req r1 t1, Forward c1) :: mid ++ (s2, Req r2 t2, o2) :: post ->
  key_of r1 = key_of r2 -> nofwd (key_of r1) mid ->
  (forall a, t1 <= a -> a + reobs_period <= t2 -> exists s tau, In (s, Tick tau, Purged) mid /\ a < tau <= a + reobs_period) ->
  reobs_window + reobs_period <= t2 - t1 ->
  exists q, find_queue (queues s2) (chain_of r2) = Some q /\ o2 = if full q then DropFull else Forward (chain_of r2).
Proof. exact forwarded_again_after_window_plus_period. Qed.

Theorem C17_numbers : reobs_period = 7 * 60 * 10 ^ 9 /\ reobs_window = 11 * 60 * 10 ^ 9 /\ reobs_window + reobs_period = 18 * 60 * 10 ^ 9.
Proof. exact reobs_numbers. Qed.

(* dropped requests (duplicate, full queue, unknown chain) are not remembered and change nothing *)
Theorem C17_drop_changes_nothing : forall st r now st' o, step st (Req r now) = (st', o) ->
  o = DropDup \/ o = DropFull \/ o = DropUnknown -> st' = st.
Proof. exact drop_changes_nothing. Qed.

Theorem C17_drop_reasons : forall st r now st' o, step st (Req r now) = (st', o) ->
  match o with
  | DropDup => exists t, cache_get (cache st) (key_of r) = Some t
  | DropUnknown => cache_get (cache st) (key_of r) = None /\ find_queue (queues st) (chain_of r) = None
  | DropFull => cache_get (cache st) (key_of r) = None /\ exists q, find_queue (queues st) (chain_of r) = Some q /\ full q = true
  | Forward _ => True
  | _ => False
  end.
Proof. exact drop_reasons. Qed.

(* no step of the dispatcher blocks *)
Theorem C17_dispatcher_never_blocks : forall st o, snd (step st o) <> Blocked.
Proof. exact never_blocked. Qed.

(* posting to a full outbound queue fails at once with ErrChanFull and leaves the queue unchanged *)
Theorem C17_post_full : forall cap its r, (cap <= length its)%nat -> post cap its r = (its, PostErrChanFull).
Proof. exact post_full. Qed.
Theorem C17_post_room : forall cap its r, (length its < cap)%nat -> post cap its r = (its ++ [r], PostOk).
Proof. exact post_room. Qed.
Theorem C17_post_never_blocks : forall cap its r, snd (post cap its r) <> PostBlocked.
Proof. exact post_never_blocks. Qed.

(* any number of concurrent callers, any interleaving of their steps: nobody is ever stalled in a send on a full queue
   (the fullness test and the send are ONE step of the code: [post_atomic], generated from obsvReqSendC.go) *)
Theorem C17_concurrent_posts_never_stall : forall cap reqs n sched items,
  let '(items', pss) := psched cap reqs items (repeat PStart n) sched in Forall (fun ps => stalled cap items' ps = false) pss.
Proof. exact posts_never_stall_from_start. Qed.

(* what the theorem excludes is reachable when test and send are two steps: two callers, one free slot *)
Example C17_check_then_send_would_stall :
  let pstep2 cap items ps r := match ps with
                               | PStart => if (cap <=? length items)%nat then (items, PDone PostErrChanFull) else (items, PPassed)
                               | _ => pstep cap items ps r end in
  let r := {| r_chain := 2; r_tx := [] |} in
  let '(i1, a) := pstep2 1%nat [] PStart r in let '(i2, b) := pstep2 1%nat i1 PStart r in
  let '(i3, a') := pstep 1%nat i2 a r in let '(i4, b') := pstep 1%nat i3 b r in
  a' = PDone PostOk /\ stalled 1%nat i4 b' = true.
Proof. vm_compute. split; reflexivity. Qed.

(* ---------------------------------------------------------------- non-vacuity: the repo's own eviction scenario, plus a full queue *)
Definition ex_req : req := {| r_chain := 1; r_tx := [xe5; x9c; x1b] |}.
Definition ex_min (m : Z) : Z := m * 60 * 10 ^ 9.
Definition ex_ops : list op :=
  [Req ex_req 0; Req ex_req (ex_min 1); Tick (ex_min 7); Req ex_req (ex_min 8); Drain 1; Tick (ex_min 14); Req ex_req (ex_min 15);
   Req {| r_chain := 1; r_tx := [x00] |} (ex_min 15); Req {| r_chain := 9; r_tx := [x00] |} (ex_min 15)].
Definition ex_init : state := init [{| q_chain := 1; q_cap := 1; q_items := [] |}].

Example C17_example_history :
  map snd (run ex_init ex_ops) = [Forward 1; DropDup; Purged; DropDup; Drained (Some ex_req); Purged; Forward 1; DropFull; DropUnknown]
  /\ mono 0 ex_ops /\ cache_wf ex_init.
Proof. split; [vm_compute; reflexivity|]. split; [vm_compute; repeat split; discriminate|constructor]. Qed.

(* the hypotheses of the two "forwarded again" theorems hold for this history: forward at 0, purge tick at 14 min, request at 15 min *)
Example C17_liveness_hypotheses_satisfiable :
  let tr := run ex_init ex_ops in
  let d := (ex_init, Tick 0, Purged) in
  let mid := firstn 5 (skipn 1 tr) in
  tr = [] ++ (fst (fst (nth 0 tr d)), Req ex_req 0, Forward 1) :: mid ++ (fst (fst (nth 6 tr d)), Req ex_req (ex_min 15), snd (nth 6 tr d)) :: skipn 7 tr
  /\ nofwd (key_of ex_req) mid
  /\ (exists s tau, In (s, Tick tau, Purged) mid /\ reobs_window < tau - 0)
  /\ snd (nth 6 tr d) = Forward 1.
Proof.
  cbv zeta. split; [vm_compute; reflexivity|]. split; [|split; [|vm_compute; reflexivity]].
  - intros s r t c Hin. vm_compute in Hin. repeat (destruct Hin as [Hin|Hin]; [discriminate Hin|]). destruct Hin.
  - exists (fst (fst (nth 5 (run ex_init ex_ops) (ex_init, Tick 0, Purged)))), (ex_min 14). split; [vm_compute; do 4 right; left; reflexivity|vm_compute; reflexivity].
Qed.

Print Assumptions C17_forward_only_to_named_chain.
Print Assumptions C17_forwards_more_than_window_apart.
Print Assumptions C17_forwarded_again_after_purge.
Print Assumptions C17_forwarded_again_after_18_minutes.
Print Assumptions C17_numbers.
Print Assumptions C17_drop_changes_nothing.
Print Assumptions C17_drop_reasons.
Print Assumptions C17_dispatcher_never_blocks.
Print Assumptions C17_post_full.
Print Assumptions C17_post_room.
Print Assumptions C17_post_never_blocks.
Print Assumptions C17_concurrent_posts_never_stall.

(* ================================================================== extension X7: the dispatcher INSIDE the re-observation loop =====
   model/ReobsLoop.v composes, without changing them, the processor's cleanup tick (C14), PostObservationRequest and obsvReqSendC,
   p2p's request goroutine and receive loop (C03), this dispatcher, an oracle for the watchers' re-observation paths (C08 / C10) and
   the processor's handle_message (C02) into one node on ONE clock, and such nodes into a network.  A history is a list of events
   (LClock t, LCleanup, LAdmin r, LPump, LGossip from msg, LPurge, LWatch chain, LEnv input); [lrun st H] = (final state, trace), the
   trace listing what every component did with the clock reading at which it did it; [lstates st H] = the state each step starts in. *)
From WH Require Import gen.ExtractedWiring model.Vaa model.Processor model.ReobsLoop proofs.ReobsLoopBase.

(* the hops the composition assumes (who writes / reads obsvReqSendC, obsvReqC, chainObsvReqC[chain]; which chains have a watcher
   queue) are the wiring read from node.go on this run (gen/x_wiring.py); the queue capacities are the extracted constants *)
Theorem C17_loop_hops_are_the_wiring_of_node_go :
  loop_hops = extracted_hops /\ watched_chains = [2; 4; 255] /\
  node_queues = map (fun c => {| Reobserve.q_chain := c; Reobserve.q_cap := Z.to_nat watcher_queue_size; Reobserve.q_items := [] |}) watched_chains.
Proof. split; [exact hops_match|split; [exact watched_chains_are|reflexivity]]. Qed.

(* every history of the composition projects onto a history of THIS dispatcher model (and of the processor model): the dispatcher
   events of the trace are [run] of the dispatcher from its state over the ops it was given, in order; hence every theorem above
   holds of the dispatcher inside the loop *)
Theorem C17_loop_projects_onto_the_dispatcher :
  forall recover keccak sign own gov_chain gov_addr decode_hb decodeq encq self disable watch H st,
  let r := lrun recover keccak sign own gov_chain gov_addr decode_hb decodeq encq self disable watch st H in
  (disp_of (snd r) = Reobserve.run (l_disp st) (dops (snd r)) /\ l_disp (fst r) = Reobserve.final (l_disp st) (dops (snd r))) /\
  Processor.run recover keccak sign own gov_chain gov_addr (l_proc st) (pops (snd r)) = (l_proc (fst r), map snd (proc_of (snd r))).
Proof. exact lrun_wf. Qed.

(* ... with monotone clock readings whenever the history's are *)
Theorem C17_loop_dispatcher_clock_is_monotone :
  forall recover keccak sign own gov_chain gov_addr decode_hb decodeq encq self disable watch H st, lmono (l_now st) H ->
  ReobserveProofs.mono (l_now st) (dops (snd (lrun recover keccak sign own gov_chain gov_addr decode_hb decodeq encq self disable watch st H))).
Proof. exact lrun_mono. Qed.

(* "forwarded again", timed and for an ARBITRARY request stream: after a purge tick later than t + 11 min, a request of k that finds
   room is answered by a forward of k at some instant in (t, that request] - whatever else arrived in between *)
Theorem C17_forwarded_again_between : forall st t0 ops k t stau tau s2 r2 u o2,
  ReobserveProofs.mono t0 ops -> cache_wf st -> known st (fst k) ->
  (forall t', In (k, t') (Reobserve.cache st) -> t' <= t) ->
  In (stau, Reobserve.Tick tau, Reobserve.Purged) (Reobserve.run st ops) -> t + reobs_window < tau ->
  In (s2, Reobserve.Req r2 u, o2) (Reobserve.run st ops) -> Reobserve.key_of r2 = k -> tau < u -> o2 <> Reobserve.DropFull ->
  exists s r f c, In (s, Reobserve.Req r f, Reobserve.Forward c) (Reobserve.run st ops) /\ Reobserve.key_of r = k /\ t < f <= u.
Proof. exact forward_between. Qed.

(* (a) lower bound and (b) NO AMPLIFICATION: in every history of the composition - local retries, admin requests, verified requests of
   any number of peers, at any rate - two forwards of one (chain, transaction) to its watcher are more than 11 minutes apart *)
Theorem C17_loop_forwards_more_than_window_apart :
  forall recover keccak sign own gov_chain gov_addr decode_hb decodeq encq self disable watch H st0 pre u1 s1 r1 t1 c1 mid u2 s2 r2 t2 c2 post,
  lmono (l_now st0) H ->
  snd (lrun recover keccak sign own gov_chain gov_addr decode_hb decodeq encq self disable watch st0 H) =
    pre ++ (u1, EDisp s1 (Reobserve.Req r1 t1) (Reobserve.Forward c1)) :: mid ++ (u2, EDisp s2 (Reobserve.Req r2 t2) (Reobserve.Forward c2)) :: post ->
  Reobserve.key_of r1 = Reobserve.key_of r2 -> reobs_window < t2 - t1.
Proof. exact loop_forwards_window_apart. Qed.

(* a forwarded request sits in the queue of the chain it names; what a watcher takes from its queue names its chain *)
Theorem C17_loop_forwarded_is_queued : forall d r now c, snd (Reobserve.step d (Reobserve.Req r now)) = Reobserve.Forward c ->
  exists q, Reobserve.find_queue (Reobserve.queues (fst (Reobserve.step d (Reobserve.Req r now)))) c = Some q /\ In r (Reobserve.q_items q).
Proof. exact forwarded_is_queued. Qed.
Theorem C17_loop_queues_hold_requests_of_their_chain : forall ops, queues_named (Reobserve.final (Reobserve.init node_queues) ops).
Proof. intros ops. apply queues_named_final. exact queues_named_init. Qed.

Print Assumptions C17_loop_hops_are_the_wiring_of_node_go.
Print Assumptions C17_loop_projects_onto_the_dispatcher.
Print Assumptions C17_loop_dispatcher_clock_is_monotone.
Print Assumptions C17_forwarded_again_between.
Print Assumptions C17_loop_forwards_more_than_window_apart.
Print Assumptions C17_loop_forwarded_is_queued.
Print Assumptions C17_loop_queues_hold_requests_of_their_chain.
