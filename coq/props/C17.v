(* C17 — re-observation requests are routed once per transaction and never block.
   Model: model/Reobserve.v, the dispatcher loop of cmd/guardiand/reobserve.go step by step (request / purge tick /
   watcher taking a request) and common.PostObservationRequest; the purge period (7 min), the window (11 min) and its
   strict comparison, the non-blocking shape of both sends, "remember only after a successful send" and the channel
   capacities are GENERATED from the source (gen/x_reobserve.py).  Times are nanoseconds; [run st ops] lists every step
   of a history as (state before, step, outcome); [mono t0 ops]: the clock readings of the history never decrease. *)
From Coq Require Import List ZArith Lia Bool Arith.
From Coq Require Import Strings.Byte.
From WH Require Import lib.Bytes gen.Extracted model.Reobserve proofs.ReobserveProofs.
Import ListNotations.
Open Scope Z_scope.

(* a request is forwarded only to the queue of the chain it names: that queue grows by exactly this request, every
   other queue is untouched, and the (chain, transaction) pair is remembered with the time of the forward *)
Theorem C17_forward_only_to_named_chain : forall st r now st' c, step st (Req r now) = (st', Forward c) ->
  c = chain_of r /\ cache_get (cache st) (key_of r) = None /\ cache_get (cache st') (key_of r) = Some now /\
  (exists q, find_queue (queues st) c = Some q /\ full q = false /\ items st' c = Some (q_items q ++ [r])) /\
  (forall c', c' <> c -> items st' c' = items st c').
Proof. exact forward_to_named_chain. Qed.

(* at most once per (chain, transaction) within the window: any two forwards of the same pair in any history, from
   any starting state, are MORE than 11 minutes apart *)
Theorem C17_forwards_more_than_window_apart : forall st t0 ops pre s1 r1 t1 c1 mid s2 r2 t2 c2 post, mono t0 ops ->
  run st ops = pre ++ (s1, Req r1 t1, Forward c1) :: mid ++ (s2, Req r2 t2, Forward c2) :: post ->
  key_of r1 = key_of r2 -> reobs_window < t2 - t1.
Proof. exact forwards_window_apart. Qed.

(* and again once the window has lapsed: after a purge tick later than (forward + 11 min) the next request of the pair
   is forwarded, unless its watcher queue is full at that moment *)
Theorem C17_forwarded_again_after_purge : forall st ops pre s1 r1 t1 c1 mid s2 r2 t2 o2 post, cache_wf st ->
  run st ops = pre ++ (s1, Req r1 t1, Forward c1) :: mid ++ (s2, Req r2 t2, o2) :: post ->
  key_of r1 = key_of r2 -> nofwd (key_of r1) mid ->
  (exists s tau, In (s, Tick tau, Purged) mid /\ reobs_window < tau - t1) ->
  exists q, find_queue (queues s2) (chain_of r2) = Some q /\ o2 = if full q then DropFull else Forward (chain_of r2).
Proof. exact forwarded_again_after_purge. Qed.

(* with purge ticks at most 7 minutes apart, 18 minutes after the last forward suffice *)
Theorem C17_forwarded_again_after_18_minutes : forall st ops pre s1 r1 t1 c1 mid s2 r2 t2 o2 post, cache_wf st ->
  run st ops = pre ++ (s1, Req r1 t1, Forward c1) :: mid ++ (s2, Req r2 t2, o2) :: post ->
  key_of r1 = key_of r2 -> nofwd (key_of r1) mid ->
  (forall a, t1 <= a -> a + reobs_period <= t2 -> exists s tau, In (s, Tick tau, Purged) mid /\ a < tau <= a + reobs_period) ->
  reobs_window + reobs_period <= t2 - t1 ->
  exists q, find_queue (queues s2) (chain_of r2) = Some q /\ o2 = if full q then DropFull else Forward (chain_of r2).
Proof. exact forwarded_again_after_window_plus_period. Qed.

Theorem C17_numbers : reobs_period = 7 * 60 * 10 ^ 9 /\ reobs_window = 11 * 60 * 10 ^ 9 /\ reobs_window + reobs_period = 18 * 60 * 10 ^ 9.
Proof. exact reobs_numbers. Qed.

(* dropped requests (duplicate, full queue, unknown chain) are not remembered and change nothing *)
Theorem C17_drop_changes_nothing : forall st r now st' o, step st (Req r now) = (st', o) ->
  o = DropDup \/ o = DropFull \/ o = DropUnknown -> st' = st.
Proof. exact drop_changes_nothing. Qed.

Theorem C17_drop_reasons : forall st r now st' o, step st (Req r now) = (st', o) ->
  match o with
  | DropDup => exists t, cache_get (cache st) (key_of r) = Some t
  | DropUnknown => cache_get (cache st) (key_of r) = None /\ find_queue (queues st) (chain_of r) = None
  | DropFull => cache_get (cache st) (key_of r) = None /\ exists q, find_queue (queues st) (chain_of r) = Some q /\ full q = true
  | Forward _ => True
  | _ => False
  end.
Proof. exact drop_reasons. Qed.

(* no step of the dispatcher blocks *)
Theorem C17_dispatcher_never_blocks : forall st o, snd (step st o) <> Blocked.
Proof. exact never_blocked. Qed.

(* posting to a full outbound queue fails at once with ErrChanFull and leaves the queue unchanged *)
Theorem C17_post_full : forall cap its r, (cap <= length its)%nat -> post cap its r = (its, PostErrChanFull).
Proof. exact post_full. Qed.
Theorem C17_post_room : forall cap its r, (length its < cap)%nat -> post cap its r = (its ++ [r], PostOk).
Proof. exact post_room. Qed.
Theorem C17_post_never_blocks : forall cap its r, snd (post cap its r) <> PostBlocked.
Proof. exact post_never_blocks. Qed.

(* any number of concurrent callers, any interleaving of their steps: nobody is ever stalled in a send on a full queue
   (the fullness test and the send are ONE step of the code: [post_atomic], generated from obsvReqSendC.go) *)
Theorem C17_concurrent_posts_never_stall : forall cap reqs n sched items,
  let '(items', pss) := psched cap reqs items (repeat PStart n) sched in Forall (fun ps => stalled cap items' ps = false) pss.
Proof. exact posts_never_stall_from_start. Qed.

(* what the theorem excludes is reachable when test and send are two steps: two callers, one free slot *)
Example C17_check_then_send_would_stall :
  let pstep2 cap items ps r := match ps with
                               | PStart => if (cap <=? length items)%nat then (items, PDone PostErrChanFull) else (items, PPassed)
                               | _ => pstep cap items ps r end in
  let r := {| r_chain := 2; r_tx := [] |} in
  let '(i1, a) := pstep2 1%nat [] PStart r in let '(i2, b) := pstep2 1%nat i1 PStart r in
  let '(i3, a') := pstep 1%nat i2 a r in let '(i4, b') := pstep 1%nat i3 b r in
  a' = PDone PostOk /\ stalled 1%nat i4 b' = true.
Proof. vm_compute. split; reflexivity. Qed.

(* ---------------------------------------------------------------- non-vacuity: the repo's own eviction scenario, plus a full queue *)
Definition ex_req : req := {| r_chain := 1; r_tx := [xe5; x9c; x1b] |}.
Definition ex_min (m : Z) : Z := m * 60 * 10 ^ 9.
Definition ex_ops : list op :=
  [Req ex_req 0; Req ex_req (ex_min 1); Tick (ex_min 7); Req ex_req (ex_min 8); Drain 1; Tick (ex_min 14); Req ex_req (ex_min 15);
   Req {| r_chain := 1; r_tx := [x00] |} (ex_min 15); Req {| r_chain := 9; r_tx := [x00] |} (ex_min 15)].
Definition ex_init : state := init [{| q_chain := 1; q_cap := 1; q_items := [] |}].

Example C17_example_history :
  map snd (run ex_init ex_ops) = [Forward 1; DropDup; Purged; DropDup; Drained (Some ex_req); Purged; Forward 1; DropFull; DropUnknown]
  /\ mono 0 ex_ops /\ cache_wf ex_init.
Proof. split; [vm_compute; reflexivity|]. split; [vm_compute; repeat split; discriminate|constructor]. Qed.

(* the hypotheses of the two "forwarded again" theorems hold for this history: forward at 0, purge tick at 14 min, request at 15 min *)
Example C17_liveness_hypotheses_satisfiable :
  let tr := run ex_init ex_ops in
  let d := (ex_init, Tick 0, Purged) in
  let mid := firstn 5 (skipn 1 tr) in
  tr = [] ++ (fst (fst (nth 0 tr d)), Req ex_req 0, Forward 1) :: mid ++ (fst (fst (nth 6 tr d)), Req ex_req (ex_min 15), snd (nth 6 tr d)) :: skipn 7 tr
  /\ nofwd (key_of ex_req) mid
  /\ (exists s tau, In (s, Tick tau, Purged) mid /\ reobs_window < tau - 0)
  /\ snd (nth 6 tr d) = Forward 1.
Proof.
  cbv zeta. split; [vm_compute; reflexivity|]. split; [|split; [|vm_compute; reflexivity]].
  - intros s r t c Hin. vm_compute in Hin. repeat (destruct Hin as [Hin|Hin]; [discriminate Hin|]). destruct Hin.
  - exists (fst (fst (nth 5 (run ex_init ex_ops) (ex_init, Tick 0, Purged)))), (ex_min 14). split; [vm_compute; do 4 right; left; reflexivity|vm_compute; reflexivity].
Qed.

Print Assumptions C17_forward_only_to_named_chain.
Print Assumptions C17_forwards_more_than_window_apart.
Print Assumptions C17_forwarded_again_after_purge.
Print Assumptions C17_forwarded_again_after_18_minutes.
Print Assumptions C17_numbers.
Print Assumptions C17_drop_changes_nothing.
Print Assumptions C17_drop_reasons.
Print Assumptions C17_dispatcher_never_blocks.
Print Assumptions C17_post_full.
Print Assumptions C17_post_room.
Print Assumptions C17_post_never_blocks.
Print Assumptions C17_concurrent_posts_never_stall.

(* ================================================================== extension X7: the dispatcher INSIDE the re-observation loop =====
   model/ReobsLoop.v composes, without changing them, the processor's cleanup tick (C14), PostObservationRequest and obsvReqSendC,
   p2p's request goroutine and receive loop (C03), this dispatcher, an oracle for the watchers' re-observation paths (C08 / C10) and
   the processor's handle_message (C02) into one node on ONE clock, and such nodes into a network.  A history is a list of events
   (LClock t, LCleanup, LAdmin r, LPump, LGossip from msg, LPurge, LWatch chain, LEnv input); [lrun st H] = (final state, trace), the
   trace listing what every component did with the clock reading at which it did it; [lstates st H] = the state each step starts in. *)
From WH Require Import gen.ExtractedWiring gen.ExtractedP2P model.Vaa model.Processor model.ReobsLoop proofs.ReobsLoopProofs.

(* the hops the composition assumes (who writes / reads obsvReqSendC, obsvReqC, chainObsvReqC[chain]; which chains have a watcher
   queue) are the wiring read from node.go on this run (gen/x_wiring.py); the queue capacities are the extracted constants *)
Theorem C17_loop_hops_are_the_wiring_of_node_go :
  loop_hops = extracted_hops /\ watched_chains = [2; 4; 255] /\
  node_queues = map (fun c => {| Reobserve.q_chain := c; Reobserve.q_cap := Z.to_nat watcher_queue_size; Reobserve.q_items := [] |}) watched_chains.
Proof. split; [exact hops_match|split; [exact watched_chains_are|reflexivity]]. Qed.

(* every history of the composition projects onto a history of THIS dispatcher model (and of the processor model): the dispatcher
   events of the trace are [run] of the dispatcher from its state over the ops it was given, in order; hence every theorem above
   holds of the dispatcher inside the loop *)
Theorem C17_loop_projects_onto_the_dispatcher :
  forall recover keccak sign own gov_chain gov_addr decode_hb decodeq encq self disable watch H st,
  let r := lrun recover keccak sign own gov_chain gov_addr decode_hb decodeq encq self disable watch st H in
  (disp_of (snd r) = Reobserve.run (l_disp st) (dops (snd r)) /\ l_disp (fst r) = Reobserve.final (l_disp st) (dops (snd r))) /\
  Processor.run recover keccak sign own gov_chain gov_addr (l_proc st) (pops (snd r)) = (l_proc (fst r), map snd (proc_of (snd r))).
Proof. exact lrun_wf. Qed.

(* ... with monotone clock readings whenever the history's are *)
Theorem C17_loop_dispatcher_clock_is_monotone :
  forall recover keccak sign own gov_chain gov_addr decode_hb decodeq encq self disable watch H st, lmono (l_now st) H ->
  ReobserveProofs.mono (l_now st) (dops (snd (lrun recover keccak sign own gov_chain gov_addr decode_hb decodeq encq self disable watch st H))).
Proof. exact lrun_mono. Qed.

(* "forwarded again", timed and for an ARBITRARY request stream: after a purge tick later than t + 11 min, a request of k that finds
   room is answered by a forward of k at some instant in (t, that request] - whatever else arrived in between *)
Theorem C17_forwarded_again_between : forall st t0 ops k t stau tau s2 r2 u o2,
  ReobserveProofs.mono t0 ops -> cache_wf st -> known st (fst k) ->
  (forall t', In (k, t') (Reobserve.cache st) -> t' <= t) ->
  In (stau, Reobserve.Tick tau, Reobserve.Purged) (Reobserve.run st ops) -> t + reobs_window < tau ->
  In (s2, Reobserve.Req r2 u, o2) (Reobserve.run st ops) -> Reobserve.key_of r2 = k -> tau < u -> o2 <> Reobserve.DropFull ->
  exists s r f c, In (s, Reobserve.Req r f, Reobserve.Forward c) (Reobserve.run st ops) /\ Reobserve.key_of r = k /\ t < f <= u.
Proof. exact forward_between. Qed.

(* (a) CADENCE of the loop, upper bound B = window + purge period + retry period + cleanup ticker period = 23 min 30 s (all four
   extracted).  From any state reached with the invariant (the initial state is one), over any continuation with monotone clock, for
   any instant t: if the message of digest h (emitter chain c, transaction tx) is pending - signed, not submitted, settled, budget
   not spent, no quorum VAA stored, five minutes old - at every cleanup tick in (t, t + B], a purge tick falls in (t + 11, t + 18 min],
   cleanup ticks come at most 30 s apart in (t + 11, t + 23 min], p2p's request goroutine keeps up, and neither obsvReqSendC nor the
   watcher queue of chain c overflows, then the watcher of chain c receives a request for tx at some instant in (t, t + B] *)
Theorem C17_loop_cadence :
  forall recover keccak sign own gov_chain gov_addr decode_hb decodeq encq self disable watch H st0 h c tx t,
  let lrun := lrun recover keccak sign own gov_chain gov_addr decode_hb decodeq encq self disable watch in
  let lstates := lstates recover keccak sign own gov_chain gov_addr decode_hb decodeq encq self disable watch in
  LInv st0 -> cache_wf (l_disp st0) -> known (l_disp st0) (c mod 65536) ->
  (forall t', In (key_of_msg c tx, t') (Reobserve.cache (l_disp st0)) -> t' <= t) ->
  lmono (l_now st0) H -> l_now st0 <= t ->
  (forall s, In (s, LCleanup) (lstates st0 H) -> t < l_now s <= t + loop_bound -> pending_at s h c tx) ->
  (exists s, In (s, LPurge) (lstates st0 H) /\ t + reobs_window < l_now s <= t + reobs_window + reobs_period) ->
  (forall a, t + reobs_window < a <= t + reobs_window + reobs_period + proc_retry_ns ->
     exists s, In (s, LCleanup) (lstates st0 H) /\ a < l_now s <= a + proc_tick_ns) ->
  drained recover keccak sign own gov_chain gov_addr decode_hb decodeq encq self disable watch st0 H ->
  (forall u r, ~ In (u, EPost r Reobserve.PostErrChanFull) (snd (lrun st0 H))) ->
  (forall u s r f, Reobserve.key_of r = key_of_msg c tx -> ~ In (u, EDisp s (Reobserve.Req r f) Reobserve.DropFull) (snd (lrun st0 H))) ->
  exists u s r f x, In (u, EDisp s (Reobserve.Req r f) (Reobserve.Forward x)) (snd (lrun st0 H)) /\
    Reobserve.key_of r = key_of_msg c tx /\ t < f <= t + loop_bound.
Proof. exact loop_forward_within. Qed.

Theorem C17_loop_bound_is_23_min_30_s : loop_bound = reobs_window + reobs_period + proc_retry_ns + proc_tick_ns /\ loop_bound = 1410 * 10 ^ 9.
Proof. split; [reflexivity|exact loop_bound_value]. Qed.

(* (a) lower bound and (b) NO AMPLIFICATION: in every history of the composition - local retries, admin requests, verified requests of
   any number of peers, at any rate - two forwards of one (chain, transaction) to its watcher are more than 11 minutes apart *)
Theorem C17_loop_forwards_more_than_window_apart :
  forall recover keccak sign own gov_chain gov_addr decode_hb decodeq encq self disable watch H st0 pre u1 s1 r1 t1 c1 mid u2 s2 r2 t2 c2 post,
  lmono (l_now st0) H ->
  snd (lrun recover keccak sign own gov_chain gov_addr decode_hb decodeq encq self disable watch st0 H) =
    pre ++ (u1, EDisp s1 (Reobserve.Req r1 t1) (Reobserve.Forward c1)) :: mid ++ (u2, EDisp s2 (Reobserve.Req r2 t2) (Reobserve.Forward c2)) :: post ->
  Reobserve.key_of r1 = Reobserve.key_of r2 -> reobs_window < t2 - t1.
Proof. exact loop_forwards_window_apart. Qed.

(* the network hop: what node i's request goroutine publishes for r is on the wire, and when the network delivers it to node j
   (relayed by any peer but j itself), j's receive loop verifies it against j's guardian set and j's dispatcher handles [Req r] at j's
   clock reading - provided i is a member of that set, i's signer is consistent with recovery, the request is decodable and not below
   the verifier's length floor *)
Theorem C17_loop_request_reaches_every_peer :
  forall recover keccak gov_chain gov_addr decode_hb decodeq encq disable owns signs selfs watches n i j from k r stj Gk,
  nth_error (x_nodes n) j = Some stj ->
  nth_error (x_pool n) k = Some (WReq (owns i) (encq r) (signs i (keccak (p2p_req_preimage (encq r))))) ->
  P2PVerify.n_gs (l_p2p stj) = Some Gk -> In (owns i) Gk -> bytes_to_address (owns i) = owns i -> from <> selfs j ->
  decodeq (encq r) = Some r -> p2p_req_too_short (Z.of_nat (length (encq r))) = false ->
  P2PVerify.prec recover (keccak (p2p_req_preimage (encq r))) (signs i (keccak (p2p_req_preimage (encq r)))) = Some (owns i) ->
  In (l_now stj, EDisp (l_disp stj) (Reobserve.Req r (l_now stj)) (snd (Reobserve.step (l_disp stj) (Reobserve.Req r (l_now stj)))))
     (snd (lnstep recover keccak gov_chain gov_addr decode_hb decodeq encq disable owns signs selfs watches n (XDeliver j from k))).
Proof. exact lnet_request_reaches_peer. Qed.

Theorem C17_loop_published_request_is_on_the_wire : forall keccak encq owns signs i u r evs, In (u, EPub r) evs ->
  In (WReq (owns i) (encq r) (signs i (keccak (p2p_req_preimage (encq r))))) (flat_map (wire_of keccak encq owns signs i) evs).
Proof. exact published_on_wire. Qed.

(* a forwarded request sits in the queue of the chain it names; what a watcher takes from its queue names its chain *)
Theorem C17_loop_forwarded_is_queued : forall d r now c, snd (Reobserve.step d (Reobserve.Req r now)) = Reobserve.Forward c ->
  exists q, Reobserve.find_queue (Reobserve.queues (fst (Reobserve.step d (Reobserve.Req r now)))) c = Some q /\ In r (Reobserve.q_items q).
Proof. exact forwarded_is_queued. Qed.
Theorem C17_loop_queues_hold_requests_of_their_chain : forall ops, queues_named (Reobserve.final (Reobserve.init node_queues) ops).
Proof. intros ops. apply queues_named_final. exact queues_named_init. Qed.

(* ---------------------------------------------------------------- a computed history of the composed node (toy crypto oracles) *)
Definition lx_own : addr := repeat x01 20.
Definition lx_recover (h s : bytes) : option bytes := Some (firstn 20 s).
Definition lx_keccak (b : bytes) : bytes := repeat x00 32.
Definition lx_sign (d : bytes) : bytes := lx_own ++ repeat x00 45.
Definition lx_msg : msgpub := {| m_tx := [x07]; m_ts := 1700000000; m_tns := 0; m_nonce := 1; m_seq := 5; m_cl := 1;
                                 m_echain := 2; m_tchain := 255; m_eaddr := repeat x02 32; m_payload := [x01; x02] |}.
Definition lx_G : gset := {| keys := [lx_own; repeat x03 20]; gidx := 3 |}.       (* two guardians: the node alone never has quorum *)
Definition lx_sec : Z := 1000000000.
Definition lx_run := lrun lx_recover lx_keccak lx_sign lx_own 1 (repeat x00 32) (fun _ => None) (fun _ => None) (fun _ => []) [x09] false (fun _ _ _ => []).
Definition lx_states := lstates lx_recover lx_keccak lx_sign lx_own 1 (repeat x00 32) (fun _ => None) (fun _ => None) (fun _ => []) [x09] false (fun _ _ _ => []).
(* every 30 s: the clock, the purge ticker at multiples of 7 min, the cleanup ticker, p2p's request goroutine, the watcher *)
Fixpoint lx_ticks (n : nat) (t : Z) : list lop :=
  match n with
  | O => []
  | S k => (LClock t :: (if (t / lx_sec) mod 420 =? 0 then [LPurge] else []) ++ [LCleanup; LPump; LWatch 2]) ++ lx_ticks k (t + 30 * lx_sec)
  end.
Definition lx_H : list lop := [LEnv (VSetGS lx_G); LEnv (VMsg lx_msg); LEnv (VLoop 0)] ++ lx_ticks 121 (30 * lx_sec).
Definition lx_requests (tr : list tev) : list (Z * Z) :=      (* (second, 0 forwarded / 1 duplicate / 2 full / 3 unknown) *)
  flat_map (fun e => match snd e with
                     | EDisp _ (Reobserve.Req _ t) x => [(t / lx_sec, match x with Reobserve.Forward _ => 0 | Reobserve.DropDup => 1 | Reobserve.DropFull => 2 | _ => 3 end)]
                     | _ => [] end) tr.

(* THE NAIVE EXPECTATION "a re-observation every five minutes" IS FALSE FOR THE COMPOSITION: the pending message is retried every
   5 minutes for an hour (12 requests), the watcher sees 3 of them: at 5, 25 and 45 minutes (gaps of 20 min <= B = 23.5 min) *)
Example C17_loop_every_five_minutes_is_false :
  lx_requests (snd (lx_run linit lx_H)) =
  [(300, 0); (600, 1); (900, 1); (1200, 1); (1500, 0); (1800, 1); (2100, 1); (2400, 1); (2700, 0); (3000, 1); (3300, 1); (3600, 1)].
Proof. vm_compute. reflexivity. Qed.

(* the hypotheses of C17_loop_cadence hold for that history with t = 5 min (first forward): invariant, empty cache, monotone clock,
   pending at every cleanup tick in (5 min, 28.5 min], the purge tick at 21 min, a cleanup tick every 30 s, request goroutine keeping
   up, no overflow - and the conclusion: a forward in (5 min, 28.5 min] (it is the one at 25 min) *)
Definition lx_h : bytes := repeat x00 32.
Example C17_loop_cadence_hypotheses_satisfiable :
  let t := 300 * lx_sec in
  LInv linit /\ cache_wf (l_disp linit) /\ known (l_disp linit) (2 mod 65536) /\
  lmono (l_now linit) lx_H /\ l_now linit <= t /\
  (forall s, In (s, LCleanup) (lx_states linit lx_H) -> t < l_now s <= t + loop_bound -> pending_at s lx_h 2 [x07]) /\
  (exists s, In (s, LPurge) (lx_states linit lx_H) /\ t + reobs_window < l_now s <= t + reobs_window + reobs_period) /\
  (forall a, t + reobs_window < a <= t + reobs_window + reobs_period + proc_retry_ns ->
     exists s, In (s, LCleanup) (lx_states linit lx_H) /\ a < l_now s <= a + proc_tick_ns) /\
  drained lx_recover lx_keccak lx_sign lx_own 1 (repeat x00 32) (fun _ => None) (fun _ => None) (fun _ => []) [x09] false (fun _ _ _ => []) linit lx_H /\
  (forall u r, ~ In (u, EPost r Reobserve.PostErrChanFull) (snd (lx_run linit lx_H))) /\
  (forall u s r f, Reobserve.key_of r = key_of_msg 2 [x07] -> ~ In (u, EDisp s (Reobserve.Req r f) Reobserve.DropFull) (snd (lx_run linit lx_H))) /\
  exists u s r f x, In (u, EDisp s (Reobserve.Req r f) (Reobserve.Forward x)) (snd (lx_run linit lx_H)) /\ Reobserve.key_of r = key_of_msg 2 [x07] /\ t < f <= t + loop_bound.
Proof.
  cbv zeta.
  assert (Hst : exists l, l = lx_states linit lx_H) by (eexists; reflexivity). destruct Hst as (states & Est).
  assert (Htr : exists l, l = snd (lx_run linit lx_H)) by (eexists; reflexivity). destruct Htr as (tr & Etr).
  assert (P5 : forall s, In (s, LCleanup) states -> 300 * lx_sec < l_now s <= 300 * lx_sec + loop_bound -> pending_at s lx_h 2 [x07]).
  { assert (Hb : forallb (fun so => implb (is_cleanup (snd so) && (300 * lx_sec <? l_now (fst so)) && (l_now (fst so) <=? 300 * lx_sec + loop_bound))
                                         (pending_atb (fst so) lx_h 2 [x07])) states = true) by (rewrite Est; vm_compute; reflexivity).
    intros s Hin [A B]. pose proof (forallb_states _ _ Hb _ Hin) as X. cbn [fst snd is_cleanup andb] in X.
    apply Z.ltb_lt in A. apply Z.leb_le in B. rewrite A, B in X. apply pending_atb_sound. exact X. }
  assert (P6 : exists s, In (s, LPurge) states /\ 300 * lx_sec + reobs_window < l_now s <= 300 * lx_sec + reobs_window + reobs_period).
  { assert (Hb : existsb (fun so => is_purge (snd so) && (300 * lx_sec + reobs_window <? l_now (fst so)) && (l_now (fst so) <=? 300 * lx_sec + reobs_window + reobs_period)) states = true)
      by (rewrite Est; vm_compute; reflexivity).
    apply existsb_exists in Hb as ([s o] & Hin & X). cbn [fst snd] in X. apply andb_prop in X as [X C]. apply andb_prop in X as [A Bq].
    destruct o; try discriminate A. exists s. split; [exact Hin|]. split; [apply Z.ltb_lt; exact Bq|apply Z.leb_le; exact C]. }
  assert (P7 : forall a, 300 * lx_sec + reobs_window < a <= 300 * lx_sec + reobs_window + reobs_period + proc_retry_ns ->
                 exists s, In (s, LCleanup) states /\ a < l_now s <= a + proc_tick_ns).
  { assert (Hb : allz (fun k => existsb (fun so => is_cleanup (snd so) && (l_now (fst so) =? k * (30 * lx_sec))) states) 33 25 = true) by (rewrite Est; vm_compute; reflexivity).
    intros a Ha. set (q := a / (30 * lx_sec)). pose proof (Z.div_mod a (30 * lx_sec) ltac:(discriminate)) as Hd. pose proof (Z.mod_pos_bound a (30 * lx_sec) ltac:(reflexivity)) as Hm.
    fold q in Hd. unfold reobs_window, reobs_period, proc_retry_ns, proc_tick_ns, lx_sec in *.
    assert (Hq : 33 <= q + 1 < 33 + Z.of_nat 25) by (cbn [Z.of_nat]; lia).
    pose proof (allz_sound _ _ _ Hb (q + 1) Hq) as X. cbn beta in X. apply existsb_exists in X as ([s o] & Hin & Y). cbn [fst snd] in Y. apply andb_prop in Y as [A Bq].
    destruct o; try discriminate A. apply Z.eqb_eq in Bq. exists s. split; [exact Hin|]. rewrite Bq. lia. }
  assert (P8a : forall s t0, In (s, LClock t0) states -> l_sendq s = []).
  { assert (Hb : forallb (fun so => implb (is_clock (snd so)) (match l_sendq (fst so) with [] => true | _ => false end)) states = true) by (rewrite Est; vm_compute; reflexivity).
    intros s t0 Hin. pose proof (forallb_states _ _ Hb _ Hin) as X. cbn [fst snd is_clock implb] in X. destruct (l_sendq s); [reflexivity|discriminate]. }
  assert (P9 : forallb (fun e => match snd e with EPost _ Reobserve.PostErrChanFull => false | EDisp _ _ Reobserve.DropFull => false | _ => true end) tr = true) by (rewrite Etr; vm_compute; reflexivity).
  assert (P10 : existsb (fun e => match snd e with EDisp _ (Reobserve.Req r f) (Reobserve.Forward _) => (fst (Reobserve.key_of r) =? 2) && bytes_eqb (snd (Reobserve.key_of r)) [x07] && (300 * lx_sec <? f) && (f <=? 300 * lx_sec + loop_bound) | _ => false end) tr = true)
    by (rewrite Etr; vm_compute; reflexivity).
  subst states tr.
  split; [exact linit_inv|]. split; [constructor|]. split; [vm_compute; discriminate|]. split; [apply lmonob_sound; vm_compute; reflexivity|]. split; [vm_compute; discriminate|].
  split; [exact P5|]. split; [exact P6|]. split; [exact P7|]. split; [split; [exact P8a|vm_compute; reflexivity]|].
  split; [intros u r Hin; pose proof (forallb_states _ _ P9 _ Hin) as X; discriminate X|].
  split; [intros u s r f _ Hin; pose proof (forallb_states _ _ P9 _ Hin) as X; discriminate X|].
  apply existsb_exists in P10 as ([u e] & Hin & X). cbn [snd] in X. destruct e as [| | |s o x|]; try discriminate X. destruct o as [r f| |]; try discriminate X. destruct x; try discriminate X.
  apply andb_prop in X as [X D]. apply andb_prop in X as [X C]. apply andb_prop in X as [A Bq].
  exists u, s, r, f, c. split; [exact Hin|]. split; [|split; [apply Z.ltb_lt; exact C|apply Z.leb_le; exact D]].
  apply Z.eqb_eq in A. apply bytes_eqb_eq in Bq. unfold key_of_msg. destruct (Reobserve.key_of r) as [kc kt]. cbn [fst snd] in *. subst. reflexivity.
Qed.

Print Assumptions C17_loop_hops_are_the_wiring_of_node_go.
Print Assumptions C17_loop_projects_onto_the_dispatcher.
Print Assumptions C17_loop_dispatcher_clock_is_monotone.
Print Assumptions C17_forwarded_again_between.
Print Assumptions C17_loop_cadence.
Print Assumptions C17_loop_bound_is_23_min_30_s.
Print Assumptions C17_loop_forwards_more_than_window_apart.
Print Assumptions C17_loop_request_reaches_every_peer.
Print Assumptions C17_loop_published_request_is_on_the_wire.
Print Assumptions C17_loop_forwarded_is_queued.
Print Assumptions C17_loop_queues_hold_requests_of_their_chain.
