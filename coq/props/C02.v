(* C02 — A VAA is published exactly when the node saw the message and quorum signed.
   Model: WH.model.Processor; vocabulary: WH.model.ProcSpec and the definitions of proofs/ProcC02Proofs.v
   ([accepted]: the head of handleObservation, [nsigned G es]: number of keys of G with a recorded signature,
   [bcast_for h st o]: step o broadcasts a SignedVAAWithQuorum while handling an observation of digest h,
   [quiet_while_alive]: no such broadcast along a continuation for as long as h's entry exists).
   Safety statements hold for every recover/keccak/sign; the liveness half needs the signer to be consistent with recovery
   ([sign_correct], checked by the harness on every signature it records), 32-byte hashes and a 20-byte own address. *)
From Coq Require Import List ZArith Bool Lia.
From Coq Require Import Strings.Byte.
From WH Require Import lib.Bytes gen.Extracted model.Vaa model.Processor model.ProcSpec model.System proofs.VaaProofs proofs.ProcC01Proofs proofs.ProcC02Proofs
     proofs.SystemProofs proofs.SystemLiveProofs.
Import ListNotations.
Open Scope Z_scope.

(* (i) "as soon as": in EVERY reachable state — whatever the arrival order, duplication and interleaving with invalid traffic of
   the events that led to it — an entry for a message the node observed under a set G it is a member of, whose own signature has
   been delivered (no loopback of that digest outstanding), and in which signatures of at least quorum members of G are
   recorded, has been published (submitted). *)
Theorem C02_quorum_delivered_implies_published :
  forall recover keccak sign own gov_chain gov_addr,
    (forall b, length (keccak b) = 32%nat) -> length own = 20%nat ->
    (forall d, length d = 32%nat -> rec recover d (sign d) = Some own) ->
  forall ops h e G, Forall op_wf ops ->
    let st := fst (run recover keccak sign own gov_chain gov_addr init ops) in
    In (h, e) (agg st) -> our_vaa e <> None -> gs_snap e = Some G -> In own (keys G) ->
    (forall o, In o (loopq st) -> o_hash o <> h) ->
    go_quorum (Z.of_nat (length (keys G))) <= nsigned G (esigs e) -> submitted e = true.
Proof. exact quorum_implies_published. Qed.

(* (iv) the same over whole histories — order independence: whatever the order, duplication and interleaving with other traffic,
   if the history contains accepted observations of the digest by >= quorum pairwise distinct members of the set G under which
   the node observed the message ([accepted_and_alive]: delivered by gossip or loopback, valid signature of a member of the set
   applicable at that moment, and the entry has existed ever since), the node is a member of G and its own signature is no
   longer on its way, then the VAA has been published. *)
Theorem C02_order_independent_publication :
  forall recover keccak sign own gov_chain gov_addr,
    (forall b, length (keccak b) = 32%nat) -> length own = 20%nat ->
    (forall d, length d = 32%nat -> rec recover d (sign d) = Some own) ->
  forall ops h e G (signers : list addr), Forall op_wf ops ->
    let st := fst (run recover keccak sign own gov_chain gov_addr init ops) in
    In (h, e) (agg st) -> our_vaa e <> None -> gs_snap e = Some G -> In own (keys G) ->
    (forall o, In o (loopq st) -> o_hash o <> h) ->
    NoDup signers -> incl signers (keys G) -> go_quorum (Z.of_nat (length (keys G))) <= Z.of_nat (length signers) ->
    (forall a, In a signers -> accepted_and_alive recover keccak sign own gov_chain gov_addr h a init ops) ->
    submitted e = true.
Proof. exact order_independent_publication. Qed.

(* what "delivered" contributes: an observation that carries a valid signature of a member of the applicable set (and only such
   an observation, C03) is recorded in the entry of its digest ... *)
Theorem C02_accepted_observation_is_recorded :
  forall recover keccak O L st o a g, Inv1 recover keccak O L st -> accepted recover st o = Some (a, g) ->
  exists e', alookup (o_hash o) (agg (fst (handle_obs recover st o))) = Some e' /\ alookup a (esigs e') = Some (o_sig o).
Proof. exact accepted_is_recorded. Qed.

(* ... and recorded signatures, like the submitted flag, persist for as long as the entry lives, through every kind of step *)
Theorem C02_recorded_signatures_and_submitted_persist :
  forall recover keccak sign own gov_chain gov_addr O L st o h e e', Inv1 recover keccak O L st -> KeysND st ->
  alookup h (agg st) = Some e -> alookup h (agg (fst (step recover keccak sign own gov_chain gov_addr st o))) = Some e' ->
  (submitted e = true -> submitted e' = true) /\ (forall a, alookup a (esigs e) <> None -> alookup a (esigs e') <> None).
Proof. exact step_entry_persists. Qed.

(* (ii) never without an own observation, never twice: a broadcast happens only while handling an observation, only for a digest
   whose entry holds the node's own VAA and is not yet submitted, and it sets submitted ... *)
Theorem C02_broadcast_only_from_observed_and_pending :
  forall recover keccak sign own gov_chain gov_addr O L st o h, Inv1 recover keccak O L st ->
  bcast_for recover keccak sign own gov_chain gov_addr h st o = true ->
  (exists e0, alookup h (agg st) = Some e0 /\ our_vaa e0 <> None /\ submitted e0 = false) /\
  (exists e', alookup h (agg (fst (step recover keccak sign own gov_chain gov_addr st o))) = Some e' /\ submitted e' = true).
Proof. exact bcast_only_from_pending. Qed.

(* ... and from then on, along EVERY continuation, nothing is broadcast for that digest again within the entry's lifetime *)
Theorem C02_at_most_once_per_aggregation_lifetime :
  forall recover keccak sign own gov_chain gov_addr h ops O L st e, Inv1 recover keccak O L st -> KeysND st -> Forall op_wf ops ->
  alookup h (agg st) = Some e -> submitted e = true ->
  quiet_while_alive recover keccak sign own gov_chain gov_addr h st ops.
Proof. exact no_second_broadcast. Qed.

(* the two invariants these statements are relative to hold in every reachable state *)
Theorem C02_invariants_reachable :
  forall recover keccak sign own gov_chain gov_addr ops, Forall op_wf ops ->
  (exists O, Inv1 recover keccak O (learned [] ops) (fst (run recover keccak sign own gov_chain gov_addr init ops))) /\
  KeysND (fst (run recover keccak sign own gov_chain gov_addr init ops)).
Proof. exact reachable_invariants. Qed.

(* fewer than quorum distinct members never suffice, and the published body is the node's own observation: these are C01's
   statement (every broadcast VAA is [marshal (set_sigs v sg)] for an observed v, with >= quorum distinct valid member signatures) ... *)
Theorem C02_published_body_is_own_observation : forall v sg, body (set_sigs v sg) = body v.
Proof. exact published_body_is_own. Qed.

(* (v) re-observing the same message is idempotent: same digest (whatever set is current), hence the same entry, and by the
   theorem above no second broadcast *)
Theorem C02_reobservation_same_digest : forall keccak i j m, dg keccak (vaa_of_message i m) = dg keccak (vaa_of_message j m).
Proof. exact reobserve_same_digest. Qed.

(* (vi) a chain observation that names the governance emitter is never signed: no output, no state change *)
Theorem C02_governance_emitter_never_signed :
  forall keccak sign own gov_chain gov_addr st m, m_eaddr m = gov_addr -> m_echain m = gov_chain ->
  handle_message keccak sign own gov_chain gov_addr st m = (st, []).
Proof. exact governance_emitter_dropped. Qed.

(* non-vacuity: the history of C01's example reaches a state that satisfies the premises of (i) (and is submitted) *)
Definition ex_own : addr := repeat x01 20.
Definition ex_recover (h s : bytes) : option bytes := Some (firstn 20 s).
Definition ex_keccak (b : bytes) : bytes := repeat x00 32.
Definition ex_sign (d : bytes) : bytes := ex_own ++ repeat x00 45.
Definition ex_msg : msgpub := {| m_tx := [x07]; m_ts := 1700000000; m_tns := 0; m_nonce := 1; m_seq := 5; m_cl := 1;
                                 m_echain := 2; m_tchain := 255; m_eaddr := repeat x02 32; m_payload := [x01; x02] |}.
Definition ex_G : gset := {| keys := [ex_own]; gidx := 3 |}.
Definition ex_ops : list op := [SetGS ex_G; LocalMsg ex_msg; Loopback 0].
Example C02_premises_satisfiable :
  let st := fst (run ex_recover ex_keccak ex_sign ex_own 1 (repeat x00 32) init ex_ops) in
  match agg st with
  | [(h, e)] => our_vaa e <> None /\ gs_snap e = Some ex_G /\ In ex_own (keys ex_G) /\ loopq st = [] /\
                go_quorum 1 <= nsigned ex_G (esigs e) /\ submitted e = true
  | _ => False
  end.
Proof. vm_compute. repeat split; try discriminate; try (left; reflexivity). Qed.

(* ... and of (iv): in that history the node's own observation was accepted (by loopback) and the entry lived on *)
Example C02_accepted_and_alive_satisfiable :
  accepted_and_alive ex_recover ex_keccak ex_sign ex_own 1 (repeat x00 32) (repeat x00 32) ex_own init ex_ops.
Proof.
  unfold ex_ops. cbn [accepted_and_alive]. right. right. left. split.
  - exists {| o_addr := ex_own; o_hash := repeat x00 32; o_sig := ex_sign (repeat x00 32); o_tx := [x07] |}, ex_G.
    split; [vm_compute; reflexivity|]. split; [reflexivity|vm_compute; reflexivity].
  - vm_compute. discriminate.
Qed.

(* ================================================================== liveness, one node, over a window of its history ==============
   [happens f P st ops]: somewhere along the run from st over ops, P holds of the state and the op handled in it.
   [ev_msg m]: the node handles the chain message m and signs it (an observation goes out); [ev_obs h a]: an observation of digest h
   carrying a valid signature of a arrives by gossip.  Window = a stretch of the node's history without guardian-set change and
   without cleanup tick ([calm]), starting in a reachable state in which G is in force and nothing is known about the message.
   Then: if the node observed m, observations of >= quorum pairwise distinct members of G (its own counted) arrived in the window —
   in any order, duplicated, interleaved with any other traffic — and its own signature has looped back, the entry is published. *)
Theorem C02_window_liveness :
  forall recover keccak sign own gov_chain gov_addr,
    (forall b, length (keccak b) = 32%nat) -> length own = 20%nat ->
    (forall d, length d = 32%nat -> rec recover d (sign d) = Some own) ->
  forall G h, In own (keys G) ->
  forall ops0 ops (signers : list addr) m,
    Forall op_wf ops0 -> Forall op_wf ops -> forallb calm ops = true ->
    let stp := fun st o => fst (step recover keccak sign own gov_chain gov_addr st o) in
    let st0 := fst (run recover keccak sign own gov_chain gov_addr init ops0) in
    let st := fst (run recover keccak sign own gov_chain gov_addr st0 ops) in
    cur st0 = Some G -> alookup h (agg st0) = None -> gs_wf G ->
    dg keccak (vaa_of_message 0 m) = h ->
    happens stp (ev_msg recover keccak sign own gov_chain gov_addr m) st0 ops ->
    NoDup signers -> incl signers (keys G) -> go_quorum (Z.of_nat (length (keys G))) <= Z.of_nat (length signers) ->
    (forall a, In a signers -> a <> own -> happens stp (ev_obs recover h a) st0 ops) ->
    (forall o, In o (loopq st) -> o_hash o <> h) ->
    exists e, alookup h (agg st) = Some e /\ our_vaa e <> None /\ gs_snap e = Some G /\ submitted e = true.
Proof. exact window_liveness. Qed.

(* "submitted" is not only a flag: an entry that is submitted at the end of a history that started without it (or with it pending)
   was broadcast — a SignedVAAWithQuorum went out — in one of the history's steps *)
Theorem C02_submitted_means_broadcast_in_an_earlier_step :
  forall recover keccak sign own gov_chain gov_addr h e' ops O L st,
    Inv1 recover keccak O L st -> KeysND st -> Forall op_wf ops -> fresh h st ->
    alookup h (agg (fst (run recover keccak sign own gov_chain gov_addr st ops))) = Some e' -> submitted e' = true ->
    happens (fun st o => fst (step recover keccak sign own gov_chain gov_addr st o))
            (fun st o => bcast_for recover keccak sign own gov_chain gov_addr h st o = true) st ops.
Proof. exact submitted_was_broadcast. Qed.

(* ================================================================== network-level liveness (model/System.v) =======================
   N nodes, adversarial network.  After ANY pre-history xs0, over ANY continuation xs in which node i gets no set change and no
   cleanup tick: if G is in force at node i and i knows nothing about m yet; S is a set of >= quorum HONEST members of G (their
   signers are consistent with recovery) that contains i; i observes m ([ev_observes]); for every other j in S, j's observation of
   m — which is on the wire only if j observed m — is delivered to i at some point ([ev_delivered]: fair delivery; any order, any
   duplication, any interleaving with adversarial items and with everything else the network does); and i's own signature has looped
   back — then i's entry for m is published ... *)
Theorem C02_network_liveness :
  forall recover keccak gov_chain gov_addr owns signs, (forall b, length (keccak b) = 32%nat) ->
  forall N xs0 xs i G m (S : list nat), (i < N)%nat -> Forall nop_wf xs0 -> Forall nop_wf xs ->
    let stp := fun n x => fst (nstep recover keccak gov_chain gov_addr owns signs n x) in
    let n0 := fst (nrun recover keccak gov_chain gov_addr owns signs (ninit N) xs0) in
    let n1 := fst (nrun recover keccak gov_chain gov_addr owns signs n0 xs) in
    let h := dg keccak (vaa_of_message 0 m) in
    (forall st0, nth_error (nodes n0) i = Some st0 -> cur st0 = Some G /\ alookup h (agg st0) = None) -> gs_wf G ->
    (forall x, In x xs -> target x = i -> calm_nop x = true) ->
    NoDup (map owns S) -> (forall j, In j S -> honest_member recover owns signs G j) ->
    go_quorum (Z.of_nat (length (keys G))) <= Z.of_nat (length S) -> In i S ->
    happens stp (ev_observes recover keccak gov_chain gov_addr owns signs i m) n0 xs ->
    (forall j, In j S -> j <> i -> happens stp (ev_delivered owns signs i j h) n0 xs) ->
    (forall st, nth_error (nodes n1) i = Some st -> forall o, In o (loopq st) -> o_hash o <> h) ->
    exists st e, nth_error (nodes n1) i = Some st /\ alookup h (agg st) = Some e /\
                 our_vaa e <> None /\ gs_snap e = Some G /\ submitted e = true.
Proof. exact net_liveness. Qed.

(* ... and there is a step of the network, inside the window, at which node i puts the SignedVAAWithQuorum on the wire (by C01's
   network theorem it is a valid quorum VAA of G built from i's own observation of m) *)
Theorem C02_network_liveness_publishes :
  forall recover keccak gov_chain gov_addr owns signs, (forall b, length (keccak b) = 32%nat) ->
  forall N xs0 xs i G m (S : list nat), (i < N)%nat -> Forall nop_wf xs0 -> Forall nop_wf xs ->
    let stp := fun n x => fst (nstep recover keccak gov_chain gov_addr owns signs n x) in
    let n0 := fst (nrun recover keccak gov_chain gov_addr owns signs (ninit N) xs0) in
    let n1 := fst (nrun recover keccak gov_chain gov_addr owns signs n0 xs) in
    let h := dg keccak (vaa_of_message 0 m) in
    (forall st0, nth_error (nodes n0) i = Some st0 -> cur st0 = Some G /\ alookup h (agg st0) = None) -> gs_wf G ->
    (forall x, In x xs -> target x = i -> calm_nop x = true) ->
    NoDup (map owns S) -> (forall j, In j S -> honest_member recover owns signs G j) ->
    go_quorum (Z.of_nat (length (keys G))) <= Z.of_nat (length S) -> In i S ->
    happens stp (ev_observes recover keccak gov_chain gov_addr owns signs i m) n0 xs ->
    (forall j, In j S -> j <> i -> happens stp (ev_delivered owns signs i j h) n0 xs) ->
    (forall st, nth_error (nodes n1) i = Some st -> forall o, In o (loopq st) -> o_hash o <> h) ->
    happens stp (ev_publishes recover keccak gov_chain gov_addr owns signs i h) n0 xs.
Proof. exact net_liveness_publishes. Qed.

Theorem C02_network_publish_event_is_a_broadcast :
  forall recover keccak gov_chain gov_addr owns signs i h n x, ev_publishes recover keccak gov_chain gov_addr owns signs i h n x ->
  existsb is_bcast (snd (nstep recover keccak gov_chain gov_addr owns signs n x)) = true.
Proof. exact ev_publishes_output. Qed.

(* what an honest observer puts on the wire when it signs a chain message: its observation of the message's digest (the item the
   fair-delivery premise speaks about) *)
Theorem C02_observer_emits_its_observation :
  forall keccak gov_chain gov_addr sign own st m,
  existsb is_sendobs (snd (handle_message keccak sign own gov_chain gov_addr st m)) = true ->
  In (SendObs {| o_addr := own; o_hash := dg keccak (vaa_of_message 0 m); o_sig := sign (dg keccak (vaa_of_message 0 m)); o_tx := m_tx m |})
     (snd (handle_message keccak sign own gov_chain gov_addr st m)).
Proof. exact observer_emits. Qed.

(* non-vacuity of the network statement: two guardians (toy oracles), set {0, 1} (quorum 2); after both learned the set, node 1 and
   node 0 observe the message, an adversarial item and node 1's observation reach node 0, node 0's own signature loops back *)
Definition nx_owns (i : nat) : addr := repeat (byte_of_Z (Z.of_nat i + 1)) 20.
Definition nx_signs (i : nat) (d : bytes) : bytes := nx_owns i ++ repeat x00 45.
Definition nx_G : gset := {| keys := [nx_owns 0; nx_owns 1]; gidx := 3 |}.
Definition nx_pre : list nop := [NEnv 0 (ESetGS nx_G); NEnv 1 (ESetGS nx_G)].
Definition nx_win : list nop := [NEnv 1 (EMsg ex_msg); NEnv 0 (EMsg ex_msg); NAdv 0 (GVaa [x00]); NDeliver 0 0; NLoop 0 0].
Example C02_network_liveness_premises_satisfiable :
  let stp := fun n x => fst (nstep ex_recover ex_keccak 1 (repeat x00 32) nx_owns nx_signs n x) in
  let n0 := fst (nrun ex_recover ex_keccak 1 (repeat x00 32) nx_owns nx_signs (ninit 2) nx_pre) in
  let n1 := fst (nrun ex_recover ex_keccak 1 (repeat x00 32) nx_owns nx_signs n0 nx_win) in
  let h := dg ex_keccak (vaa_of_message 0 ex_msg) in
  Forall nop_wf nx_pre /\ Forall nop_wf nx_win /\
  (forall st0, nth_error (nodes n0) 0 = Some st0 -> cur st0 = Some nx_G /\ alookup h (agg st0) = None) /\ gs_wf nx_G /\
  (forall x, In x nx_win -> target x = 0%nat -> calm_nop x = true) /\
  NoDup (map nx_owns [0; 1]%nat) /\ (forall j, In j [0; 1]%nat -> honest_member ex_recover nx_owns nx_signs nx_G j) /\
  go_quorum (Z.of_nat (length (keys nx_G))) <= Z.of_nat (length [0; 1]%nat) /\
  happens stp (ev_observes ex_recover ex_keccak 1 (repeat x00 32) nx_owns nx_signs 0 ex_msg) n0 nx_win /\
  happens stp (ev_delivered nx_owns nx_signs 0 1 h) n0 nx_win /\
  (forall st, nth_error (nodes n1) 0 = Some st -> forall o, In o (loopq st) -> o_hash o <> h) /\
  (* ... and the conclusion, computed *)
  (exists st e, nth_error (nodes n1) 0 = Some st /\ alookup h (agg st) = Some e /\ submitted e = true).
Proof.
  assert (Hwf : gs_wf nx_G).
  { split; [|cbn; lia]. constructor; [intros [H|[]]; discriminate H|constructor; [intros []|constructor]]. }
  cbv zeta. repeat apply conj.
  - constructor; [exact Hwf|constructor; [exact Hwf|constructor]].
  - repeat (constructor; [exact I|]). constructor.
  - intros st0 H. vm_compute in H. inversion H; subst st0. split; reflexivity.
  - exact (proj1 Hwf).
  - exact (proj2 Hwf).
  - intros x Hx _. repeat (destruct Hx as [<-|Hx]; [reflexivity|]). destruct Hx.
  - constructor; [intros [H|[]]; discriminate H|constructor; [intros []|constructor]].
  - intros j [<-|[<-|[]]]; (split; [cbn; tauto|split; [reflexivity|]]); intros d Hd; unfold Processor.rec, recover_checked; rewrite Hd; reflexivity.
  - vm_compute. discriminate.
  - cbn [happens nx_win]. right. left. split; [reflexivity|vm_compute; reflexivity].
  - cbn [happens nx_win]. right. right. right. left. exists 0%nat, [x07]. split; [reflexivity|vm_compute; reflexivity].
  - intros st H. vm_compute in H. inversion H; subst st. intros o [].
  - eexists. eexists. split; [vm_compute; reflexivity|]. split; vm_compute; reflexivity.
Qed.

Print Assumptions C02_quorum_delivered_implies_published.
Print Assumptions C02_order_independent_publication.
Print Assumptions C02_accepted_observation_is_recorded.
Print Assumptions C02_recorded_signatures_and_submitted_persist.
Print Assumptions C02_broadcast_only_from_observed_and_pending.
Print Assumptions C02_at_most_once_per_aggregation_lifetime.
Print Assumptions C02_invariants_reachable.
Print Assumptions C02_published_body_is_own_observation.
Print Assumptions C02_reobservation_same_digest.
Print Assumptions C02_governance_emitter_never_signed.
Print Assumptions C02_window_liveness.
Print Assumptions C02_submitted_means_broadcast_in_an_earlier_step.
Print Assumptions C02_network_liveness.
Print Assumptions C02_network_liveness_publishes.
Print Assumptions C02_network_publish_event_is_a_broadcast.
Print Assumptions C02_observer_emits_its_observation.

(* ================================================================================================================================
   Extension X10 — closing two gaps of the network-level statements.
   (A) LIVENESS OVER WINDOWS THAT CONTAIN CLEANUP TICKS (proofs/ClosureProofs3.v).  The window above excludes guardian-set changes
   and cleanup ticks at node i.  Here only set changes are excluded ([steady] / [steady_nop]); cleanup ticks, clock steps and retries
   may occur at node i, as long as no tick of the window DELETES node i's entry of the message ([tick_keeps h st]: the per-entry
   function of C14 does not answer CDelete for the entry of h in the state in which the tick is taken).  A tick that settles or
   retries the entry (re-sends the observation, posts a re-observation request) changes neither its recorded signatures nor the
   node's own VAA nor the set it aggregates under.  [C02_entry_survives_tick] gives C14's schedule conditions under which a tick
   keeps an entry.
   (B) AGREEMENT AS ONE THEOREM OVER TWO PUBLICATION LOGS (model/PubLog.v, proofs/ClosureProofs5.v): [pubs_of i n xs] = the
   SignedVAAWithQuorum byte strings node i broadcast along the network history xs. *)
From WH Require Import model.PubLog proofs.ClosureProofs3 proofs.ClosureProofs5 proofs.ClosureProofsEx0 proofs.ClosureProofsExB.

(* C14's schedule: a completed entry younger than an hour, or a pending entry for which no quorum VAA is stored (or that is at most
   30 s old) and that holds the node's own observation with retry budget left or is younger than five minutes, is not deleted *)
Theorem C02_entry_survives_tick : forall now indb ck e,
  (submitted e = true -> now - first_seen e < proc_submitted_expiry_ns) ->
  (submitted e = false ->
     (indb = false \/ now - first_seen e <= proc_settlement_ns) /\
     ((our_msg e <> None /\ retries e < proc_own_retry_budget) \/
      (our_msg e = None /\ now - first_seen e < proc_retry_after_ns /\ retries e < proc_nil_retry_budget))) ->
  cleanup_entry now indb ck e <> CDelete.
Proof. exact entry_survives_tick. Qed.

(* what a tick that keeps an entry leaves alone *)
Theorem C02_kept_entry_keeps_its_signatures : forall now indb ck e e' o, cleanup_entry now indb ck e = CKeep e' o ->
  gs_snap e' = gs_snap e /\ our_vaa e' = our_vaa e /\ esigs e' = esigs e /\ submitted e' = submitted e.
Proof. exact keep_same. Qed.

(* one node: a window of its history without set change whose cleanup ticks keep the entry of h; the entry is published at the end of
   the window and some step of the window broadcast it *)
Theorem C02_window_liveness_with_cleanup_ticks :
  forall recover keccak sign own gov_chain gov_addr,
    (forall b, length (keccak b) = 32%nat) -> length own = 20%nat ->
    (forall d, length d = 32%nat -> rec recover d (sign d) = Some own) ->
  forall G h, In own (keys G) ->
  forall ops0 ops (signers : list addr) m,
    Forall op_wf ops0 -> Forall op_wf ops -> forallb steady ops = true ->
    let stp := fun st o => fst (step recover keccak sign own gov_chain gov_addr st o) in
    let st0 := fst (run recover keccak sign own gov_chain gov_addr init ops0) in
    let st := fst (run recover keccak sign own gov_chain gov_addr st0 ops) in
    always stp (fun s o => o = Cleanup -> tick_keeps h s) st0 ops ->
    cur st0 = Some G -> alookup h (agg st0) = None -> gs_wf G ->
    dg keccak (vaa_of_message 0 m) = h ->
    happens stp (ev_msg recover keccak sign own gov_chain gov_addr m) st0 ops ->
    NoDup signers -> incl signers (keys G) -> go_quorum (Z.of_nat (length (keys G))) <= Z.of_nat (length signers) ->
    (forall a, In a signers -> a <> own -> happens stp (ev_obs recover h a) st0 ops) ->
    (forall o, In o (loopq st) -> o_hash o <> h) ->
    (exists e, alookup h (agg st) = Some e /\ our_vaa e <> None /\ gs_snap e = Some G /\ submitted e = true) /\
    happens stp (fun s o => bcast_for recover keccak sign own gov_chain gov_addr h s o = true) st0 ops.
Proof. exact window_liveness_ticks. Qed.

(* the network: as C02_network_liveness / C02_network_liveness_publishes, over windows that contain cleanup ticks at node i *)
Theorem C02_network_liveness_with_cleanup_ticks :
  forall recover keccak gov_chain gov_addr owns signs, (forall b, length (keccak b) = 32%nat) ->
  forall N xs0 xs i G m (S : list nat), (i < N)%nat -> Forall nop_wf xs0 -> Forall nop_wf xs ->
    let stp := fun n x => fst (nstep recover keccak gov_chain gov_addr owns signs n x) in
    let n0 := fst (nrun recover keccak gov_chain gov_addr owns signs (ninit N) xs0) in
    let n1 := fst (nrun recover keccak gov_chain gov_addr owns signs n0 xs) in
    let h := dg keccak (vaa_of_message 0 m) in
    (forall st0, nth_error (nodes n0) i = Some st0 -> cur st0 = Some G /\ alookup h (agg st0) = None) -> gs_wf G ->
    (forall x, In x xs -> target x = i -> steady_nop x = true) ->
    always stp (fun n x => x = NEnv i ECleanup -> forall st, nth_error (nodes n) i = Some st -> tick_keeps h st) n0 xs ->
    NoDup (map owns S) -> (forall j, In j S -> honest_member recover owns signs G j) ->
    go_quorum (Z.of_nat (length (keys G))) <= Z.of_nat (length S) -> In i S ->
    happens stp (ev_observes recover keccak gov_chain gov_addr owns signs i m) n0 xs ->
    (forall j, In j S -> j <> i -> happens stp (ev_delivered owns signs i j h) n0 xs) ->
    (forall st, nth_error (nodes n1) i = Some st -> forall o, In o (loopq st) -> o_hash o <> h) ->
    (exists st e, nth_error (nodes n1) i = Some st /\ alookup h (agg st) = Some e /\
                  our_vaa e <> None /\ gs_snap e = Some G /\ submitted e = true) /\
    happens stp (ev_publishes recover keccak gov_chain gov_addr owns signs i h) n0 xs.
Proof. exact net_liveness_ticks. Qed.

(* non-vacuity: two guardians (quorum 2); the window at node 0 holds three cleanup ticks - one that does nothing, one that SETTLES the
   entry (45 s), one that RETRIES it (350 s: a re-observation request and the re-sent observation go out) -; every premise holds and
   the conclusion is computed: published at the loopback, the entry settled and retried once *)
Example C02_liveness_with_cleanup_ticks_premises_satisfiable :
  let stp := fun n x => fst (tx_nstep n x) in
  let n0 := fst (tx_nrun (ninit 2) tx_pre) in
  let n1 := fst (tx_nrun n0 tx_win) in
  let h := dg qx_keccak (vaa_of_message 0 qx_msg) in
  Forall nop_wf tx_pre /\ Forall nop_wf tx_win /\
  (forall st0, nth_error (nodes n0) 0 = Some st0 -> cur st0 = Some qx_G /\ alookup h (agg st0) = None) /\ gs_wf qx_G /\
  (forall x, In x tx_win -> target x = 0%nat -> steady_nop x = true) /\
  net_ticks_keep qx_recover qx_keccak 1 (repeat x00 32) qx_owns qx_signs 0 h n0 tx_win /\
  NoDup (map qx_owns [0; 1]%nat) /\ (forall j, In j [0; 1]%nat -> honest_member qx_recover qx_owns qx_signs qx_G j) /\
  go_quorum (Z.of_nat (length (keys qx_G))) <= Z.of_nat (length [0; 1]%nat) /\
  happens stp (ev_observes qx_recover qx_keccak 1 (repeat x00 32) qx_owns qx_signs 0 qx_msg) n0 tx_win /\
  happens stp (ev_delivered qx_owns qx_signs 0 1 h) n0 tx_win /\
  (forall st, nth_error (nodes n1) 0 = Some st -> forall o, In o (loopq st) -> o_hash o <> h) /\
  map (fun outs => length outs) (snd (tx_nrun n0 tx_win)) = [0; 2; 2; 0; 0; 0; 0; 0; 2; 2]%nat /\
  (exists st e, nth_error (nodes n1) 0 = Some st /\ alookup h (agg st) = Some e /\ submitted e = true /\ settled e = true /\ retries e = 1).
Proof. exact ex_liveness_with_ticks. Qed.

(* ---- (B) agreement.  What every node's publication log holds, along every network history: wire forms of VAAs with a valid quorum
   of a set that node learned from chain *)
Theorem C02_publication_logs_hold_quorum_valid_vaas :
  forall recover keccak gov_chain gov_addr owns signs N xs i b, Forall nop_wf xs ->
  In b (pubs_of recover keccak gov_chain gov_addr owns signs i (ninit N) xs) ->
  exists v g, b = marshal v /\ qvalid recover keccak v (keys g) /\ In g (net_learned i xs).
Proof. exact pubs_are_quorum_valid. Qed.

(* THE HYPOTHESIS ABOUT THE ORACLE: [one_digest_per_id recover keccak a] = whenever two VAAs with the same identifier (emitter chain,
   emitter address, target chain, sequence) both carry a signature that [recover]s to a over their own digests, the digests are equal
   ("member a signs at most one digest per message id": honesty of the signer and unforgeability, as a property of the oracle).
   AGREEMENT: for every N and every network history, what node i and node j ever broadcast are quorum-valid VAAs of sets they learned;
   if two of them name the same message id, were assembled under the same key set, and at most a third of that set is faulty (every
   other member satisfies the hypothesis), they have the same digest *)
Theorem C02_network_agreement_over_publication_logs :
  forall recover keccak gov_chain gov_addr owns signs N xs i j b1 b2, Forall nop_wf xs ->
  In b1 (pubs_of recover keccak gov_chain gov_addr owns signs i (ninit N) xs) ->
  In b2 (pubs_of recover keccak gov_chain gov_addr owns signs j (ninit N) xs) ->
  exists v1 v2 g1 g2, b1 = marshal v1 /\ b2 = marshal v2 /\ qvalid recover keccak v1 (keys g1) /\ qvalid recover keccak v2 (keys g2) /\
    In g1 (net_learned i xs) /\ In g2 (net_learned j xs) /\
    forall faulty : list addr, id_of v1 = id_of v2 -> keys g1 = keys g2 ->
      3 * Z.of_nat (length faulty) <= Z.of_nat (length (keys g1)) ->
      (forall a, In a (keys g1) -> ~ In a faulty -> one_digest_per_id recover keccak a) ->
      dg keccak v1 = dg keccak v2.
Proof. exact net_agreement. Qed.

(* WITHOUT the hypothesis agreement fails - computed witness (permissive recovery oracle, a hash that tells the two bodies apart): a
   set of four; members 1 and 2 (more than a third) have valid signatures over two different digests of ONE message id; honest nodes
   0 and 3 observed different contents for that id; the real handlers make each of them publish a quorum VAA: same id, different
   digests - and [one_digest_per_id] fails exactly for members 1 and 2 *)
Example C02_equivocation_by_more_than_a_third_breaks_agreement :
  Forall nop_wf wx_xs /\
  wx_pubs 0%nat (ninit 4) wx_xs = [marshal wx_v1] /\ wx_pubs 3%nat (ninit 4) wx_xs = [marshal wx_v2] /\
  id_of wx_v1 = id_of wx_v2 /\ dg wx_keccak wx_v1 <> dg wx_keccak wx_v2 /\
  signed_by qx_recover wx_keccak wx_v1 (qx_owns 1) /\ signed_by qx_recover wx_keccak wx_v2 (qx_owns 1) /\
  signed_by qx_recover wx_keccak wx_v1 (qx_owns 2) /\ signed_by qx_recover wx_keccak wx_v2 (qx_owns 2) /\
  ~ one_digest_per_id qx_recover wx_keccak (qx_owns 1) /\ ~ one_digest_per_id qx_recover wx_keccak (qx_owns 2) /\
  3 * Z.of_nat (length [qx_owns 1; qx_owns 2]) > Z.of_nat (length (keys wx_G)).
Proof. exact ex_equivocation. Qed.

(* ... and the hypothesis is satisfiable by a non-trivial oracle: member hx_a has valid signatures over one digest only, every other
   address over anything *)
Example C02_agreement_hypothesis_satisfiable : forall keccak, one_digest_per_id hx_recover keccak hx_a.
Proof. exact ex_one_digest_per_id. Qed.

Print Assumptions C02_entry_survives_tick.
Print Assumptions C02_kept_entry_keeps_its_signatures.
Print Assumptions C02_window_liveness_with_cleanup_ticks.
Print Assumptions C02_network_liveness_with_cleanup_ticks.
Print Assumptions C02_publication_logs_hold_quorum_valid_vaas.
Print Assumptions C02_network_agreement_over_publication_logs.
