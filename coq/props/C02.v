(* C02 — A VAA is published exactly when the node saw the message and quorum signed.
   Model: WH.model.Processor; vocabulary: WH.model.ProcSpec and the definitions of proofs/ProcC02Proofs.v
   ([accepted]: the head of handleObservation, [nsigned G es]: number of keys of G with a recorded signature,
   [bcast_for h st o]: step o broadcasts a SignedVAAWithQuorum while handling an observation of digest h,
   [quiet_while_alive]: no such broadcast along a continuation for as long as h's entry exists).
   Safety statements hold for every recover/keccak/sign; the liveness half needs the signer to be consistent with recovery
   ([sign_correct], checked by the harness on every signature it records), 32-byte hashes and a 20-byte own address. *)
From Coq Require Import List ZArith Bool Lia.
From Coq Require Import Strings.Byte.
From WH Require Import lib.Bytes gen.Extracted model.Vaa model.Processor model.ProcSpec proofs.VaaProofs proofs.ProcC01Proofs proofs.ProcC02Proofs.
Import ListNotations.
Open Scope Z_scope.

(* (i) "as soon as": in EVERY reachable state — whatever the arrival order, duplication and interleaving with invalid traffic of
   the events that led to it — an entry for a message the node observed under a set G it is a member of, whose own signature has
   been delivered (no loopback of that digest outstanding), and in which signatures of at least quorum members of G are
   recorded, has been published (submitted). *)
Theorem C02_quorum_delivered_implies_published :
  forall recover keccak sign own gov_chain gov_addr,
    (forall b, length (keccak b) = 32%nat) -> length own = 20%nat ->
    (forall d, length d = 32%nat -> rec recover d (sign d) = Some own) ->
  forall ops h e G, Forall op_wf ops ->
    let st := fst (run recover keccak sign own gov_chain gov_addr init ops) in
    In (h, e) (agg st) -> our_vaa e <> None -> gs_snap e = Some G -> In own (keys G) ->
    (forall o, In o (loopq st) -> o_hash o <> h) ->
    go_quorum (Z.of_nat (length (keys G))) <= nsigned G (esigs e) -> submitted e = true.
Proof. exact quorum_implies_published. Qed.

(* (iv) the same over whole histories — order independence: whatever the order, duplication and interleaving with other traffic,
   if the history contains accepted observations of the digest by >= quorum pairwise distinct members of the set G under which
   the node observed the message ([accepted_and_alive]: delivered by gossip or loopback, valid signature of a member of the set
   applicable at that moment, and the entry has existed ever since), the node is a member of G and its own signature is no
   longer on its way, then the VAA has been published. *)
Theorem C02_order_independent_publication :
  forall recover keccak sign own gov_chain gov_addr,
    (forall b, length (keccak b) = 32%nat) -> length own = 20%nat ->
    (forall d, length d = 32%nat -> rec recover d (sign d) = Some own) ->
  forall ops h e G (signers : list addr), Forall op_wf ops ->
    let st := fst (run recover keccak sign own gov_chain gov_addr init ops) in
    In (h, e) (agg st) -> our_vaa e <> None -> gs_snap e = Some G -> In own (keys G) ->
    (forall o, In o (loopq st) -> o_hash o <> h) ->
    NoDup signers -> incl signers (keys G) -> go_quorum (Z.of_nat (length (keys G))) <= Z.of_nat (length signers) ->
    (forall a, In a signers -> accepted_and_alive recover keccak sign own gov_chain gov_addr h a init ops) ->
    submitted e = true.
Proof. exact order_independent_publication. Qed.

(* what "delivered" contributes: an observation that carries a valid signature of a member of the applicable set (and only such
   an observation, C03) is recorded in the entry of its digest ... *)
Theorem C02_accepted_observation_is_recorded :
  forall recover keccak O L st o a g, Inv1 recover keccak O L st -> accepted recover st o = Some (a, g) ->
  exists e', alookup (o_hash o) (agg (fst (handle_obs recover st o))) = Some e' /\ alookup a (esigs e') = Some (o_sig o).
Proof. exact accepted_is_recorded. Qed.

(* ... and recorded signatures, like the submitted flag, persist for as long as the entry lives, through every kind of step *)
Theorem C02_recorded_signatures_and_submitted_persist :
  forall recover keccak sign own gov_chain gov_addr O L st o h e e', Inv1 recover keccak O L st -> KeysND st ->
  alookup h (agg st) = Some e -> alookup h (agg (fst (step recover keccak sign own gov_chain gov_addr st o))) = Some e' ->
  (submitted e = true -> submitted e' = true) /\ (forall a, alookup a (esigs e) <> None -> alookup a (esigs e') <> None).
Proof. exact step_entry_persists. Qed.

(* (ii) never without an own observation, never twice: a broadcast happens only while handling an observation, only for a digest
   whose entry holds the node's own VAA and is not yet submitted, and it sets submitted ... *)
Theorem C02_broadcast_only_from_observed_and_pending :
  forall recover keccak sign own gov_chain gov_addr O L st o h, Inv1 recover keccak O L st ->
  bcast_for recover keccak sign own gov_chain gov_addr h st o = true ->
  (exists e0, alookup h (agg st) = Some e0 /\ our_vaa e0 <> None /\ submitted e0 = false) /\
  (exists e', alookup h (agg (fst (step recover keccak sign own gov_chain gov_addr st o))) = Some e' /\ submitted e' = true).
Proof. exact bcast_only_from_pending. Qed.

(* ... and from then on, along EVERY continuation, nothing is broadcast for that digest again within the entry's lifetime *)
Theorem C02_at_most_once_per_aggregation_lifetime :
  forall recover keccak sign own gov_chain gov_addr h ops O L st e, Inv1 recover keccak O L st -> KeysND st -> Forall op_wf ops ->
  alookup h (agg st) = Some e -> submitted e = true ->
  quiet_while_alive recover keccak sign own gov_chain gov_addr h st ops.
Proof. exact no_second_broadcast. Qed.

(* the two invariants these statements are relative to hold in every reachable state *)
Theorem C02_invariants_reachable :
  forall recover keccak sign own gov_chain gov_addr ops, Forall op_wf ops ->
  (exists O, Inv1 recover keccak O (learned [] ops) (fst (run recover keccak sign own gov_chain gov_addr init ops))) /\
  KeysND (fst (run recover keccak sign own gov_chain gov_addr init ops)).
Proof. exact reachable_invariants. Qed.

(* fewer than quorum distinct members never suffice, and the published body is the node's own observation: these are C01's
   statement (every broadcast VAA is [marshal (set_sigs v sg)] for an observed v, with >= quorum distinct valid member signatures) ... *)
Theorem C02_published_body_is_own_observation : forall v sg, body (set_sigs v sg) = body v.
Proof. exact published_body_is_own. Qed.

(* (v) re-observing the same message is idempotent: same digest (whatever set is current), hence the same entry, and by the
   theorem above no second broadcast *)
Theorem C02_reobservation_same_digest : forall keccak i j m, dg keccak (vaa_of_message i m) = dg keccak (vaa_of_message j m).
Proof. exact reobserve_same_digest. Qed.

(* (vi) a chain observation that names the governance emitter is never signed: no output, no state change *)
Theorem C02_governance_emitter_never_signed :
  forall keccak sign own gov_chain gov_addr st m, m_eaddr m = gov_addr -> m_echain m = gov_chain ->
  handle_message keccak sign own gov_chain gov_addr st m = (st, []).
Proof. exact governance_emitter_dropped. Qed.

(* non-vacuity: the history of C01's example reaches a state that satisfies the premises of (i) (and is submitted) *)
Definition ex_own : addr := repeat x01 20.
Definition ex_recover (h s : bytes) : option bytes := Some (firstn 20 s).
Definition ex_keccak (b : bytes) : bytes := repeat x00 32.
Definition ex_sign (d : bytes) : bytes := ex_own ++ repeat x00 45.
Definition ex_msg : msgpub := {| m_tx := [x07]; m_ts := 1700000000; m_tns := 0; m_nonce := 1; m_seq := 5; m_cl := 1;
                                 m_echain := 2; m_tchain := 255; m_eaddr := repeat x02 32; m_payload := [x01; x02] |}.
Definition ex_G : gset := {| keys := [ex_own]; gidx := 3 |}.
Definition ex_ops : list op := [SetGS ex_G; LocalMsg ex_msg; Loopback 0].
Example C02_premises_satisfiable :
  let st := fst (run ex_recover ex_keccak ex_sign ex_own 1 (repeat x00 32) init ex_ops) in
  match agg st with
  | [(h, e)] => our_vaa e <> None /\ gs_snap e = Some ex_G /\ In ex_own (keys ex_G) /\ loopq st = [] /\
                go_quorum 1 <= nsigned ex_G (esigs e) /\ submitted e = true
  | _ => False
  end.
Proof. vm_compute. repeat split; try discriminate; try (left; reflexivity). Qed.

(* ... and of (iv): in that history the node's own observation was accepted (by loopback) and the entry lived on *)
Example C02_accepted_and_alive_satisfiable :
  accepted_and_alive ex_recover ex_keccak ex_sign ex_own 1 (repeat x00 32) (repeat x00 32) ex_own init ex_ops.
Proof.
  unfold ex_ops. cbn [accepted_and_alive]. right. right. left. split.
  - exists {| o_addr := ex_own; o_hash := repeat x00 32; o_sig := ex_sign (repeat x00 32); o_tx := [x07] |}, ex_G.
    split; [vm_compute; reflexivity|]. split; [reflexivity|vm_compute; reflexivity].
  - vm_compute. discriminate.
Qed.

Print Assumptions C02_quorum_delivered_implies_published.
Print Assumptions C02_order_independent_publication.
Print Assumptions C02_accepted_observation_is_recorded.
Print Assumptions C02_recorded_signatures_and_submitted_persist.
Print Assumptions C02_broadcast_only_from_observed_and_pending.
Print Assumptions C02_at_most_once_per_aggregation_lifetime.
Print Assumptions C02_invariants_reachable.
Print Assumptions C02_published_body_is_own_observation.
Print Assumptions C02_reobservation_same_digest.
Print Assumptions C02_governance_emitter_never_signed.
