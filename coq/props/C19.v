(* C19 — the explorer ingests only VAAs verified against the guardian set they name.
   Model: model/Explorer.v (verifyVAA, Push, deduplicator.Apply, GuardianSets).  Crypto is an oracle: every theorem holds
   for EVERY recovery function and every hash function.  The chain fetch is an oracle too ([chain from to]). *)
From Coq Require Import List ZArith Lia Bool Arith.
From Coq Require Import Strings.Byte.
From WH Require Import lib.Bytes gen.Extracted model.Vaa model.Explorer proofs.VaaProofs proofs.QuorumProofs proofs.ExplorerProofs model.ExplorerRange proofs.ExplorerRangeProofs.
From WH Require model.Processor model.ProcSpec model.System model.Spy model.Contracts proofs.DbProofs proofs.SystemProofs.
Import ListNotations.
Open Scope Z_scope.

(* (1) the gate, on the bare model: a message is appended to the queue only if verify_sigs succeeds against the keys of the list
   element at the position the VAA names, the VAA is signed, and it carries at least go_quorum(#keys) signatures *)
Theorem C19_push_gate : forall recover keccak chain qcap st m st' sent,
  push recover keccak chain qcap st m = (st', PEnqueued, sent) ->
  exists g a,
    nth_set (p_gs st') (gsidx (fst m)) = Some g /\ g_keys g = Some a /\
    sigs (fst m) <> [] /\
    go_quorum (Z.of_nat (length a)) <= Z.of_nat (length (sigs (fst m))) /\
    verify_sigs recover keccak (fst m) a = true /\
    ~ In (key_of (fst m)) (p_seen st) /\ (length (p_queue st) < qcap)%nat /\
    p_queue st' = p_queue st ++ [m] /\ p_seen st' = key_of (fst m) :: p_seen st.
Proof. exact push_enqueued. Qed.

(* (1') in the property's words: the element at that position IS the set with the index the VAA carries (list aligned, chain
   answering with consecutive indices), the signatures are valid, ordered and in-set in the sense of C06, and there are at least
   floor(2n/3)+1 of them *)
Theorem C19_push_gate_named_set : forall recover keccak chain qcap st m st' sent,
  aligned (p_gs st) -> chain_ok chain -> 0 <= gsidx (fst m) < 2 ^ 32 ->
  push recover keccak chain qcap st m = (st', PEnqueued, sent) ->
  aligned (p_gs st') /\
  exists g a,
    nth_set (p_gs st') (gsidx (fst m)) = Some g /\ g_index g = gsidx (fst m) /\ g_keys g = Some a /\
    spec_quorum (Z.of_nat (length a)) <= Z.of_nat (length (sigs (fst m))) /\
    accepts recover (digest keccak (fst m)) a (sigs (fst m)) /\
    p_queue st' = p_queue st ++ [m].
Proof. exact push_enqueued_named_set. Qed.

(* (1'') nothing else touches the queue or the seen-set *)
Theorem C19_queue_only_through_gate : forall recover keccak chain qcap st m st' r sent,
  push recover keccak chain qcap st m = (st', r, sent) -> r <> PEnqueued ->
  p_queue st' = p_queue st /\ p_seen st' = p_seen st.
Proof. exact push_not_enqueued. Qed.

(* (2) index invariant: appending a batch of consecutive indices that starts no later than current+1 keeps
   "element n has index n, current = last position"; the list only grows *)
Theorem C19_index_invariant : forall s batch from,
  aligned s -> contiguous from batch -> 0 <= from <= cur s + 1 -> from + Z.of_nat (length batch) <= 2 ^ 32 ->
  aligned (update s batch) /\ cur s <= cur (update s batch) /\ exists suf, lists (update s batch) = lists s ++ suf.
Proof. exact update_contig. Qed.

(* (2') GetGuardianSet(i), sequentially: the store stays aligned, never panics, and a returned set has index i *)
Theorem C19_get_returns_requested : forall chain s i s' r sent,
  aligned s -> chain_ok chain -> 0 <= i < 2 ^ 32 -> get chain s i = (s', r, sent) ->
  aligned s' /\ r <> GPanic /\ (forall g, r = GOk g -> g_index g = i /\ nth_set s' i = Some g).
Proof. exact get_aligned. Qed.

(* (2'') recorded: a batch without the element current+1 (the fetch code cannot produce one) misaligns the list through the
   fallback `index := 0` *)
Theorem C19_noncontiguous_batch_refuted :
  let s := update {| cur := 0; lists := [ex_set 0] |} [ex_set 2] in
  cur s = 2 /\ nth_set s 1 = Some (ex_set 2) /\ nth_set s 2 = None.
Proof. exact update_gap_misaligns. Qed.

(* (3) a failed hand-off (queue full) leaves the key unmarked, and a later copy that finds room is queued *)
Theorem C19_failed_handoff_not_marked : forall recover keccak chain qcap st m st1 sent,
  push recover keccak chain qcap st m = (st1, PQueueFull, sent) ->
  p_seen st1 = p_seen st /\ p_queue st1 = p_queue st /\ ~ In (key_of (fst m)) (p_seen st1) /\
  forall st2, p_gs st2 = p_gs st1 -> ~ In (key_of (fst m)) (p_seen st2) -> (length (p_queue st2) < qcap)%nat ->
    push recover keccak chain qcap st2 m =
      ({| p_gs := p_gs st1; p_seen := key_of (fst m) :: p_seen st2; p_queue := p_queue st2 ++ [m] |}, PEnqueued, []).
Proof. exact push_full_then_accepted. Qed.

Theorem C19_dedup_marks_after_success : forall (S : Type) seen k (cb : S -> option S) s,
  dedup_apply seen k cb s =
    if seenb k seen then (seen, s, DSkipped)
    else match cb s with None => (seen, s, DFailed) | Some s' => (k :: seen, s', DApplied) end.
Proof. exact @dedup_apply_spec. Qed.

(* (4) interleaving: one GetGuardianSet(i) (its accesses to the store) against one updateGuardianSets(batch), the reader's
   locking discipline and the order of the writer's two writes taken from the source (gen/Extracted.v).  For EVERY schedule:
   whatever the reader has read is the set at position i of the final list and has index i, or "i is beyond the current index"
   (the caller then asks the chain); it never indexes out of range; the writer ends with update s0 batch; and unless both have
   returned somebody can move (no deadlock). *)
Theorem C19_interleaving : forall batch i s0 from sched,
  aligned s0 -> contiguous from batch -> 0 <= from <= cur s0 + 1 -> from + Z.of_nat (length batch) <= 2 ^ 32 -> 0 <= i ->
  let c := crun explorer_reader_locked explorer_writer_index_first batch i sched (cinit s0) in
  (forall r, c_r c = R4 r \/ c_r c = R3 r ->
     match r with RSet g => g_index g = i /\ nth_set (update s0 batch) i = Some g | RMiss => True | RPanic => False end) /\
  (c_w c = W4 -> c_store c = update s0 batch) /\
  ((exists r, c_r c = R4 r) /\ c_w c = W4 \/
   rstep explorer_reader_locked i c <> None \/ wstep explorer_writer_index_first batch c <> None).
Proof. exact (interleaving_locked explorer_writer_index_first). Qed.

(* (4') any number of concurrent lookups and appends.  With every access to the store inside a critical section of gs.lock
   (explorer_reader_locked = true, checked here), an execution of any number of GetGuardianSet / updateGuardianSets calls is a
   sequence of critical sections; for EVERY such sequence the store stays aligned, only grows, and every lookup that returned a set
   returned the set with the index it asked for — which is still the element at that position at the end. *)
Theorem C19_any_number_of_lookups_and_appends : explorer_reader_locked = true -> forall ops s, aligned s -> all_ok s ops ->
  let '(s', rs) := srun s ops in
  aligned s' /\ cur s <= cur s' /\ (exists suf, lists s' = lists s ++ suf) /\
  forall i r, In (i, r) rs -> match r with RSet g => g_index g = i /\ nth_set s' i = Some g | RMiss => True | RPanic => False end.
Proof. exact (fun _ => any_sequence). Qed.

Theorem C19_readers_are_locked : explorer_reader_locked = true.
Proof. reflexivity. Qed.

(* (4'') recorded: the "nothing new" guard of updateGuardianSets must be evaluated inside the critical section (the extractor checks
   that it is).  On a snapshot taken before it, two deliveries of the same new set both pass: the set is appended twice, and after
   the next rotation the lookup of index 2 returns set 1; with the guard under the lock the second delivery is a no-op. *)
Theorem C19_guard_outside_lock_refuted :
  let s0 := {| cur := 0; lists := [ex_set 0] |} in
  let s1 := update_guard_on_snapshot 0 (update_guard_on_snapshot 0 s0 [ex_set 1]) [ex_set 1] in
  let s2 := update s1 [ex_set 2] in
  map g_index (lists s1) = [0; 1; 1] /\ cur s2 = 2 /\ nth_set s2 2 = Some (ex_set 1) /\
  update (update s0 [ex_set 1]) [ex_set 1] = update s0 [ex_set 1].
Proof. exact guard_on_snapshot_misaligns. Qed.

(* what the lock is for: the reader of the original code (no lock), index written before the append — writer stores the index,
   reader compares and indexes the old list: out of range *)
Theorem C19_unlocked_reader_refuted :
  c_r (crun false true [ex_set 1] 1 [TW; TW; TR; TR; TW; TW] (cinit {| cur := 0; lists := [ex_set 0] |})) = R4 RPanic.
Proof. exact interleaving_unlocked_panics. Qed.

(* non-vacuity: an aligned store, a contiguous batch, and a VAA that passes the gate against set 1 (recovery function: the first
   byte of the signature is the signer) *)
Definition ex_recover (h s : bytes) : option bytes := match s with b :: _ => Some [b] | [] => None end.
Definition ex_store : store := {| cur := 1; lists := [ex_set 0; ex_set 1] |}.
Definition ex_vaa (g : Z) (l : list (Z * byte)) : vaa :=
  {| version := 1; gsidx := g; sigs := map (fun p => {| s_idx := fst p; s_data := [snd p] |}) l; ts := 0; tns := 0; nonce := 0;
     echain := 2; tchain := 0; eaddr := []; seq := 7; cl := 0; payload := [x01] |}.
Definition ex_chain (from to : Z) : option (list gset) := Some [ex_set from].
Example C19_example :
  aligned ex_store /\ contiguous 2 [ex_set 2; ex_set 3] /\ aligned (update ex_store [ex_set 2; ex_set 3]) /\
  (let st := {| p_gs := ex_store; p_seen := []; p_queue := [] |} in
   snd (fst (push ex_recover (fun b => b) ex_chain 1 st (ex_vaa 1 [(0, x01)], []))) = PEnqueued /\
   snd (fst (push ex_recover (fun b => b) ex_chain 1 st (ex_vaa 0 [(0, x01)], []))) = PErrVerify EBadSigs /\
   snd (fst (push ex_recover (fun b => b) ex_chain 0 st (ex_vaa 1 [(0, x01)], []))) = PQueueFull /\
   snd (fst (push ex_recover (fun b => b) ex_chain 1 st (ex_vaa 2 [(0, x02)], []))) = PEnqueued).
Proof.
  split; [|split; [|split]].
  - unfold aligned. cbn. split; [lia|]. split; [reflexivity|].
    intros [|[|n]] g H; cbn in H; inversion H; subst; try reflexivity. destruct n; discriminate.
  - intros [|[|n]] g H; cbn in H; inversion H; subst; try reflexivity. destruct n; discriminate.
  - vm_compute. split; [split; [discriminate|reflexivity]|]. split; [reflexivity|].
    intros [|[|[|[|n]]]] g H; cbn in H; inversion H; subst; try reflexivity. destruct n; discriminate.
  - vm_compute. repeat split; reflexivity.
Qed.

(* ================================================================== downstream acceptance chain (model/System.v) =================
   What an honest guardian publishes (C01: [qvalid v (keys g)], the wire form [marshal v], and [gsidx v = gidx g] for a chain
   observation) is accepted, byte for byte, by everything downstream.  (i) every peer's inbound path: C01_peers_store_what_a_guardian_
   publishes.  (ii) the explorer: main.go's decode succeeds and Push enqueues (VAA, bytes), when the explorer's set list holds that
   set at the index the VAA names, the message was not ingested before and the queue has room.  The recovery oracle of the explorer
   is the one of the guardians (same vaa.VerifySignatures). *)
Theorem C19_published_vaa_passes_the_explorer_gate :
  forall recover keccak chain qcap est v g,
    ProcSpec.qvalid recover keccak v (Processor.keys g) -> gsidx v = Processor.gidx g -> wf v ->
    System.explorer_knows (p_gs est) g ->
    ~ In (key_of v) (p_seen est) -> (length (p_queue est) < qcap)%nat ->
    System.explorer_ingest recover keccak chain qcap est (marshal v) =
    ({| p_gs := p_gs est; p_seen := key_of v :: p_seen est; p_queue := p_queue est ++ [(v, marshal v)] |}, Some PEnqueued).
Proof. exact SystemProofs.explorer_accepts_published. Qed.

(* the representability premise [wf v] follows from the quorum validity, a set of at most 255 keys and a representable message *)
Theorem C19_published_vaa_is_wire_representable :
  forall recover keccak v K, ProcSpec.qvalid recover keccak v K -> (length K <= 255)%nat -> wf (Processor.set_sigs v []) -> wf v.
Proof. exact SystemProofs.qvalid_wf. Qed.

(* (iii) the contracts: the Solidity and the Ralph parser read the fields the Go serializer wrote, hash the same pre-image (the
   body; layouts extracted from Messages.sol / governance.ral, C04), and both signature-count tests (extracted formulas and
   comparison directions, C07) pass for the size of that set *)
Theorem C19_published_vaa_is_parsed_and_counted_by_both_contracts :
  forall recover keccak v K, ProcSpec.qvalid recover keccak v K -> wf v ->
  Contracts.sol_parse (marshal v) =
    Some {| Contracts.sv_header := Contracts.go_header_fields v; Contracts.sv_sigs := map Contracts.go_sig_fields (sigs v);
            Contracts.sv_body := Contracts.go_body_fields v; Contracts.sv_payload := payload v; Contracts.sv_hashed := body v |} /\
  System.sol_accepts_count (length K) (marshal v) = true /\
  Contracts.ral_parse (marshal v) =
    Some {| Contracts.rv_gsidx := gsidx v; Contracts.rv_numsigs := Z.of_nat (length (sigs v));
            Contracts.rv_sig_records := map (fun s => (s_idx s, s_data s)) (sigs v); Contracts.rv_hashed := body v;
            Contracts.rv_echain := echain v; Contracts.rv_tchain := tchain v; Contracts.rv_eaddr := eaddr v; Contracts.rv_seq := seq v;
            Contracts.rv_payload := payload v |} /\
  System.ral_accepts_count (length K) (marshal v) = true.
Proof. exact SystemProofs.contracts_accept_published. Qed.

(* (iv) the spy: Publish(bytes) sends to exactly the subscriptions without filters or with a filter equal to the VAA's emitter —
   for every iteration order of the subscription map — and reports no error *)
Theorem C19_published_vaa_reaches_exactly_the_matching_spy_subscribers :
  forall v subs, wf v -> NoDup (map fst subs) ->
  snd (System.spy_plan subs (marshal v)) = false /\
  forall i s, Spy.lookup i subs = Some s -> (In i (fst (System.spy_plan subs (marshal v))) <-> System.spy_matches v s).
Proof. exact SystemProofs.spy_delivers_to_matching. Qed.

(* non-vacuity: a VAA signed by the single member of set 1 (toy oracles; recovery = first 20 bytes of the signature) passes all four *)
Definition dx_key : bytes := repeat x05 20.
Definition dx_sig : bytes := dx_key ++ repeat x00 45.
Definition dx_recover (h s : bytes) : option bytes := Some (firstn 20 s).
Definition dx_keccak (b : bytes) : bytes := repeat x00 32.
Definition dx_g : Processor.gset := {| Processor.keys := [dx_key]; Processor.gidx := 1 |}.
Definition dx_v : vaa := {| version := 1; gsidx := 1; sigs := [{| s_idx := 0; s_data := dx_sig |}]; ts := 7; tns := 0; nonce := 0; echain := 2;
                            tchain := 0; eaddr := repeat x02 32; seq := 9; cl := 1; payload := [x01] |}.
Definition dx_store : store := {| cur := 1; lists := [ex_set 0; {| g_index := 1; g_keys := Some [dx_key] |}] |}.
Definition dx_subs : list (Spy.id * Spy.sub) :=
  [(1, Spy.new_sub []); (2, Spy.new_sub [{| Spy.f_chain := 2; Spy.f_addr := repeat x02 32 |}]); (3, Spy.new_sub [{| Spy.f_chain := 4; Spy.f_addr := repeat x02 32 |}])].
Example C19_downstream_chain_premises_satisfiable :
  ProcSpec.qvalid dx_recover dx_keccak dx_v (Processor.keys dx_g) /\ gsidx dx_v = Processor.gidx dx_g /\ wf dx_v /\
  System.explorer_knows dx_store dx_g /\ NoDup (map fst dx_subs) /\
  snd (System.explorer_ingest dx_recover dx_keccak (fun _ _ => None) 4 {| p_gs := dx_store; p_seen := []; p_queue := [] |} (marshal dx_v)) = Some PEnqueued /\
  System.sol_accepts_count 1 (marshal dx_v) = true /\ System.ral_accepts_count 1 (marshal dx_v) = true /\
  fst (System.spy_plan dx_subs (marshal dx_v)) = [1; 2].
Proof.
  split; [split; [apply verify_sigs_iff; vm_compute; reflexivity|vm_compute; intros H; discriminate H]|].
  split; [reflexivity|]. split; [apply DbProofs.wfb_wf; vm_compute; reflexivity|].
  split; [split; [vm_compute; intros H; discriminate H|reflexivity]|].
  split; [repeat constructor; cbn; intuition discriminate|].
  repeat apply conj; vm_compute; reflexivity.
Qed.

(* ---- what the store can learn through GetGuardianSet: only sets the contract HAS.  range_of explorer_range_capped is getGuardianSetsRange with the
   cap of the requested range at the contract's current index as the TREE has it (gen/Extracted.v explorer_range_capped, read from gst_data.go on every run;
   Getters.sol getGuardianSet is a plain mapping read: an index the contract does not have yet is answered with the empty set, not with an error).  A lookup of
   such an index — any gossiped VAA naming it triggers one, before its signatures are looked at — must not leave that empty answer in the store: "the guardian
   set it returns for index i is always the set with index i", also once the chain has appointed set i. *)
Theorem C19_store_learns_only_sets_the_chain_has : forall c ci s i s' r sent, labels c -> c_cur c = Some ci ->
  Forall (chain_has c ci) (lists s) -> get (range_of explorer_range_capped c) s i = (s', r, sent) -> Forall (chain_has c ci) (lists s').
Proof. exact get_learns_only_chain_sets. Qed.

Theorem C19_future_index_refused_and_nothing_stored : forall c ci s i, aligned s -> c_cur c = Some ci -> cur s = ci -> 0 <= ci -> ci < i < 2 ^ 32 ->
  exists g, get (range_of explorer_range_capped c) s i = (s, GErrIndex, [g_index g]) /\ nth_set s i = None.
Proof. exact future_index_refused. Qed.

(* the history of the defect repaired by the fix recorded in known_findings.json, on the model: without the cap the empty answer stays for good ... *)
Theorem C19_uncapped_range_keeps_the_empty_answer_refuted :
  let '(s1, r1, _) := get (range_of false (contract_of rx_hist0)) rx_store 1 in
  let '(_, r2, _) := get (range_of false (contract_of rx_hist1)) s1 1 in
  r1 = GOk {| g_index := 1; g_keys := Some [] |} /\ r2 = GOk {| g_index := 1; g_keys := Some [] |} /\
  c_set (contract_of rx_hist1) 1 = Some {| g_index := 1; g_keys := Some [rx_k x02; rx_k x03] |}.
Proof. exact uncapped_keeps_the_empty_answer. Qed.

(* ... with it (the generated flag) the same history ends with the contract's set: non-vacuity of the two theorems above *)
Example C19_capped_range_learns_the_real_set :
  let '(s1, r1, _) := get (range_of explorer_range_capped (contract_of rx_hist0)) rx_store 1 in
  let '(_, r2, _) := get (range_of explorer_range_capped (contract_of rx_hist1)) s1 1 in
  r1 = GErrIndex /\ s1 = rx_store /\ r2 = GOk {| g_index := 1; g_keys := Some [rx_k x02; rx_k x03] |}.
Proof. exact capped_learns_the_real_set. Qed.

Print Assumptions C19_push_gate.
Print Assumptions C19_push_gate_named_set.
Print Assumptions C19_queue_only_through_gate.
Print Assumptions C19_index_invariant.
Print Assumptions C19_get_returns_requested.
Print Assumptions C19_noncontiguous_batch_refuted.
Print Assumptions C19_failed_handoff_not_marked.
Print Assumptions C19_dedup_marks_after_success.
Print Assumptions C19_interleaving.
Print Assumptions C19_unlocked_reader_refuted.
Print Assumptions C19_any_number_of_lookups_and_appends.
Print Assumptions C19_readers_are_locked.
Print Assumptions C19_guard_outside_lock_refuted.
Print Assumptions C19_published_vaa_passes_the_explorer_gate.
Print Assumptions C19_published_vaa_is_wire_representable.
Print Assumptions C19_published_vaa_is_parsed_and_counted_by_both_contracts.
Print Assumptions C19_published_vaa_reaches_exactly_the_matching_spy_subscribers.
Print Assumptions C19_store_learns_only_sets_the_chain_has.
Print Assumptions C19_future_index_refused_and_nothing_stored.
Print Assumptions C19_uncapped_range_keeps_the_empty_answer_refuted.
