(* C08 - Alephium messages reach the signer only when final and from the token bridge, on the polling path and on the
   re-observation path alike.

   model.AlphWatcher is the watcher as a transition system over an abstract node: every answer the watcher obtains from
   the node is an input of the step in which it is obtained ("at that moment" = according to the node's answer in that
   step).  Steps: OPoll (one tick of fetchEvents), ODeliver (hand-over of the batch to the event loop), OTick (a height
   reaches handleEvents_), OReobs (handleObsvRequest handles a request), OHeightErr.  Constants, comparison operators and
   the presence of the filters come from gen.Extracted (regenerated from watcher.go / reobserve.go / client.go / utils.go
   on every run), so the theorems below are about the code as it is now. *)
From Coq Require Import List ZArith Bool Lia.
From WH Require Import gen.Extracted model.AlphWatcher proofs.AlphWatcherBase proofs.AlphWatcherSafety.
Import ListNotations.
Open Scope Z_scope.

(* isEventConfirmed = enough blocks on top AND the wall-clock hold elapsed; hold = level * 16 s, on mainnet
   max(level, 205) * 16 s for token transfers *)
Theorem C08_confirmed_spec : forall mn m h now height, sane_hdr h (m_cl m) ->
  confirmed mn m h now height = true <-> (h_height h + m_cl m <= height /\ h_ts h + hold mn m <= now).
Proof. exact confirmed_spec. Qed.

(* THE SAFETY INVARIANT, over every history (any number of polls, hand-overs, height ticks, re-observation requests and
   failures, in any order, with any answers of the node, including API errors at any call, reorgs between two calls,
   foreign senders, look-alike events of other contracts, mismatching attestations):
   every message handed to the signer is `justified` in the step that forwards it.
   EP / HP / AP are ARBITRARY predicates on the node's answers ("is an event of the governance contract's stream",
   "is the header of that block", "is a metadata answer of the node"): whatever holds for everything the node answered
   holds for what is forwarded - messages are built from the node's answers only. *)
Theorem C08_safety_all_histories : forall c EP HP AP ops from0,
  Forall (op_ok c EP HP AP) ops -> all_justified c EP HP AP (init from0) ops.
Proof. intros c EP HP AP ops from0 H. apply safety_all_histories; [apply Inv_init|exact H]. Qed.

(* ... and from every state that satisfies the invariant (so also after a restart with any such state) *)
Theorem C08_safety_from_any_good_state : forall c EP HP AP ops s,
  Inv EP HP AP s -> Forall (op_ok c EP HP AP) ops -> all_justified c EP HP AP s ops.
Proof. exact safety_all_histories. Qed.

(* what `justified` says on the polling path: the event was served by the node in a page of the governance contract's
   stream, it is a WormholeMessage event whose sender field is the configured token-bridge id, the node has just reported
   its block as main-chain, and with the block's header: height + level <= current height, timestamp + level*16 s <= now,
   on mainnet for transfers timestamp + max(level,205)*16 s <= now; attestations carry exactly the token contract's answer *)
Theorem C08_meaning_polling_path : forall c EP HP AP height now mc hd f,
  justified c EP HP AP (OTick height now mc hd) f -> sane_hdr (f_hdr f) (m_cl (f_msg f)) ->
  EP (f_ev f) /\ HP (e_block (f_ev f)) (f_hdr f) /\ m_sender (f_msg f) = c_bridge c /\
  mc (e_block (f_ev f)) = Some true /\
  h_height (f_hdr f) + m_cl (f_msg f) <= height /\
  h_ts (f_hdr f) + m_cl (f_msg f) * 16000 <= now /\
  (c_mainnet c = true -> is_transfer (f_msg f) = true -> h_ts (f_hdr f) + Z.max (m_cl (f_msg f)) 205 * 16000 <= now) /\
  attest_ok AP (f_msg f) (f_chain f).
Proof. exact justified_tick_meaning. Qed.

(* ... and on the re-observation path: the same, and the event is one the node listed for the requested transaction
   WITH the governance contract's address, in the very block whose main-chain status was queried *)
Theorem C08_meaning_reobservation_path : forall c EP HP AP r f,
  justified c EP HP AP (OReobs r) f -> sane_hdr (f_hdr f) (m_cl (f_msg f)) ->
  EP (f_ev f) /\ HP (e_block (f_ev f)) (f_hdr f) /\ m_sender (f_msg f) = c_bridge c /\
  r_status r = Some (Some (e_block (f_ev f))) /\ r_mc r = Some true /\
  (exists te evs, r_events r = Some evs /\ In te evs /\ t_ev te = f_ev f /\ t_addr te = c_gov c) /\
  (exists height, r_height r = Some height /\
     h_height (f_hdr f) + m_cl (f_msg f) <= height /\
     h_ts (f_hdr f) + m_cl (f_msg f) * 16000 <= r_now r /\
     (c_mainnet c = true -> is_transfer (f_msg f) = true -> h_ts (f_hdr f) + Z.max (m_cl (f_msg f)) 205 * 16000 <= r_now r)) /\
  attest_ok AP (f_msg f) (f_chain f).
Proof. exact justified_reobs_meaning. Qed.

(* no other step forwards anything *)
Theorem C08_only_ticks_and_reobservations_forward : forall c EP HP AP o f, justified c EP HP AP o f ->
  (exists height now mc hd, o = OTick height now mc hd) \/ (exists r, o = OReobs r).
Proof. exact justified_only_tick_reobs. Qed.

(* attestations: validation succeeds only if the payload decodes to exactly what GetTokenInfo made of the node's answer,
   and GetTokenInfo accepts only the native token or three succeeded calls with one well-typed return each *)
Theorem C08_attestation_equals_chain : forall m a t, validate_attest m a = VaOk t ->
  m_tok m = Some t /\ get_token_info (ti_id t) a = TiOk t.
Proof. exact validate_attest_ok. Qed.

Theorem C08_token_info_shape : forall id a t, get_token_info id a = TiOk t ->
  (id = alph_native_id /\ t = {| ti_id := alph_native_id; ti_dec := alph_native_decimals; ti_sym := alph_native_sym; ti_name := alph_native_name |}) \/
  (exists vs vn vd s n d, a = McRes [COk [vs]; COk [vn]; COk [vd]] /\ to_bytevec vs = Some s /\ to_bytevec vn = Some n /\ to_uint8 vd = Some d /\
                          t = {| ti_id := id; ti_dec := d; ti_sym := s; ti_name := n |}).
Proof. exact get_token_info_spec. Qed.

(* the polling path forwards each fetched event at most once: for EVERY predicate p on events, along every history the
   number of p-events forwarded by height ticks plus the number still held never exceeds the number fetched in batches *)
Theorem C08_polling_forwards_at_most_once : forall c p ops from0,
  (cnt p (tick_fwds c (init from0) ops) + cnt p (held (final c (init from0) ops)) <= cnt p (batches c (init from0) ops))%nat.
Proof. intros c p ops from0. pose proof (forwarded_at_most_fetched c p ops (init from0)) as H. cbn in H. exact H. Qed.

(* orphaned blocks: a message forwarded by a tick is in a block the node reported main-chain in that tick (above); and
   after a tick nothing confirmed is left pending - confirmed events of orphaned blocks are dropped for good *)
Theorem C08_confirmed_orphans_are_dropped : forall c s height now mc hd,
  w_dead (fst (step c s (OTick height now mc hd))) = false ->
  Forall (fun b' => exists h, pb_hdr b' = Some h /\ Forall (fun u => confirmed (c_mainnet c) (u_msg u) h now height = false) (pb_evs b'))
         (w_pending (fst (step c s (OTick height now mc hd)))) \/ w_dead s = true.
Proof. exact tick_leaves_only_unconfirmed. Qed.

(* ------------------------------------------------------------------ the hypotheses are satisfiable: a concrete history *)
Definition ex_c : cfg := {| c_gov := 10; c_bridge := 77; c_mainnet := true |}.
Definition ex_ti : tokinfo := {| ti_id := 900; ti_dec := 8; ti_sym := 3; ti_name := 4 |}.
Definition ex_e1 : cevent := {| e_uid := 1; e_block := 5; e_index := 0; e_conv := Some {| m_sender := 77; m_cl := 3; m_p0 := 1; m_tok := None |} |}.
Definition ex_e2 : cevent := {| e_uid := 2; e_block := 5; e_index := 0; e_conv := Some {| m_sender := 78; m_cl := 0; m_p0 := 1; m_tok := None |} |}.
Definition ex_e3 : cevent := {| e_uid := 3; e_block := 5; e_index := 0; e_conv := Some {| m_sender := 77; m_cl := 3; m_p0 := 2; m_tok := Some ex_ti |} |}.
Definition ex_fake : cevent := {| e_uid := 99; e_block := 5; e_index := 0; e_conv := Some {| m_sender := 77; m_cl := 0; m_p0 := 1; m_tok := None |} |}.
Definition ex_ans : mc_ans := McRes [COk [VBytes (Some 3)]; COk [VBytes (Some 4)]; COk [VNum (Some 8)]].
Definition ex_hdr : header := {| h_ts := 1000; h_height := 100 |}.
Definition ex_pg : nat -> Z -> page_ans := fun _ s => if s =? 0 then Page [ex_e1; ex_e2; ex_e3] 3 else Page [] s.
Definition ex_hd : Z -> option header := fun b => if b =? 5 then Some ex_hdr else None.
Definition ex_r : reobs_in :=
  {| r_chain := 255; r_txlen := 32; r_status := Some (Some 5);
     r_events := Some [ {| t_addr := 11; t_ev := ex_fake |}; {| t_addr := 10; t_ev := ex_e1 |} ];
     r_hd := ex_hd; r_tok := fun _ => ex_ans; r_mc := Some true; r_height := Some 120; r_now := 1000 + 205 * 16000 |}.
Definition ex_ops : list op :=
  [ OPoll (Some 3) ex_pg (fun _ => ex_ans); ODeliver; OTick 120 (1000 + 205 * 16000 - 1) (fun _ => Some true) ex_hd;
    OTick 120 (1000 + 205 * 16000) (fun _ => Some true) ex_hd; OReobs ex_r ].
Definition ex_EP (e : cevent) : Prop := e_uid e = 1 \/ e_uid e = 2 \/ e_uid e = 3.
Definition ex_HP (b : Z) (h : header) : Prop := b = 5 /\ h = ex_hdr.
Definition ex_AP (a : mc_ans) : Prop := a = ex_ans.

(* the node's answers satisfy the provenance predicates; the run forwards the attestation at the first tick (hold 3
   intervals), the transfer only at the second (205-interval floor on mainnet), never the foreign-sender event 2, and the
   re-observation forwards event 1 but not the look-alike event 99 of contract 11 *)
Example C08_hypotheses_satisfiable :
  Forall (op_ok ex_c ex_EP ex_HP ex_AP) ex_ops /\
  map (fun x => map (fun f => e_uid (f_ev f)) (o_fwd x)) (fst (run ex_c (init 0) ex_ops)) = [[]; []; [3]; [1]; [1]].
Proof.
  split; [|vm_compute; reflexivity].
  assert (HH : forall b h, ex_hd b = Some h -> ex_HP b h).
  { intros b h. unfold ex_hd. destruct (b =? 5) eqn:E; [|discriminate]. intro H. injection H as <-. apply Z.eqb_eq in E. split; auto. }
  unfold ex_ops.
  apply Forall_cons; [|apply Forall_cons; [exact I|apply Forall_cons; [exact HH|apply Forall_cons; [exact HH|apply Forall_cons; [|constructor]]]]].
  - split; [|intro i; reflexivity]. intros k s evs next. unfold ex_pg. destruct (s =? 0); intro H; injection H as <- <-; [|constructor].
    repeat apply Forall_cons; try apply Forall_nil; unfold ex_EP; cbn [e_uid ex_e1 ex_e2 ex_e3]; auto.
  - split; [|split; [exact HH|intro i; reflexivity]]. intros evs H. cbn [r_events ex_r] in H. injection H as <-.
    apply Forall_cons; [cbn [t_addr ex_c c_gov]; intro H; discriminate H|]. apply Forall_cons; [|apply Forall_nil].
    intros _. unfold ex_EP. cbn [t_ev e_uid ex_e1]. auto.
Qed.

Print Assumptions C08_confirmed_spec.
Print Assumptions C08_safety_all_histories.
Print Assumptions C08_safety_from_any_good_state.
Print Assumptions C08_meaning_polling_path.
Print Assumptions C08_meaning_reobservation_path.
Print Assumptions C08_only_ticks_and_reobservations_forward.
Print Assumptions C08_attestation_equals_chain.
Print Assumptions C08_token_info_shape.
Print Assumptions C08_polling_forwards_at_most_once.
Print Assumptions C08_confirmed_orphans_are_dropped.
