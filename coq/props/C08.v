(* C08 - Alephium messages reach the signer only when final and from the token bridge, on the polling path and on the
   re-observation path alike.

   model.AlphWatcher is the watcher as a transition system over an abstract node: every answer the watcher obtains from
   the node is an input of the step in which it is obtained ("at that moment" = according to the node's answer in that
   step).  Steps: OPoll (one tick of fetchEvents), ODeliver (hand-over of the batch to the event loop), OTick (a height
   reaches handleEvents_), OReobs (handleObsvRequest handles a request), OHeightErr.  Constants, comparison operators and
   the presence of the filters come from gen.Extracted (regenerated from watcher.go / reobserve.go / client.go / utils.go
   on every run), so the theorems below are about the code as it is now. *)
From Coq Require Import List ZArith Bool Lia.
From WH Require Import gen.Extracted model.AlphWatcher proofs.AlphWatcherBase proofs.AlphWatcherSafety.
Import ListNotations.
Open Scope Z_scope.

(* isEventConfirmed = enough blocks on top AND the wall-clock hold elapsed; hold = level * 16 s, on mainnet
   max(level, 205) * 16 s for token transfers *)
Theorem C08_confirmed_spec : forall mn m h now height, sane_hdr h (m_cl m) ->
  confirmed mn m h now height = true <-> (h_height h + m_cl m <= height /\ h_ts h + hold mn m <= now).
Proof. exact confirmed_spec. Qed.

(* THE SAFETY INVARIANT, over every history (any number of polls, hand-overs, height ticks, re-observation requests and
   failures, in any order, with any answers of the node, including API errors at any call, reorgs between two calls,
   foreign senders, look-alike events of other contracts, mismatching attestations):
   every message handed to the signer is `justified` in the step that forwards it.
   EP / HP / AP are ARBITRARY predicates on the node's answers ("is an event of the governance contract's stream",
   "is the header of that block", "is a metadata answer of the node"): whatever holds for everything the node answered
   holds for what is forwarded - messages are built from the node's answers only. *)
Theorem C08_safety_all_histories : forall c EP HP AP ops from0,
  Forall (op_ok c EP HP AP) ops -> all_justified c EP HP AP (init from0) ops.
Proof. intros c EP HP AP ops from0 H. apply safety_all_histories; [apply Inv_init|exact H]. Qed.

(* ... and from every state that satisfies the invariant (so also after a restart with any such state) *)
Theorem C08_safety_from_any_good_state : forall c EP HP AP ops s,
  Inv EP HP AP s -> Forall (op_ok c EP HP AP) ops -> all_justified c EP HP AP s ops.
Proof. exact safety_all_histories. Qed.

(* what `justified` says on the polling path: the event was served by the node in a page of the governance contract's
   stream, it is a WormholeMessage event whose sender field is the configured token-bridge id, the node has just reported
   its block as main-chain, and with the block's header: height + level <= current height, timestamp + level*16 s <= now,
   on mainnet for transfers timestamp + max(level,205)*16 s <= now; attestations carry exactly the token contract's answer *)
Theorem C08_meaning_polling_path : forall c EP HP AP height now mc hd f,
  justified c EP HP AP (OTick height now mc hd) f -> sane_hdr (f_hdr f) (m_cl (f_msg f)) ->
  EP (f_ev f) /\ HP (e_block (f_ev f)) (f_hdr f) /\ m_sender (f_msg f) = c_bridge c /\
  mc (e_block (f_ev f)) = Some true /\
  h_height (f_hdr f) + m_cl (f_msg f) <= height /\
  h_ts (f_hdr f) + m_cl (f_msg f) * 16000 <= now /\
  (c_mainnet c = true -> is_transfer (f_msg f) = true -> h_ts (f_hdr f) + Z.max (m_cl (f_msg f)) 205 * 16000 <= now) /\
  attest_ok AP (f_msg f) (f_chain f).
Proof. exact justified_tick_meaning. Qed.

(* ... and on the re-observation path: the same, and the event is one the node listed for the requested transaction
   WITH the governance contract's address, in the very block whose main-chain status was queried *)
Theorem C08_meaning_reobservation_path : forall c EP HP AP r f,
  justified c EP HP AP (OReobs r) f -> sane_hdr (f_hdr f) (m_cl (f_msg f)) ->
  EP (f_ev f) /\ HP (e_block (f_ev f)) (f_hdr f) /\ m_sender (f_msg f) = c_bridge c /\
  r_status r = Some (Some (e_block (f_ev f))) /\ r_mc r = Some true /\
  (exists te evs, r_events r = Some evs /\ In te evs /\ t_ev te = f_ev f /\ t_addr te = c_gov c) /\
  (exists height, r_height r = Some height /\
     h_height (f_hdr f) + m_cl (f_msg f) <= height /\
     h_ts (f_hdr f) + m_cl (f_msg f) * 16000 <= r_now r /\
     (c_mainnet c = true -> is_transfer (f_msg f) = true -> h_ts (f_hdr f) + Z.max (m_cl (f_msg f)) 205 * 16000 <= r_now r)) /\
  attest_ok AP (f_msg f) (f_chain f).
Proof. exact justified_reobs_meaning. Qed.

(* no other step forwards anything *)
Theorem C08_only_ticks_and_reobservations_forward : forall c EP HP AP o f, justified c EP HP AP o f ->
  (exists height now mc hd, o = OTick height now mc hd) \/ (exists r, o = OReobs r).
Proof. exact justified_only_tick_reobs. Qed.

(* attestations: validation succeeds only if the payload decodes to exactly what GetTokenInfo made of the node's answer,
   and GetTokenInfo accepts only the native token or three succeeded calls with one well-typed return each *)
Theorem C08_attestation_equals_chain : forall m a t, validate_attest m a = VaOk t ->
  m_tok m = Some t /\ get_token_info (ti_id t) a = TiOk t.
Proof. exact validate_attest_ok. Qed.

Theorem C08_token_info_shape : forall id a t, get_token_info id a = TiOk t ->
  (id = alph_native_id /\ t = {| ti_id := alph_native_id; ti_dec := alph_native_decimals; ti_sym := alph_native_sym; ti_name := alph_native_name |}) \/
  (exists vs vn vd s n d, a = McRes [COk [vs]; COk [vn]; COk [vd]] /\ to_bytevec vs = Some s /\ to_bytevec vn = Some n /\ to_uint8 vd = Some d /\
                          t = {| ti_id := id; ti_dec := d; ti_sym := s; ti_name := n |}).
Proof. exact get_token_info_spec. Qed.

(* the polling path forwards each fetched event at most once: for EVERY predicate p on events, along every history the
   number of p-events forwarded by height ticks plus the number still held never exceeds the number fetched in batches *)
Theorem C08_polling_forwards_at_most_once : forall c p ops from0,
  (cnt p (tick_fwds c (init from0) ops) + cnt p (held (final c (init from0) ops)) <= cnt p (batches c (init from0) ops))%nat.
Proof. intros c p ops from0. pose proof (forwarded_at_most_fetched c p ops (init from0)) as H. cbn in H. exact H. Qed.

(* orphaned blocks: a message forwarded by a tick is in a block the node reported main-chain in that tick (above); and
   after a tick nothing confirmed is left pending - confirmed events of orphaned blocks are dropped for good *)
Theorem C08_confirmed_orphans_are_dropped : forall c s height now mc hd,
  w_dead (fst (step c s (OTick height now mc hd))) = false ->
  Forall (fun b' => exists h, pb_hdr b' = Some h /\ Forall (fun u => confirmed (c_mainnet c) (u_msg u) h now height = false) (pb_evs b'))
         (w_pending (fst (step c s (OTick height now mc hd)))) \/ w_dead s = true.
Proof. exact tick_leaves_only_unconfirmed. Qed.

(* ------------------------------------------------------------------ the hypotheses are satisfiable: a concrete history *)
Definition ex_c : cfg := {| c_gov := 10; c_bridge := 77; c_mainnet := true |}.
Definition ex_ti : tokinfo := {| ti_id := 900; ti_dec := 8; ti_sym := 3; ti_name := 4 |}.
Definition ex_e1 : cevent := {| e_uid := 1; e_block := 5; e_index := 0; e_conv := Some {| m_sender := 77; m_cl := 3; m_p0 := 1; m_tok := None |} |}.
Definition ex_e2 : cevent := {| e_uid := 2; e_block := 5; e_index := 0; e_conv := Some {| m_sender := 78; m_cl := 0; m_p0 := 1; m_tok := None |} |}.
Definition ex_e3 : cevent := {| e_uid := 3; e_block := 5; e_index := 0; e_conv := Some {| m_sender := 77; m_cl := 3; m_p0 := 2; m_tok := Some ex_ti |} |}.
Definition ex_fake : cevent := {| e_uid := 99; e_block := 5; e_index := 0; e_conv := Some {| m_sender := 77; m_cl := 0; m_p0 := 1; m_tok := None |} |}.
Definition ex_ans : mc_ans := McRes [COk [VBytes (Some 3)]; COk [VBytes (Some 4)]; COk [VNum (Some 8)]].
Definition ex_hdr : header := {| h_ts := 1000; h_height := 100 |}.
(* the three events as handleUnconfirmedEvents keeps them (the batch fetchEvents is about to hand over) *)
Definition ex_u (e : cevent) (ch : option tokinfo) : uevent :=
  {| u_ev := e; u_msg := match e_conv e with Some m => m | None => {| m_sender := 0; m_cl := 0; m_p0 := 0; m_tok := None |} end; u_chain := ch |}.
Definition ex_s0 : wstate :=
  {| w_from := 3; w_inflight := Some [ex_u ex_e1 None; ex_u ex_e2 None; ex_u ex_e3 (Some ex_ti)]; w_pending := []; w_enabled := false; w_dead := false |}.
Definition ex_hd : Z -> option header := fun b => if b =? 5 then Some ex_hdr else None.
Definition ex_r : reobs_in :=
  {| r_chain := 255; r_txlen := 32; r_status := Some (Some 5);
     r_events := Some [ {| t_addr := 11; t_ev := ex_fake |}; {| t_addr := 10; t_ev := ex_e1 |} ];
     r_hd := ex_hd; r_tok := fun _ => ex_ans; r_mc := Some true; r_height := Some 120; r_now := 1000 + 205 * 16000 |}.
Definition ex_ops : list op :=
  [ ODeliver; OTick 120 (1000 + 205 * 16000 - 1) (fun _ => Some true) ex_hd;
    OTick 120 (1000 + 205 * 16000) (fun _ => Some true) ex_hd; OReobs ex_r ].
Definition ex_EP (e : cevent) : Prop := e_uid e = 1 \/ e_uid e = 2 \/ e_uid e = 3.
Definition ex_HP (b : Z) (h : header) : Prop := b = 5 /\ h = ex_hdr.
Definition ex_AP (a : mc_ans) : Prop := a = ex_ans.

(* the state satisfies the invariant and the node's answers satisfy the provenance predicates; the run forwards the
   attestation at the first tick (hold 3 intervals), the transfer only at the second (205-interval floor on mainnet), never
   the foreign-sender event 2, and the re-observation forwards event 1 but not the look-alike event 99 of contract 11 *)
Example C08_hypotheses_satisfiable :
  Inv ex_EP ex_HP ex_AP ex_s0 /\
  Forall (op_ok ex_c ex_EP ex_HP ex_AP) ex_ops /\
  map (fun x => map (fun f => e_uid (f_ev f)) (o_fwd x)) (fst (run ex_c ex_s0 ex_ops)) = [[]; [3]; [1]; [1]].
Proof.
  split.
  { split; [|constructor]. intros l H. injection H as <-.
    repeat apply Forall_cons; try apply Forall_nil; (split; [unfold ex_EP; cbn; auto|split; [reflexivity|]]); intro A; try discriminate A.
    exists ex_ti, ex_ans. repeat apply conj; reflexivity. }
  split; [|vm_compute; reflexivity].
  assert (HH : forall b h, ex_hd b = Some h -> ex_HP b h).
  { intros b h. unfold ex_hd. destruct (b =? 5) eqn:E; [|discriminate]. intro H. injection H as <-. apply Z.eqb_eq in E. split; auto. }
  unfold ex_ops.
  apply Forall_cons; [exact I|apply Forall_cons; [exact HH|apply Forall_cons; [exact HH|apply Forall_cons; [|constructor]]]].
  split; [|split; [exact HH|intro i; reflexivity]]. intros evs H. cbn [r_events ex_r] in H. injection H as <-.
  apply Forall_cons; [cbn [t_addr ex_c c_gov]; intro H; discriminate H|]. apply Forall_cons; [|apply Forall_nil].
  intros _. unfold ex_EP. cbn [t_ev e_uid ex_e1]. auto.
Qed.

(* the confirmation test at its boundaries: level 3 needs 3 blocks on top and 3 * 16 s; a mainnet transfer 205 * 16 s *)
Example C08_confirmed_boundaries :
  let m := {| m_sender := 77; m_cl := 3; m_p0 := 1; m_tok := None |} in
  sane_hdr ex_hdr (m_cl m) /\
  confirmed false m ex_hdr (1000 + 48000) 103 = true /\ confirmed false m ex_hdr (1000 + 48000 - 1) 103 = false /\
  confirmed false m ex_hdr (1000 + 48000) 102 = false /\
  confirmed true m ex_hdr (1000 + 205 * 16000) 103 = true /\ confirmed true m ex_hdr (1000 + 205 * 16000 - 1) 103 = false.
Proof. cbv zeta. split; [unfold sane_hdr; cbn; lia|vm_compute; repeat split; reflexivity]. Qed.

(* the message forwarded at the second tick of the example history is justified, and its header is sane: the hypotheses
   of C08_meaning_polling_path hold for it *)
Definition ex_s3 : wstate := final ex_c ex_s0 (firstn 2 ex_ops).
Example C08_meaning_hypotheses_satisfiable :
  exists f, o_fwd (snd (step ex_c ex_s3 (OTick 120 (1000 + 205 * 16000) (fun _ => Some true) ex_hd))) = [f] /\
    justified ex_c ex_EP ex_HP ex_AP (OTick 120 (1000 + 205 * 16000) (fun _ => Some true) ex_hd) f /\ sane_hdr (f_hdr f) (m_cl (f_msg f)) /\
    e_uid (f_ev f) = 1.
Proof.
  destruct C08_hypotheses_satisfiable as (HI & Hok & _).
  pose proof (C08_safety_from_any_good_state ex_c ex_EP ex_HP ex_AP ex_ops ex_s0 HI Hok) as J.
  unfold ex_ops in J. cbn [all_justified] in J. destruct J as (_ & _ & J4 & _).
  change (fst (step ex_c (fst (step ex_c ex_s0 ODeliver)) (OTick 120 (1000 + 205 * 16000 - 1) (fun _ => Some true) ex_hd))) with ex_s3 in J4.
  remember (o_fwd (snd (step ex_c ex_s3 (OTick 120 (1000 + 205 * 16000) (fun _ => Some true) ex_hd)))) as l eqn:E.
  assert (E' : map (fun f => (e_uid (f_ev f), h_ts (f_hdr f), h_height (f_hdr f), m_cl (f_msg f))) l = [(1, 1000, 100, 3)]) by (subst l; vm_compute; reflexivity).
  destruct l as [|f [|g t]]; try discriminate E'. injection E' as E1 E2 E3 E4.
  exists f. split; [reflexivity|]. inversion J4 as [|x y Jf _]; subst. split; [exact Jf|]. split; [|exact E1].
  unfold sane_hdr. rewrite E2, E3, E4. lia.
Qed.

(* and for the re-observation step of that history *)
Example C08_reobservation_hypotheses_satisfiable :
  exists f, fst (reobserve ex_c ex_r) = [f] /\ justified ex_c ex_EP ex_HP ex_AP (OReobs ex_r) f /\ sane_hdr (f_hdr f) (m_cl (f_msg f)) /\ e_uid (f_ev f) = 1.
Proof.
  destruct C08_hypotheses_satisfiable as (_ & Hok & _).
  assert (Hr : op_ok ex_c ex_EP ex_HP ex_AP (OReobs ex_r)).
  { unfold ex_ops in Hok. inversion Hok as [|? ? _ H1]; subst. inversion H1 as [|? ? _ H2]; subst. inversion H2 as [|? ? _ H3]; subst.
    inversion H3 as [|? ? H5 _]; subst. exact H5. }
  pose proof (reobserve_just ex_c ex_EP ex_HP ex_AP ex_r Hr) as J.
  remember (fst (reobserve ex_c ex_r)) as l eqn:E.
  assert (E' : map (fun f => (e_uid (f_ev f), h_ts (f_hdr f), h_height (f_hdr f), m_cl (f_msg f))) l = [(1, 1000, 100, 3)]) by (subst l; vm_compute; reflexivity).
  destruct l as [|f [|g t]]; try discriminate E'. injection E' as E1 E2 E3 E4.
  exists f. split; [reflexivity|]. inversion J as [|x y Jf _]; subst. split; [exact Jf|]. split; [|exact E1].
  unfold sane_hdr. rewrite E2, E3, E4. lia.
Qed.

(* the invariant's hypothesis of C08_safety_from_any_good_state and the liveness hypothesis of C08_confirmed_orphans_are_dropped *)
Example C08_good_state_and_live_tick :
  Inv ex_EP ex_HP ex_AP ex_s3 /\ w_pending ex_s3 <> [] /\
  w_dead (fst (step ex_c ex_s3 (OTick 120 0 (fun _ => Some false) ex_hd))) = false.
Proof.
  destruct C08_hypotheses_satisfiable as (HI & Hok & _). split; [|split; [vm_compute; discriminate|vm_compute; reflexivity]].
  unfold ex_s3, ex_ops. cbn [firstn final].
  unfold ex_ops in Hok. inversion Hok as [|? ? K1 H1]; subst. inversion H1 as [|? ? K2 _]; subst.
  apply (step_inv ex_c); [|apply op_ok_st_of; exact K2]. apply (step_inv ex_c); [|apply op_ok_st_of; exact K1]. exact HI.
Qed.

Print Assumptions C08_confirmed_spec.
Print Assumptions C08_safety_all_histories.
Print Assumptions C08_safety_from_any_good_state.
Print Assumptions C08_meaning_polling_path.
Print Assumptions C08_meaning_reobservation_path.
Print Assumptions C08_only_ticks_and_reobservations_forward.
Print Assumptions C08_attestation_equals_chain.
Print Assumptions C08_token_info_shape.
Print Assumptions C08_polling_forwards_at_most_once.
Print Assumptions C08_confirmed_orphans_are_dropped.

(* ================================================================== the watcher COMPOSED with the event conversion (X2) *)
(* model.AlphPipeline runs the same watcher over events carrying their RAW fields (sdk.Val values as the node reports them, tx id
   string, raw multicall answers) and applies ToWormholeMessage / parseAttestToken / GetTokenInfo / toMessagePublication exactly
   where watcher.go / reobserve.go apply them; abs_* maps raw data onto the abstract identifiers of model.AlphWatcher. *)
From Coq Require Import Strings.Byte.
From WH Require Import lib.Bytes model.Vaa model.AlphPipeline proofs.AlphPipelineRead proofs.AlphPipelineBase proofs.AlphPipelineSafety.

(* the abstraction commutes with every step: everything proved above about model.AlphWatcher holds for the composed watcher *)
Theorem C08_pipeline_refines_watcher : forall c s o,
  step (abs_cfg c) (abs_state s) (abs_op o) = (abs_state (fst (xstep c s o)), abs_out (snd (xstep c s o))).
Proof. exact sim_step. Qed.

(* END TO END, over every history of the composed watcher (any node answers, any raw field values): every message handed to the
   signer on either path is `xjust` - its sender / target chain / sequence / nonce / level / payload are the conversion of the
   raw fields of ONE event the node served (faithful: ToWormholeMessage(fields, tx id) = that message, sender = the configured
   token bridge, publication = toMessagePublication(message, header of the event's block)); on re-observation the event is one
   the node listed for the requested 32-byte hash with the governance address in the confirmed block - AND the abstraction of
   that very message is `justified` (contract, caller, main chain, depth, hold, attestation metadata) in the step that sends it *)
Theorem C08_pipeline_end_to_end : forall c EP HP AP ops from0, Forall (xop_ok c EP HP AP) ops ->
  Forall (fun x => xjust c EP HP AP (fst x) (snd x) /\ justified (abs_cfg c) (EPa EP) HP (APa AP) (abs_op (fst x)) (abs_fwd (snd x)))
         (xall_fwds c (xinit from0) ops).
Proof. intros c EP HP AP ops from0 H. apply pipeline_end_to_end; [apply XInv_init|exact H]. Qed.

Theorem C08_pipeline_end_to_end_from_any_good_state : forall c EP HP AP ops s, XInv EP HP AP s -> Forall (xop_ok c EP HP AP) ops ->
  Forall (fun x => xjust c EP HP AP (fst x) (snd x) /\ justified (abs_cfg c) (EPa EP) HP (APa AP) (abs_op (fst x)) (abs_fwd (snd x)))
         (xall_fwds c s ops).
Proof. exact pipeline_end_to_end. Qed.

(* what `faithful` says field by field: the six raw fields have the right variants, and the message carries exactly the values
   they denote (hex / decimal), 32-byte sender = token bridge, Alephium chain id, the hash of the tx id string, and the block
   timestamp split into whole seconds and the millisecond remainder *)
Theorem C08_pipeline_message_fields : forall c EP HP AP f, faithful c EP HP AP f -> 0 <= h_ts (xf_hdr f) ->
  let m := xf_pub f in
  exists s0 s1 s2 s3 s4 s5 nonce,
    x_fields (xf_ev f) = [C.VByteVec Ty.bytevec s0; C.VU256 Ty.u256 s1; C.VU256 Ty.u256 s2;
                          C.VByteVec Ty.bytevec s3; C.VByteVec Ty.bytevec s4; C.VU256 Ty.u256 s5] /\
    C.hex_decode s0 = Some (m_eaddr m) /\ length (m_eaddr m) = 32%nat /\ m_eaddr m = xc_bridge c /\
    C.parse_dec s1 = Some (m_tchain m) /\ 0 <= m_tchain m <= 65535 /\
    C.parse_dec s2 = Some (m_seq m) /\ 0 <= m_seq m < 18446744073709551616 /\
    C.hex_decode s3 = Some nonce /\ length nonce = 4%nat /\ m_nonce m = unbe nonce /\
    C.hex_decode s4 = Some (m_payload m) /\
    C.parse_dec s5 = Some (Vaa.m_cl m) /\ 0 <= Vaa.m_cl m <= 255 /\
    m_echain m = 255 /\ m_tx m = C.hex_to_hash (x_txid (xf_ev f)) /\
    m_ts m = h_ts (xf_hdr f) / 1000 /\ m_tns m = (h_ts (xf_hdr f) mod 1000) * 1000000.
Proof. exact faithful_message_fields. Qed.

(* re-observation: the message's tx hash is the requested hash *)
Theorem C08_pipeline_reobserved_tx_hash : forall c EP HP AP r f, faithful c EP HP AP f -> reobs_from c r f -> m_tx (xf_pub f) = xr_txhash r.
Proof. exact reobserved_tx_hash. Qed.

(* attestations: the forwarded payload decodes to exactly what GetTokenInfo made of an answer of the node; and what it accepts *)
Theorem C08_pipeline_attestation_equals_chain : forall c EP HP AP f, faithful c EP HP AP f -> xis_attest (xf_msg f) = true ->
  exists t a, C.parse_attest_token (m_payload (xf_pub f)) = C.COk t /\ xf_chain f = Some t /\ AP a /\ xget_token_info (C.t_id t) a = XTiOk t.
Proof. exact forwarded_attestation_equals_chain. Qed.

Theorem C08_pipeline_token_info_shape : forall id a t, xget_token_info id a = XTiOk t ->
  (id = alph_token_id /\ t = native_info) \/
  (exists vs vn vd sb nb d, a = XMcRes [XOk [vs]; XOk [vn]; XOk [vd]] /\ C.to_bytevec vs = C.COk sb /\ C.to_bytevec vn = C.COk nb /\ C.to_uint8 vd = C.COk d /\
     t = {| C.t_id := id; C.t_decimals := d; C.t_symbol := C.bytes_to_string sb; C.t_name := C.bytes_to_string nb |}).
Proof. exact xget_token_info_spec. Qed.

(* at most once through the composition *)
Theorem C08_pipeline_forwards_at_most_once : forall c (p : uevent -> bool) ops from0,
  let n := fun l => length (filter (fun u => p (abs_u u)) l) in
  (n (xtick_fwds c (xinit from0) ops) + n (xheld (xfinal c (xinit from0) ops)) <= n (xbatches c (xinit from0) ops))%nat.
Proof. exact pipeline_at_most_once. Qed.

(* ---- the hypotheses are satisfiable: a concrete raw history *)
Definition px_bridge : bytes := repeat x07 32.
Definition px_c : xcfg := {| xc_gov := 10; xc_bridge := px_bridge; xc_mainnet := true |}.
Definition px_txhash : bytes := repeat xaa 32.
Definition px_nonce : bytes := [x00; x00; x01; x02].
Definition px_ev (uid : Z) (fields : list C.val) : xevent :=
  {| x_uid := uid; x_block := 5; x_txid := C.to_hex px_txhash; x_index := 0; x_fields := fields |}.
Definition px_tokid : bytes := repeat x09 31 ++ [x01].
Definition px_attest : bytes :=
  match C.attest_payload px_tokid 255 8 (repeat x00 28 ++ map byte_of_Z [85; 83; 68; 84]) (repeat x00 26 ++ map byte_of_Z [84; 101; 116; 104; 101; 114]) px_nonce with Some p => p | None => [] end.
Definition px_e1 : xevent := px_ev 1 (C.event_fields px_bridge 2 18446744073709551615 px_nonce [x01; x09] 3).      (* transfer, sequence 2^64-1 *)
Definition px_e2 : xevent := px_ev 2 (C.event_fields (repeat x08 32) 2 8 px_nonce [x01] 0).                         (* foreign sender *)
Definition px_e4 : xevent := px_ev 4 (C.event_fields px_bridge 0 10 px_nonce px_attest 1).                          (* attestation *)
Definition px_ans : xmc_ans := XMcRes [XOk [C.vbytes (map byte_of_Z [85; 83; 68; 84])]; XOk [C.vbytes (map byte_of_Z [84; 101; 116; 104; 101; 114; 0; 0])]; XOk [C.vu256 8]].
Definition px_log : list xevent := [px_e1; px_e2; px_e4].
Definition px_hdr : header := {| h_ts := 1663000000123; h_height := 100 |}.
Definition px_hd : Z -> option header := fun b => if b =? 5 then Some px_hdr else None.
Definition px_r : xreobs_in :=
  {| xr_chain := 255; xr_txhash := px_txhash; xr_status := Some (Some 5);
     xr_events := Some [ {| xt_addr := 11; xt_ev := px_e1 |}; {| xt_addr := 10; xt_ev := px_e1 |}; {| xt_addr := 10; xt_ev := px_e2 |} ];
     xr_hd := px_hd; xr_tok := fun _ => px_ans; xr_mc := Some true; xr_height := Some 120; xr_now := 1663000000123 + 205 * 16000 |}.
Definition px_ops : list xop :=
  [ XPoll (Some 3) (fun _ _ => XPage px_log 3) (fun _ => px_ans); XDeliver;
    XTick 120 (1663000000123 + 205 * 16000 - 1) (fun _ => Some true) px_hd;
    XTick 120 (1663000000123 + 205 * 16000) (fun _ => Some true) px_hd; XReobs px_r ].
Definition px_EP (e : xevent) : Prop := x_block e = 5.
Definition px_HP (b : Z) (h : header) : Prop := b = 5 /\ h = px_hdr.
Definition px_AP (a : xmc_ans) : Prop := a = px_ans.

(* the batch keeps events 1, 2, 4 (events that do not fit: props/C09.v); the attestation is forwarded at the
   first tick, the transfer at the second (205-interval floor), never the foreign event; the re-observation forwards event 1 once
   (not the look-alike of contract 11, not the foreign sender); every forwarded message carries the event's values: sequence
   2^64-1, level 3, target chain 2, nonce 258, 1663000000 s + 123 ms, chain id 255, the requested tx hash *)
Example C08_pipeline_hypotheses_satisfiable :
  Forall (xop_ok px_c px_EP px_HP px_AP) px_ops /\
  map (fun x => (map (fun u => x_uid (xu_ev u)) (xo_batch x),
                 map (fun f => let m := xf_pub f in (x_uid (xf_ev f), m_seq m, Vaa.m_cl m, m_tchain m, m_nonce m, m_ts m, m_tns m, m_echain m, bytes_eqb (m_tx m) px_txhash, bytes_eqb (m_eaddr m) px_bridge)) (xo_fwd x)))
      (fst (xrun px_c (xinit 0) px_ops))
  = [ ([1; 2; 4], []); ([], []); ([], [(4, 10, 1, 0, 258, 1663000000, 123000000, 255, true, true)]);
      ([], [(1, 18446744073709551615, 3, 2, 258, 1663000000, 123000000, 255, true, true)]);
      ([], [(1, 18446744073709551615, 3, 2, 258, 1663000000, 123000000, 255, true, true)]) ].
Proof.
  split; [|vm_compute; reflexivity].
  assert (HH : forall b h, px_hd b = Some h -> px_HP b h).
  { intros b h. unfold px_hd. destruct (b =? 5) eqn:E; [|discriminate]. intro H. injection H as <-. apply Z.eqb_eq in E. split; auto. }
  unfold px_ops. repeat apply Forall_cons; try apply Forall_nil; try exact I; try exact HH.
  - split; [|intro i; reflexivity]. intros k s evs next H. injection H as <- <-. repeat constructor.
  - split; [|split; [exact HH|intro i; reflexivity]]. intros evs H. cbn [xr_events px_r] in H. injection H as <-.
    repeat constructor; intros _; reflexivity.
Qed.

(* the forwarded transfer of that history is `faithful`, its header timestamp is non-negative (hypotheses of
   C08_pipeline_message_fields), and the re-observed one satisfies reobs_from (hypothesis of C08_pipeline_reobserved_tx_hash) *)
Example C08_pipeline_faithful_instances :
  exists f g, In (XTick 120 (1663000000123 + 205 * 16000) (fun _ => Some true) px_hd, f) (xall_fwds px_c (xinit 0) px_ops) /\
              In (XReobs px_r, g) (xall_fwds px_c (xinit 0) px_ops) /\
    faithful px_c px_EP px_HP px_AP f /\ 0 <= h_ts (xf_hdr f) /\ x_uid (xf_ev f) = 1 /\
    faithful px_c px_EP px_HP px_AP g /\ reobs_from px_c px_r g /\ m_tx (xf_pub g) = px_txhash.
Proof.
  destruct C08_pipeline_hypotheses_satisfiable as [Hok _].
  pose proof (C08_pipeline_end_to_end px_c px_EP px_HP px_AP px_ops 0 Hok) as J.
  remember (xall_fwds px_c (xinit 0) px_ops) as l eqn:E.
  assert (E' : map (fun x => x_uid (xf_ev (snd x))) l = [4; 1; 1]) by (subst l; vm_compute; reflexivity).
  assert (E3 : map (fun x => h_ts (xf_hdr (snd x))) l = [1663000000123; 1663000000123; 1663000000123]) by (subst l; vm_compute; reflexivity).
  assert (E2 : map fst l = [nth 2 px_ops XDeliver; nth 3 px_ops XDeliver; nth 4 px_ops XDeliver]) by (subst l; reflexivity).
  destruct l as [|[o0 f0] [|[o1 f] [|[o2 g] [|x t]]]]; try discriminate E'. cbn [map fst snd] in E', E2, E3.
  pose proof (f_equal (fun z => nth 1 z 0) E') as U1. pose proof (f_equal (fun z => nth 1 z 0) E3) as T1. cbn [nth] in U1, T1.
  pose proof (f_equal (fun z => nth 0 z XDeliver) E2) as O0. pose proof (f_equal (fun z => nth 1 z XDeliver) E2) as O1.
  pose proof (f_equal (fun z => nth 2 z XDeliver) E2) as O2. cbn [nth px_ops] in O0, O1, O2. subst o0 o1 o2.
  inversion J as [|x0 t0 _ J1]; subst. inversion J1 as [|x1 t1 [[Ff _] _] J2]; subst. inversion J2 as [|x2 t2 [[Fg Rg] _] _]; subst. cbn [fst snd] in *.
  exists f, g.
  split; [right; left; reflexivity|]. split; [right; right; left; reflexivity|].
  split; [exact Ff|]. split; [rewrite T1; lia|]. split; [exact U1|]. split; [exact Fg|]. split; [exact Rg|].
  change px_txhash with (xr_txhash px_r). eapply C08_pipeline_reobserved_tx_hash; eassumption.
Qed.

(* an attestation instance: the forwarded attestation's payload decodes to the node's answer (USDT / Tether / 8 decimals) *)
Example C08_pipeline_attestation_instance :
  exists f, In f (xo_fwd (snd (xstep px_c (xfinal px_c (xinit 0) (firstn 2 px_ops)) (nth 2 px_ops XDeliver)))) /\ xis_attest (xf_msg f) = true /\
    xf_chain f = Some {| C.t_id := px_tokid; C.t_decimals := 8; C.t_symbol := map byte_of_Z [85; 83; 68; 84]; C.t_name := map byte_of_Z [84; 101; 116; 104; 101; 114] |} /\
    xget_token_info px_tokid px_ans = XTiOk {| C.t_id := px_tokid; C.t_decimals := 8; C.t_symbol := map byte_of_Z [85; 83; 68; 84]; C.t_name := map byte_of_Z [84; 101; 116; 104; 101; 114] |}.
Proof. eexists. split; [vm_compute; left; reflexivity|]. repeat split; vm_compute; reflexivity. Qed.

Print Assumptions C08_pipeline_refines_watcher.
Print Assumptions C08_pipeline_end_to_end.
Print Assumptions C08_pipeline_end_to_end_from_any_good_state.
Print Assumptions C08_pipeline_message_fields.
Print Assumptions C08_pipeline_reobserved_tx_hash.
Print Assumptions C08_pipeline_attestation_equals_chain.
Print Assumptions C08_pipeline_token_info_shape.
Print Assumptions C08_pipeline_forwards_at_most_once.
