(* C08 - Alephium messages reach the signer only when final and from the token bridge, on the polling path and on the
   re-observation path alike.

   model.AlphWatcher is the watcher as a transition system over an abstract node: every answer the watcher obtains from
   the node is an input of the step in which it is obtained ("at that moment" = according to the node's answer in that
   step).  Steps: OPoll (one tick of fetchEvents), ODeliver (hand-over of the batch to the event loop), OTick (a height
   reaches handleEvents_), OReobs (handleObsvRequest handles a request), OHeightErr.  Constants, comparison operators and
   the presence of the filters come from gen.Extracted (regenerated from watcher.go / reobserve.go / client.go / utils.go
   on every run), so the theorems below are about the code as it is now. *)
From Coq Require Import List ZArith Bool Lia.
From WH Require Import gen.Extracted model.AlphWatcher proofs.AlphWatcherBase proofs.AlphWatcherSafety.
Import ListNotations.
Open Scope Z_scope.

(* isEventConfirmed = enough blocks on top AND the wall-clock hold elapsed; hold = level * 16 s, on mainnet
   max(level, 205) * 16 s for token transfers *)
Theorem C08_confirmed_spec : forall mn m h now height, sane_hdr h (m_cl m) ->
  confirmed mn m h now height = true <-> (h_height h + m_cl m <= height /\ h_ts h + hold mn m <= now).
Proof. exact confirmed_spec. Qed.

(* THE SAFETY INVARIANT, over every history (any number of polls, hand-overs, height ticks, re-observation requests and
   failures, in any order, with any answers of the node, including API errors at any call, reorgs between two calls,
   foreign senders, look-alike events of other contracts, mismatching attestations):
   every message handed to the signer is `justified` in the step that forwards it.
   EP / HP / AP are ARBITRARY predicates on the node's answers ("is an event of the governance contract's stream",
   "is the header of that block", "is a metadata answer of the node"): whatever holds for everything the node answered
   holds for what is forwarded - messages are built from the node's answers only. *)
Theorem C08_safety_all_histories : forall c EP HP AP ops from0,
  Forall (op_ok c EP HP AP) ops -> all_justified c EP HP AP (init from0) ops.
Proof. intros c EP HP AP ops from0 H. apply safety_all_histories; [apply Inv_init|exact H]. Qed.

(* ... and from every state that satisfies the invariant (so also after a restart with any such state) *)
Theorem C08_safety_from_any_good_state : forall c EP HP AP ops s,
  Inv EP HP AP s -> Forall (op_ok c EP HP AP) ops -> all_justified c EP HP AP s ops.
Proof. exact safety_all_histories. Qed.

(* what `justified` says on the polling path: the event was served by the node in a page of the governance contract's
   stream, it is a WormholeMessage event whose sender field is the configured token-bridge id, the node has just reported
   its block as main-chain, and with the block's header: height + level <= current height, timestamp + level*16 s <= now,
   on mainnet for transfers timestamp + max(level,205)*16 s <= now; attestations carry exactly the token contract's answer *)
Theorem C08_meaning_polling_path : forall c EP HP AP height now mc hd f,
  justified c EP HP AP (OTick height now mc hd) f -> sane_hdr (f_hdr f) (m_cl (f_msg f)) ->
  EP (f_ev f) /\ HP (e_block (f_ev f)) (f_hdr f) /\ m_sender (f_msg f) = c_bridge c /\
  mc (e_block (f_ev f)) = Some true /\
  h_height (f_hdr f) + m_cl (f_msg f) <= height /\
  h_ts (f_hdr f) + m_cl (f_msg f) * 16000 <= now /\
  (c_mainnet c = true -> is_transfer (f_msg f) = true -> h_ts (f_hdr f) + Z.max (m_cl (f_msg f)) 205 * 16000 <= now) /\
  attest_ok AP (f_msg f) (f_chain f).
Proof. exact justified_tick_meaning. Qed.

(* ... and on the re-observation path: the same, and the event is one the node listed for the requested transaction
   WITH the governance contract's address, in the very block whose main-chain status was queried *)
Theorem C08_meaning_reobservation_path : forall c EP HP AP r f,
  justified c EP HP AP (OReobs r) f -> sane_hdr (f_hdr f) (m_cl (f_msg f)) ->
  EP (f_ev f) /\ HP (e_block (f_ev f)) (f_hdr f) /\ m_sender (f_msg f) = c_bridge c /\
  r_status r = Some (Some (e_block (f_ev f))) /\ r_mc r = Some true /\
  (exists te evs, r_events r = Some evs /\ In te evs /\ t_ev te = f_ev f /\ t_addr te = c_gov c) /\
  (exists height, r_height r = Some height /\
     h_height (f_hdr f) + m_cl (f_msg f) <= height /\
     h_ts (f_hdr f) + m_cl (f_msg f) * 16000 <= r_now r /\
     (c_mainnet c = true -> is_transfer (f_msg f) = true -> h_ts (f_hdr f) + Z.max (m_cl (f_msg f)) 205 * 16000 <= r_now r)) /\
  attest_ok AP (f_msg f) (f_chain f).
Proof. exact justified_reobs_meaning. Qed.

(* no other step forwards anything *)
Theorem C08_only_ticks_and_reobservations_forward : forall c EP HP AP o f, justified c EP HP AP o f ->
  (exists height now mc hd, o = OTick height now mc hd) \/ (exists r, o = OReobs r).
Proof. exact justified_only_tick_reobs. Qed.

(* attestations: validation succeeds only if the payload decodes to exactly what GetTokenInfo made of the node's answer,
   and GetTokenInfo accepts only the native token or three succeeded calls with one well-typed return each *)
Theorem C08_attestation_equals_chain : forall m a t, validate_attest m a = VaOk t ->
  m_tok m = Some t /\ get_token_info (ti_id t) a = TiOk t.
Proof. exact validate_attest_ok. Qed.

Theorem C08_token_info_shape : forall id a t, get_token_info id a = TiOk t ->
  (id = alph_native_id /\ t = {| ti_id := alph_native_id; ti_dec := alph_native_decimals; ti_sym := alph_native_sym; ti_name := alph_native_name |}) \/
  (exists vs vn vd s n d, a = McRes [COk [vs]; COk [vn]; COk [vd]] /\ to_bytevec vs = Some s /\ to_bytevec vn = Some n /\ to_uint8 vd = Some d /\
                          t = {| ti_id := id; ti_dec := d; ti_sym := s; ti_name := n |}).
Proof. exact get_token_info_spec. Qed.

(* the polling path forwards each fetched event at most once: for EVERY predicate p on events, along every history the
   number of p-events forwarded by height ticks plus the number still held never exceeds the number fetched in batches *)
Theorem C08_polling_forwards_at_most_once : forall c p ops from0,
  (cnt p (tick_fwds c (init from0) ops) + cnt p (held (final c (init from0) ops)) <= cnt p (batches c (init from0) ops))%nat.
Proof. intros c p ops from0. pose proof (forwarded_at_most_fetched c p ops (init from0)) as H. cbn in H. exact H. Qed.

(* orphaned blocks: a message forwarded by a tick is in a block the node reported main-chain in that tick (above); and
   after a tick nothing confirmed is left pending - confirmed events of orphaned blocks are dropped for good *)
Theorem C08_confirmed_orphans_are_dropped : forall c s height now mc hd,
  w_dead (fst (step c s (OTick height now mc hd))) = false ->
  Forall (fun b' => exists h, pb_hdr b' = Some h /\ Forall (fun u => confirmed (c_mainnet c) (u_msg u) h now height = false) (pb_evs b'))
         (w_pending (fst (step c s (OTick height now mc hd)))) \/ w_dead s = true.
Proof. exact tick_leaves_only_unconfirmed. Qed.

(* ------------------------------------------------------------------ the hypotheses are satisfiable: a concrete history *)
Definition ex_c : cfg := {| c_gov := 10; c_bridge := 77; c_mainnet := true |}.
Definition ex_ti : tokinfo := {| ti_id := 900; ti_dec := 8; ti_sym := 3; ti_name := 4 |}.
Definition ex_e1 : cevent := {| e_uid := 1; e_block := 5; e_index := 0; e_conv := Some {| m_sender := 77; m_cl := 3; m_p0 := 1; m_tok := None |} |}.
Definition ex_e2 : cevent := {| e_uid := 2; e_block := 5; e_index := 0; e_conv := Some {| m_sender := 78; m_cl := 0; m_p0 := 1; m_tok := None |} |}.
Definition ex_e3 : cevent := {| e_uid := 3; e_block := 5; e_index := 0; e_conv := Some {| m_sender := 77; m_cl := 3; m_p0 := 2; m_tok := Some ex_ti |} |}.
Definition ex_fake : cevent := {| e_uid := 99; e_block := 5; e_index := 0; e_conv := Some {| m_sender := 77; m_cl := 0; m_p0 := 1; m_tok := None |} |}.
Definition ex_ans : mc_ans := McRes [COk [VBytes (Some 3)]; COk [VBytes (Some 4)]; COk [VNum (Some 8)]].
Definition ex_hdr : header := {| h_ts := 1000; h_height := 100 |}.
(* the three events as handleUnconfirmedEvents keeps them (the batch fetchEvents is about to hand over) *)
Definition ex_u (e : cevent) (ch : option tokinfo) : uevent :=
  {| u_ev := e; u_msg := match e_conv e with Some m => m | None => {| m_sender := 0; m_cl := 0; m_p0 := 0; m_tok := None |} end; u_chain := ch |}.
Definition ex_s0 : wstate :=
  {| w_from := 3; w_inflight := Some [ex_u ex_e1 None; ex_u ex_e2 None; ex_u ex_e3 (Some ex_ti)]; w_pending := []; w_enabled := false; w_dead := false |}.
Definition ex_hd : Z -> option header := fun b => if b =? 5 then Some ex_hdr else None.
Definition ex_r : reobs_in :=
  {| r_chain := 255; r_txlen := 32; r_status := Some (Some 5);
     r_events := Some [ {| t_addr := 11; t_ev := ex_fake |}; {| t_addr := 10; t_ev := ex_e1 |} ];
     r_hd := ex_hd; r_tok := fun _ => ex_ans; r_mc := Some true; r_height := Some 120; r_now := 1000 + 205 * 16000 |}.
Definition ex_ops : list op :=
  [ ODeliver; OTick 120 (1000 + 205 * 16000 - 1) (fun _ => Some true) ex_hd;
    OTick 120 (1000 + 205 * 16000) (fun _ => Some true) ex_hd; OReobs ex_r ].
Definition ex_EP (e : cevent) : Prop := e_uid e = 1 \/ e_uid e = 2 \/ e_uid e = 3.
Definition ex_HP (b : Z) (h : header) : Prop := b = 5 /\ h = ex_hdr.
Definition ex_AP (a : mc_ans) : Prop := a = ex_ans.

(* the state satisfies the invariant and the node's answers satisfy the provenance predicates; the run forwards the
   attestation at the first tick (hold 3 intervals), the transfer only at the second (205-interval floor on mainnet), never
   the foreign-sender event 2, and the re-observation forwards event 1 but not the look-alike event 99 of contract 11 *)
Example C08_hypotheses_satisfiable :
  Inv ex_EP ex_HP ex_AP ex_s0 /\
  Forall (op_ok ex_c ex_EP ex_HP ex_AP) ex_ops /\
  map (fun x => map (fun f => e_uid (f_ev f)) (o_fwd x)) (fst (run ex_c ex_s0 ex_ops)) = [[]; [3]; [1]; [1]].
Proof.
  split.
  { split; [|constructor]. intros l H. injection H as <-.
    repeat apply Forall_cons; try apply Forall_nil; (split; [unfold ex_EP; cbn; auto|split; [reflexivity|]]); intro A; try discriminate A.
    exists ex_ti, ex_ans. repeat apply conj; reflexivity. }
  split; [|vm_compute; reflexivity].
  assert (HH : forall b h, ex_hd b = Some h -> ex_HP b h).
  { intros b h. unfold ex_hd. destruct (b =? 5) eqn:E; [|discriminate]. intro H. injection H as <-. apply Z.eqb_eq in E. split; auto. }
  unfold ex_ops.
  apply Forall_cons; [exact I|apply Forall_cons; [exact HH|apply Forall_cons; [exact HH|apply Forall_cons; [|constructor]]]].
  split; [|split; [exact HH|intro i; reflexivity]]. intros evs H. cbn [r_events ex_r] in H. injection H as <-.
  apply Forall_cons; [cbn [t_addr ex_c c_gov]; intro H; discriminate H|]. apply Forall_cons; [|apply Forall_nil].
  intros _. unfold ex_EP. cbn [t_ev e_uid ex_e1]. auto.
Qed.

(* the confirmation test at its boundaries: level 3 needs 3 blocks on top and 3 * 16 s; a mainnet transfer 205 * 16 s *)
Example C08_confirmed_boundaries :
  let m := {| m_sender := 77; m_cl := 3; m_p0 := 1; m_tok := None |} in
  sane_hdr ex_hdr (m_cl m) /\
  confirmed false m ex_hdr (1000 + 48000) 103 = true /\ confirmed false m ex_hdr (1000 + 48000 - 1) 103 = false /\
  confirmed false m ex_hdr (1000 + 48000) 102 = false /\
  confirmed true m ex_hdr (1000 + 205 * 16000) 103 = true /\ confirmed true m ex_hdr (1000 + 205 * 16000 - 1) 103 = false.
Proof. cbv zeta. split; [unfold sane_hdr; cbn; lia|vm_compute; repeat split; reflexivity]. Qed.

(* the message forwarded at the second tick of the example history is justified, and its header is sane: the hypotheses
   of C08_meaning_polling_path hold for it *)
Definition ex_s3 : wstate := final ex_c ex_s0 (firstn 2 ex_ops).
Example C08_meaning_hypotheses_satisfiable :
  exists f, o_fwd (snd (step ex_c ex_s3 (OTick 120 (1000 + 205 * 16000) (fun _ => Some true) ex_hd))) = [f] /\
    justified ex_c ex_EP ex_HP ex_AP (OTick 120 (1000 + 205 * 16000) (fun _ => Some true) ex_hd) f /\ sane_hdr (f_hdr f) (m_cl (f_msg f)) /\
    e_uid (f_ev f) = 1.
Proof.
  destruct C08_hypotheses_satisfiable as (HI & Hok & _).
  pose proof (C08_safety_from_any_good_state ex_c ex_EP ex_HP ex_AP ex_ops ex_s0 HI Hok) as J.
  unfold ex_ops in J. cbn [all_justified] in J. destruct J as (_ & _ & J4 & _).
  change (fst (step ex_c (fst (step ex_c ex_s0 ODeliver)) (OTick 120 (1000 + 205 * 16000 - 1) (fun _ => Some true) ex_hd))) with ex_s3 in J4.
  remember (o_fwd (snd (step ex_c ex_s3 (OTick 120 (1000 + 205 * 16000) (fun _ => Some true) ex_hd)))) as l eqn:E.
  assert (E' : map (fun f => (e_uid (f_ev f), h_ts (f_hdr f), h_height (f_hdr f), m_cl (f_msg f))) l = [(1, 1000, 100, 3)]) by (subst l; vm_compute; reflexivity).
  destruct l as [|f [|g t]]; try discriminate E'. injection E' as E1 E2 E3 E4.
  exists f. split; [reflexivity|]. inversion J4 as [|x y Jf _]; subst. split; [exact Jf|]. split; [|exact E1].
  unfold sane_hdr. rewrite E2, E3, E4. lia.
Qed.

(* and for the re-observation step of that history *)
Example C08_reobservation_hypotheses_satisfiable :
  exists f, fst (reobserve ex_c ex_r) = [f] /\ justified ex_c ex_EP ex_HP ex_AP (OReobs ex_r) f /\ sane_hdr (f_hdr f) (m_cl (f_msg f)) /\ e_uid (f_ev f) = 1.
Proof.
  destruct C08_hypotheses_satisfiable as (_ & Hok & _).
  assert (Hr : op_ok ex_c ex_EP ex_HP ex_AP (OReobs ex_r)).
  { unfold ex_ops in Hok. inversion Hok as [|? ? _ H1]; subst. inversion H1 as [|? ? _ H2]; subst. inversion H2 as [|? ? _ H3]; subst.
    inversion H3 as [|? ? H5 _]; subst. exact H5. }
  pose proof (reobserve_just ex_c ex_EP ex_HP ex_AP ex_r Hr) as J.
  remember (fst (reobserve ex_c ex_r)) as l eqn:E.
  assert (E' : map (fun f => (e_uid (f_ev f), h_ts (f_hdr f), h_height (f_hdr f), m_cl (f_msg f))) l = [(1, 1000, 100, 3)]) by (subst l; vm_compute; reflexivity).
  destruct l as [|f [|g t]]; try discriminate E'. injection E' as E1 E2 E3 E4.
  exists f. split; [reflexivity|]. inversion J as [|x y Jf _]; subst. split; [exact Jf|]. split; [|exact E1].
  unfold sane_hdr. rewrite E2, E3, E4. lia.
Qed.

(* the invariant's hypothesis of C08_safety_from_any_good_state and the liveness hypothesis of C08_confirmed_orphans_are_dropped *)
Example C08_good_state_and_live_tick :
  Inv ex_EP ex_HP ex_AP ex_s3 /\ w_pending ex_s3 <> [] /\
  w_dead (fst (step ex_c ex_s3 (OTick 120 0 (fun _ => Some false) ex_hd))) = false.
Proof.
  destruct C08_hypotheses_satisfiable as (HI & Hok & _). split; [|split; [vm_compute; discriminate|vm_compute; reflexivity]].
  unfold ex_s3, ex_ops. cbn [firstn final].
  unfold ex_ops in Hok. inversion Hok as [|? ? K1 H1]; subst. inversion H1 as [|? ? K2 _]; subst.
  apply (step_inv ex_c); [|apply op_ok_st_of; exact K2]. apply (step_inv ex_c); [|apply op_ok_st_of; exact K1]. exact HI.
Qed.

Print Assumptions C08_confirmed_spec.
Print Assumptions C08_safety_all_histories.
Print Assumptions C08_safety_from_any_good_state.
Print Assumptions C08_meaning_polling_path.
Print Assumptions C08_meaning_reobservation_path.
Print Assumptions C08_only_ticks_and_reobservations_forward.
Print Assumptions C08_attestation_equals_chain.
Print Assumptions C08_token_info_shape.
Print Assumptions C08_polling_forwards_at_most_once.
Print Assumptions C08_confirmed_orphans_are_dropped.
