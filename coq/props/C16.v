(* C16 — acknowledged VAA writes survive a crash of the node (partial by nature).
   Model: model/CrashKV.v — the wrapper of node/pkg/db/db.go (one Update transaction with one Set per StoreSignedVAA,
   the Update error returned to the caller: GENERATED flags from gen/x_dbstore.py) over an abstract crash-prone engine.
   A history is a list of events: start of a store / commit / abort / success return / error return / crash / reopen /
   lookup with its result; [run_evs cinit h = Some _] says that h is a history of the model; [starts h] lists the VAAs
   whose store was started, transaction n storing the n-th.
   The engine contract (acknowledge only after durable; a kill loses only unacknowledged transactions, whole; every
   zero-length log file a kill leaves fails exactly one badger.Open attempt and is repaired by it) is the definition of [exec] and, for a concrete engine, the Section hypothesis [engine_contract] of
   proofs/CrashKVProofs.v: TRUSTED for badger, attacked by the SIGKILL harness, not proved. *)
From Coq Require Import List ZArith Lia Bool Arith.
From Coq Require Import Strings.Byte.
From WH Require Import lib.Bytes gen.Extracted model.Vaa model.Db proofs.DbProofs model.CrashKV proofs.CrashKVProofs model.WalEngine proofs.WalEngineProofs.
Import ListNotations.
Open Scope Z_scope.

(* the wrapper returns success only for a committed transaction *)
Theorem C16_success_implies_committed : forall st n st', exec st (EAck n) = Some st' -> In n (committed st).
Proof. exact ack_implies_committed. Qed.

(* once StoreSignedVAA(v) has returned success, EVERY later lookup of v's identifier — after any further stores, any
   number of kills and reopens — returns a VAA stored under exactly that identifier: never not-found, never foreign bytes *)
Theorem C16_acked_survives : forall h1 n h2 i res v st,
  run_evs cinit (h1 ++ EAck n :: h2 ++ [EGet i res]) = Some st ->
  nth_error (starts h1) n = Some v -> id_of v = i ->
  Forall wf (starts (h1 ++ EAck n :: h2)) ->
  exists v', In v' (starts (h1 ++ EAck n :: h2)) /\ id_of v' = i /\ res = Found (marshal v').
Proof. exact acked_survives. Qed.

(* ... byte for byte that VAA, when every store under the identifier carried these bytes *)
Theorem C16_acked_survives_intact : forall h1 n h2 i res v st,
  run_evs cinit (h1 ++ EAck n :: h2 ++ [EGet i res]) = Some st ->
  nth_error (starts h1) n = Some v -> id_of v = i ->
  Forall wf (starts (h1 ++ EAck n :: h2)) ->
  (forall v', In v' (starts (h1 ++ EAck n :: h2)) -> id_of v' = i -> marshal v' = marshal v) ->
  res = Found (marshal v).
Proof. exact acked_survives_intact. Qed.

(* a lookup never returns bytes that differ from a VAA stored under that identifier, kill or no kill *)
Theorem C16_lookup_never_foreign : forall h i b st, run_evs cinit (h ++ [EGet i (Found b)]) = Some st -> Forall wf (starts h) -> idwf i ->
  exists v, In v (starts h) /\ id_of v = i /\ b = marshal v.
Proof. exact get_never_foreign. Qed.

(* exactly: a lookup returns the bytes of the most recently committed store under that identifier (not-found iff none),
   whatever kills and reopens lie in between *)
Theorem C16_lookup_is_last_committed : forall h i res st, run_evs cinit (h ++ [EGet i res]) = Some st -> Forall wf (starts h) -> idwf i ->
  res = match last_committed h i with Some v => Found (marshal v) | None => NotFound end.
Proof. exact lookup_is_last_committed. Qed.

(* a kill can come at any moment and may leave ANY number of zero-length log files (each makes one badger.Open attempt
   fail); the store always reopens afterwards — db.Open never returns an error — with exactly its durable contents.
   [db_open_attempts] is db.go's loop bound, generated from the source. *)
Theorem C16_kill_any_time : forall st k, up st = true -> exists st', exec st (ECrash k) = Some st'.
Proof. exact crash_always_possible. Qed.
Theorem C16_reopens_after_kill : forall st k st', exec st (ECrash k) = Some st' ->
  exists st'', exec st' EReopen = Some st'' /\ dur st'' = dur st /\ up st'' = true /\ infl st'' = [] /\ damaged st'' = 0%nat.
Proof. exact reopens_after_crash. Qed.
Theorem C16_reopen_never_fails : forall st k st', exec st (ECrash k) = Some st' -> exec st' EReopenFail = None.
Proof. exact reopen_never_fails. Qed.

(* error return = the transaction was given up; an unsigned VAA never reaches the store *)
Theorem C16_error_means_aborted : forall st n st', exec st (EErr n) = Some st' -> In n (aborted st).
Proof. exact err_means_aborted. Qed.
Theorem C16_unsigned_changes_nothing : forall st v st', exec st (EPanic v) = Some st' -> st' = st /\ sigs v = [].
Proof. exact unsigned_changes_nothing. Qed.

(* without kills the durable map is C12's history store *)
Theorem C16_plain_history_is_C12_store : forall vs st, up st = true ->
  exists st', run_evs st (plain (next st) vs) = Some st' /\ dur st' = store_all (dur st) vs /\ up st' = true.
Proof. exact plain_history_is_store_all. Qed.

(* the same for any concrete engine that satisfies the contract (the hypothesis is the trusted part) *)
Theorem C16_engine_acked_survives : forall (E : Type) (estep : E -> ev -> E -> Prop) (abs : E -> cstate) (e0 : E),
  abs e0 = cinit -> (forall e x e', estep e x e' -> exec (abs e) x = Some (abs e')) ->
  forall h1 n h2 i res v e, etrace E estep e0 (h1 ++ EAck n :: h2 ++ [EGet i res]) e ->
  nth_error (starts h1) n = Some v -> id_of v = i -> Forall wf (starts (h1 ++ EAck n :: h2)) ->
  exists v', In v' (starts (h1 ++ EAck n :: h2)) /\ id_of v' = i /\ res = Found (marshal v').
Proof. exact engine_acked_survives. Qed.

(* ---------------------------------------------------------------- non-vacuity: a history with an in-flight store lost by a kill *)
Definition ex_sig : sig := {| s_idx := 0; s_data := repeat x00 65 |}.
Definition ex_v (sq : Z) (p : byte) : vaa :=
  {| version := vaa_version; gsidx := 0; sigs := [ex_sig]; ts := 1; tns := 0; nonce := 0; echain := 2; tchain := 255;
     eaddr := repeat x00 32; seq := sq; cl := 1; payload := [p] |}.
Definition ex_h : list ev :=
  [EStart (ex_v 1 x01); ECommit 0; EAck 0; EStart (ex_v 2 x02); EStart (ex_v 1 x03); ECommit 2; ECrash 2; EReopen;
   EGet (id_of (ex_v 1 x01)) (Found (marshal (ex_v 1 x03))); EGet (id_of (ex_v 2 x02)) NotFound; ECrash 0; EReopen;
   EGet (id_of (ex_v 1 x01)) (Found (marshal (ex_v 1 x03)))].

Example C16_example_history : (exists st, run_evs cinit ex_h = Some st) /\ Forall wf (starts ex_h) /\
  run_evs cinit [EStart (ex_v 1 x01); ECrash 1; EReopen; EGet (id_of (ex_v 1 x01)) (Found (marshal (ex_v 1 x01)))] = None /\
  run_evs cinit [EStart (ex_v 1 x01); EAck 0] = None.
Proof.
  split; [eexists; vm_compute; reflexivity|]. split; [|split; vm_compute; reflexivity].
  unfold ex_h. cbn [starts flat_map app]. repeat (apply Forall_cons; [apply wfb_wf; vm_compute; reflexivity|]). apply Forall_nil.
Qed.


(* ---------------------------------------------------------------- a concrete engine that meets the contract: write-ahead log + memtable
   (model/WalEngine.v: append the record, apply it to the memtable, only then let Update return; a kill keeps the appended frames,
   may leave ONE torn frame of an interrupted append, loses memtable and pending calls; Open replays up to the first torn frame
   and truncates there).  Each step of that engine from a state satisfying its invariant is a step of the crash-KV with the same
   label, and the invariant is kept: the engine contract is a THEOREM for this engine (what stays trusted for badger is that it
   is such an engine: frame detection, append-before-return, truncation on Open). *)
Theorem C16_wal_engine_refines_contract : forall torn st e st',
  winv st -> wexec true torn st e = Some st' -> exec (wabs st) e = Some (wabs st') /\ winv st'.
Proof. intros torn st e st' I H. split; [exact (wal_step_refines torn st e st' I H)|exact (wal_step_inv torn st e st' I H)]. Qed.

Theorem C16_wal_engine_histories_refine : forall h st',
  wrun true winit h = Some st' -> run_evs cinit (map snd h) = Some (wabs st') /\ winv st'.
Proof. intros h st' H. exact (wal_run_refines h winit st' winv_init H). Qed.

(* hence: an acknowledged store is found by every later lookup in every run of that engine, whatever kills (torn or not) and reopens *)
Theorem C16_wal_engine_acked_survives : forall h1 n h2 i res v st c0 c1,
  wrun true winit (h1 ++ (c0, EAck n) :: h2 ++ [(c1, EGet i res)]) = Some st ->
  nth_error (starts (map snd h1)) n = Some v -> id_of v = i -> Forall wf (starts (map snd (h1 ++ (c0, EAck n) :: h2))) ->
  exists v', In v' (starts (map snd (h1 ++ (c0, EAck n) :: h2))) /\ id_of v' = i /\ res = Found (marshal v').
Proof. exact wal_run_acked_survives. Qed.

(* the truncation on Open is load-bearing: the same engine WITHOUT it acknowledges a store, is killed, reopens, and no longer
   finds the acknowledged VAA (the record sits behind the torn frame an earlier kill left) *)
Definition ex_wal_bad : list (bool * ev) :=
  [(false, EStart (ex_v 1 x01)); (true, ECrash 0); (false, EReopen);
   (false, EStart (ex_v 2 x02)); (false, ECommit 1); (false, EAck 1); (false, ECrash 0); (false, EReopen);
   (false, EGet (id_of (ex_v 2 x02)) NotFound)].
Theorem C16_wal_without_truncation_refuted :
  (exists st, wrun false winit ex_wal_bad = Some st) /\ wrun true winit ex_wal_bad = None.
Proof. split; [eexists; vm_compute; reflexivity|vm_compute; reflexivity]. Qed.

(* non-vacuity: a run of the truncating engine with a torn kill, a reopen, an acknowledged store and a second kill *)
Example C16_wal_example :
  exists st, wrun true winit
    [(false, EStart (ex_v 1 x01)); (true, ECrash 2); (false, EReopen);
     (false, EStart (ex_v 2 x02)); (false, ECommit 1); (false, EAck 1); (true, ECrash 0); (false, EReopen);
     (false, EGet (id_of (ex_v 2 x02)) (Found (marshal (ex_v 2 x02)))); (false, EGet (id_of (ex_v 1 x01)) NotFound)] = Some st.
Proof. eexists; vm_compute; reflexivity. Qed.

Print Assumptions C16_success_implies_committed.
Print Assumptions C16_acked_survives.
Print Assumptions C16_acked_survives_intact.
Print Assumptions C16_lookup_never_foreign.
Print Assumptions C16_lookup_is_last_committed.
Print Assumptions C16_kill_any_time.
Print Assumptions C16_reopens_after_kill.
Print Assumptions C16_reopen_never_fails.
Print Assumptions C16_error_means_aborted.
Print Assumptions C16_unsigned_changes_nothing.
Print Assumptions C16_plain_history_is_C12_store.
Print Assumptions C16_engine_acked_survives.
Print Assumptions C16_wal_engine_refines_contract.
Print Assumptions C16_wal_engine_histories_refine.
Print Assumptions C16_wal_engine_acked_survives.
Print Assumptions C16_wal_without_truncation_refuted.
