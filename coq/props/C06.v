(* C06 — signature verification accepts exactly valid, ordered, in-set signatures.  For EVERY recovery function. *)
From Coq Require Import List ZArith Lia Bool Arith.
From Coq Require Import Strings.Byte.
From WH Require Import lib.Bytes gen.Extracted model.Vaa proofs.VaaProofs gen.ExtractedVaaCodec.
Import ListNotations.
Open Scope Z_scope.

(* iff: indices strictly increasing from 0 upwards, every index inside the list, every signature recovers (over the VAA's
   digest) to the address at its index, and no signer is counted twice *)
Theorem C06_iff : forall (recover : bytes -> bytes -> option bytes) (keccak : bytes -> bytes) v addrs,
  verify_sigs recover keccak v addrs = true <->
  ( increasing (-1) (map s_idx (sigs v)) /\
    Forall (fun s => s_idx s < Z.of_nat (length addrs) /\
                     exists a, recover (digest keccak v) (s_data s) = Some a /\ nth_error addrs (Z.to_nat (s_idx s)) = Some a) (sigs v) /\
    NoDup (map (fun s => recover (digest keccak v) (s_data s)) (sigs v)) ).
Proof. exact verify_sigs_iff. Qed.

(* for guardian lists without repeated addresses the third condition is implied by the first two *)
Theorem C06_nodup_addresses : forall recover h addrs ss, NoDup addrs ->
  increasing (-1) (map s_idx ss) -> Forall (signer_ok recover h addrs) ss -> NoDup (signers recover h ss).
Proof. exact nodup_addrs_signers_distinct. Qed.

(* duplicating an entry anywhere makes any list fail; an accepted list is sorted; every accepted signer is in the list *)
Theorem C06_duplicate_rejected : forall recover h addrs l1 s l2 l3, ~ accepts recover h addrs (l1 ++ s :: l2 ++ s :: l3).
Proof. exact accepts_no_dup_entry. Qed.

Theorem C06_sorted : forall recover h addrs l1 s1 l2 s2 l3,
  accepts recover h addrs (l1 ++ s1 :: l2 ++ s2 :: l3) -> s_idx s1 < s_idx s2.
Proof. exact accepts_sorted. Qed.

Theorem C06_signers_in_set : forall recover h addrs ss s, accepts recover h addrs ss -> In s ss ->
  exists a, recover h (s_data s) = Some a /\ In a addrs.
Proof. exact accepts_in_set. Qed.

(* at most one signature per list position: an accepted list is never longer than the guardian list *)
Theorem C06_count_bounded : forall recover keccak v addrs,
  verify_sigs recover keccak v addrs = true -> (length (sigs v) <= length addrs)%nat.
Proof.
  intros recover keccak v addrs H. unfold verify_sigs in H.
  destruct (Nat.ltb_spec (length addrs) (length (sigs v))); [discriminate|assumption].
Qed.

(* non-vacuity: with a recovery function that maps signature [k;...] to address [k], the list 0,2 over three addresses is accepted,
   2,0 / 0,0 / index 3 are not *)
Definition ex_recover (h s : bytes) : option bytes := match s with b :: _ => Some [b] | [] => None end.
Definition ex_v (l : list (Z * byte)) : vaa :=
  {| version := 1; gsidx := 0; sigs := map (fun p => {| s_idx := fst p; s_data := [snd p] |}) l; ts := 0; tns := 0; nonce := 0;
     echain := 0; tchain := 0; eaddr := []; seq := 0; cl := 0; payload := [] |}.
Example C06_example :
  verify_sigs ex_recover (fun b => b) (ex_v [(0, x0a); (2, x0c)]) [[x0a]; [x0b]; [x0c]] = true /\
  verify_sigs ex_recover (fun b => b) (ex_v [(2, x0c); (0, x0a)]) [[x0a]; [x0b]; [x0c]] = false /\
  verify_sigs ex_recover (fun b => b) (ex_v [(0, x0a); (0, x0a)]) [[x0a]; [x0b]; [x0c]] = false /\
  verify_sigs ex_recover (fun b => b) (ex_v [(3, x0c)]) [[x0a]; [x0b]; [x0c]] = false /\
  verify_sigs ex_recover (fun b => b) (ex_v [(0, x0a); (2, x0a)]) [[x0a]; [x0b]; [x0a]] = false.
Proof. vm_compute. repeat split; reflexivity. Qed.

(* ---------------------------------------------------------------- the model IS the source (translator tie)
   gen/x_vaacodec.py translates VAA.VerifySignatures statement by statement (guards in source order, the values of last_index and
   signing_addresses at each point; an indexing of `addresses` without the preceding bounds test is refused as a panic) into
   go_verify_loop / go_verify_sigs on every run; the function the theorems above characterise is that translation. *)
Lemma go_verify_loop_is_model : forall recover h addrs ss last seen,
  go_verify_loop recover h addrs last seen ss = verify_loop recover h addrs last seen ss.
Proof.
  intros recover h addrs ss. induction ss as [|s t IH]; intros last seen; cbn [go_verify_loop verify_loop]; [reflexivity|].
  destruct (Z.of_nat (length addrs) <=? s_idx s); [reflexivity|]. destruct (s_idx s <=? last); [reflexivity|].
  destruct (recover h (s_data s)) as [a|]; [|reflexivity]. destruct (nth_error addrs (Z.to_nat (s_idx s))) as [a'|]; [|reflexivity].
  destruct (negb (bytes_eqb a a')); [reflexivity|]. destruct (existsb (bytes_eqb a) seen); [reflexivity|]. apply IH.
Qed.

Theorem C06_verification_follows_source : forall recover keccak v addrs,
  go_verify_sigs recover keccak v addrs = verify_sigs recover keccak v addrs.
Proof. intros recover keccak v addrs. unfold go_verify_sigs, verify_sigs. rewrite go_verify_loop_is_model. reflexivity. Qed.

(* hence the iff holds of the translated source text *)
Theorem C06_source_iff : forall (recover : bytes -> bytes -> option bytes) (keccak : bytes -> bytes) v addrs,
  go_verify_sigs recover keccak v addrs = true <->
  ( increasing (-1) (map s_idx (sigs v)) /\
    Forall (fun s => s_idx s < Z.of_nat (length addrs) /\
                     exists a, recover (digest keccak v) (s_data s) = Some a /\ nth_error addrs (Z.to_nat (s_idx s)) = Some a) (sigs v) /\
    NoDup (map (fun s => recover (digest keccak v) (s_data s)) (sigs v)) ).
Proof. intros recover keccak v addrs. rewrite C06_verification_follows_source. apply C06_iff. Qed.

Print Assumptions C06_iff.
Print Assumptions C06_nodup_addresses.
Print Assumptions C06_duplicate_rejected.
Print Assumptions C06_sorted.
Print Assumptions C06_signers_in_set.
Print Assumptions C06_count_bounded.
Print Assumptions C06_verification_follows_source.
Print Assumptions C06_source_iff.
