(* Run-time vocabulary of the Solidity translation (gen/x_solverify.py -> gen/ExtractedSolVerify.v): the few primitives the translated
   statements of Messages.sol call.  Executable definitions only (proofs: proofs/SolVerifyProofs.v).
   Conventions: a revert (failed require, checked-arithmetic panic of Solidity 0.8, array index out of bounds, BytesLib bounds require)
   is [None]; uintN values are non-negative [Z]; bytes / bytes32 / address are [list byte]. *)
From Coq Require Import List ZArith Bool Arith.
From Coq Require Import Strings.Byte.
From WH Require Import lib.Bytes.
Import ListNotations.
Open Scope Z_scope.

Notation "'dox' x <- a ; b" := (match a with Some x => b | None => None end)
  (at level 200, x name, a at level 100, b at level 200, only parsing).

(* Solidity ^0.8 checked arithmetic on uint<bits> *)
Definition add_chk (bits : Z) (a b : Z) : option Z := if a + b <? 2 ^ bits then Some (a + b) else None.
Definition sub_chk (a b : Z) : option Z := if b <=? a then Some (a - b) else None.
Definition mul_chk (bits : Z) (a b : Z) : option Z := if a * b <? 2 ^ bits then Some (a * b) else None.
Definition div_chk (a b : Z) : option Z := if b =? 0 then None else Some (a / b).

(* BytesLib.toUint8/16/32/64 (w = 1, 2, 4, 8) and toBytes32: `require(_bytes.length >= _start + w)` with `_start + w` itself checked
   (uint256), then the w bytes at _start, big-endian *)
Definition rd_at (w : nat) (bs : list byte) (start : Z) : option (list byte) :=
  if (start + Z.of_nat w <? 2 ^ 256) && (start + Z.of_nat w <=? Z.of_nat (length bs))
  then Some (firstn w (skipn (Z.to_nat start) bs)) else None.
Definition toUint (w : nat) (bs : list byte) (start : Z) : option Z := option_map unbe (rd_at w bs start).
Definition toBytes32 (bs : list byte) (start : Z) : option (list byte) := rd_at 32 bs start.

(* BytesLib.slice: `require(_length + 31 >= _length)` (uint256 wrap test: in 0.8 the addition itself panics), `require(_bytes.length >=
   _start + _length)` *)
Definition sol_slice (bs : list byte) (start len : Z) : option (list byte) :=
  if (len + 31 <? 2 ^ 256) && (start + len <? 2 ^ 256) && (start + len <=? Z.of_nat (length bs))
  then Some (firstn (Z.to_nat len) (skipn (Z.to_nat start) bs)) else None.

(* memory array element read / write: index out of bounds is a panic (revert) *)
Definition sol_nth {A} (l : list A) (i : Z) : option A := nth_error l (Z.to_nat i).
Fixpoint upd_nat {A} (l : list A) (i : nat) (x : A) : option (list A) :=
  match l, i with
  | [], _ => None
  | _ :: t, O => Some (x :: t)
  | h :: t, S j => match upd_nat t j x with Some t' => Some (h :: t') | None => None end
  end.
Definition sol_upd {A} (l : list A) (i : Z) (x : A) : option (list A) := upd_nat l (Z.to_nat i) x.

(* `new T[](n)`: n zero-initialised elements *)
Definition sol_new {A} (zero : A) (n : Z) : list A := repeat zero (Z.to_nat n).

Definition zero_bytes32 : list byte := repeat x00 32.
Definition zero_address : list byte := repeat x00 20.
