(* Run-support for the network correspondence check (harness/processor/zz_verif_net_test.go -> checks/proc_common.py): the recorded
   network history is replayed on model/System.v; an item the implementation delivered as "taken from the wire" must be an item the
   MODEL's nodes emitted earlier (looked up by content in the model's pool).  No theorem depends on this file. *)
From Coq Require Import List ZArith Bool Arith Strings.Byte.
From WH Require Import lib.Bytes lib.Wire gen.Extracted model.Vaa model.Processor model.System lib.ProcWire.
Import ListNotations.
Open Scope Z_scope.

Definition obs_eqb (a b : obs) : bool :=
  bytes_eqb (o_addr a) (o_addr b) && bytes_eqb (o_hash a) (o_hash b) && bytes_eqb (o_sig a) (o_sig b) && bytes_eqb (o_tx a) (o_tx b).
Definition gossip_eqb (a b : gossip) : bool :=
  match a, b with GObs x, GObs y => obs_eqb x y | GVaa x, GVaa y => bytes_eqb x y | _, _ => false end.

Fixpoint find_index {A} (f : A -> bool) (l : list A) (i : nat) : option nat :=
  match l with [] => None | a :: t => if f a then Some i else find_index f t (S i) end.

Inductive wop := WEnv (i : nat) (e : envop) | WDeliver (i : nat) (g : gossip) | WAdv (i : nat) (g : gossip) | WLoop (i k : nat).

Record nhist := { nh_n : nat; nh_owns : list bytes; nh_gov_chain : Z; nh_gov_addr : bytes; nh_keccak : list (bytes * bytes);
                  nh_signs : list (list (bytes * bytes)); nh_rec : list (bytes * bytes * option bytes);
                  nh_ops : list wop; nh_expect : list (Z * Z * Z) }.

Definition to_nop (n : net) (w : wop) : option nop :=
  match w with
  | WEnv i e => Some (NEnv i e)
  | WDeliver i g => option_map (NDeliver i) (find_index (gossip_eqb g) (pool n) 0)
  | WAdv i g => Some (NAdv i g)
  | WLoop i k => Some (NLoop i k)
  end.

(* first network step (from 0) at which the acting node's outputs / state projection / entry count differ from the implementation's,
   or at which a "wire" delivery names an item the model never emitted; -1 = none *)
Fixpoint cmp_net (rc : bytes -> bytes -> option bytes) (kc : bytes -> bytes) (gc : Z) (ga : bytes)
         (owns : nat -> addr) (signs : nat -> bytes -> bytes) (n : net) (ops : list wop) (ex : list (Z * Z * Z)) (i : Z) : Z :=
  match ops, ex with
  | w :: ops', (oh, sh, ne) :: ex' =>
    match to_nop n w with
    | None => i
    | Some x =>
      match nth_error (nodes n) (target x) with
      | None => i
      | Some st =>
        let '(n', outs) := nstep rc kc gc ga owns signs n x in
        let vis := filter (fun o => match o with
                                    | Store id b => match dlookup id (db st) with Some b0 => negb (bytes_eqb b0 b) | None => true end
                                    | _ => true end) outs in
        let panicked := existsb (fun o => match o with Panic _ => true | _ => false end) outs in
        if panicked then (if outs_hash vis =? oh then -1 else i) else
        match nth_error (nodes n') (target x) with
        | None => i
        | Some st' =>
          if (outs_hash vis =? oh) && (state_hash st' =? sh) && (Z.of_nat (length (agg st')) =? ne)
          then cmp_net rc kc gc ga owns signs n' ops' ex' (i + 1) else i
        end
      end
    end
  | [], [] => -1
  | _, _ => i
  end.

Definition check_net (h : nhist) : Z :=
  cmp_net (tbl_rec (nh_rec h)) (tbl1 (nh_keccak h)) (nh_gov_chain h) (nh_gov_addr h)
          (fun i => nth i (nh_owns h) []) (fun i => tbl1 (nth i (nh_signs h) []))
          (ninit (nh_n h)) (nh_ops h) (nh_expect h) 0.
