(* Fragments of a fmt.Sprintf key format ("signed/%d/%s/%d/%d" applied to the four VAAID fields), as produced by the
   extractor gen/x_db.py from node/pkg/vaa/structs.go.  Type only; the rendering lives in model/Db.v. *)
From Coq Require Import List Strings.Byte.
Import ListNotations.

Inductive kfrag :=
| KLit (s : list byte)   (* literal text of the format string *)
| KEChain                (* %d of i.EmitterChain *)
| KEAddr                 (* %s of i.EmitterAddress (Address.String = lower-case hex) *)
| KTChain                (* %d of i.TargetChain *)
| KSeq.                  (* %d of i.Sequence *)
