(* Positional digit strings (most significant first) and the decimal rendering [dec] used by store keys (C12) and
   by decimal parsing (C11).  From the design-phase spike; shared library: add new lemmas in a new file. *)
From Coq Require Import List ZArith Lia Bool Arith.
Import ListNotations.
Open Scope Z_scope.

(* most significant digit first; n >= 0, b >= 2 *)
Fixpoint digits_f (fuel : nat) (b n : Z) : list Z :=
  match fuel with
  | O => []
  | S f => if n <? b then [n] else digits_f f b (n / b) ++ [n mod b]
  end.
Definition to_digits (b n : Z) : list Z := digits_f (S (Z.to_nat (Z.log2 n))) b n.

Fixpoint undigits_acc (b : Z) (ds : list Z) (acc : Z) : Z :=
  match ds with [] => acc | d :: t => undigits_acc b t (acc * b + d) end.
Definition undigits (b : Z) (ds : list Z) : Z := undigits_acc b ds 0.

Lemma undigits_acc_app b a c acc : undigits_acc b (a ++ c) acc = undigits_acc b c (undigits_acc b a acc).
Proof. revert acc; induction a as [|x a IH]; intros acc; cbn; [reflexivity|apply IH]. Qed.
Lemma undigits_snoc b ds d : undigits b (ds ++ [d]) = undigits b ds * b + d.
Proof. unfold undigits. rewrite undigits_acc_app. reflexivity. Qed.

Lemma log2_div_lt b n : 2 <= b -> b <= n -> Z.log2 (n / b) < Z.log2 n.
Proof.
  intros Hb Hn.
  assert (n / b <= n / 2) by (apply Z.div_le_compat_l; lia).
  assert (Z.log2 (n / 2) = Z.log2 n - 1).
  { rewrite <- Z.div2_div, Z.div2_spec, Z.log2_shiftr by lia. rewrite Z.max_r; [reflexivity|].
    assert (1 <= Z.log2 n); [|lia]. apply Z.log2_le_pow2; [lia|]. cbn. lia. }
  pose proof (Z.log2_le_mono (n / b) (n / 2) H). lia.
Qed.

Section Base.
Variable b : Z.
Hypothesis Hb : 2 <= b.

Lemma digits_f_spec : forall f n, 0 <= n -> Z.log2 n < Z.of_nat f ->
  undigits b (digits_f f b n) = n /\ Forall (fun d => 0 <= d < b) (digits_f f b n) /\
  (exists d t, digits_f f b n = d :: t /\ (d = 0 -> n = 0)).
Proof.
  induction f as [|f IH]; intros n Hn Hl; [pose proof (Z.log2_nonneg n); lia|].
  cbn [digits_f]. destruct (Z.ltb_spec n b) as [Hlt|Hge].
  - split; [unfold undigits; cbn; lia|]. split; [constructor; [lia|constructor]|]. exists n, []. split; [reflexivity|auto].
  - assert (H0 : 0 <= n / b) by (apply Z.div_pos; lia).
    assert (H1 : Z.log2 (n / b) < Z.of_nat f) by (pose proof (log2_div_lt b n Hb Hge); lia).
    destruct (IH (n / b) H0 H1) as (Hu & Hf & d & t & Hd & Hz).
    split; [|split].
    + rewrite undigits_snoc, Hu. pose proof (Z.div_mod n b ltac:(lia)). lia.
    + apply Forall_app. split; [assumption|]. constructor; [|constructor]. apply Z.mod_pos_bound; lia.
    + exists d, (t ++ [n mod b]). rewrite Hd. split; [reflexivity|]. intros Hd0. specialize (Hz Hd0).
      assert (1 <= n / b) by (apply Z.div_le_lower_bound; lia). lia.
Qed.

Lemma digits_f_fuel : forall f f' n, 0 <= n -> Z.log2 n < Z.of_nat f -> Z.log2 n < Z.of_nat f' ->
  digits_f f b n = digits_f f' b n.
Proof.
  induction f as [|f IH]; intros f' n Hn Hl Hl'; [pose proof (Z.log2_nonneg n); lia|].
  destruct f' as [|f']; [pose proof (Z.log2_nonneg n); lia|].
  cbn [digits_f]. destruct (Z.ltb_spec n b) as [Hlt|Hge]; [reflexivity|].
  f_equal. pose proof (log2_div_lt b n Hb Hge). apply IH; [apply Z.div_pos; lia|lia|lia].
Qed.

Lemma to_digits_spec n : 0 <= n ->
  undigits b (to_digits b n) = n /\ Forall (fun d => 0 <= d < b) (to_digits b n) /\
  (exists d t, to_digits b n = d :: t /\ (d = 0 -> n = 0)).
Proof. intros Hn. apply digits_f_spec; [assumption|]. pose proof (Z.log2_nonneg n). lia. Qed.

Lemma to_digits_inj n m : 0 <= n -> 0 <= m -> to_digits b n = to_digits b m -> n = m.
Proof.
  intros Hn Hm E. destruct (to_digits_spec n Hn) as [H1 _]. destruct (to_digits_spec m Hm) as [H2 _]. congruence.
Qed.

Lemma to_digits_step n : b <= n -> to_digits b n = to_digits b (n / b) ++ [n mod b].
Proof.
  intros Hge. unfold to_digits at 1. cbn [digits_f]. destruct (Z.ltb_spec n b); [lia|]. f_equal.
  pose proof (log2_div_lt b n Hb Hge). pose proof (Z.log2_nonneg (n / b)).
  apply digits_f_fuel; [apply Z.div_pos; lia|lia|lia].
Qed.

Lemma to_digits_small n : 0 <= n < b -> to_digits b n = [n].
Proof. intros H. unfold to_digits. cbn [digits_f]. destruct (Z.ltb_spec n b); [reflexivity|lia]. Qed.

(* canonical digit strings: digits in range, non-empty, no leading zero unless the string is [0] *)
Definition canonical (ds : list Z) : Prop :=
  Forall (fun d => 0 <= d < b) ds /\ exists d t, ds = d :: t /\ (d = 0 -> t = []).

Lemma undigits_nonneg ds : Forall (fun d => 0 <= d < b) ds -> 0 <= undigits b ds.
Proof. induction ds as [|d ds IH] using rev_ind; intros H; [unfold undigits; cbn; lia|].
  apply Forall_app in H as [H1 H2]. inversion H2; subst. rewrite undigits_snoc. specialize (IH H1). nia. Qed.

Lemma undigits_pos d t : Forall (fun d => 0 <= d < b) (d :: t) -> d <> 0 -> 1 <= undigits b (d :: t).
Proof.
  revert d. induction t as [|x t IH] using rev_ind; intros d H Hd.
  - inversion H; subst. unfold undigits; cbn. lia.
  - rewrite app_comm_cons in *. apply Forall_app in H as [H1 H2]. inversion H2; subst.
    rewrite undigits_snoc. specialize (IH d H1 Hd). nia.
Qed.

Lemma to_digits_undigits ds : canonical ds -> to_digits b (undigits b ds) = ds.
Proof.
  intros [Hf (d & t & -> & Hz)]. revert d Hf Hz. induction t as [|x t IH] using rev_ind; intros d Hf Hz.
  - inversion Hf; subst. replace (undigits b [d]) with d by (unfold undigits; cbn; lia). apply to_digits_small; assumption.
  - assert (Hd : d <> 0). { intros Hd. specialize (Hz Hd). destruct t; discriminate. }
    rewrite app_comm_cons in *. apply Forall_app in Hf as [H1 H2]. inversion H2 as [|? ? Hx _]; subst.
    rewrite undigits_snoc. pose proof (undigits_pos d t H1 Hd) as Hpos.
    set (U := undigits b (d :: t)) in *.
    assert (Hdiv : (U * b + x) / b = U) by (rewrite Z.add_comm, Z.div_add by lia; rewrite Z.div_small by lia; lia).
    assert (Hmod : (U * b + x) mod b = x) by (rewrite Z.add_comm, Z.mod_add by lia; apply Z.mod_small; lia).
    rewrite to_digits_step by nia. rewrite Hdiv, Hmod. f_equal. subst U. apply IH; [assumption|]. intros; contradiction.
Qed.
End Base.

(* decimal rendering as bytes, for store keys *)
From Coq Require Import Strings.Byte.
From WH Require Import lib.Bytes.
Definition dec (n : Z) : list byte := map (fun d => byte_of_Z (48 + d)) (to_digits 10 n).
Definition slash : byte := x2f.

Lemma digit_char_inj a c : 0 <= a < 10 -> 0 <= c < 10 -> byte_of_Z (48 + a) = byte_of_Z (48 + c) -> a = c.
Proof.
  intros Ha Hc E. apply (f_equal Z_of_byte) in E. rewrite !Z_of_byte_of_Z in E.
  rewrite !Z.mod_small in E by lia. lia.
Qed.

Lemma map_inj_on {A B} (f : A -> B) (P : A -> Prop) : (forall x y, P x -> P y -> f x = f y -> x = y) ->
  forall l l', Forall P l -> Forall P l' -> map f l = map f l' -> l = l'.
Proof.
  intros Hinj. induction l as [|x l IH]; intros [|y l'] Hl Hl' E; try discriminate; [reflexivity|].
  change (f x :: map f l = f y :: map f l') in E. injection E as E1 E2.
  inversion Hl; inversion Hl'; subst. f_equal; [apply Hinj; assumption|apply IH; assumption].
Qed.

Lemma dec_inj n m : 0 <= n -> 0 <= m -> dec n = dec m -> n = m.
Proof.
  intros Hn Hm E. unfold dec in E. apply (to_digits_inj 10 ltac:(lia) n m Hn Hm).
  destruct (to_digits_spec 10 ltac:(lia) n Hn) as (_ & Hfn & _).
  destruct (to_digits_spec 10 ltac:(lia) m Hm) as (_ & Hfm & _).
  eapply (map_inj_on _ (fun d => 0 <= d < 10)); [|exact Hfn|exact Hfm|exact E].
  intros x y Hx Hy. apply digit_char_inj; assumption.
Qed.

Lemma dec_no_slash n : 0 <= n -> ~ In slash (dec n).
Proof.
  intros Hn Hin. unfold dec in Hin. apply in_map_iff in Hin as (d & E & Hd).
  destruct (to_digits_spec 10 ltac:(lia) n Hn) as (_ & Hf & _). rewrite Forall_forall in Hf. specialize (Hf d Hd). cbn beta in Hf.
  apply (f_equal Z_of_byte) in E. rewrite Z_of_byte_of_Z in E. rewrite Z.mod_small in E by lia. replace (Z_of_byte slash) with 47 in E by reflexivity. lia.
Qed.

(* splitting at the first separator is unambiguous when the separator does not occur before it *)
Lemma sep_split (s : byte) : forall a a' r r', ~ In s a -> ~ In s a' -> a ++ s :: r = a' ++ s :: r' -> a = a' /\ r = r'.
Proof.
  induction a as [|x a IH]; intros [|y a'] r r' Ha Ha' E; cbn in *.
  - inversion E; auto.
  - inversion E; subst. exfalso; apply Ha'; left; reflexivity.
  - inversion E; subst. exfalso; apply Ha; left; reflexivity.
  - inversion E; subst. destruct (IH a' r r') as [-> ->]; auto.
Qed.
