(* Compact encoding of byte strings in generated run/cases_*.v files: [len; w0; w1; ...] with 7 bytes per word (big-endian,
   zero padded).  Used only to feed inputs to the executable model; no theorem depends on it. *)
From Coq Require Import List ZArith Strings.Byte.
From WH Require Import lib.Bytes.
Import ListNotations.
Open Scope Z_scope.

(* words are primitive 63-bit integers: their literals parse ten times faster than Z literals *)
From Coq Require Import Uint63.

Definition ibit (w : Uint63.int) (k : Uint63.int) : bool :=
  negb (Uint63.eqb (Uint63.land (Uint63.lsr w k) 1%uint63) 0%uint63).
Definition byte_of_int (w : Uint63.int) (sh : Uint63.int) : byte :=
  let x := Uint63.lsr w sh in
  Byte.of_bits (ibit x 0%uint63, (ibit x 1%uint63, (ibit x 2%uint63, (ibit x 3%uint63,
               (ibit x 4%uint63, (ibit x 5%uint63, (ibit x 6%uint63, ibit x 7%uint63))))))).

Fixpoint words_to_bytes (ws : list Uint63.int) : list byte :=
  match ws with
  | [] => []
  | w :: t => byte_of_int w 48%uint63 :: byte_of_int w 40%uint63 :: byte_of_int w 32%uint63 :: byte_of_int w 24%uint63
              :: byte_of_int w 16%uint63 :: byte_of_int w 8%uint63 :: byte_of_int w 0%uint63 :: words_to_bytes t
  end.

Definition B (ws : list Uint63.int) : list byte :=
  match ws with
  | [] => []
  | n :: t => firstn (Z.to_nat (Uint63.to_Z n)) (words_to_bytes t)
  end.

(* indices (from 0) of the cases for which f is false *)
Fixpoint bad_from {A} (f : A -> bool) (i : Z) (l : list A) : list Z :=
  match l with [] => [] | a :: t => if f a then bad_from f (i + 1) t else i :: bad_from f (i + 1) t end.
Definition bad {A} (f : A -> bool) (l : list A) : list Z := bad_from f 0 l.

(* polynomial checksum over 7-byte words, used to compare long model outputs with the implementation's without shipping
   the bytes twice (differential testing aid only) *)
Definition hmod : Z := 2305843009213693951.  (* 2^61 - 1 *)
Definition zb (b : byte) : Z := Z_of_byte b.
Fixpoint hash_go (fuel : nat) (l : list byte) (acc : Z) : Z :=
  match fuel with
  | O => acc
  | S f =>
    match l with
    | a :: b :: c :: d :: e :: g :: h :: t =>
      hash_go f t ((acc * 1000003 + ((((((zb a * 256 + zb b) * 256 + zb c) * 256 + zb d) * 256 + zb e) * 256 + zb g) * 256 + zb h) + 1) mod hmod)
    | [] => acc
    | rest => (acc * 1000003 + unbe rest + 7) mod hmod
    end
  end.
Definition hash_bytes (l : list byte) : Z := hash_go (S (length l)) l (Z.of_nat (length l)).
