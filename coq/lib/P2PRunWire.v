(* Run-support for the C03 real-loop correspondence check (extension X5): evaluates model.P2PVerify.loop_run on a history that
   harness/p2p_run recorded from the REAL p2p.Run receive / dispatch loop, with the recorded crypto / decoding tables, and
   compares per event what came out of obsvC / signedInC / obsvReqC and the heartbeat table (checksum over (address, peer,
   Timestamp), entry count, guardian count) with the implementation's.  No theorem depends on this file. *)
From Coq Require Import List ZArith Bool Arith Strings.Byte.
From Coq Require Import Uint63.
From WH Require Import lib.Bytes lib.Wire gen.Extracted gen.ExtractedP2P model.Vaa model.P2PVerify lib.P2PWire.
Import ListNotations.
Open Scope Z_scope.

Definition run_entry_hash (a p : bytes) (v : hbv) : Z := hash_bytes (a ++ be 2 (Z.of_nat (length p)) ++ p ++ be 8 (hv_ts v)).
Definition run_table_hash (t : table) : Z :=
  fold_left (fun acc ar => fold_left (fun acc2 pv => (acc2 + run_entry_hash (fst ar) (fst pv) (snd pv)) mod hmod) (snd ar) acc) t 0.

(* entries whose Timestamp lies below thr may be removed by the real-clock Cleanup ticker at any moment: both sides compare
   only the others (test heartbeats carry Timestamps ten days ahead); rows left empty are not counted *)
Definition proj_table (thr : Z) (t : table) : table :=
  filter (fun ar => match snd ar with [] => false | _ => true end)
         (map (fun ar => (fst ar, filter (fun pv => thr <=? hv_ts (snd pv)) (snd ar))) t).

Definition out_code (o : chan_out bytes bytes) : Z * bytes :=
  match o with OutObs x => (0, x) | OutVaa x => (1, x) | OutReq r => (2, r) end.

Fixpoint outs_eqb (a : list (chan_out bytes bytes)) (b : list (Z * bytes)) : bool :=
  match a, b with
  | [], [] => true
  | x :: a', (c, y) :: b' => (fst (out_code x) =? c) && bytes_eqb (snd (out_code x)) y && outs_eqb a' b'
  | _, _ => false
  end.

Record p2run := { pr_keccak : list (bytes * bytes); pr_rec : list (bytes * bytes * option bytes);
                  pr_dechb : list (bytes * option Z); pr_decreq : list (bytes * bool);
                  pr_disable : bool; pr_self : bytes; pr_thr : Z;
                  pr_evs : list (levent bytes bytes);
                  pr_expect : list (list Uint63.int * list (Z * bytes)) }.   (* per event: [table checksum; entries; guardians], outputs *)

Section W.
Variable rc : bytes -> bytes -> option bytes.
Variable kc : bytes -> bytes.
Variable dh : bytes -> option Z.
Variable dr : bytes -> bool.

Fixpoint cmp_run (thr : Z) (disable : bool) (self : bytes) (st : nstate) (evs : list (levent bytes bytes)) (ex : list (list Uint63.int * list (Z * bytes))) (i : Z) : Z :=
  match evs, ex with
  | e :: evs', ([th; ne; na], outs) :: ex' =>
    let '(st', o) := loop_step rc kc dh dr disable self st e in
    let pt := proj_table thr (n_tbl st') in
    if outs_eqb o outs && (run_table_hash pt =? Uint63.to_Z th) && (table_entries pt =? Uint63.to_Z ne)
       && (Z.of_nat (length pt) =? Uint63.to_Z na)
    then cmp_run thr disable self st' evs' ex' (i + 1) else i
  | [], [] => -1
  | _, _ => i
  end.
End W.

(* -1 = every event agrees; otherwise index of the first differing event *)
Definition check_p2run (h : p2run) : Z :=
  cmp_run (p2_tbl_rec (pr_rec h)) (p2_tbl1 (pr_keccak h)) (p2_tbl_dec (pr_dechb h)) (p2_tbl_bool (pr_decreq h))
          (pr_thr h) (pr_disable h) (pr_self h) ninit (pr_evs h) (pr_expect h) 0.
