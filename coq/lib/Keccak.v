(* Executable Keccak-256 (the Ethereum variant: Keccak[r=1088, c=512], pad10*1 with domain byte 0x01 — NOT SHA3-256's 0x06), as
   called by go-ethereum crypto.Keccak256 / x/crypto/sha3.NewLegacyKeccak256.
   Lanes are [N]s below 2^64; the only operation that can leave that range (shift left inside the rotation) is masked explicitly.
   State = list of 25 lanes, lane (x, y) at index x + 5*y.  Definitions only; the proofs are in proofs/KeccakProofs.v. *)
From Coq Require Import List NArith ZArith Arith Bool.
From Coq Require Import Strings.Byte.
From WH Require Import lib.Bytes.
Import ListNotations.

Definition mask64 : N := 0xFFFFFFFFFFFFFFFF%N.          (* 2^64 - 1 *)

(* bits.RotateLeft64 on a 64-bit word *)
Definition rotl (x r : N) : N := N.lor (N.land (N.shiftl x r) mask64) (N.shiftr x (64 - r)).

Definition nthN (l : list N) (i : nat) : N := nth i l 0%N.

(* ---------------------------------------------------------------- the permutation Keccak-f[1600] *)
Definition round_constants : list N :=
  [ 0x0000000000000001; 0x0000000000008082; 0x800000000000808A; 0x8000000080008000;
    0x000000000000808B; 0x0000000080000001; 0x8000000080008081; 0x8000000000008009;
    0x000000000000008A; 0x0000000000000088; 0x0000000080008009; 0x000000008000000A;
    0x000000008000808B; 0x800000000000008B; 0x8000000000008089; 0x8000000000008003;
    0x8000000000008002; 0x8000000000000080; 0x000000000000800A; 0x800000008000000A;
    0x8000000080008081; 0x8000000000008080; 0x0000000080000001; 0x8000000080008008 ]%N.

(* theta: column parities C[x], D[x] = C[x-1] xor rot(C[x+1], 1), every lane of column x is xored with D[x] *)
Definition theta_cols : list nat := [0; 1; 2; 3; 4]%nat.
Definition theta_d_src : list (nat * nat) := [(4, 1); (0, 2); (1, 3); (2, 4); (3, 0)]%nat.     (* (x-1, x+1) mod 5 *)
Definition lane_col : list nat :=
  [0; 1; 2; 3; 4;  0; 1; 2; 3; 4;  0; 1; 2; 3; 4;  0; 1; 2; 3; 4;  0; 1; 2; 3; 4]%nat.

Definition theta (a : list N) : list N :=
  let c := map (fun x => N.lxor (nthN a x) (N.lxor (nthN a (x + 5)) (N.lxor (nthN a (x + 10))
                         (N.lxor (nthN a (x + 15)) (nthN a (x + 20)))))) theta_cols in
  let d := map (fun p => N.lxor (nthN c (fst p)) (rotl (nthN c (snd p)) 1)) theta_d_src in
  map (fun p => N.lxor (fst p) (nthN d (snd p))) (combine a lane_col).

(* rho and pi in one pass: destination lane j takes source lane (fst) rotated by the source's offset (snd).
   Offsets r[x][y] (index x + 5y):  0  1 62 28 27 / 36 44  6 55 20 /  3 10 43 25 39 / 41 45 15 21  8 / 18  2 61 56 14;
   pi moves (x, y) to (y, 2x + 3y). *)
Definition rho_pi_table : list (nat * N) :=
  [ (0%nat, 0); (6%nat, 44); (12%nat, 43); (18%nat, 21); (24%nat, 14);
    (3%nat, 28); (9%nat, 20); (10%nat, 3); (16%nat, 45); (22%nat, 61);
    (1%nat, 1); (7%nat, 6); (13%nat, 25); (19%nat, 8); (20%nat, 18);
    (4%nat, 27); (5%nat, 36); (11%nat, 10); (17%nat, 15); (23%nat, 56);
    (2%nat, 62); (8%nat, 55); (14%nat, 39); (15%nat, 41); (21%nat, 2) ]%N.

Definition rho_pi (a : list N) : list N := map (fun p => rotl (nthN a (fst p)) (snd p)) rho_pi_table.

(* chi: A[x,y] = B[x,y] xor (not B[x+1,y] and B[x+2,y]);  (i, j, k) = (x, x+1, x+2) in row y *)
Definition chi_table : list (nat * nat * nat) :=
  [ (0, 1, 2); (1, 2, 3); (2, 3, 4); (3, 4, 0); (4, 0, 1);
    (5, 6, 7); (6, 7, 8); (7, 8, 9); (8, 9, 5); (9, 5, 6);
    (10, 11, 12); (11, 12, 13); (12, 13, 14); (13, 14, 10); (14, 10, 11);
    (15, 16, 17); (16, 17, 18); (17, 18, 19); (18, 19, 15); (19, 15, 16);
    (20, 21, 22); (21, 22, 23); (22, 23, 24); (23, 24, 20); (24, 20, 21) ]%nat.

Definition chi (b : list N) : list N :=
  map (fun t => N.lxor (nthN b (fst (fst t))) (N.ldiff (nthN b (snd t)) (nthN b (snd (fst t))))) chi_table.

Definition iota (rc : N) (a : list N) : list N :=
  match a with [] => [] | a0 :: t => N.lxor a0 rc :: t end.

Definition keccak_round (a : list N) (rc : N) : list N := iota rc (chi (rho_pi (theta a))).

Definition keccak_f (a : list N) : list N := fold_left keccak_round round_constants a.

(* ---------------------------------------------------------------- bytes <-> lanes (little endian) *)
Definition bN (b : byte) : N := Byte.to_N b.

Definition lane8 (b0 b1 b2 b3 b4 b5 b6 b7 : byte) : N :=
  (bN b0 + 256 * (bN b1 + 256 * (bN b2 + 256 * (bN b3 + 256 * (bN b4 + 256 * (bN b5 + 256 * (bN b6 + 256 * bN b7)))))))%N.

Fixpoint lanes (l : list byte) : list N :=
  match l with
  | b0 :: b1 :: b2 :: b3 :: b4 :: b5 :: b6 :: b7 :: t => lane8 b0 b1 b2 b3 b4 b5 b6 b7 :: lanes t
  | _ => []
  end.

Definition byte_of_N (n : N) : byte := match Byte.of_N (N.land n 255) with Some b => b | None => x00 end.

Definition lane_bytes (x : N) : list byte :=
  [ byte_of_N x; byte_of_N (N.shiftr x 8); byte_of_N (N.shiftr x 16); byte_of_N (N.shiftr x 24);
    byte_of_N (N.shiftr x 32); byte_of_N (N.shiftr x 40); byte_of_N (N.shiftr x 48); byte_of_N (N.shiftr x 56) ].

(* ---------------------------------------------------------------- the sponge *)
Definition rate : nat := 136.      (* bytes; 17 lanes *)

(* multi-rate padding pad10*1 after the Keccak domain bit: first pad byte 0x01, last 0x80 (0x81 when they coincide) *)
Definition pad (m : list byte) : list byte :=
  let q := (rate - length m mod rate)%nat in
  match q with
  | 1%nat => m ++ [x81]
  | _ => m ++ x01 :: repeat x00 (q - 2) ++ [x80]
  end.

(* left inverse of pad (used to state injectivity constructively) *)
Fixpoint drop_zeros (l : list byte) : list byte :=
  match l with x00 :: t => drop_zeros t | _ => l end.
Definition unpad (p : list byte) : list byte :=
  match rev p with
  | x81 :: r => rev r
  | x80 :: r => rev (tl (drop_zeros r))
  | _ => p
  end.

Fixpoint blocks_fuel (fuel : nat) (l : list byte) : list (list byte) :=
  match fuel with
  | O => []
  | S f => match l with [] => [] | _ => firstn rate l :: blocks_fuel f (skipn rate l) end
  end.
Definition blocks (l : list byte) : list (list byte) := blocks_fuel (length l) l.

Fixpoint xor_lanes (st ls : list N) : list N :=
  match st, ls with
  | s :: st', l :: ls' => N.lxor s l :: xor_lanes st' ls'
  | _, [] => st
  | [], _ => []
  end.

Definition zero_state : list N := repeat 0%N 25.

Definition absorb (st : list N) (blk : list byte) : list N := keccak_f (xor_lanes st (lanes blk)).

Definition squeeze (st : list N) : list byte := flat_map lane_bytes (firstn 4 st).

Definition sponge (m : list byte) : list N := fold_left absorb (blocks (pad m)) zero_state.

Definition keccak256 (m : list byte) : list byte := squeeze (sponge m).

(* ---------------------------------------------------------------- validator for recorded oracle tables
   every (input, output) pair a harness recorded from go-ethereum / x/crypto is the value of the function above *)
Definition keccak_table_ok (t : list (list byte * list byte)) : bool :=
  forallb (fun p => bytes_eqb (keccak256 (fst p)) (snd p)) t.

(* index (from 0) of the first pair that is not, -1 if none; for diagnostics *)
Fixpoint keccak_table_bad_from (i : Z) (t : list (list byte * list byte)) : Z :=
  match t with
  | [] => (-1)%Z
  | p :: t' => if bytes_eqb (keccak256 (fst p)) (snd p) then keccak_table_bad_from (i + 1)%Z t' else i
  end.
Definition keccak_table_bad (t : list (list byte * list byte)) : Z := keccak_table_bad_from 0%Z t.
