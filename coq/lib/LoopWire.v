(* Run-support for the re-observation-loop correspondence check (extension X7): re-runs the COMPOSED model (model/ReobsLoop.v) on
   the history recorded by the two-stage harness (harness/processor TestVerifLoopStream -> harness/guardiand_loop
   TestVerifReobsLoop) and compares the requests posted by the cleanup ticks and every dispatcher step.  No theorem depends on it. *)
From Coq Require Import List ZArith Bool Arith Strings.Byte.
From WH Require Import lib.Bytes lib.Wire gen.Extracted model.Vaa model.Processor model.ReobsLoop lib.ProcWire.
From WH Require lib.Keccak.
Import ListNotations.
Open Scope Z_scope.

Record lcase := { lc_own : bytes; lc_gc : Z; lc_ga : bytes;
                  lc_keccak : list (bytes * bytes); lc_sign : list (bytes * bytes); lc_rec : list (bytes * bytes * option bytes);
                  lc_cap : option nat;                 (* None: the queues of node.go (extracted chains and capacity) *)
                  lc_fill : list (Z * bytes);          (* requests already queued for chain lc_chain *)
                  lc_chain : Z;
                  lc_ops : list lop;
                  lc_posts : list (Z * Z * bytes);     (* expected: (second, chain, tx) of every request the cleanup ticks posted *)
                  lc_disp : list (Z * Z) }.            (* expected: (second, code) of every dispatcher step *)

Definition nsec : Z := 1000000000.

Definition queues_of (c : lcase) : list R.queue :=
  map (fun q => {| R.q_chain := R.q_chain q;
                   R.q_cap := match lc_cap c with Some n => n | None => R.q_cap q end;
                   R.q_items := if R.q_chain q =? lc_chain c then map (fun p => {| R.r_chain := fst p; R.r_tx := snd p |}) (lc_fill c) else [] |}) node_queues.
Definition init_of (c : lcase) : lnode :=
  {| l_proc := init; l_p2p := G.ninit; l_disp := R.init (queues_of c); l_sendq := []; l_now := 0 |}.

Definition run_case (c : lcase) : lnode * list tev :=
  lrun (tbl_rec (lc_rec c)) (tbl1 (lc_keccak c)) (tbl1 (lc_sign c)) (lc_own c) (lc_gc c) (lc_ga c)
       (fun _ => None) (fun _ => None) (fun _ => []) [x01] false (fun _ _ _ => []) (init_of c) (lc_ops c).

Definition posts_of (tr : list tev) : list (Z * Z * bytes) :=
  flat_map (fun e => match snd e with EPost r R.PostOk => [(fst e / nsec, R.r_chain r, R.r_tx r)] | _ => [] end) tr.
Definition code_of (o : R.op) (x : R.out) : Z :=
  match x with
  | R.Forward _ => 0 | R.DropDup => 1 | R.DropFull => 2 | R.DropUnknown => 3 | R.Blocked => 8 | R.Purged => 10
  | R.Drained None => 110 | R.Drained (Some _) => 111
  end.
Definition disp_codes (tr : list tev) : list (Z * Z) :=
  flat_map (fun e => match snd e with EDisp _ o x => [(fst e / nsec, code_of o x)] | _ => [] end) tr.

Fixpoint first_diff {A} (eqb : A -> A -> bool) (a b : list A) (i : Z) : Z :=
  match a, b with
  | [], [] => -1
  | x :: a', y :: b' => if eqb x y then first_diff eqb a' b' (i + 1) else i
  | _, _ => i
  end.

(* (first differing posted request, first differing dispatcher step); -1 = none; (-2, -2): the recorded Keccak table is not Keccak-256 *)
Definition check_loop (c : lcase) : Z * Z :=
  if negb (WH.lib.Keccak.keccak_table_ok (lc_keccak c)) then (-2, -2) else
  let tr := snd (run_case c) in
  (first_diff (fun a b => (fst (fst a) =? fst (fst b)) && (snd (fst a) =? snd (fst b)) && bytes_eqb (snd a) (snd b)) (posts_of tr) (lc_posts c) 0,
   first_diff (fun a b => (fst a =? fst b) && (snd a =? snd b)) (disp_codes tr) (lc_disp c) 0).
