(* Data types shared by the generated gen/ExtractedEvmLog.v and model/EvmLog.v (extension X8, C10): the ABI description of the
   LogMessagePublished event, the event as abigen's UnpackLog fills it, common.MessagePublication and pendingKey with their full
   content (byte strings, not abstract identifiers).  Definitions only. *)
From Coq Require Import List ZArith Bool Strings.Byte.
From WH Require Import lib.Bytes.
Import ListNotations.
Open Scope Z_scope.

Definition bytes := list byte.

(* the six inputs of  event LogMessagePublished(address indexed sender, uint16 targetChainId, uint64 sequence, uint32 nonce,
   bytes payload, uint8 consistencyLevel)  by name *)
Inductive afld := FSender | FTarget | FSeq | FNonce | FPayload | FCl.
Definition afld_eqb (a b : afld) : bool :=
  match a, b with
  | FSender, FSender | FTarget, FTarget | FSeq, FSeq | FNonce, FNonce | FPayload, FPayload | FCl, FCl => true
  | _, _ => false
  end.
(* the ABI types that occur: uint<bits>, address, bytes *)
Inductive aty := TUint (bits : Z) | TAddress | TBytes.
(* one input: name, type, indexed *)
Definition ainput := (afld * aty * bool)%type.

(* abi.AbiLogMessagePublished without Raw *)
Record xev := mkXev { x_sender : bytes;      (* common.Address, 20 bytes *)
                      x_target : Z;          (* uint16 *)
                      x_seq : Z;             (* uint64 *)
                      x_nonce : Z;           (* uint32 *)
                      x_payload : bytes;
                      x_cl : Z }.            (* uint8 *)

(* common.MessagePublication *)
Record xmsg := mkXMsg { xm_tx : bytes;       (* TxHash, 32 bytes *)
                        xm_ts : Z;           (* Timestamp.Unix(): whole seconds *)
                        xm_nonce : Z;
                        xm_seq : Z;
                        xm_chain : Z;        (* EmitterChain *)
                        xm_target : Z;       (* TargetChain *)
                        xm_em : bytes;       (* EmitterAddress, vaa.Address = 32 bytes *)
                        xm_payload : bytes;
                        xm_cl : Z }.

(* pendingKey *)
Record xkey := mkXKey { xk_tx : bytes; xk_bh : bytes; xk_em : bytes; xk_seq : Z }.

(* common.LeftPadBytes / RightPadBytes(slice, l): slices of l bytes or more are returned as they are *)
Definition left_pad (l : nat) (b : bytes) : bytes := repeat x00 (l - length b) ++ b.
Definition right_pad (l : nat) (b : bytes) : bytes := b ++ repeat x00 (l - length b).
(* addr := vaa.Address{}; copy(addr[:], padded): the first 32 bytes of padded, zero filled *)
Definition copy32 (b : bytes) : bytes := firstn 32 b ++ repeat x00 (32 - length b).

(* Go's narrowing integer conversions in the MessagePublication literal *)
Definition to_u8 (x : Z) : Z := x mod 256.
Definition to_u16 (x : Z) : Z := x mod 65536.
Definition to_u32 (x : Z) : Z := x mod 4294967296.
Definition to_u64 (x : Z) : Z := x mod 18446744073709551616.
(* int64(x) of a uint64 value *)
Definition to_i64 (x : Z) : Z := let y := x mod 18446744073709551616 in if y <? 9223372036854775808 then y else y - 18446744073709551616.
