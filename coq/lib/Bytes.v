From Coq Require Import List ZArith Lia Bool Arith.
From Coq Require Import Strings.Byte.
Import ListNotations.
Open Scope Z_scope.

Definition byte_of_Z (x : Z) : byte :=
  match Byte.of_N (Z.to_N (x mod 256)) with Some b => b | None => x00 end.
Definition Z_of_byte (b : byte) : Z := Z.of_N (Byte.to_N b).

Lemma Z_of_byte_range b : 0 <= Z_of_byte b < 256.
Proof.
  unfold Z_of_byte. pose proof (Byte.to_N_bounded b). lia.
Qed.

Lemma Z_of_byte_of_Z x : Z_of_byte (byte_of_Z x) = x mod 256.
Proof.
  unfold Z_of_byte, byte_of_Z.
  pose proof (Z.mod_pos_bound x 256 ltac:(lia)) as H.
  destruct (Byte.of_N (Z.to_N (x mod 256))) eqn:E.
  - apply Byte.to_of_N in E. rewrite E. lia.
  - apply Byte.of_N_None_iff in E. lia.
Qed.

Lemma byte_of_Z_of_byte b : byte_of_Z (Z_of_byte b) = b.
Proof.
  unfold byte_of_Z, Z_of_byte.
  pose proof (Byte.to_N_bounded b) as H.
  rewrite Z.mod_small by lia. rewrite N2Z.id. rewrite Byte.of_to_N. reflexivity.
Qed.

Lemma byte_of_Z_mod x : byte_of_Z (x mod 256) = byte_of_Z x.
Proof. unfold byte_of_Z. rewrite Z.mod_mod by lia. reflexivity. Qed.

Fixpoint be (n : nat) (x : Z) : list byte :=
  match n with O => [] | S k => be k (x / 256) ++ [byte_of_Z x] end.

Fixpoint unbe_acc (l : list byte) (acc : Z) : Z :=
  match l with [] => acc | b :: t => unbe_acc t (acc * 256 + Z_of_byte b) end.
Definition unbe (l : list byte) : Z := unbe_acc l 0.

Lemma be_length n x : length (be n x) = n.
Proof. revert x; induction n as [|n IH]; intros x; cbn [be]; [reflexivity|].
  rewrite app_length, IH. cbn. lia. Qed.

Lemma unbe_acc_app a b acc : unbe_acc (a ++ b) acc = unbe_acc b (unbe_acc a acc).
Proof. revert acc; induction a as [|x a IH]; intros acc; cbn; [reflexivity|apply IH]. Qed.

Lemma unbe_snoc l b : unbe (l ++ [b]) = unbe l * 256 + Z_of_byte b.
Proof. unfold unbe. rewrite unbe_acc_app. reflexivity. Qed.

Lemma unbe_nonneg l : 0 <= unbe l.
Proof. induction l as [|b l IH] using rev_ind; [unfold unbe; cbn; lia|].
  rewrite unbe_snoc. pose proof (Z_of_byte_range b). lia. Qed.

Lemma unbe_bound l : unbe l < 256 ^ Z.of_nat (length l).
Proof. induction l as [|b l IH] using rev_ind; [unfold unbe; cbn; lia|].
  rewrite unbe_snoc, app_length. cbn [length]. rewrite Nat.add_1_r, Nat2Z.inj_succ, Z.pow_succ_r by lia.
  pose proof (Z_of_byte_range b). lia. Qed.

Lemma unbe_be n x : unbe (be n x) = x mod 256 ^ Z.of_nat n.
Proof.
  revert x; induction n as [|n IH]; intros x.
  - cbn. unfold unbe; cbn. rewrite Z.mod_1_r. reflexivity.
  - cbn [be]. rewrite unbe_snoc, IH, Z_of_byte_of_Z.
    rewrite Nat2Z.inj_succ, Z.pow_succ_r by lia.
    rewrite (Z.rem_mul_r x 256 (256 ^ Z.of_nat n)) by lia. lia.
Qed.

Lemma unbe_be_small n x : 0 <= x < 256 ^ Z.of_nat n -> unbe (be n x) = x.
Proof. intros H. rewrite unbe_be. apply Z.mod_small; assumption. Qed.

Lemma be_unbe l : be (length l) (unbe l) = l.
Proof.
  induction l as [|b l IH] using rev_ind; [reflexivity|].
  rewrite app_length. cbn [length]. rewrite Nat.add_1_r. cbn [be].
  rewrite unbe_snoc. pose proof (Z_of_byte_range b) as Hb.
  replace ((unbe l * 256 + Z_of_byte b) / 256) with (unbe l).
  2:{ rewrite Z.add_comm, Z.div_add by lia. rewrite Z.div_small by lia. lia. }
  rewrite IH. f_equal. f_equal.
  rewrite <- byte_of_Z_mod. rewrite Z.add_comm, Z.mod_add by lia. rewrite Z.mod_small by lia.
  apply byte_of_Z_of_byte.
Qed.

Lemma be_unbe_n n l : length l = n -> be n (unbe l) = l.
Proof. intros <-. apply be_unbe. Qed.

Lemma be_mod n x : be n (x mod 256 ^ Z.of_nat n) = be n x.
Proof.
  rewrite <- unbe_be. apply be_unbe_n. apply be_length.
Qed.

Definition take (n : nat) (l : list byte) : option (list byte * list byte) :=
  if (n <=? length l)%nat then Some (firstn n l, skipn n l) else None.

Lemma take_app n a b : length a = n -> take n (a ++ b) = Some (a, b).
Proof.
  intros <-. unfold take. rewrite app_length.
  destruct (Nat.leb_spec (length a) (length a + length b)); [|lia].
  rewrite firstn_app, Nat.sub_diag, firstn_all, firstn_O, app_nil_r.
  rewrite skipn_app, Nat.sub_diag, skipn_all, skipn_O. reflexivity.
Qed.

Lemma take_inv n l a r : take n l = Some (a, r) -> l = a ++ r /\ length a = n.
Proof.
  unfold take. destruct (Nat.leb_spec n (length l)) as [H|H]; [|discriminate].
  intros E; inversion E; subst. split; [symmetry; apply firstn_skipn|].
  apply firstn_length_le; assumption.
Qed.


Lemma be_inj n x y : 0 <= x < 256 ^ Z.of_nat n -> 0 <= y < 256 ^ Z.of_nat n -> be n x = be n y -> x = y.
Proof. intros Hx Hy E. rewrite <- (unbe_be_small n x Hx), <- (unbe_be_small n y Hy), E. reflexivity. Qed.

Lemma unbe_range n l : length l = n -> 0 <= unbe l < 256 ^ Z.of_nat n.
Proof. intros <-. split; [apply unbe_nonneg|apply unbe_bound]. Qed.

(* byte-string equality *)
Definition byte_eqb (a b : byte) : bool := Byte.eqb a b.
Fixpoint bytes_eqb (a b : list byte) : bool :=
  match a, b with
  | [], [] => true
  | x :: a', y :: b' => Byte.eqb x y && bytes_eqb a' b'
  | _, _ => false
  end.
Lemma bytes_eqb_spec a b : reflect (a = b) (bytes_eqb a b).
Proof.
  revert b; induction a as [|x a IH]; intros [|y b]; cbn; try (constructor; congruence).
  destruct (Byte.eqb x y) eqn:E; cbn.
  - apply Byte.byte_dec_bl in E. subst. destruct (IH b); constructor; congruence.
  - constructor. intros H; inversion H; subst. rewrite (Byte.byte_dec_lb eq_refl) in E. discriminate.
Qed.
Lemma bytes_eqb_eq a b : bytes_eqb a b = true <-> a = b.
Proof. destruct (bytes_eqb_spec a b); split; congruence. Qed.
Lemma bytes_eqb_refl a : bytes_eqb a a = true.
Proof. apply bytes_eqb_eq. reflexivity. Qed.
Definition bytes_eq_dec : forall a b : list byte, {a = b} + {a <> b} := list_eq_dec Byte.byte_eq_dec.

(* slices [from, to) as used by the Ralph contracts; None when out of range (the VM aborts) *)
Definition slice (l : list byte) (from to : nat) : option (list byte) :=
  if ((from <=? to) && (to <=? length l))%nat then Some (firstn (to - from) (skipn from l)) else None.

Lemma slice_app_mid a m r : slice (a ++ m ++ r) (length a) (length a + length m) = Some m.
Proof.
  unfold slice. rewrite !app_length.
  destruct (Nat.leb_spec (length a) (length a + length m)); [|lia].
  destruct (Nat.leb_spec (length a + length m) (length a + (length m + length r))); [|lia].
  cbn [andb]. rewrite skipn_app, Nat.sub_diag, skipn_all, skipn_O. cbn [app].
  replace (length a + length m - length a)%nat with (length m) by lia.
  rewrite firstn_app, Nat.sub_diag, firstn_all, firstn_O, app_nil_r. reflexivity.
Qed.

Lemma slice_to_end a m : slice (a ++ m) (length a) (length (a ++ m)) = Some m.
Proof.
  pose proof (slice_app_mid a m []) as H. rewrite app_nil_r in H. rewrite app_length. exact H.
Qed.

Lemma slice_skip pre l from to k : length pre = k -> (k <= from)%nat -> (from <= to)%nat ->
  slice (pre ++ l) from to = slice l (from - k) (to - k).
Proof.
  intros <- H1 H2. unfold slice. rewrite app_length.
  destruct (Nat.leb_spec from to); [|lia]. destruct (Nat.leb_spec (from - length pre) (to - length pre)); [|lia].
  cbn [andb].
  destruct (Nat.leb_spec to (length pre + length l)); destruct (Nat.leb_spec (to - length pre) (length l)); try lia; [|reflexivity].
  rewrite skipn_app. rewrite skipn_all2 by lia. cbn [app].
  replace (to - length pre - (from - length pre))%nat with (to - from)%nat by lia. reflexivity.
Qed.

Lemma slice_head m post n : length m = n -> slice (m ++ post) 0 n = Some m.
Proof. intros <-. apply (slice_app_mid [] m post). Qed.

Lemma slice_all m n : length m = n -> slice m 0 n = Some m.
Proof. intros <-. pose proof (slice_to_end [] m) as H. exact H. Qed.
