(* Further combinators for the statement-by-statement translation of governance.ral parseAndVerifyVAA (gen/x_ralverify.py):
   the `for` loop with its `mut` locals threaded as a state list, I256 values (as Z, the translator tracks the static type),
   the hash / signature-recovery built-ins over oracle functions, `panic!`.  Definitions only; same conventions as lib/Ralph.v
   ([None] = the VM aborts). *)
From Coq Require Import List ZArith Bool Arith.
From Coq Require Import Strings.Byte.
From WH Require Import lib.Bytes lib.Ralph.
Import ListNotations.
Open Scope Z_scope.

Definition i256_max : Z := 57896044618658097711785492504343953926634992332820282019728792003956564819967.

(* toI256!: aborts when the U256 does not fit *)
Definition r_toI256 (a : rv) : rv :=
  match a with Some (RZ z) => if (0 <=? z) && (z <=? i256_max) then Some (RZ z) else None | _ => None end.

(* keccak256!(bytes) over the oracle [k] *)
Definition r_keccak (k : list byte -> list byte) (a : rv) : rv :=
  match a with Some (RB b) => Some (RB (k b)) | _ => None end.

(* ethEcRecover!(hash, signature) over the oracle [rec]; None of the oracle = the VM aborts *)
Definition r_ecrecover (rec : list byte -> list byte -> option (list byte)) (h s : rv) : rv :=
  match h, s with
  | Some (RB h), Some (RB s) => match rec h s with Some a => Some (RB a) | None => None end
  | _, _ => None
  end.

(* an upper bound of the iteration count of `for (let mut i = a; i < b (or <= b); i = i + 1)` *)
Definition r_fuel (a b : rv) : nat :=
  match a, b with Some (RZ x), Some (RZ y) => Z.to_nat (y - x + 1) | _, _ => O end.

(* `for (init; cond; step) { body }` : [st] = the loop variable followed by the `mut` locals the body assigns; [body] runs the
   loop's statements AND the step and returns the new state.  The loop ends when [cond] is false; fuel exhausted with [cond]
   still true cannot happen with [r_fuel] of a counting loop and is an abort *)
Fixpoint r_for (fuel : nat) (cond : list rval -> rv) (body : list rval -> option rres) (st : list rval) : option rres :=
  match cond st with
  | Some (RBool false) => Some (st, [])
  | Some (RBool true) =>
    match fuel with
    | O => None
    | S f => match body st with Some (st', _) => r_for f cond body st' | None => None end
    end
  | _ => None
  end.
