(* Run-support for the C03 correspondence check: evaluates model.P2PVerify on a recorded history with the recorded crypto /
   decoding tables and compares result class, table checksum and sizes with the implementation's, mirrored by
   harness/p2p/zz_verif_c03_test.go.  No theorem depends on this file. *)
From Coq Require Import List ZArith Bool Arith Strings.Byte.
From Coq Require Import Uint63.
From WH Require Import lib.Bytes lib.Wire gen.Extracted gen.ExtractedP2P model.Vaa model.P2PVerify.
From WH Require lib.Keccak.
Import ListNotations.
Open Scope Z_scope.

Definition p2_tbl1 (t : list (bytes * bytes)) (x : bytes) : bytes :=
  match find (fun p => bytes_eqb (fst p) x) t with Some p => snd p | None => [] end.
Definition p2_tbl_rec (t : list (bytes * bytes * option bytes)) (h s : bytes) : option bytes :=
  match find (fun p => bytes_eqb (fst (fst p)) h && bytes_eqb (snd (fst p)) s) t with Some p => snd p | None => None end.
Definition p2_tbl_dec (t : list (bytes * option Z)) (x : bytes) : option Z :=
  match find (fun p => bytes_eqb (fst p) x) t with Some p => snd p | None => None end.
Definition p2_tbl_bool (t : list (bytes * bool)) (x : bytes) : bool :=
  match find (fun p => bytes_eqb (fst p) x) t with Some p => snd p | None => false end.

Definition entry_hash (a p : bytes) (v : hbv) : Z := hash_bytes (a ++ be 2 (Z.of_nat (length p)) ++ p ++ hv_payload v).
Definition table_hash (t : table) : Z :=
  fold_left (fun acc ar => fold_left (fun acc2 pv => (acc2 + entry_hash (fst ar) (fst pv) (snd pv)) mod hmod) (snd ar) acc) t 0.
Definition table_entries (t : table) : Z := fold_left (fun acc ar => acc + Z.of_nat (length (snd ar))) t 0.

Definition code_of_err (e : verr) : Z :=
  match e with ENotInSet => 1 | ETooShort => 2 | ERecover => 3 | ESigner => 4 | EUnmarshal => 5 | EStore => 6 end.

Record p2hist := { ph_keccak : list (bytes * bytes); ph_rec : list (bytes * bytes * option bytes);
                   ph_dechb : list (bytes * option Z); ph_decreq : list (bytes * bool);
                   ph_ops : list (bool * gmsg);          (* disableVerify flag of the call, message *)
                   ph_expect : list (list Uint63.int) }.  (* per step: [skip; code; table checksum; entries; outer keys] *)

Section W.
Variable rc : bytes -> bytes -> option bytes.
Variable kc : bytes -> bytes.
Variable dh : bytes -> option Z.
Variable dr : bytes -> bool.

(* result class as the harness names it: 0 ok, 1..6 the errors, 7 dropped by the dispatch switch (no set known) *)
Definition wire_code (disable : bool) (st : nstate) (m : gmsg) : Z :=
  match m with
  | GHeartbeat from eaddr hb sig =>
    match n_gs st with
    | None => 7
    | Some gs => match snd (process_heartbeat rc kc dh gs (n_tbl st) from eaddr hb sig disable) with HOk _ => 0 | HErr e => code_of_err e end
    end
  | GObsReq eaddr req sig =>
    match n_gs st with
    | None => 7
    | Some gs => match process_obsreq rc kc dr gs eaddr req sig with ROk _ => 0 | RErr e => code_of_err e end
    end
  | GOwn a p v => match set_heartbeat (n_tbl st) a p v with Some _ => 0 | None => 6 end
  | _ => 0
  end.

(* the model's own outputs must agree with the result class: a request is forwarded / a heartbeat reported stored iff code 0 *)
Definition outs_consistent (m : gmsg) (code : Z) (outs : list gout) : bool :=
  match m with
  | GObsReq _ req _ => match outs with [FwdReq r] => (code =? 0) && bytes_eqb r req | [] => negb (code =? 0) | _ => false end
  | GHeartbeat _ _ _ _ => match outs with [HbStored _ _ _] => (code =? 0) | [] => negb (code =? 0) | _ => false end
  | GOwn _ _ _ => match outs with [OwnPanic] => (code =? 6) | [] => (code =? 0) | _ => false end
  | _ => match outs with [] => true | _ => false end
  end.

Fixpoint cmp_steps (st : nstate) (ops : list (bool * gmsg)) (ex : list (list Uint63.int)) (i : Z) : Z :=
  match ops, ex with
  | (dis, m) :: ops', [skip; code; th; ne; na] :: ex' =>
    let c := wire_code dis st m in
    let '(st', outs) := gossip_step rc kc dh dr dis st m in
    if Z.eqb (Uint63.to_Z skip) 1 then -3 (* a cleanup step whose real-time epsilon was too large: history not comparable from here *) else
    if (c =? Uint63.to_Z code) && (table_hash (n_tbl st') =? Uint63.to_Z th) && (table_entries (n_tbl st') =? Uint63.to_Z ne)
       && (Z.of_nat (length (n_tbl st')) =? Uint63.to_Z na) && outs_consistent m c outs
    then cmp_steps st' ops' ex' (i + 1) else i
  | [], [] => -1
  | _, _ => i
  end.
End W.

(* -1 = all steps agree; -3 = stopped at a discarded cleanup step; otherwise index of the first differing step *)
Definition check_p2hist (h : p2hist) : Z :=
  cmp_steps (p2_tbl_rec (ph_rec h)) (p2_tbl1 (ph_keccak h)) (p2_tbl_dec (ph_dechb h)) (p2_tbl_bool (ph_decreq h)) ninit (ph_ops h) (ph_expect h) 0.

(* the recorded Keccak table is checked against the executable Gallina Keccak-256 (lib/Keccak.v) in the same evaluation:
   -2 = some recorded (input, output) pair is not a value of keccak256; otherwise the result of check_p2hist *)
Definition check_p2hist_k (h : p2hist) : Z := if WH.lib.Keccak.keccak_table_ok (ph_keccak h) then check_p2hist h else -2.
