(* Values and built-ins of the Ralph statements that the governance parsers of the contracts are made of.  The functions
   generated into gen/Extracted.v by gen/x_governance.py (one Gallina function per Ralph function, statement by
   statement) are built from these combinators.  A computation that makes the VM abort (failed assert!, slice out of
   range, u256From<N>Byte! on a string that has not N bytes, U256 overflow / underflow, operands of the wrong type) is
   [None]. *)
From Coq Require Import Strings.String.
From Coq Require Import List ZArith Bool Arith.
From Coq Require Import Strings.Byte.
From WH Require Import lib.Bytes.
Import ListNotations.
Open Scope Z_scope.

Inductive rval := RZ (z : Z) | RB (b : list byte) | RBool (t : bool).
Definition rv := option rval.
Definition renv := list (string * rval).

Definition u256_max : Z := 115792089237316195423570985008687907853269984665640564039457584007913129639935.
Definition in_u256 (z : Z) : bool := (0 <=? z) && (z <=? u256_max).

(* literals of the source text (the compiler has checked their range) *)
Definition r_num (z : Z) : rv := Some (RZ z).
Definition r_hex (b : list byte) : rv := Some (RB b).
Definition r_var (x : rval) : rv := Some x.

Definition r_size (a : rv) : rv :=
  match a with Some (RB b) => Some (RZ (Z.of_nat (length b))) | _ => None end.

Definition r_slice (a f t : rv) : rv :=
  match a, f, t with
  | Some (RB b), Some (RZ f), Some (RZ t) =>
    match slice b (Z.to_nat f) (Z.to_nat t) with Some s => Some (RB s) | None => None end
  | _, _, _ => None
  end.

Definition r_u256from (n : nat) (a : rv) : rv :=
  match a with Some (RB b) => if (length b =? n)%nat then Some (RZ (unbe b)) else None | _ => None end.

Definition r_u256to (n : nat) (a : rv) : rv :=
  match a with Some (RZ z) => if z <? 256 ^ Z.of_nat n then Some (RB (be n z)) else None | _ => None end.

(* byteVecToAddress!: the bytes themselves (the VM additionally checks that they encode a lockup script) *)
Definition r_addr (a : rv) : rv := match a with Some (RB b) => Some (RB b) | _ => None end.

Definition r_arith (op : Z -> Z -> Z) (a b : rv) : rv :=
  match a, b with
  | Some (RZ x), Some (RZ y) => if in_u256 (op x y) then Some (RZ (op x y)) else None
  | _, _ => None
  end.
Definition r_add := r_arith Z.add.
Definition r_sub := r_arith Z.sub.
Definition r_mul := r_arith Z.mul.
Definition r_div (a b : rv) : rv :=
  match a, b with Some (RZ x), Some (RZ y) => if y =? 0 then None else Some (RZ (x / y)) | _, _ => None end.

Definition r_concat (a b : rv) : rv :=
  match a, b with Some (RB x), Some (RB y) => Some (RB (x ++ y)) | _, _ => None end.

Definition r_eq (a b : rv) : rv :=
  match a, b with
  | Some (RZ x), Some (RZ y) => Some (RBool (x =? y))
  | Some (RB x), Some (RB y) => Some (RBool (bytes_eqb x y))
  | Some (RBool x), Some (RBool y) => Some (RBool (Bool.eqb x y))
  | _, _ => None
  end.
Definition r_not (a : rv) : rv := match a with Some (RBool t) => Some (RBool (negb t)) | _ => None end.
Definition r_ne (a b : rv) : rv := r_not (r_eq a b).
Definition r_cmp (op : Z -> Z -> bool) (a b : rv) : rv :=
  match a, b with Some (RZ x), Some (RZ y) => Some (RBool (op x y)) | _, _ => None end.
Definition r_lt := r_cmp Z.ltb.
Definition r_le := r_cmp Z.leb.
Definition r_gt := r_cmp Z.gtb.
Definition r_ge := r_cmp Z.geb.
(* both operands are evaluated (they have no effects), an abort in either aborts *)
Definition r_and (a b : rv) : rv :=
  match a, b with Some (RBool x), Some (RBool y) => Some (RBool (x && y)) | _, _ => None end.
Definition r_or (a b : rv) : rv :=
  match a, b with Some (RBool x), Some (RBool y) => Some (RBool (x || y)) | _, _ => None end.

(* statements; a function returns its return values and the environment of its let-bound names and state writes *)
Definition rres := (list rval * renv)%type.
Definition rlet (e : rv) (k : rval -> option rres) : option rres :=
  match e with Some v => k v | None => None end.
Definition rassert (e : rv) (k : option rres) : option rres :=
  match e with Some (RBool true) => k | _ => None end.
Definition rif (e : rv) (a b : option rres) : option rres :=
  match e with Some (RBool true) => a | Some (RBool false) => b | _ => None end.
(* call of another generated function: its return values, in order *)
Definition rcall (callee : option rres) (k : list rval -> option rres) : option rres :=
  match callee with Some (rets, _) => k rets | None => None end.

Fixpoint rlookup (name : string) (env : renv) : option rval :=
  match env with [] => None | (n, v) :: t => if String.eqb n name then Some v else rlookup name t end.

(* ------------------------------------------------------------------ evaluation lemmas used by the proofs *)
From Coq Require Import Lia.

Lemma in_u256_small z : 0 <= z <= u256_max -> in_u256 z = true.
Proof. intros H. unfold in_u256. apply andb_true_intro. split; [apply Z.leb_le|apply Z.leb_le]; lia. Qed.

Lemma r_num_ok z : r_num z = Some (RZ z).
Proof. reflexivity. Qed.

Lemma r_add_ok x y : 0 <= x + y <= u256_max -> r_add (Some (RZ x)) (Some (RZ y)) = Some (RZ (x + y)).
Proof. intros H. unfold r_add, r_arith. rewrite in_u256_small by exact H. reflexivity. Qed.
Lemma r_mul_ok x y : 0 <= x * y <= u256_max -> r_mul (Some (RZ x)) (Some (RZ y)) = Some (RZ (x * y)).
Proof. intros H. unfold r_mul, r_arith. rewrite in_u256_small by exact H. reflexivity. Qed.

Lemma r_size_ok b : r_size (Some (RB b)) = Some (RZ (Z.of_nat (length b))).
Proof. reflexivity. Qed.

(* the slice [lo, hi) of pre ++ m ++ post when pre has lo bytes and m has hi - lo *)
Lemma r_slice_mid pre m post lo hi : Z.of_nat (length pre) = lo -> Z.of_nat (length pre + length m) = hi ->
  r_slice (Some (RB (pre ++ m ++ post))) (Some (RZ lo)) (Some (RZ hi)) = Some (RB m).
Proof.
  intros <- <-. unfold r_slice. rewrite !Nat2Z.id, slice_app_mid. reflexivity.
Qed.

Lemma r_slice_end pre m lo hi : Z.of_nat (length pre) = lo -> Z.of_nat (length pre + length m) = hi ->
  r_slice (Some (RB (pre ++ m))) (Some (RZ lo)) (Some (RZ hi)) = Some (RB m).
Proof.
  intros H1 H2. rewrite <- (app_nil_r m) at 1. apply r_slice_mid; assumption.
Qed.

Lemma r_u256from_ok n b : length b = n -> r_u256from n (Some (RB b)) = Some (RZ (unbe b)).
Proof. intros <-. unfold r_u256from. rewrite Nat.eqb_refl. reflexivity. Qed.

Lemma r_u256from_be n z : 0 <= z < 256 ^ Z.of_nat n -> r_u256from n (Some (RB (be n z))) = Some (RZ z).
Proof. intros H. rewrite r_u256from_ok by apply be_length. rewrite unbe_be_small by exact H. reflexivity. Qed.

Lemma r_eq_Z x y : r_eq (Some (RZ x)) (Some (RZ y)) = Some (RBool (x =? y)).
Proof. reflexivity. Qed.
Lemma r_eq_B x y : r_eq (Some (RB x)) (Some (RB y)) = Some (RBool (bytes_eqb x y)).
Proof. reflexivity. Qed.
