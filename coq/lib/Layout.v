(* Field names and sequential layouts shared by the hand model and the generated contract layouts. *)
From Coq Require Import List ZArith Arith.
From Coq Require Import Strings.Byte.
From WH Require Import lib.Bytes.
Import ListNotations.

Inductive fld := FVersion | FGsIndex | FNumSigs | FSigIndex | FSigR | FSigS | FSigV
               | FTimestamp | FNonce | FEChain | FTChain | FEAddr | FSeq | FCL.

Definition layout := list (fld * nat).

Fixpoint read_layout (L : layout) (l : list byte) : option (list (fld * list byte) * list byte) :=
  match L with
  | [] => Some ([], l)
  | (f, w) :: L' =>
    match take w l with
    | None => None
    | Some (a, r) =>
      match read_layout L' r with
      | None => None
      | Some (fs, r') => Some ((f, a) :: fs, r')
      end
    end
  end.

Fixpoint read_layouts (n : nat) (L : layout) (l : list byte) : option (list (list (fld * list byte)) * list byte) :=
  match n with
  | O => Some ([], l)
  | S k =>
    match read_layout L l with
    | None => None
    | Some (fs, r) =>
      match read_layouts k L r with
      | None => None
      | Some (fss, r') => Some (fs :: fss, r')
      end
    end
  end.
