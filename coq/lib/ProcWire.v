(* Run-support for the processor correspondence check: canonical bytes / order-independent checksums of outputs and of the
   state projection, mirrored by harness/processor/zz_verif_proc_test.go.  No theorem depends on this file. *)
From Coq Require Import List ZArith Bool Arith Strings.Byte.
From WH Require Import lib.Bytes lib.Wire gen.Extracted model.Vaa model.Processor.
From WH Require lib.Keccak.
Import ListNotations.
Open Scope Z_scope.

Definition lenp (b : bytes) : bytes := be 8 (Z.of_nat (length b)) ++ b.
Definition obs_fields (o : obs) : bytes := lenp (o_addr o) ++ lenp (o_hash o) ++ lenp (o_sig o) ++ lenp (o_tx o).

Definition out_bytes (o : out) : bytes :=
  match o with
  | SendObs ob => x01 :: obs_fields ob
  | SendVAA b => x02 :: b
  | Store (c, a, t, s) b => x03 :: be 8 c ++ a ++ be 8 t ++ be 8 s ++ b
  | ObsReq c tx => x04 :: be 8 c ++ tx
  | Spawn ob => x05 :: obs_fields ob
  | Panic _ => [x06]
  end.

Definition outs_hash (l : list out) : Z := fold_left (fun acc o => (acc + hash_bytes (out_bytes o)) mod hmod) l 0.

Definition flag (b : bool) : byte := if b then x01 else x00.
Definition isS {A} (o : option A) : bool := match o with Some _ => true | None => false end.

Definition entry_bytes (h : bytes) (e : entry) : bytes :=
  lenp h ++ [flag (submitted e); flag (settled e); flag (isS (our_vaa e)); flag (isS (our_msg e)); flag (isS (gs_snap e)); flag (isS (last_retry e))]
  ++ be 8 (retries e)
  ++ be 8 (match gs_snap e with Some g => gidx g | None => 0 end)
  ++ be 8 (match gs_snap e with Some g => Z.of_nat (length (keys g)) | None => 0 end)
  ++ be 8 (fold_left (fun acc p => (acc + hash_bytes (fst p ++ snd p)) mod hmod) (esigs e) 0).

Definition state_hash (st : pstate) : Z :=
  let s := fold_left (fun acc p => (acc + hash_bytes (entry_bytes (fst p) (snd p))) mod hmod) (agg st) 0 in
  let c := match cur st with None => [x00] | Some g => x01 :: be 8 (gidx g) ++ be 8 (Z.of_nat (length (keys g))) end in
  (s + hash_bytes c) mod hmod.

(* finite crypto tables recorded by the harness (direct calls to go-ethereum / x/crypto) *)
Definition tbl1 (t : list (bytes * bytes)) (x : bytes) : bytes :=
  match find (fun p => bytes_eqb (fst p) x) t with Some p => snd p | None => [] end.
Definition tbl_rec (t : list (bytes * bytes * option bytes)) (h s : bytes) : option bytes :=
  match find (fun p => bytes_eqb (fst (fst p)) h && bytes_eqb (snd (fst p)) s) t with Some p => snd p | None => None end.

Record hist := { h_own : bytes; h_gov_chain : Z; h_gov_addr : bytes; h_keccak : list (bytes * bytes); h_sign : list (bytes * bytes);
                 h_rec : list (bytes * bytes * option bytes); h_ops : list op; h_expect : list (Z * Z * Z) }.

(* first step (from 0) at which outputs / state projection / entry count differ from the implementation's; -1 = none *)
Fixpoint cmp_steps (rc : bytes -> bytes -> option bytes) (kc sg : bytes -> bytes) (own : bytes) (gc : Z) (ga : bytes)
         (st : pstate) (ops : list op) (ex : list (Z * Z * Z)) (i : Z) : Z :=
  match ops, ex with
  | o :: ops', (oh, sh, ne) :: ex' =>
    let '(st', outs) := step rc kc sg own gc ga st o in
    (* a store that writes the bytes already present is not observable from outside *)
    let vis := filter (fun x => match x with
                                | Store id b => match dlookup id (db st) with Some b0 => negb (bytes_eqb b0 b) | None => true end
                                | _ => true end) outs in
    let panicked := existsb (fun x => match x with Panic _ => true | _ => false end) outs in
    if panicked then (if outs_hash vis =? oh then -1 else i) else
    if (outs_hash vis =? oh) && (state_hash st' =? sh) && (Z.of_nat (length (agg st')) =? ne)
    then cmp_steps rc kc sg own gc ga st' ops' ex' (i + 1) else i
  | [], [] => -1
  | _, _ => i
  end.

Definition check_hist (h : hist) : Z :=
  cmp_steps (tbl_rec (h_rec h)) (tbl1 (h_keccak h)) (tbl1 (h_sign h)) (h_own h) (h_gov_chain h) (h_gov_addr h) init (h_ops h) (h_expect h) 0.

(* the recorded Keccak table is checked against the executable Gallina Keccak-256 (lib/Keccak.v) in the same evaluation:
   -2 = some recorded (input, output) pair is not a value of keccak256; otherwise the result of check_hist *)
Definition check_hist_k (h : hist) : Z := if WH.lib.Keccak.keccak_table_ok (h_keccak h) then check_hist h else -2.
