(* Executable model of gst_data.go getGuardianSetsRange over the governance contract as the explorer sees it (C19).
   The two contract calls are the oracles; what the function does with them is modelled: the per-index loop of getGuardianSetsFromChain
   and, iff the tree has it (gen/Extracted.v explorer_range_capped), the cap of the requested range at the contract's current index.
   Getters.sol getGuardianSet(i) is a plain mapping read: an index the contract does not have (yet) is answered with the EMPTY set, not
   with an error.  No proofs here (proofs/ExplorerRangeProofs.v). *)
From Coq Require Import List ZArith Bool Arith.
From Coq Require Import Strings.Byte.
From WH Require Import lib.Bytes gen.Extracted model.Vaa model.Explorer.
Import ListNotations.
Open Scope Z_scope.

(* c_cur = getCurrentGuardianSetIndex, c_set i = getGuardianSet(i); None = RPC error *)
Record contract := { c_cur : option Z; c_set : Z -> option gset }.

(* getGuardianSetsFromChain(contract, from, from + n - 1): one call per index, the first error ends it *)
Fixpoint fetch_range (c : contract) (from : Z) (n : nat) : option (list gset) :=
  match n with
  | O => Some []
  | S k =>
    match c_set c from with
    | None => None
    | Some g => match fetch_range c (from + 1) k with None => None | Some l => Some (g :: l) end
    end
  end.

(* getGuardianSetsRange(from, to) *)
Definition range_of (capped : bool) (c : contract) (from to : Z) : option (list gset) :=
  if capped then
    match c_cur c with
    | None => None
    | Some ci => fetch_range c from (Z.to_nat (Z.min to ci - from + 1))
    end
  else fetch_range c from (Z.to_nat (to - from + 1)).

(* a contract that has the sets 0 .. n-1 of [hist] and answers every other index with the empty set *)
Definition contract_of (hist : list (list bytes)) : contract :=
  {| c_cur := Some (Z.of_nat (length hist) - 1);
     c_set := fun i => Some {| g_index := i;
                               g_keys := if (0 <=? i) && (i <? Z.of_nat (length hist)) then Some (nth (Z.to_nat i) hist []) else Some [] |} |}.
