(* Executable model of node/pkg/supervisor (C18): supervisor_processor.go (processSchedule, processDied, processGC, processKill),
   supervisor_node.go (runGroup, signal, reset, nodeByDN), supervisor.go (RunGroup, Signal).
   The tree is flat: distinguished name -> node info.  Everything that is "in flight" outside the tree — a schedule request waiting
   on pReq, a back-off sleeper that will send one, a running instance of a runnable, a `died` request waiting on pReq — is a token.
   One event = one handler call of the processor goroutine, or one call of a runnable into the supervisor (all of which take the
   supervisor mutex), or a runnable returning.  No proofs here (proofs/SupervisorProofs.v). *)
From Coq Require Import List ZArith Bool Arith.
Import ListNotations.
Open Scope Z_scope.

(* distinguished name: the path of child names below the root ("root" = [], "root.a.b" = [a; b]); names are numbers *)
Definition dn := list Z.

Inductive nstate := SNew | SHealthy | SDead | SDone | SCanceled.

(* n_flag: this node's own context cancel function has been called; n_group: index of its group among its parent's groups *)
(* n_exited: the goroutine that ran this incarnation's runnable has returned and the processor has been told (node.exited) *)
Record ninfo := { n_state : nstate; n_flag : bool; n_group : nat; n_exited : bool }.

Definition tree := list (dn * ninfo).

(* what a runnable returned: nil, its context's error (possibly wrapped), any other error / a captured panic *)
Inductive rkind := RNil | RCtx | RErr.

Inductive tkind :=
| TSched                 (* a schedule request waiting to be received by the processor *)
| TSleep (backoff : bool)(* the goroutine started by the GC, sleeping before it sends the schedule request *)
| TInst                  (* a running instance of the node's runnable *)
| TDied (k : rkind).     (* the `died` request of an instance that has returned, waiting to be received *)

Definition token := (dn * tkind)%type.

Record sst := { s_tree : tree; s_toks : list token; s_killed : bool }.

(* ------------------------------------------------------------------ names *)
Fixpoint dn_eqb (a b : dn) : bool :=
  match a, b with
  | [], [] => true
  | x :: a', y :: b' => (x =? y) && dn_eqb a' b'
  | _, _ => false
  end.

Fixpoint is_prefix (a b : dn) : bool :=       (* a is an ancestor of b, or b itself *)
  match a, b with
  | [], _ => true
  | x :: a', y :: b' => (x =? y) && is_prefix a' b'
  | _ :: _, [] => false
  end.

Definition strict_prefix (a b : dn) : bool := is_prefix a b && negb (dn_eqb a b).

Definition parent (d : dn) : dn := removelast d.

Fixpoint find (d : dn) (t : tree) : option ninfo :=
  match t with
  | [] => None
  | (e, i) :: r => if dn_eqb d e then Some i else find d r
  end.

Fixpoint update (d : dn) (f : ninfo -> ninfo) (t : tree) : tree :=
  match t with
  | [] => []
  | (e, i) :: r => if dn_eqb d e then (e, f i) :: r else (e, i) :: update d f r
  end.

Definition set_state (s : nstate) (i : ninfo) : ninfo := {| n_state := s; n_flag := n_flag i; n_group := n_group i; n_exited := n_exited i |}.
Definition set_flag (i : ninfo) : ninfo := {| n_state := n_state i; n_flag := true; n_group := n_group i; n_exited := n_exited i |}.
Definition set_exited (i : ninfo) : ninfo := {| n_state := n_state i; n_flag := n_flag i; n_group := n_group i; n_exited := true |}.

(* n.ctx.Err() != nil: contexts are nested, so a node's context is cancelled iff its own cancel function or an ancestor's was called *)
Definition cancelled (d : dn) (t : tree) : bool :=
  existsb (fun p => is_prefix (fst p) d && n_flag (snd p)) t.

(* ------------------------------------------------------------------ tokens *)
Definition rkind_eqb (a b : rkind) : bool :=
  match a, b with RNil, RNil | RCtx, RCtx | RErr, RErr => true | _, _ => false end.
Definition tkind_eqb (a b : tkind) : bool :=
  match a, b with
  | TSched, TSched | TInst, TInst => true
  | TSleep x, TSleep y => Bool.eqb x y
  | TDied x, TDied y => rkind_eqb x y
  | _, _ => false
  end.
Definition token_eqb (a b : token) : bool := dn_eqb (fst a) (fst b) && tkind_eqb (snd a) (snd b).

Definition has (x : token) (l : list token) : bool := existsb (token_eqb x) l.

Fixpoint remove1 (x : token) (l : list token) : list token :=
  match l with
  | [] => []
  | y :: r => if token_eqb x y then r else y :: remove1 x r
  end.

(* number of things in flight for node d *)
Definition tok (d : dn) (l : list token) : nat := length (filter (fun e => dn_eqb (fst e) d) l).

(* ------------------------------------------------------------------ processDied *)
(* the other members of d's supervision group: same parent, same group index *)
Definition sibling_of (d : dn) (g : nat) (e : dn) (i : ninfo) : bool :=
  negb (dn_eqb d e) && dn_eqb (parent d) (parent e) && (length d =? length e)%nat && (n_group i =? g)%nat.

Definition cancel_siblings (d : dn) (g : nat) (t : tree) : tree :=
  match d with
  | [] => t                                                       (* n.parent == nil *)
  | _ => map (fun p => if sibling_of d g (fst p) (snd p) then (fst p, set_flag (snd p)) else p) t
  end.

Definition proc_died (d : dn) (k : rkind) (t0 : tree) : option tree :=
  match find d t0 with
  | None => None                                                   (* nodeByDN panics *)
  | Some i =>
    let t := update d set_exited t0 in                             (* n.exited = true *)
    match n_state i, k with
    | SDone, RNil => Some t                                        (* supposed to happen *)
    | _, _ =>
      if cancelled d t && (match k with RCtx => true | _ => false end)
      then Some (update d (set_state SCanceled) t)
      else Some (cancel_siblings d (n_group i) (update d (fun x => set_flag (set_state SDead x)) t))
    end
  end.

(* ------------------------------------------------------------------ processGC *)
Definition wanted (s : nstate) : bool := match s with SCanceled | SDead => true | _ => false end.

Section GC.
(* processGC's `case nodeStateDone: curReady = ...`: true = `cur.exited` (a completed node counts as restartable only once its
   goroutine has returned), false = `true` (the code before the repair) *)
Variable done_needs_exit : bool.

Definition restartable (i : ninfo) : bool :=
  match n_state i with
  | SDone => if done_needs_exit then n_exited i else true
  | SCanceled | SDead => true
  | _ => false
  end.

(* phase two: the subtree of d is ready iff every node in it is DONE, CANCELED or DEAD *)
Definition ready (d : dn) (t : tree) : bool :=
  forallb (fun p => if is_prefix d (fst p) then restartable (snd p) else true) t.

(* the test made on a node the phase-three traversal reaches *)
Definition can0 (d : dn) (i : ninfo) (t : tree) : bool :=
  wanted (n_state i) && ready d t && match d with [] => true | _ => negb (cancelled (parent d) t) end.

(* the traversal does not descend below a node it marked *)
Definition can (d : dn) (i : ninfo) (t : tree) : bool :=
  can0 d i t && negb (existsb (fun p => strict_prefix (fst p) d && can0 (fst p) (snd p) t) t).

Definition gc_targets (t : tree) : list (dn * bool) :=
  map (fun p => (fst p, match n_state (snd p) with SDead => true | _ => false end)) (filter (fun p => can (fst p) (snd p) t) t).

(* `for dn := range can { n := s.nodeByDN(dn); ...; n.reset(); go sleep-then-schedule }`.
   n.reset(): fresh context below the parent's current one, state NEW, children and groups dropped.
   The marked nodes are never nested (the traversal does not descend below a marked node), so the resets are independent and the
   loop is one pass over the tree: nodes strictly below a marked node disappear, marked nodes are re-initialised. *)
Definition reset_info (i : ninfo) : ninfo := {| n_state := SNew; n_flag := false; n_group := n_group i; n_exited := false |}.

Definition is_target (tg : list (dn * bool)) (d : dn) : bool := existsb (fun r => dn_eqb (fst r) d) tg.
Definition below_target (tg : list (dn * bool)) (d : dn) : bool := existsb (fun r => strict_prefix (fst r) d) tg.

Definition gc (t : tree) : tree * list token :=
  let tg := gc_targets t in
  (map (fun p => if is_target tg (fst p) then (fst p, reset_info (snd p)) else p) (filter (fun p => negb (below_target tg (fst p))) t),
   map (fun x => (fst x, TSleep (snd x))) tg).

End GC.

(* ------------------------------------------------------------------ runGroup *)
Definition children_of (d : dn) (t : tree) : list (dn * ninfo) :=
  filter (fun p => dn_eqb (parent (fst p)) d && (length (fst p) =? S (length d))%nat) t.

(* number of groups of d = 1 + the largest group index among its children (groups are never empty, never removed one by one) *)
Definition ngroups (d : dn) (t : tree) : nat :=
  fold_left (fun m p => Nat.max m (S (n_group (snd p)))) (children_of d t) 0%nat.

Inductive gres := GOk (t : tree) (new : list token) | GRejected | GNoNode.

Fixpoint nodupz (l : list Z) : bool := match l with [] => true | x :: r => negb (existsb (Z.eqb x) r) && nodupz r end.

Definition run_group (d : dn) (names : list Z) (t : tree) : gres :=
  match find d t with
  | None => GNoNode
  | Some i =>
    match n_state i with
    | SNew =>
      if existsb (fun x => match find (d ++ [x]) t with Some _ => true | None => false end) names then GRejected   (* runnable already exists *)
      else if negb (nodupz names) then GRejected                                                                    (* cannot happen: map keys *)
      else let g := ngroups d t in
           GOk (t ++ map (fun x => (d ++ [x], {| n_state := SNew; n_flag := false; n_group := g; n_exited := false |})) names)
               (map (fun x => (d ++ [x], TSched)) names)
    | _ => GRejected                                                                                                (* cannot run new runnable on non-NEW node *)
    end
  end.

(* ------------------------------------------------------------------ events *)
Inductive ev :=
| EProcSchedule (d : dn)                  (* processor receives a schedule request: processSchedule *)
| EProcDied (d : dn) (k : rkind)          (* processor receives a died request: processDied *)
| EGC                                     (* processor: GC tick: processGC *)
| EKill                                   (* processor sees its context done: processKill, then exits *)
| EBackoff (d : dn)                       (* a back-off sleeper wakes up and offers its schedule request *)
| ESignalHealthy (d : dn)                 (* an instance of d calls Signal(ctx, SignalHealthy) *)
| ESignalDone (d : dn)
| ERunGroup (d : dn) (names : list Z)     (* an instance of d calls RunGroup / Run *)
| EReturn (d : dn) (k : rkind).           (* an instance of d returns (or panics, with panic capture on: RErr) *)

Inductive outcome :=
| Ok (s : sst)
| Disabled                                (* the event cannot happen in this state *)
| ProcessorPanic                          (* nodeByDN panics inside the processor goroutine: the process dies *)
| LockedPanic.                            (* nodeByDN panics inside fromContext, with the supervisor mutex held: nothing moves any more *)

Definition with_toks (s : sst) (l : list token) : sst := {| s_tree := s_tree s; s_toks := l; s_killed := s_killed s |}.

Section Step.
Variable done_needs_exit : bool.

Definition step (s : sst) (e : ev) : outcome :=
  match e with
  | EProcSchedule d =>
    if s_killed s || negb (has (d, TSched) (s_toks s)) then Disabled else
    match find d (s_tree s) with
    | None => ProcessorPanic
    | Some _ => Ok (with_toks s ((d, TInst) :: remove1 (d, TSched) (s_toks s)))
    end
  | EProcDied d k =>
    if s_killed s || negb (has (d, TDied k) (s_toks s)) then Disabled else
    match proc_died d k (s_tree s) with
    | None => ProcessorPanic
    | Some t => Ok {| s_tree := t; s_toks := remove1 (d, TDied k) (s_toks s); s_killed := false |}
    end
  | EGC =>
    if s_killed s then Disabled else
    let '(t, new) := gc done_needs_exit (s_tree s) in Ok {| s_tree := t; s_toks := s_toks s ++ new; s_killed := false |}
  | EKill =>
    if s_killed s then Disabled else
    Ok {| s_tree := map (fun p => (fst p, set_flag (snd p))) (s_tree s); s_toks := s_toks s; s_killed := true |}
  | EBackoff d =>
    if has (d, TSleep true) (s_toks s) then Ok (with_toks s ((d, TSched) :: remove1 (d, TSleep true) (s_toks s)))
    else if has (d, TSleep false) (s_toks s) then Ok (with_toks s ((d, TSched) :: remove1 (d, TSleep false) (s_toks s)))
    else Disabled
  | ESignalHealthy d =>
    if negb (has (d, TInst) (s_toks s)) then Disabled else
    match find d (s_tree s) with
    | None => LockedPanic
    | Some i => match n_state i with
                | SNew => Ok {| s_tree := update d (set_state SHealthy) (s_tree s); s_toks := s_toks s; s_killed := s_killed s |}
                | _ => Ok (with_toks s ((d, TDied RErr) :: remove1 (d, TInst) (s_toks s)))       (* panic(node signaled healthy), captured *)
                end
    end
  | ESignalDone d =>
    if negb (has (d, TInst) (s_toks s)) then Disabled else
    match find d (s_tree s) with
    | None => LockedPanic
    | Some i => match n_state i with
                | SHealthy => Ok {| s_tree := update d (set_state SDone) (s_tree s); s_toks := s_toks s; s_killed := s_killed s |}
                | _ => Ok (with_toks s ((d, TDied RErr) :: remove1 (d, TInst) (s_toks s)))
                end
    end
  | ERunGroup d names =>
    if negb (has (d, TInst) (s_toks s)) then Disabled else
    match run_group d names (s_tree s) with
    | GNoNode => LockedPanic
    | GRejected => Ok s
    | GOk t new => Ok {| s_tree := t; s_toks := s_toks s ++ new; s_killed := s_killed s |}
    end
  | EReturn d k =>
    if negb (has (d, TInst) (s_toks s)) then Disabled else
    Ok (with_toks s ((d, TDied k) :: remove1 (d, TInst) (s_toks s)))
  end.

(* supervisor.New: the root node, and its schedule request *)
Definition init : sst :=
  {| s_tree := [([], {| n_state := SNew; n_flag := false; n_group := 0; n_exited := false |})]; s_toks := [([], TSched)]; s_killed := false |}.

Fixpoint run (evs : list ev) (s : sst) : outcome :=
  match evs with
  | [] => Ok s
  | e :: t => match step s e with Ok s' => run t s' | o => o end
  end.

End Step.

(* number of live instances of d *)
Definition running (d : dn) (s : sst) : nat := length (filter (fun e => token_eqb e (d, TInst)) (s_toks s)).
