(* Executable model of node/pkg/vaa/structs.go: serializeBody, Marshal, Unmarshal, VerifySignatures, MessageID parts.
   No proofs here (proofs/VaaProofs.v), so that the model still runs when a proof breaks. *)
From Coq Require Import List ZArith Bool Arith.
From Coq Require Import Strings.Byte.
From WH Require Import lib.Bytes gen.Extracted.
Import ListNotations.
Open Scope Z_scope.

Definition bytes := list byte.

Record sig := { s_idx : Z; s_data : bytes }.

(* Timestamp is a Go time.Time: whole Unix seconds [ts] and a sub-second part [tns] (nanoseconds) *)
Record vaa := { version : Z; gsidx : Z; sigs : list sig;
                ts : Z; tns : Z; nonce : Z; echain : Z; tchain : Z; eaddr : bytes;
                seq : Z; cl : Z; payload : bytes }.

(* serializeBody: uint32(Timestamp.Unix()) is the wrap [be 4] performs *)
Definition body (v : vaa) : bytes :=
  be 4 (ts v) ++ be 4 (nonce v) ++ be 2 (echain v) ++ be 2 (tchain v) ++ eaddr v
  ++ be 8 (seq v) ++ be 1 (cl v) ++ payload v.

Definition enc_sig (s : sig) : bytes := be 1 (s_idx s) ++ s_data s.

(* Marshal: uint8(len(Signatures)) is the wrap [be 1] performs *)
Definition marshal (v : vaa) : bytes :=
  be 1 (version v) ++ be 4 (gsidx v) ++ be 1 (Z.of_nat (length (sigs v)))
  ++ flat_map enc_sig (sigs v) ++ body v.

Inductive uerr := ETooShort | EBadVersion | EGsIndex | ESigLen | ESigIndex | ESig
                | ETimestamp | ENonce | EEChain | ETChain | EEAddr | ESeq | ECL | EPayload.
Inductive res (A : Type) := Ok (a : A) | Err (e : uerr).
Arguments Ok {A}. Arguments Err {A}.

Definition rd (n : nat) (e : uerr) (l : bytes) : res (bytes * bytes) :=
  match take n l with Some p => Ok p | None => Err e end.

Fixpoint parse_sigs (n : nat) (l : bytes) : res (list sig * bytes) :=
  match n with
  | O => Ok ([], l)
  | S k =>
    match rd 1 ESigIndex l with Err e => Err e | Ok (i, l1) =>
    match rd 65 ESig l1 with Err e => Err e | Ok (d, l2) =>
    match parse_sigs k l2 with Err e => Err e | Ok (ss, l3) =>
      Ok ({| s_idx := unbe i; s_data := d |} :: ss, l3) end end end
  end.

(* Unmarshal, read by read.  paycap: the size of the payload buffer (extracted): Some c = at most c bytes are read. *)
Definition unmarshal_with (paycap : option nat) (data : bytes) : res vaa :=
  if (length data <? vaa_min_len)%nat then Err ETooShort else
  match rd 1 ETooShort data with Err e => Err e | Ok (ver, l0) =>
  if negb (unbe ver =? vaa_version) then Err EBadVersion else
  match rd 4 EGsIndex l0 with Err e => Err e | Ok (gi, l1) =>
  match rd 1 ESigLen l1 with Err e => Err e | Ok (ns, l2) =>
  match parse_sigs (Z.to_nat (unbe ns)) l2 with Err e => Err e | Ok (ss, l3) =>
  match rd 4 ETimestamp l3 with Err e => Err e | Ok (t, l4) =>
  match rd 4 ENonce l4 with Err e => Err e | Ok (no, l5) =>
  match rd 2 EEChain l5 with Err e => Err e | Ok (ec, l6) =>
  match rd 2 ETChain l6 with Err e => Err e | Ok (tc, l7) =>
  match rd 32 EEAddr l7 with Err e => Err e | Ok (ea, l8) =>
  match rd 8 ESeq l8 with Err e => Err e | Ok (sq, l9) =>
  match rd 1 ECL l9 with Err e => Err e | Ok (c, l10) =>
  let pl := match paycap with None => l10 | Some k => firstn k l10 end in
  match pl with [] => Err EPayload | _ =>
    Ok {| version := unbe ver; gsidx := unbe gi; sigs := ss; ts := unbe t; tns := 0; nonce := unbe no;
          echain := unbe ec; tchain := unbe tc; eaddr := ea; seq := unbe sq; cl := unbe c; payload := pl |}
  end end end end end end end end end end end end.

Definition unmarshal : bytes -> res vaa := unmarshal_with vaa_paycap.

(* the representable range of the wire format (C05's quantifier) *)
Definition rng (n : nat) (x : Z) : Prop := 0 <= x < 256 ^ Z.of_nat n.
Definition wf_sig (s : sig) : Prop := rng 1 (s_idx s) /\ length (s_data s) = 65%nat.
Record wf (v : vaa) : Prop := {
  wf_version : version v = vaa_version; wf_gs : rng 4 (gsidx v);
  wf_nsigs : (length (sigs v) <= 255)%nat; wf_sigs : Forall wf_sig (sigs v);
  wf_ts : rng 4 (ts v); wf_tns : tns v = 0; wf_nonce : rng 4 (nonce v); wf_ec : rng 2 (echain v); wf_tc : rng 2 (tchain v);
  wf_ea : length (eaddr v) = 32%nat; wf_seq : rng 8 (seq v); wf_cl : rng 1 (cl v);
  wf_payload : payload v <> [] }.

(* boolean version, used by generators / cases *)
Definition rngb (n : nat) (x : Z) : bool := (0 <=? x) && (x <? 256 ^ Z.of_nat n).
Definition wfb (v : vaa) : bool :=
  (version v =? vaa_version) && rngb 4 (gsidx v) && (length (sigs v) <=? 255)%nat
  && forallb (fun s => rngb 1 (s_idx s) && (length (s_data s) =? 65)%nat) (sigs v)
  && rngb 4 (ts v) && (tns v =? 0) && rngb 4 (nonce v) && rngb 2 (echain v) && rngb 2 (tchain v)
  && (length (eaddr v) =? 32)%nat && rngb 8 (seq v) && rngb 1 (cl v)
  && match payload v with [] => false | _ => true end.

(* ------------------------------------------------------------------ signature verification *)
Section Verify.
(* [recover h s] = crypto.Ecrecover + Keccak + last 20 bytes; None on error *)
Variable recover : bytes -> bytes -> option bytes.
Variable keccak : bytes -> bytes.

Definition digest (v : vaa) : bytes := keccak (keccak (body v)).

Fixpoint verify_loop (h : bytes) (addrs : list bytes) (last : Z) (seen : list bytes) (ss : list sig) : bool :=
  match ss with
  | [] => true
  | s :: t =>
    if Z.of_nat (length addrs) <=? s_idx s then false else
    if s_idx s <=? last then false else
    match recover h (s_data s) with
    | None => false
    | Some a =>
      match nth_error addrs (Z.to_nat (s_idx s)) with
      | None => false
      | Some a' =>
        if negb (bytes_eqb a a') then false else
        if existsb (bytes_eqb a) seen then false else
        verify_loop h addrs (s_idx s) (seen ++ [a]) t
      end
    end
  end.

Definition verify_sigs (v : vaa) (addrs : list bytes) : bool :=
  if (length addrs <? length (sigs v))%nat then false else
  verify_loop (digest v) addrs (-1) [] (sigs v).
End Verify.

(* common.BytesToAddress: crop from the left to 20 bytes / left-pad with zeros *)
Definition bytes_to_address (b : bytes) : bytes :=
  if (20 <? length b)%nat then skipn (length b - 20) b
  else repeat x00 (20 - length b) ++ b.

(* go-ethereum's own argument checks in front of the curve recovery (secp256k1.RecoverPubkey / checkSignature) *)
Definition recover_checked (recover : bytes -> bytes -> option bytes) (h s : bytes) : option bytes :=
  if ((length h =? 32) && (length s =? 65))%nat then
    match nth_error s 64 with
    | Some r => if Z_of_byte r <? 4 then recover h s else None
    | None => None
    end
  else None.

(* common.MessagePublication and the VAA every guardian builds from it (processor/message.go handleMessage) *)
Record msgpub := { m_tx : bytes; m_ts : Z; m_tns : Z; m_nonce : Z; m_seq : Z; m_cl : Z;
                   m_echain : Z; m_tchain : Z; m_eaddr : bytes; m_payload : bytes }.

Definition vaa_of_message (gs_index : Z) (m : msgpub) : vaa :=
  {| version := vaa_version; gsidx := gs_index; sigs := [];
     ts := m_ts m; tns := m_tns m; nonce := m_nonce m; echain := m_echain m; tchain := m_tchain m;
     eaddr := m_eaddr m; seq := m_seq m; cl := m_cl m; payload := m_payload m |}.
