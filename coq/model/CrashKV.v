(* C16: an abstract crash-prone key/value engine and the store wrapper of node/pkg/db/db.go on top of it.
   State = (durable map, in-flight transactions, process up/down).  One StoreSignedVAA call = one transaction with one
   write (key = VaaIDFromVAA(v).Bytes(), value = Marshal(v)) — checked on the source by gen/x_dbstore.py.
   The ENGINE CONTRACT is the definition of [exec] below: a transaction is acknowledged only after it became durable,
   a crash discards exactly the in-flight transactions (atomically per transaction) and keeps the durable map; it may leave
   zero-length log files, each of which makes exactly one badger.Open attempt fail (and is repaired by it); db.Open makes
   [db_open_attempts] attempts (generated from db.go), so whether reopening succeeds is decided by the extracted loop bound.  Whether badger honours it for a SIGKILL is not provable here: proofs/CrashKVProofs.v states it
   as a Section hypothesis (simulation), and the harness injects the fault on the real engine.
   What IS logic of db.go and is generated from it: the Update error reaches the caller ([db_store_error_propagated]),
   so a success return implies the transaction committed; an unsigned VAA panics before any transaction.
   No proofs here. *)
From Coq Require Import List ZArith Bool Arith.
From Coq Require Import Strings.Byte.
From WH Require Import lib.Bytes lib.Digits lib.KeyFmt gen.Extracted model.Vaa model.Db.
Import ListNotations.
Open Scope Z_scope.

Record txn := { t_id : nat; t_key : bytes; t_val : bytes }.

Record cstate := {
  dur : store;               (* what a reopen would see *)
  infl : list txn;           (* Update transactions that have not returned yet *)
  next : nat;                (* number of transactions started so far *)
  committed : list nat;      (* ghost: transactions that became durable *)
  aborted : list nat;        (* ghost: transactions the engine gave up on (Update returned an error) *)
  damaged : nat;             (* zero-length memtable / value log files the last kill left in the directory *)
  up : bool }.               (* the process is running with the store open *)

Definition cinit : cstate := {| dur := []; infl := []; next := 0; committed := []; aborted := []; damaged := 0; up := true |}.

Inductive ev :=
| EStart (v : vaa)        (* StoreSignedVAA(v) enters d.db.Update; the transaction gets the next number *)
| EPanic (v : vaa)        (* StoreSignedVAA(v) on a VAA without signatures panics before touching the store *)
| ECommit (n : nat)       (* the engine makes transaction n durable *)
| EAbort (n : nat)        (* the engine gives up on transaction n *)
| EAck (n : nat)          (* StoreSignedVAA returns nil for transaction n *)
| EErr (n : nat)          (* StoreSignedVAA returns an error for transaction n *)
| ECrash (k : nat)        (* the process is killed; the kill leaves k zero-length log files (creation / deletion cut short) *)
| EReopen                 (* db.Open on the same directory succeeds *)
| EReopenFail             (* db.Open on the same directory returns an error *)
| EGet (i : vid) (res : lres).   (* GetSignedVAABytes(i) returns res *)

Definition nmem (n : nat) (l : list nat) : bool := existsb (Nat.eqb n) l.
Fixpoint find_txn (n : nat) (l : list txn) : option txn :=
  match l with [] => None | t :: r => if Nat.eqb (t_id t) n then Some t else find_txn n r end.
Definition drop_txn (n : nat) (l : list txn) : list txn := filter (fun t => negb (Nat.eqb (t_id t) n)) l.

Definition lres_eqb (a b : lres) : bool :=
  match a, b with Found x, Found y => bytes_eqb x y | NotFound, NotFound => true | _, _ => false end.

(* None = the event cannot happen in this state *)
Definition exec (st : cstate) (e : ev) : option cstate :=
  match e with
  | EStart v =>
    if up st && match sigs v with [] => false | _ => true end then
      Some {| dur := dur st; infl := {| t_id := next st; t_key := key (id_of v); t_val := marshal v |} :: infl st; next := S (next st);
              committed := committed st; aborted := aborted st; damaged := damaged st; up := true |}
    else None
  | EPanic v =>
    if up st && db_store_panics_unsigned && match sigs v with [] => true | _ => false end then Some st else None
  | ECommit n =>
    if up st then
      match find_txn n (infl st) with
      | Some t => Some {| dur := put (dur st) (t_key t) (t_val t); infl := drop_txn n (infl st); next := next st;
                          committed := n :: committed st; aborted := aborted st; damaged := damaged st; up := true |}
      | None => None
      end
    else None
  | EAbort n =>
    if up st then
      match find_txn n (infl st) with
      | Some t => Some {| dur := dur st; infl := drop_txn n (infl st); next := next st;
                          committed := committed st; aborted := n :: aborted st; damaged := damaged st; up := true |}
      | None => None
      end
    else None
  | EAck n =>
    (* nil is returned only when Update returned nil; if the wrapper dropped the error, also for aborted transactions *)
    if up st && (nmem n (committed st) || (negb db_store_error_propagated && nmem n (aborted st))) then Some st else None
  | EErr n =>
    if up st && nmem n (aborted st) then Some st else None
  | ECrash k =>
    if up st then Some {| dur := dur st; infl := []; next := next st; committed := committed st; aborted := aborted st; damaged := k; up := false |}
    else None
  (* ENGINE CONTRACT for reopening: badger.Open fails on the first zero-length log file it meets and sizes that file while
     failing; with none left it succeeds.  db.Open makes [db_open_attempts (files present)] attempts (GENERATED from db.go). *)
  | EReopen =>
    if up st then None
    else if Z.of_nat (damaged st) <? db_open_attempts (Z.of_nat (damaged st)) then
      Some {| dur := dur st; infl := infl st; next := next st; committed := committed st; aborted := aborted st; damaged := 0; up := true |}
    else None
  | EReopenFail =>
    if up st then None
    else if Z.of_nat (damaged st) <? db_open_attempts (Z.of_nat (damaged st)) then None
    else Some {| dur := dur st; infl := infl st; next := next st; committed := committed st; aborted := aborted st;
                 damaged := damaged st - Z.to_nat (db_open_attempts (Z.of_nat (damaged st))); up := false |}
  | EGet i res =>
    if up st && lres_eqb (get_signed_vaa_bytes (dur st) i) res then Some st else None
  end.

(* a history; None = some event was not possible where it stands *)
Fixpoint run_evs (st : cstate) (h : list ev) : option cstate :=
  match h with
  | [] => Some st
  | e :: r => match exec st e with Some st' => run_evs st' r | None => None end
  end.

(* position (from 0) of the first event that is not possible; used by the differential check only *)
Fixpoint first_bad (st : cstate) (h : list ev) (i : Z) : option Z :=
  match h with
  | [] => None
  | e :: r => match exec st e with Some st' => first_bad st' r (i + 1) | None => Some i end
  end.
