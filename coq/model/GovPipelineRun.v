(* Comparator used by the generated run/cases_C15e_*.v files: the end-to-end rows of harness/guardiand/zz_verif_c15_e2e_test.go
   (three real processors fed by three real InjectGovernanceVAA calls, published bytes read by the harness's interpreter of the .ral
   text) are re-evaluated on model/GovPipeline.v INSIDE Coq: RPC outcome and digests (the executable Gallina Keccak-256 of
   lib/Keccak.v), the byte strings the nodes broadcast (signatures / recovery = the recorded go-ethereum results), and what the
   contract entry point binds / its new receivedSequence.  Differential-testing aid only; no theorem depends on it. *)
From Coq Require Import Strings.String.
From Coq Require Import List ZArith Bool Arith.
From Coq Require Import Strings.Byte.
From WH Require Import lib.Bytes lib.Wire lib.Ralph gen.Extracted gen.ExtractedGov model.Vaa model.AlphConv model.Governance model.GovernanceRun
     model.Processor model.System model.GovPipeline lib.ProcWire.
From WH Require lib.Keccak.
Import ListNotations.
Open Scope Z_scope.

(* one injected message as the harness saw it: kind (numbering of GovernanceRun.payload_of), chain id of the executing contract, the
   sequence it expects, checksums of the distinct byte strings broadcast for it, and the interpreter's result on the first of them *)
Inductive esent := ES (kind local tseq : Z) (published : list Z) (abort : bool) (newseq : Z) (vals : list (string * rval)).

Inductive ecase := EC (gchain : Z) (gaddr : bytes) (ts gsi : Z) (ms : list cmsg) (owns keys : list bytes) (gsindex : Z)
                      (signs : list (list (bytes * bytes))) (recs : list (bytes * bytes * option bytes))
                      (out err : Z) (digests : list bytes) (sent : list esent).

Definition kind_of_Z (k : Z) : option gov_kind :=
  if k =? 0 then Some KGuardianSet else if k =? 1 then Some KMessageFee else if k =? 2 then Some KTransferFee
  else if k =? 3 then Some KContractUpgrade else if k =? 4 then Some KRegisterChain else if k =? 5 then Some KBridgeUpgrade
  else if k =? 6 then Some KDestroy else if k =? 7 then Some KMinLevel else if k =? 8 then Some KRefund else None.

Fixpoint list_eqb (a b : list bytes) : bool :=
  match a, b with [], [] => true | x :: s, y :: t => bytes_eqb x y && list_eqb s t | _, _ => false end.

Definition same_set (bs : list bytes) (hs : list Z) : bool :=
  forallb (fun b => existsb (Z.eqb (hash_bytes b)) hs) bs && forallb (fun h => existsb (fun b => hash_bytes b =? h) bs) hs.

(* 0 = agreement; 1 RPC outcome / error kind / digests; 3 number of injected messages; 4 published bytes; 5 contract side *)
Definition check_e2e (c : ecase) : Z :=
  let '(EC gchain gaddr ts gsi ms owns keys gsindex signs recs out err digests sent) := c in
  let cfg := {| g_chain := gchain; g_addr := gaddr |} in
  let g := {| Processor.keys := keys; gidx := gsindex |} in
  let q := {| q_ts := ts; q_gsi := gsi; q_msgs := map msg_of ms |} in
  let rc := tbl_rec recs in
  let kc := WH.lib.Keccak.keccak256 in
  let '(r, pubs) := pipeline rc kc gchain gaddr (fun i => nth i owns []) (fun i => tbl1 (nth i signs [])) cfg 3 g q in
  if negb (match r with
           | IOk ds => (out =? 0) && list_eqb ds digests
           | IErr x => (out =? 1) && (err =? ecode x)
           | IPanic => out =? 2
           end) then 1 else
  if negb (length pubs =? length sent)%nat then 3 else
  let fix go (ps : list (list bytes)) (ss : list esent) : Z :=
    match ps, ss with
    | p :: pt, ES kind local tseq hs abort newseq vals :: st =>
      if negb (same_set p hs) then 4 else
      match p, kind_of_Z kind with
      | b :: _, Some k =>
        match ral_execute rc kc k (contract_for cfg local tseq g) b with
        | None => if abort then go pt st else 5
        | Some ((_, env), s') =>
          if negb abort && rval_eqb (match s' with Some x => x | None => RBool false end) (RZ newseq)
             && forallb (fun nv => match rlookup (fst nv) env with Some v => rval_eqb v (snd nv) | None => false end) vals
          then go pt st else 5
        end
      | _, _ => go pt st
      end
    | _, _ => 0
    end in
  go pubs sent.
