(* Executable model of the Alephium watcher (node/pkg/alephium/{watcher,reobserve,client}.go) for C08 / C09.

   The node is abstract: every answer the watcher obtains from it is an INPUT of the step in which it is obtained
   ("at that moment" in the properties = "according to the node's answer in that step").  Identifiers (block hashes,
   contract addresses, contract ids, token symbols / names) are abstract integers; the outcome of the field conversion
   (ToWormholeMessage, parseAttestToken, toByteVec, toUint8 - the subject of C11) is an input flag of each event / value.
   Constants, comparison operators and the presence of the filters are GENERATED from the source (gen.Extracted). *)
From Coq Require Import List ZArith Bool.
From WH Require Import gen.Extracted.
Import ListNotations.
Open Scope Z_scope.

(* ------------------------------------------------------------------ data *)
Record cfg := { c_gov : Z;        (* address of the configured governance (core) contract *)
                c_bridge : Z;     (* id of the configured token-bridge contract *)
                c_mainnet : bool }.

Record header := { h_ts : Z; h_height : Z }.       (* BlockHeaderEntry: timestamp (ms), height *)

Record tokinfo := { ti_id : Z; ti_dec : Z; ti_sym : Z; ti_name : Z }.
(* result of ToWormholeMessage *)
Record wmsg := { m_sender : Z; m_cl : Z;
                 m_p0 : Z;      (* first byte of the payload, -1 for an empty payload *)
                 m_tok : option tokinfo (* parseAttestToken payload; None = error; consulted only for attestations *) }.
(* ContractEvent; e_uid identifies the event for the observer, e_conv = ToWormholeMessage(fields) *)
Record cevent := { e_uid : Z; e_block : Z; e_index : Z; e_conv : option wmsg }.
(* ContractEventByTxId carries the emitting contract's address *)
Record tevent := { t_addr : Z; t_ev : cevent }.

(* an event held by the watcher; u_chain is a ghost: the token info the node reported when the attestation was validated *)
Record uevent := { u_ev : cevent; u_msg : wmsg; u_chain : option tokinfo }.
(* a message sent on msgChan *)
Record fwd := { f_ev : cevent; f_msg : wmsg; f_hdr : header; f_chain : option tokinfo }.

(* ------------------------------------------------------------------ Go integer arithmetic *)
Definition wrap32 (x : Z) : Z := (x + 2147483648) mod 4294967296 - 2147483648.
Definition wrap64 (x : Z) : Z := (x + 9223372036854775808) mod 18446744073709551616 - 9223372036854775808.

(* ------------------------------------------------------------------ isEventConfirmed + getConfirmationDuration *)
(* IsTransferTokenVAA / IsAttestTokenVAA: len(payload) > 0 && payload[0] == <payload id> *)
Definition is_transfer (m : wmsg) : bool := m_p0 m =? alph_transfer_payload_id.
Definition is_attest (m : wmsg) : bool := m_p0 m =? alph_attest_payload_id.

Definition confirmed (mainnet : bool) (m : wmsg) (h : header) (now height : Z) : bool :=
  if alph_height_short (wrap32 (h_height h + m_cl m)) height then false
  else if alph_time_short (wrap64 (h_ts h + alph_duration mainnet (is_transfer m) (m_cl m))) now then false
  else true.

(* ------------------------------------------------------------------ GetTokenInfo / validateAttestToken *)
Inductive val := VBytes (x : option Z)   (* ValByteVec; Some s = hex decodes, s = id of the NUL-trimmed string *)
               | VNum (x : option Z)     (* ValU256; Some d = toUint8 accepts with value d *)
               | VOther.                 (* any other variant *)
Inductive callres := CFailed | COk (rets : list val).
Inductive mc_ans := McErr | McRes (rs : list callres).
Inductive ti_res := TiOk (t : tokinfo) | TiErr | TiPanic.

Definition alph_native_id : Z := 0.      (* the all-zero token id *)
Definition alph_native_sym : Z := 1.     (* "ALPH" *)
Definition alph_native_name : Z := 2.    (* "Alephium" *)

Definition succeeded (r : callres) : bool := match r with COk _ => true | CFailed => false end.
(* `X.CallContractSucceeded == nil || len(R.CallContractSucceeded.Returns) != 1`, X = results[t], R = results[i] *)
Inductive shape := ShErr | ShPanic | ShOne (v : val).
Definition shape_test (rs : list callres) (t i : nat) : shape :=
  if negb (succeeded (nth t rs CFailed)) then ShErr
  else match nth i rs CFailed with
       | CFailed => ShPanic                     (* nil pointer dereference *)
       | COk [v] => ShOne v
       | COk _ => ShErr
       end.
Definition to_bytevec (v : val) : option Z := match v with VBytes x => x | _ => None end.
Definition to_uint8 (v : val) : option Z := match v with VNum x => x | _ => None end.

Definition get_token_info (id : Z) (a : mc_ans) : ti_res :=
  if id =? alph_native_id then TiOk {| ti_id := alph_native_id; ti_dec := alph_native_decimals; ti_sym := alph_native_sym; ti_name := alph_native_name |}
  else match a with
  | McErr => TiErr
  | McRes rs =>
    if negb (Nat.eqb (length rs) 3) then TiErr else
    let '(t0, t1, t2) := alph_tokinfo_tests in
    match shape_test rs t0 0 with ShErr => TiErr | ShPanic => TiPanic | ShOne vs =>
    match shape_test rs t1 1 with ShErr => TiErr | ShPanic => TiPanic | ShOne vn =>
    match shape_test rs t2 2 with ShErr => TiErr | ShPanic => TiPanic | ShOne vd =>
    match to_bytevec vs with None => TiErr | Some s =>
    match to_bytevec vn with None => TiErr | Some n =>
    match to_uint8 vd with None => TiErr | Some d =>
      TiOk {| ti_id := id; ti_dec := d; ti_sym := s; ti_name := n |}
    end end end end end end
  end.

Definition tokinfo_eqb (a b : tokinfo) : bool :=
  (ti_id a =? ti_id b) && (ti_dec a =? ti_dec b) && (ti_sym a =? ti_sym b) && (ti_name a =? ti_name b).

Inductive va_res := VaOk (t : tokinfo) | VaReject | VaPanic.
Definition validate_attest (m : wmsg) (a : mc_ans) : va_res :=
  match m_tok m with
  | None => VaReject
  | Some ti => match get_token_info (ti_id ti) a with
               | TiOk t => if tokinfo_eqb ti t then VaOk t else VaReject
               | TiErr => VaReject
               | TiPanic => VaPanic
               end
  end.

(* ------------------------------------------------------------------ polling path: fetchEvents / handleUnconfirmedEvents *)
(* toUnconfirmedEvent *)
Definition to_unconfirmed (e : cevent) : option wmsg := if e_index e =? alph_wm_event_index then e_conv e else None.

Inductive cls := Keep (u : uevent) | Skip | Abort | Panic.
(* one iteration of handleUnconfirmedEvents; a = the node's multicall answer for this event *)
Definition classify (a : mc_ans) (e : cevent) : cls :=
  match to_unconfirmed e with
  | None => if alph_unconv_aborts then Abort else Skip
  | Some m =>
    if is_attest m then
      match validate_attest m a with
      | VaPanic => Panic
      | VaReject => Skip
      | VaOk t => Keep {| u_ev := e; u_msg := m; u_chain := Some t |}
      end
    else Keep {| u_ev := e; u_msg := m; u_chain := None |}
  end.

Inductive hu_res := HuOk (l : list uevent) | HuAbort | HuPanic.
(* tok i = the node's multicall answer when asked about the token named by the event with stream index i *)
Fixpoint handle_unconfirmed (tok : Z -> mc_ans) (idx : Z) (evs : list cevent) : hu_res :=
  match evs with
  | [] => HuOk []
  | e :: t =>
    match classify (tok idx) e with
    | Abort => HuAbort
    | Panic => HuPanic
    | Skip => handle_unconfirmed tok (idx + 1) t
    | Keep u => match handle_unconfirmed tok (idx + 1) t with HuOk l => HuOk (u :: l) | r => r end
    end
  end.

Inductive page_ans := PageErr | Page (evs : list cevent) (next : Z).
Inductive poll_res :=
| PIdle                                                   (* count == fromIndex *)
| PBatch (from' : Z) (batch : list uevent) (nreq : nat)   (* batch sent on eventsC after nreq page requests *)
| PFatal                                                  (* error on errC: the watcher terminates *)
| PSpin                                                   (* page loop did not end within the fuel *)
| PPanic.                                                 (* nil dereference in GetTokenInfo *)

(* pg k s = the node's answer to the k-th page request of this poll, which asks for events from index s *)
Fixpoint page_loop (pg : nat -> Z -> page_ans) (tok : Z -> mc_ans) (fuel k : nat) (from count : Z) (acc : list uevent) : poll_res :=
  match fuel with
  | O => PSpin
  | S f =>
    match pg k from with
    | PageErr => PFatal
    | Page evs next =>
      match handle_unconfirmed tok from evs with
      | HuPanic => PPanic
      | HuAbort => PFatal
      | HuOk l =>
        if alph_page_exit next count then PBatch next (acc ++ l) (S k)
        else page_loop pg tok f (S k) next count (acc ++ l)
      end
    end
  end.

Definition poll_fuel (from count : Z) : nat := S (Z.to_nat (count - from)).
Definition poll (cnt : option Z) (pg : nat -> Z -> page_ans) (tok : Z -> mc_ans) (from : Z) : poll_res :=
  match cnt with
  | None => PFatal
  | Some count => if count =? from then PIdle else page_loop pg tok (poll_fuel from count) 0 from count []
  end.

(* ------------------------------------------------------------------ handleEvents_: pending events per block, height ticks *)
Record pblock := { pb_hash : Z; pb_hdr : option header; pb_evs : list uevent }.

Fixpoint add_event (p : list pblock) (u : uevent) : list pblock :=
  match p with
  | [] => [ {| pb_hash := e_block (u_ev u); pb_hdr := None; pb_evs := [u] |} ]
  | b :: t => if pb_hash b =? e_block (u_ev u)
              then {| pb_hash := pb_hash b; pb_hdr := pb_hdr b; pb_evs := pb_evs b ++ [u] |} :: t
              else b :: add_event t u
  end.
Definition add_batch (p : list pblock) (l : list uevent) : list pblock := fold_left add_event l p.

Inductive blk_res := BErr | BOk (keep : option pblock) (conf : list (uevent * header)).
Definition process_block (mainnet : bool) (height now : Z) (mc : Z -> option bool) (hd : Z -> option header) (b : pblock) : blk_res :=
  match mc (pb_hash b) with
  | None => BErr
  | Some canon =>
    match (match pb_hdr b with Some h => Some h | None => hd (pb_hash b) end) with
    | None => BErr
    | Some h =>
      let isconf := fun u => confirmed mainnet (u_msg u) h now height in
      let remain := filter (fun u => negb (isconf u)) (pb_evs b) in
      BOk (match remain with [] => None | _ => Some {| pb_hash := pb_hash b; pb_hdr := Some h; pb_evs := remain |} end)
          (if canon then map (fun u => (u, h)) (filter isconf (pb_evs b)) else [])
    end
  end.

Fixpoint process_blocks (mainnet : bool) (height now : Z) (mc : Z -> option bool) (hd : Z -> option header) (p : list pblock)
  : option (list pblock * list (uevent * header)) :=
  match p with
  | [] => Some ([], [])
  | b :: t =>
    match process_block mainnet height now mc hd b with
    | BErr => None
    | BOk k c =>
      match process_blocks mainnet height now mc hd t with
      | None => None
      | Some (p', c') => Some (match k with Some b' => b' :: p' | None => p' end, c ++ c')
      end
    end
  end.

Definition mkfwd (u : uevent) (h : header) : fwd := {| f_ev := u_ev u; f_msg := u_msg u; f_hdr := h; f_chain := u_chain u |}.

(* handleConfirmedEvents: (messages sent, error?) *)
Fixpoint handle_confirmed (bridge : Z) (l : list (uevent * header)) : list fwd * bool :=
  match l with
  | [] => ([], false)
  | (u, h) :: t =>
    if e_index (u_ev u) =? alph_wm_event_index then
      let '(f, e) := handle_confirmed bridge t in
      if m_sender (u_msg u) =? bridge then (mkfwd u h :: f, e) else (f, e)
    else ([], true)
  end.

(* ------------------------------------------------------------------ re-observation path *)
Record reobs_in := {
  r_chain : Z;                        (* req.ChainId *)
  r_txlen : Z;                        (* len(req.TxHash) *)
  r_status : option (option Z);       (* /transactions/status: None = API error, Some None = not confirmed, Some (Some b) = confirmed in block b *)
  r_events : option (list tevent);    (* /events/tx-id *)
  r_hd : Z -> option header;          (* /blockflow/headers *)
  r_tok : Z -> mc_ans;                (* multicall answer for the event at position i of r_events *)
  r_mc : option bool;                 (* /blockflow/is-block-in-main-chain for the status block *)
  r_height : option Z;                (* /blockflow/chain-info *)
  r_now : Z }.

Inductive ge_res := GeErr | GePanic | GeOk (l : list (tevent * uevent * header)).
Definition ge_cons (x : tevent * uevent * header) (r : ge_res) : ge_res := match r with GeOk l => GeOk (x :: l) | _ => r end.
(* getGovernanceEventsByTxId *)
Fixpoint gov_events (c : cfg) (blk : Z) (hd : Z -> option header) (tok : Z -> mc_ans) (pos : Z) (evs : list tevent) : ge_res :=
  match evs with
  | [] => GeOk []
  | te :: t =>
    let e := t_ev te in
    let rest := gov_events c blk hd tok (pos + 1) t in
    if negb (e_index e =? alph_wm_event_index) then rest
    else if alph_reobs_addr_filter && negb (t_addr te =? c_gov c) then rest
    else if alph_reobs_block_filter && negb (e_block e =? blk) then rest
    else match hd (e_block e) with
    | None => GeErr
    | Some h =>
      match e_conv e with
      | None => GeErr
      | Some m =>
        if is_attest m then
          match validate_attest m (tok pos) with
          | VaPanic => GePanic
          | VaReject => rest
          | VaOk ti => ge_cons (te, {| u_ev := e; u_msg := m; u_chain := Some ti |}, h) rest
          end
        else ge_cons (te, {| u_ev := e; u_msg := m; u_chain := None |}, h) rest
      end
    end
  end.

Definition reobs_confirmed (mainnet : bool) (m : wmsg) (h : header) (now height : Z) : bool :=
  if alph_reobs_wallclock then confirmed mainnet m h now height
  else alph_reobs_height_ok (wrap32 (h_height h + m_cl m)) height.

Inductive flag := FNone | FFatal | FSpin | FPanic.

Definition reobserve (c : cfg) (r : reobs_in) : list fwd * flag :=
  if negb (r_chain r =? alph_chain_id) then ([], FNone) else
  if negb (r_txlen r =? alph_txid_len) then ([], FNone) else
  match r_status r with
  | Some (Some blk) =>
    match r_events r with
    | None => ([], FNone)
    | Some evs =>
      match gov_events c blk (r_hd r) (r_tok r) 0 evs with
      | GeErr => ([], FNone)
      | GePanic => ([], FPanic)
      | GeOk l =>
        match r_mc r with
        | Some true =>
          match r_height r with
          | None => ([], FNone)
          | Some height =>
            let conf := filter (fun x => reobs_confirmed (c_mainnet c) (u_msg (snd (fst x))) (snd x) (r_now r) height) l in
            (map (fun x => mkfwd (snd (fst x)) (snd x)) (filter (fun x => m_sender (u_msg (snd (fst x))) =? c_bridge c) conf), FNone)
          end
        | _ => ([], FNone)
        end
      end
    end
  | _ => ([], FNone)
  end.

(* ------------------------------------------------------------------ the watcher as a transition system *)
Record wstate := { w_from : Z;                           (* fromIndex of fetchEvents *)
                   w_inflight : option (list uevent);    (* batch fetchEvents is blocked sending on eventsC *)
                   w_pending : list pblock;              (* pendingEvents of handleEvents_ *)
                   w_enabled : bool;                     (* blockPollerEnabled *)
                   w_dead : bool }.                      (* an error reached errC: Run returns *)

Inductive op :=
| OPoll (cnt : option Z) (pg : nat -> Z -> page_ans) (tok : Z -> mc_ans)     (* one tick of fetchEvents *)
| ODeliver                                                                    (* handleEvents_ receives the batch *)
| OTick (height now : Z) (mc : Z -> option bool) (hd : Z -> option header)    (* handleEvents_ receives a height *)
| OReobs (r : reobs_in)                                                       (* handleObsvRequest receives a request *)
| OHeightErr.                                                                 (* fetchHeight's chain-info request fails: error on errC *)

Record out := { o_fwd : list fwd;                (* messages sent on msgChan in this step *)
                o_batch : list uevent;           (* batch produced by this poll *)
                o_nreq : nat;                    (* page requests issued by this poll *)
                o_flag : flag }.
Definition out0 : out := {| o_fwd := []; o_batch := []; o_nreq := 0; o_flag := FNone |}.
Definition die (s : wstate) : wstate :=
  {| w_from := w_from s; w_inflight := w_inflight s; w_pending := w_pending s; w_enabled := w_enabled s; w_dead := true |}.
Definition is_nil {A} (l : list A) : bool := match l with [] => true | _ => false end.

Definition step (c : cfg) (s : wstate) (o : op) : wstate * out :=
  if w_dead s then (s, out0) else
  match o with
  | OPoll cnt pg tok =>
    match w_inflight s with
    | Some _ => (s, out0)       (* fetchEvents is blocked on eventsC *)
    | None =>
      match poll cnt pg tok (w_from s) with
      | PIdle => (s, out0)
      | PBatch from' batch nreq =>
        ({| w_from := from'; w_inflight := Some batch; w_pending := w_pending s; w_enabled := w_enabled s; w_dead := false |},
         {| o_fwd := []; o_batch := batch; o_nreq := nreq; o_flag := FNone |})
      | PFatal => (die s, {| o_fwd := []; o_batch := []; o_nreq := 0; o_flag := FFatal |})
      | PSpin => (die s, {| o_fwd := []; o_batch := []; o_nreq := 0; o_flag := FSpin |})
      | PPanic => (die s, {| o_fwd := []; o_batch := []; o_nreq := 0; o_flag := FPanic |})
      end
    end
  | ODeliver =>
    match w_inflight s with
    | None => (s, out0)
    | Some l =>
      ({| w_from := w_from s; w_inflight := None; w_pending := add_batch (w_pending s) l;
          w_enabled := if is_nil l then w_enabled s else true; w_dead := false |}, out0)
    end
  | OTick height now mc hd =>
    match process_blocks (c_mainnet c) height now mc hd (w_pending s) with
    | None => (die s, {| o_fwd := []; o_batch := []; o_nreq := 0; o_flag := FFatal |})
    | Some (p', conf) =>
      let '(f, err) := handle_confirmed (c_bridge c) conf in
      ({| w_from := w_from s; w_inflight := w_inflight s; w_pending := p';
          w_enabled := if is_nil p' then false else w_enabled s; w_dead := err |},
       {| o_fwd := f; o_batch := []; o_nreq := 0; o_flag := if err then FFatal else FNone |})
    end
  | OReobs r =>
    let '(f, fl) := reobserve c r in
    (match fl with FNone => s | _ => die s end, {| o_fwd := f; o_batch := []; o_nreq := 0; o_flag := fl |})
  | OHeightErr => (die s, {| o_fwd := []; o_batch := []; o_nreq := 0; o_flag := FFatal |})
  end.

(* one tick of _fetchHeight: gated by blockPollerEnabled; the chain-info request may fail (error on errC); the height is
   always handed to the event loop ("always send the block height to avoid having enough block confirmations but not
   enough confirmation time").  Expressed through the steps above: nothing / OHeightErr / OTick. *)
Definition fetch_height_tick (c : cfg) (s : wstate) (ans : option Z) (now : Z) (mc : Z -> option bool) (hd : Z -> option header) : wstate * out :=
  if w_dead s then (s, out0)
  else if negb (w_enabled s) then (s, out0)
  else match ans with
       | None => step c s OHeightErr
       | Some height => step c s (OTick height now mc hd)
       end.

Fixpoint run (c : cfg) (s : wstate) (ops : list op) : list out * wstate :=
  match ops with
  | [] => ([], s)
  | o :: t => let '(s', x) := step c s o in let '(xs, s'') := run c s' t in (x :: xs, s'')
  end.

Definition init (from0 : Z) : wstate :=
  {| w_from := from0; w_inflight := None; w_pending := []; w_enabled := false; w_dead := false |}.
