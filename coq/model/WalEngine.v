(* C16: a CONCRETE crash-prone engine under the store wrapper — a write-ahead log with a memtable, the design of the engine
   db.go opens (badger: every Update appends its entries to a log file and applies them to the memtable before it returns; the
   log file lives in the page cache / an mmap, so what was appended survives a kill of the process; Open replays the log up to the
   first record whose length / checksum does not verify and truncates the file there).
   Purpose: model/CrashKV.v takes the ENGINE CONTRACT as the definition of [exec]; proofs/WalEngineProofs.v shows that this
   log-structured engine REFINES that contract (so the contract is met by a realistic engine, not only by its own definition) and
   which design decisions it rests on (acknowledge after the append; truncate the torn tail on Open).
   Granularity: a log frame is either a whole record or a torn one (a kill while a record was being appended leaves a strict
   prefix of it; that framing detects a strict prefix is the record format's job — trusted, stated here as the type [frame]).
   The wrapper part (one transaction with one Set per StoreSignedVAA, error propagation, the attempt bound of db.Open) is the same
   generated text CrashKV.v uses.  No proofs here. *)
From Coq Require Import List ZArith Bool Arith.
From Coq Require Import Strings.Byte.
From WH Require Import lib.Bytes lib.Digits lib.KeyFmt gen.Extracted model.Vaa model.Db model.CrashKV.
Import ListNotations.
Open Scope Z_scope.

Inductive frame := FOk (t : txn) | FTorn.

Record wstate := {
  wlog : list frame;        (* the log file as the page cache holds it, oldest frame first *)
  wmem : store;             (* memtable: what lookups read while the process is up *)
  wpend : list txn;         (* Update calls whose record has not been appended yet *)
  wnext : nat; wcom : list nat; wabo : list nat; wdam : nat; wup : bool }.

Definition winit : wstate :=
  {| wlog := []; wmem := []; wpend := []; wnext := 0; wcom := []; wabo := []; wdam := 0; wup := true |}.

(* Open: the records up to the first torn one *)
Fixpoint valid_prefix (l : list frame) : list frame :=
  match l with
  | FOk t :: r => FOk t :: valid_prefix r
  | _ => []
  end.

Definition apply_frame (s : store) (f : frame) : store :=
  match f with FOk t => put s (t_key t) (t_val t) | FTorn => s end.
Definition replay (l : list frame) : store := fold_left apply_frame l [].

(* [truncate] : does Open cut the file after the valid prefix (badger does)?  [torn] : did this kill interrupt an append? *)
Definition wexec (truncate torn : bool) (st : wstate) (e : ev) : option wstate :=
  match e with
  | EStart v =>
    if wup st && match sigs v with [] => false | _ => true end then
      Some {| wlog := wlog st; wmem := wmem st;
              wpend := {| t_id := wnext st; t_key := key (id_of v); t_val := marshal v |} :: wpend st; wnext := S (wnext st);
              wcom := wcom st; wabo := wabo st; wdam := wdam st; wup := true |}
    else None
  | EPanic v =>
    if wup st && db_store_panics_unsigned && match sigs v with [] => true | _ => false end then Some st else None
  | ECommit n =>      (* append the record, then apply it to the memtable; Update returns nil afterwards *)
    if wup st then
      match find_txn n (wpend st) with
      | Some t => Some {| wlog := wlog st ++ [FOk t]; wmem := put (wmem st) (t_key t) (t_val t); wpend := drop_txn n (wpend st);
                          wnext := wnext st; wcom := n :: wcom st; wabo := wabo st; wdam := wdam st; wup := true |}
      | None => None
      end
    else None
  | EAbort n =>
    if wup st then
      match find_txn n (wpend st) with
      | Some t => Some {| wlog := wlog st; wmem := wmem st; wpend := drop_txn n (wpend st);
                          wnext := wnext st; wcom := wcom st; wabo := n :: wabo st; wdam := wdam st; wup := true |}
      | None => None
      end
    else None
  | EAck n =>
    if wup st && (nmem n (wcom st) || (negb db_store_error_propagated && nmem n (wabo st))) then Some st else None
  | EErr n =>
    if wup st && nmem n (wabo st) then Some st else None
  | ECrash k =>       (* the memtable and the pending calls die with the process; an interrupted append leaves a torn frame *)
    if wup st then
      Some {| wlog := wlog st ++ (if torn && negb (match wpend st with [] => true | _ => false end) then [FTorn] else []);
              wmem := []; wpend := []; wnext := wnext st; wcom := wcom st; wabo := wabo st; wdam := k; wup := false |}
    else None
  | EReopen =>
    if wup st then None
    else if Z.of_nat (wdam st) <? db_open_attempts (Z.of_nat (wdam st)) then
      Some {| wlog := if truncate then valid_prefix (wlog st) else wlog st; wmem := replay (valid_prefix (wlog st)); wpend := wpend st;
              wnext := wnext st; wcom := wcom st; wabo := wabo st; wdam := 0; wup := true |}
    else None
  | EReopenFail =>
    if wup st then None
    else if Z.of_nat (wdam st) <? db_open_attempts (Z.of_nat (wdam st)) then None
    else Some {| wlog := wlog st; wmem := wmem st; wpend := wpend st; wnext := wnext st; wcom := wcom st; wabo := wabo st;
                 wdam := wdam st - Z.to_nat (db_open_attempts (Z.of_nat (wdam st))); wup := false |}
  | EGet i res =>
    if wup st && lres_eqb (get_signed_vaa_bytes (wmem st) i) res then Some st else None
  end.

(* a history with the kill oracle: one boolean per event (only read by ECrash) *)
Fixpoint wrun (truncate : bool) (st : wstate) (h : list (bool * ev)) : option wstate :=
  match h with
  | [] => Some st
  | (c, e) :: r => match wexec truncate c st e with Some st' => wrun truncate st' r | None => None end
  end.

(* what the abstract crash-KV sees of an engine state *)
Definition wabs (st : wstate) : cstate :=
  {| dur := replay (valid_prefix (wlog st)); infl := wpend st; next := wnext st; committed := wcom st; aborted := wabo st;
     damaged := wdam st; up := wup st |}.

Fixpoint no_torn (l : list frame) : bool :=
  match l with [] => true | FOk _ :: r => no_torn r | FTorn :: _ => false end.

(* invariant of the truncating engine: while the process is up the log holds whole records only and the memtable is its replay;
   while it is down nothing is pending *)
Definition winv (st : wstate) : Prop :=
  if wup st then no_torn (wlog st) = true /\ wmem st = replay (wlog st) else wpend st = [].
