(* Glue for the differential check of extension X8 (run/cases_C10log_*.v): re-evaluates on model/EvmLog.v what the real
   ParseLogMessagePublished / MessageEventsForTransaction / Watcher.Run did with raw logs.  Expected messages carry their payload
   as (length, checksum) so that the bytes are not shipped twice.  No theorem depends on this file. *)
From Coq Require Import List ZArith Bool Strings.Byte.
From WH Require Import lib.Bytes lib.Wire lib.EvmAbi gen.Extracted gen.ExtractedEvmLog model.EvmWatcher model.EvmLog.
Import ListNotations.
Open Scope Z_scope.

(* error classes as the harness reads them off the error text ("length insufficient" is the text of two different checks) *)
Definition err_class (e : derr) : Z :=
  match e with DSig => 1 | DShort => 2 | DLength => 2 | DOffset => 3 | DOffset64 => 4 | DLen64 => 5 | DPad => 6 | DTopics => 7 end.

Inductive pres := POk (sender : bytes) (target seq nonce plen phash cl : Z) | PErr (class : Z) | PPanic.

Definition check_parse (r : rawlog) (p : pres) : bool :=
  match decode_log r, p with
  | DOk e, POk s t q n pl ph cl =>
    bytes_eqb (x_sender e) s && (x_target e =? t) && (x_seq e =? q) && (x_nonce e =? n) && (blen (x_payload e) =? pl)
    && (hash_bytes (x_payload e) =? ph) && (x_cl e =? cl)
  | DErr e, PErr c => err_class e =? c
  | DPanic, PPanic => true
  | _, _ => false
  end.

(* a message as observed: tx, ts, nonce, seq, chain, target, emitter, payload length, payload checksum, level *)
Record hmsg := mkH { h_tx : bytes; h_ts : Z; h_nonce : Z; h_seq : Z; h_chain : Z; h_target : Z; h_em : bytes; h_plen : Z; h_phash : Z; h_cl : Z }.
Definition hmsg_of (m : xmsg) : hmsg :=
  mkH (xm_tx m) (xm_ts m) (xm_nonce m) (xm_seq m) (xm_chain m) (xm_target m) (xm_em m) (blen (xm_payload m)) (hash_bytes (xm_payload m)) (xm_cl m).
Definition hmsg_eqb (a b : hmsg) : bool :=
  bytes_eqb (h_tx a) (h_tx b) && (h_ts a =? h_ts b) && (h_nonce a =? h_nonce b) && (h_seq a =? h_seq b) && (h_chain a =? h_chain b)
  && (h_target a =? h_target b) && bytes_eqb (h_em a) (h_em b) && (h_plen a =? h_plen b) && (h_phash a =? h_phash b) && (h_cl a =? h_cl b).
Fixpoint hmsgs_eqb (a b : list hmsg) : bool :=
  match a, b with [], [] => true | x :: s, y :: t => hmsg_eqb x y && hmsgs_eqb s t | _, _ => false end.
Fixpoint remove_h (m : hmsg) (l : list hmsg) : option (list hmsg) :=
  match l with
  | [] => None
  | x :: t => if hmsg_eqb m x then Some t else match remove_h m t with Some r => Some (x :: r) | None => None end
  end.
Fixpoint same_hmsgs (a b : list hmsg) : bool :=
  match a with
  | [] => match b with [] => true | _ => false end
  | m :: t => match remove_h m b with Some b' => same_hmsgs t b' | None => false end
  end.

Inductive bres := BOk (blk : Z) (ms : list hmsg) | BErr | BPanic.
Definition check_bytx (c : xcfg) (rc : option xrcpt) (bt : option Z) (b : bres) : bool :=
  match xevents_for_tx c rc bt, b with
  | XTxOk blk ms, BOk blk' ms' => (blk =? blk') && hmsgs_eqb (map hmsg_of ms) ms'
  | XTxErr, BErr => true
  | XTxPanic, BPanic => true
  | _, _ => false
  end.

(* ---------------------------------------------------------------- histories of the real Run *)
Inductive lkans := LNotFound | LErr | LRc (st : Z) (bh : bytes).
Definition rans_of (a : lkans) : rans :=
  match a with LNotFound => mkAns None ENotFound | LErr => mkAns None EOther | LRc st bh => mkAns (Some (st, enc bh)) ENone end.
Inductive xcop :=
| XCLog (r : rawlog) (bt : Z)
| XCHead (n : Z) (lks : list (bytes * lkans))
| XCReobs (hb : Z) (rc : option xrcpt) (bt : option Z).

Fixpoint assocz (x : Z) (l : list (Z * rans)) : option rans :=
  match l with [] => None | (y, a) :: t => if x =? y then Some a else assocz x t end.
Definition xorc_of (lks : list (Z * rans)) (k : key) : rans :=
  match assocz (k_tx k) lks with Some a => a | None => mkAns None EOther end.
Fixpoint ins_sorted (x : Z) (l : list Z) : list Z :=
  match l with [] => [x] | y :: t => if x <=? y then x :: l else y :: ins_sorted x t end.
Definition sortzl (l : list Z) : list Z := fold_right ins_sorted [] l.
Fixpoint eqzs (a b : list Z) : bool :=
  match a, b with [], [] => true | x :: s, y :: t => (x =? y) && eqzs s t | _, _ => false end.

Definition xfwd_of (o : xout) : list hmsg := match o with XConfirmed _ m => [hmsg_of m] | XReobserved m => [hmsg_of m] | _ => [] end.
Definition xlooked_of (o : xout) : list Z := match o with XLooked k => [enc (xk_tx k)] | _ => [] end.
Definition xdied_of (o : xout) : Z := match o with XDied => 1 | _ => 0 end.
Definition xpanic_of (o : xout) : bool := match o with XPanic => true | _ => false end.
Definition sumz (l : list Z) : Z := fold_right Z.add 0 l.

(* one operation: new state, forwarded, how often Run returned, ok *)
Definition xcstep (c : xcfg) (s : xpending) (o : xcop) : xpending * list hmsg * Z * bool :=
  match o with
  | XCLog r bt =>
    let x := xstep c s (XLog r (Some bt)) in
    (fst x, flat_map xfwd_of (snd x), sumz (map xdied_of (snd x)), negb (existsb xpanic_of (snd x)))
  | XCHead n lks =>
    let zl := map (fun p => (enc (fst p), rans_of (snd p))) lks in
    let x := xstep c s (XHead n evm_poll_safe (xorc_of zl)) in
    (fst x, flat_map xfwd_of (snd x), sumz (map xdied_of (snd x)),
     negb (existsb xpanic_of (snd x)) && eqzs (sortzl (flat_map xlooked_of (snd x))) (sortzl (map fst zl)))
  | XCReobs hb rc bt =>
    let x := xstep c s (XReobs (Some hb) (Some hb) rc bt) in
    (fst x, flat_map xfwd_of (snd x), sumz (map xdied_of (snd x)), negb (existsb xpanic_of (snd x)))
  end.

Fixpoint xcops (c : xcfg) (s : xpending) (os : list xcop) : xpending * list hmsg * Z * bool :=
  match os with
  | [] => (s, [], 0, true)
  | o :: t =>
    let '(s1, f1, d1, b1) := xcstep c s o in
    let '(s2, f2, d2, b2) := xcops c s1 t in
    (s2, f1 ++ f2, d1 + d2, b1 && b2)
  end.

(* w.pending as observed: key and height *)
Definition pobs := (bytes * bytes * bytes * Z * Z)%type.
Definition pobs_eqb (a b : pobs) : bool :=
  let '(t1, b1, e1, s1, h1) := a in let '(t2, b2, e2, s2, h2) := b in
  bytes_eqb t1 t2 && bytes_eqb b1 b2 && bytes_eqb e1 e2 && (s1 =? s2) && (h1 =? h2).
Definition pobs_of (kp : xkey * xpmsg) : pobs := (xk_tx (fst kp), xk_bh (fst kp), xk_em (fst kp), xk_seq (fst kp), xp_height (snd kp)).
Definition same_pend (a b : list pobs) : bool :=
  Nat.eqb (length a) (length b) && forallb (fun x => existsb (pobs_eqb x) b) a && forallb (fun x => existsb (pobs_eqb x) a) b.

Definition xgroup := (list xcop * list hmsg * list pobs * Z)%type.
Fixpoint xcgroups (c : xcfg) (s : xpending) (gs : list xgroup) : bool :=
  match gs with
  | [] => true
  | (os, fw, pend, died) :: t =>
    let '(s1, f1, d1, b1) := xcops c s os in
    b1 && same_hmsgs f1 fw && same_pend (map pobs_of s1) pend && (d1 =? died) && xcgroups c s1 t
  end.

Inductive lcase :=
| LParse (r : rawlog) (p : pres)
| LByTx (c : xcfg) (rc : option xrcpt) (bt : option Z) (b : bres)
| LRun (c : xcfg) (gs : list xgroup).
Definition check_lcase (x : lcase) : bool :=
  match x with
  | LParse r p => check_parse r p
  | LByTx c rc bt b => check_bytx c rc bt b
  | LRun c gs => xcgroups c [] gs
  end.
