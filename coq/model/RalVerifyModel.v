(* governance.ral parseAndVerifyVAA: the HAND reading of the whole entry point (what the property asks of it), against which the
   function GENERATED statement by statement from the source (gen/x_ralverify.py -> gen/ExtractedRalVerify.v) is proved equal for
   every input (proofs/RalVerifyProofs.v).  The byte-level parse is Contracts.ral_parse (C04's model over the extracted slices);
   added here: which stored guardian set the VAA is checked against (getGuardiansInfo), the governance index test, the set-size and
   quorum tests (the NODE's threshold go_quorum), and the signature loop.  No proofs here. *)
From Coq Require Import List ZArith Bool Arith.
From Coq Require Import Strings.Byte.
From WH Require Import lib.Bytes lib.Ralph lib.RalphLoop gen.Extracted gen.ExtractedRalVerify model.Vaa model.Contracts.
Import ListNotations.
Open Scope Z_scope.

(* the contract state parseAndVerifyVAA reads: guardianSetIndexes[1] / guardianSets[1] (current), [0] (previous),
   previousGuardianSetExpirationTimeMS, and the block time stamp of the call *)
Record ral_gstate := { gs_cur_idx : Z; gs_cur : bytes; gs_prev_idx : Z; gs_prev : bytes; gs_now : Z; gs_prev_exp : Z }.

(* getGuardiansInfo: the current set, or the previous one while it has not expired; anything else aborts *)
Definition guardians_for (s : ral_gstate) (idx : Z) : option bytes :=
  if idx =? gs_cur_idx s then Some (gs_cur s)
  else if idx =? gs_prev_idx s then (if gs_now s <=? gs_prev_exp s then Some (gs_prev s) else None)
  else None.

(* a guardian set as submitNewGuardianSet stores it: the size byte followed by the 20-byte keys *)
Definition stored_set (K : list bytes) : bytes := be 1 (Z.of_nat (length K)) ++ concat K.

Section Spec.
Variable keccak : bytes -> bytes.
(* the VM's ethEcRecover!(hash, r ++ s ++ v) with v = 27 / 28; None = the VM aborts *)
Variable ecrecover : bytes -> bytes -> option bytes.

(* one signature record (guardian index, 65 signature bytes) against the stored set [g] = size byte ++ 20-byte keys:
   index strictly above the previous one, and the address recovered from the signature with its recovery id raised by 27 over
   the hash [h] is the key stored at bytes [1 + 20 * index, 1 + 20 * index + 20) *)
Definition rec_ok (h g : bytes) (last gi : Z) (sg : bytes) : bool :=
  (last <? gi) &&
  match slice sg 64 65 with
  | None => false
  | Some vb =>
    (unbe vb + 27 <? 256) &&
    match slice g (Z.to_nat (1 + 20 * gi)) (Z.to_nat (1 + 20 * gi + 20)) with
    | None => false
    | Some key =>
      match ecrecover h (firstn 64 sg ++ be 1 (unbe vb + 27)) with
      | Some a => bytes_eqb key a
      | None => false
      end
    end
  end.

Fixpoint recs_ok (h g : bytes) (last : Z) (recs : list (Z * bytes)) : bool :=
  match recs with
  | [] => true
  | (gi, sg) :: t => rec_ok h g last gi sg && recs_ok h g gi t
  end.

(* the guardian count the contract reads from a stored set *)
Definition set_size (g : bytes) : option Z := match slice g 0 1 with Some b => Some (unbe b) | None => None end.

(* the whole entry point; None = the VM aborts *)
Definition ral_accepts (s : ral_gstate) (gov : bool) (data : bytes) : option (Z * Z * bytes * Z * bytes) :=
  match ral_parse data with
  | None => None
  | Some r =>
    if gov && negb (rv_gsidx r =? gs_cur_idx s) then None else
    match guardians_for s (rv_gsidx r) with
    | None => None
    | Some g =>
      match set_size g with
      | None => None
      | Some n =>
        if n =? 0 then None else
        if negb (go_quorum n <=? rv_numsigs r) then None else
        if recs_ok (keccak (keccak (rv_hashed r))) g (-1) (rv_sig_records r)
        then Some (rv_echain r, rv_tchain r, rv_eaddr r, rv_seq r, rv_payload r) else None
      end
    end
  end.

Definition rets_of (x : Z * Z * bytes * Z * bytes) : list rval :=
  let '(ec, tc, ea, sq, pl) := x in [RZ ec; RZ tc; RB ea; RZ sq; RB pl].

(* the GENERATED function applied to the contract state *)
Definition ral_source_full (s : ral_gstate) (gov : bool) (data : bytes) : option rres :=
  RalVerify.ral_parseAndVerifyVAA_on keccak ecrecover (RB data) (RBool gov) (RZ (gs_cur_idx s)) (RB (gs_cur s))
    (RZ (gs_prev_idx s)) (RZ (gs_now s)) (RZ (gs_prev_exp s)) (RB (gs_prev s)).

(* ... its return values *)
Definition ral_source (s : ral_gstate) (gov : bool) (data : bytes) : option (list rval) := option_map fst (ral_source_full s gov data).

(* ... and what it had bound to a name when it returned (e.g. "hash", "body", "quorumSize") *)
Definition ral_source_binding (name : String.string) (s : ral_gstate) (gov : bool) (data : bytes) : option rval :=
  match ral_source_full s gov data with
  | Some (_, env) => rlookup name env
  | None => None
  end.
End Spec.
