(* Governance end to end (C15 o C02 o C04 o C07): ONE executable chain from the operator's request to what the Alephium contracts
   execute, composed from the existing models — nothing is re-modelled:
     operator request  --InjectGovernanceVAA (Governance.conv / the loop as adminserver.go indexes its `digests` array)-->
     Inject v at each operator's node (System.v network of UNCHANGED Processor.step: handle_injection, aggregation, publication) -->
     published bytes [marshal (set_sigs v sg)] -->
     governance.ral parseAndVerifyVAA (Contracts.ral_parse over the extracted slices + the governance set-index test, the
     guardian-set-size test, the quorum test, the signature loop) --> parseAndVerifyGovernanceVAAGeneric (generated) -->
     the wrapper parseAndVerifyGovernanceVAA of governance.ral / token_bridge_governance.ral (generated glue: arguments handed
     over, receivedSequence update) --> the entry point's generated payload parser.
   The positional hand-over between the Ralph functions (return lists vs tuple-lets) is GENERATED (ExtractedGov.RalGlue), so is the
   slot of the `digests` array a message's digest is stored in (go_inj_slot).  No proofs here (proofs/GovPipelineProofs.v). *)
From Coq Require Import Strings.String.
From Coq Require Import List ZArith Bool Arith.
From Coq Require Import Strings.Byte.
From WH Require Import lib.Bytes lib.Ralph gen.Extracted gen.ExtractedGov model.Vaa model.AlphConv model.Governance model.Processor model.System.
From WH Require model.Contracts.
Import ListNotations.
Import ExtractedGov.GoPay ExtractedGov.RalGov ExtractedGov.RalGlue.
Open Scope Z_scope.

(* ================================================================== 1. the admin RPC *)
(* an InjectGovernanceVAARequest: Timestamp, CurrentSetIndex, Messages *)
Record gov_req := { q_ts : Z; q_gsi : Z; q_msgs : list gov_msg }.

Section Rpc.
Variable keccak : bytes -> bytes.

(* the loop of InjectGovernanceVAA as the source writes it: `digests` is allocated with its final length n (nil slots = empty
   byte strings), message i's digest is stored in slot [go_inj_slot i n] (generated from the index expression), the converted VAA
   is put on injectC *)
Fixpoint inject_array (c : gcfg) (ts gsi : Z) (n i : nat) (msgs : list gov_msg) (sent : list vaa) (digs : list bytes) : list vaa * inj_res :=
  match msgs with
  | [] => (sent, IOk digs)
  | m :: rest =>
    if gm_tchain m >? go_adm_target_max then (sent, IErr GTargetChain) else
    match conv c (env_of ts gsi m) (gm_payload m) with
    | GPanic => (sent, IPanic)
    | GErr x => (sent, IErr x)
    | GOk v => inject_array c ts gsi n (S i) rest (sent ++ [v]) (set_nth (go_inj_slot i n) (digest keccak v) digs)
    end
  end.

Definition inject_rpc (c : gcfg) (q : gov_req) : list vaa * inj_res :=
  inject_array c (q_ts q) (q_gsi q) (length (q_msgs q)) 0 (q_msgs q) [] (repeat [] (length (q_msgs q))).

(* the operator of node i submits q: what reaches node i's processor (injectC is read by Processor.Run only), and the response *)
Definition admin_rpc (c : gcfg) (i : nat) (q : gov_req) : list nop * inj_res :=
  let '(sent, r) := inject_rpc c q in (map (fun v => NEnv i (EInject v)) sent, r).
End Rpc.

(* ================================================================== 2. the contract side *)
(* the state the governance entry points read: the executing contract's own chain id and receivedSequence (Governance or
   TokenBridge), and the Governance contract's governance emitter, current guardian set index and guardianSets[1] *)
Record ral_contract := { rc_chain : Z; rc_recv_seq : Z; rc_gov_chain : Z; rc_gov_addr : bytes; rc_gs_index : Z; rc_guardians : bytes }.

(* guardianSets[1] as submitNewGuardianSet stores it: the size byte followed by the 20-byte keys *)
Definition guardians_of (ks : list bytes) : bytes := be 1 (Z.of_nat (length ks)) ++ concat ks.

Definition rtrue (e : rv) : bool := match e with Some (RBool true) => true | _ => false end.

(* the signature loop of parseAndVerifyVAA: guardian indices strictly above the previous one (from -1), the slot [ral_key_slot
   guardianIndex] (generated) of the stored set = ethEcRecover!(hash, r ++ s ++ (v + 27)).  [recover] is the node-side oracle (go-ethereum Ecrecover + Keccak + last
   20 bytes over r ++ s ++ v); the VM's ethEcRecover! is that same function on the signature with its last byte lowered by 27 *)
Section SigLoop.
Variable recover : bytes -> bytes -> option bytes.
Variable keccak : bytes -> bytes.

Definition eth_ec_recover (h newsig : bytes) : option bytes :=
  match slice newsig 64 65 with
  | Some vb => recover_checked recover h (firstn 64 newsig ++ be 1 (unbe vb - ral_recid_plus))
  | None => None
  end.

Fixpoint ral_sig_loop (h guardians : bytes) (last : Z) (recs : list (Z * bytes)) : bool :=
  match recs with
  | [] => true
  | (gi, sg) :: t =>
    if negb (if ral_index_strict then last <? gi else last <=? gi) then false else
    match slice sg (fst ral_recid_slice) (snd ral_recid_slice), slice guardians (Z.to_nat (fst (ral_key_slot gi))) (Z.to_nat (snd (ral_key_slot gi))) with
    | Some rb, Some key =>
      if 256 <=? unbe rb + ral_recid_plus then false else       (* u256To1Byte! aborts *)
      match eth_ec_recover h (firstn 64 sg ++ be 1 (unbe rb + ral_recid_plus)) with
      | Some a => bytes_eqb key a && ral_sig_loop h guardians gi t
      | None => false
      end
    | _, _ => false
    end
  end.

Definition ral_sigs_ok (rv : Contracts.ral_vaa) (guardians : bytes) : bool :=
  ral_sig_loop (keccak (keccak (Contracts.rv_hashed rv))) guardians ral_last_index_init (Contracts.rv_sig_records rv).

(* governance.ral parseAndVerifyVAA(data, true); None = the VM aborts *)
Definition ral_receive (ct : ral_contract) (data : bytes) : option (list rval) :=
  match Contracts.ral_parse data with
  | None => None
  | Some rv =>
    if negb (rtrue (ral_gov_index_check (RZ (Contracts.rv_gsidx rv)) (RZ (rc_gs_index ct)))) then None else
    match ral_guardian_size (RB (rc_guardians ct)) with
    | Some (RZ gsz) =>
      if negb (rtrue (ral_guardian_size_check (RZ gsz))) then None else
      if negb (ral_quorum_accepts (ral_quorum gsz) (Contracts.rv_numsigs rv)) then None else
      if negb (ral_sigs_ok rv (rc_guardians ct)) then None else
      Some (ral_vaa_returns (RZ (Contracts.rv_echain rv)) (RZ (Contracts.rv_tchain rv)) (RB (Contracts.rv_eaddr rv))
                            (RZ (Contracts.rv_seq rv)) (RB (Contracts.rv_payload rv)))
    | _ => None
    end
  end.

(* parseAndVerifyGovernanceVAAGeneric(vaa, targetSequence, coreModule, action) on the wire bytes *)
Definition ral_generic_call (ct : ral_contract) (data : bytes) (tseq module action : rv) : option rres :=
  match tseq, module, action with
  | Some t, Some m, Some a =>
    match ral_receive ct data with
    | Some rets => ral_generic_on rets t m a (RZ (rc_gov_chain ct)) (RB (rc_gov_addr ct))
    | None => None
    end
  | _, _, _ => None
  end.

Definition gov_wrapper (ct : ral_contract) (data : bytes) (action : rval) : option (list rval * rv) :=
  ral_wrapper_gov (ral_generic_call ct data) (RZ (rc_recv_seq ct)) action.
Definition tb_wrapper (ct : ral_contract) (data : bytes) (action : rval) : option (list rval * rv) :=
  ral_wrapper_tb (ral_generic_call ct data) (RZ (rc_recv_seq ct)) action.

Inductive gov_kind := KGuardianSet | KMessageFee | KTransferFee | KContractUpgrade | KRegisterChain | KBridgeUpgrade | KDestroy | KMinLevel | KRefund.

(* the entry point a relayer submits the VAA of a request kind to; result: what the generated payload parser returns / binds, and
   the contract's new receivedSequence *)
Definition ral_execute (k : gov_kind) (ct : ral_contract) (data : bytes) : option (rres * rv) :=
  match k with
  | KGuardianSet => ral_entry_submitNewGuardianSet (gov_wrapper ct data) (RZ (rc_chain ct)) (RZ (rc_gs_index ct))
  | KMessageFee => ral_entry_submitSetMessageFee (gov_wrapper ct data) (RZ (rc_chain ct))
  | KTransferFee => ral_entry_submitTransferFees (gov_wrapper ct data) (RZ (rc_chain ct))
  | KContractUpgrade => ral_entry_submitContractUpgrade (gov_wrapper ct data) (RZ (rc_chain ct))
  | KRegisterChain => ral_entry_parseAndVerifyRegisterChain (tb_wrapper ct data) (RZ (rc_chain ct))
  | KBridgeUpgrade => ral_entry_upgradeContract (tb_wrapper ct data) (RZ (rc_chain ct))
  | KDestroy => ral_entry_destroyUnexecutedSequenceContracts (tb_wrapper ct data) (RZ (rc_chain ct))
  | KMinLevel => ral_entry_updateMinimalConsistencyLevel (tb_wrapper ct data) (RZ (rc_chain ct))
  | KRefund => ral_entry_updateRefundAddress (tb_wrapper ct data) (RZ (rc_chain ct))
  end.
End SigLoop.

Definition kind_of (p : gov_payload) : option gov_kind :=
  match p with
  | PGuardianSet _ => Some KGuardianSet | PMessageFee _ => Some KMessageFee | PTransferFee _ _ => Some KTransferFee
  | PContractUpgrade _ => Some KContractUpgrade | PRegisterChain _ _ _ => Some KRegisterChain | PBridgeUpgrade _ _ => Some KBridgeUpgrade
  | PDestroy _ _ => Some KDestroy | PMinLevel _ => Some KMinLevel | PRefund _ => Some KRefund | PUnset => None
  end.

(* the contract state under which the request's VAA is meant to execute: configured with the node's governance emitter, on the
   target chain, expecting a sequence not above the VAA's, current set = the set [g] in force at the guardians *)
Definition contract_for (c : gcfg) (local_chain tseq : Z) (g : gset) : ral_contract :=
  {| rc_chain := local_chain; rc_recv_seq := tseq; rc_gov_chain := g_chain c; rc_gov_addr := g_addr c; rc_gs_index := gidx g;
     rc_guardians := guardians_of (keys g) |}.

(* ================================================================== 3. the chain, executable *)
Section Pipe.
Variable recover : bytes -> bytes -> option bytes.
Variable keccak : bytes -> bytes.
Variable gov_chain : Z.
Variable gov_addr : bytes.
Variable owns : nat -> addr.
Variable signs : nat -> bytes -> bytes.
Notation nrun := (System.nrun recover keccak gov_chain gov_addr owns signs).

(* one canonical fair schedule: every operator's node is handed v, every own signature loops back, every observation put on the
   wire by the injections reaches every node *)
Definition inject_everywhere (N : nat) (v : vaa) : list nop := map (fun i => NEnv i (EInject v)) (List.seq 0%nat N).
Definition loop_everywhere (N : nat) : list nop := map (fun i => NLoop i 0%nat) (List.seq 0%nat N).
Definition deliver_everywhere (N base cnt : nat) : list nop :=
  flat_map (fun i => map (fun k => NDeliver i (base + k)) (List.seq 0%nat cnt)) (List.seq 0%nat N).

Definition gov_round (N : nat) (n : net) (v : vaa) : net * list (list out) :=
  nrun n (inject_everywhere N v ++ loop_everywhere N ++ deliver_everywhere N (length (pool n)) N).

Fixpoint gov_rounds (N : nat) (n : net) (vs : list vaa) : net * list (list (list out)) :=
  match vs with
  | [] => (n, [])
  | v :: t => let '(n1, o1) := gov_round N n v in let '(n2, o2) := gov_rounds N n1 t in (n2, o1 :: o2)
  end.

Definition published_in (outs : list (list out)) : list bytes :=
  flat_map (fun os => flat_map (fun o => match o with SendVAA b => [b] | _ => [] end) os) outs.

(* N operators submit the same request q while set g is in force everywhere: the RPC response, and per message the byte strings
   the nodes broadcast as SignedVAAWithQuorum *)
Definition pipeline (c : gcfg) (N : nat) (g : gset) (q : gov_req) : inj_res * list (list bytes) :=
  let '(sent, r) := inject_rpc keccak c q in
  let n0 := fst (nrun (ninit N) (map (fun i => NEnv i (ESetGS g)) (List.seq 0%nat N))) in
  (r, map published_in (snd (gov_rounds N n0 sent))).
End Pipe.
