(* Extension X10: per-node publication logs over histories of the guardian network (model/System.v) - the ghost logs the network-level
   agreement theorem is stated over (proofs/ClosureProofs5.v).  No proofs here. *)
From Coq Require Import List ZArith Bool Arith.
From Coq Require Import Strings.Byte.
From WH Require Import lib.Bytes model.Vaa model.Processor model.System.
Import ListNotations.
Open Scope Z_scope.

Definition vaas_of (outs : list out) : list bytes := flat_map (fun x => match x with SendVAA b => [b] | _ => [] end) outs.

Section Pubs.
Variable recover : bytes -> bytes -> option bytes.
Variable keccak : bytes -> bytes.
Variable gov_chain : Z.
Variable gov_addr : bytes.
Variable owns : nat -> addr.
Variable signs : nat -> bytes -> bytes.
(* the SignedVAAWithQuorum byte strings node i broadcast along a network history, oldest first *)
Fixpoint pubs_of (i : nat) (n : net) (xs : list nop) : list bytes :=
  match xs with
  | [] => []
  | x :: t =>
    (if (target x =? i)%nat then vaas_of (snd (nstep recover keccak gov_chain gov_addr owns signs n x)) else [])
    ++ pubs_of i (fst (nstep recover keccak gov_chain gov_addr owns signs n x)) t
  end.
End Pubs.
