(* Run-time glue for the differential test of the GENERATED governance.ral parseAndVerifyVAA against the node (checks/ralverify_common.py):
   one case = a byte stream, a contract state, the flag, what the node did with the stream (harness/vaa TestVerifRalSrc) and the table
   of go-ethereum recoveries.  keccak256! := the executable Keccak-256 of lib/Keccak.v; ethEcRecover!(h, r ++ s ++ v) := the recorded
   node-side recovery of (h, r ++ s ++ (v - 27)) for v = 27 / 28, abort otherwise.  No proofs. *)
From Coq Require Import List ZArith Bool Arith.
From Coq Require Import Strings.Byte.
From Coq Require Strings.String.
From WH Require Import lib.Bytes lib.Keccak lib.Ralph lib.RalphLoop gen.Extracted gen.ExtractedRalVerify model.Vaa model.Contracts model.RalVerifyModel.
Import ListNotations.
Open Scope Z_scope.

Module Keys.
Import Coq.Strings.String.
Definition k_hash : string := "hash"%string.
End Keys.

Record rcase := {
  c_wire : bytes; c_gov : bool; c_st : ral_gstate;
  (* the node: Unmarshal succeeded; the set the VAA names (0 none, 1 current, 2 previous), its size, signature count,
     VerifySignatures over its keys, the fields Unmarshal read, SigningMsg *)
  c_um : bool; c_named : Z; c_n : Z; c_nsig : Z; c_verify : bool;
  c_ec : Z; c_tc : Z; c_ea : bytes; c_sq : Z; c_pl : bytes; c_digest : bytes;
  c_tbl : list (bytes * bytes * option bytes);
  c_skip : bool }.

Fixpoint tbl_lookup (t : list (bytes * bytes * option bytes)) (h s : bytes) : option bytes :=
  match t with
  | [] => None
  | (h', s', a) :: r => if bytes_eqb h h' && bytes_eqb s s' then a else tbl_lookup r h s
  end.

Definition vm_recover (t : list (bytes * bytes * option bytes)) (h s : bytes) : option bytes :=
  if negb ((length h =? 32)%nat && (length s =? 65)%nat) then None else
  let v := unbe (skipn 64 s) in
  if (v =? 27) || (v =? 28) then tbl_lookup t h (firstn 64 s ++ be 1 (v - 27)) else None.

(* what the statement asks: accepted on chain exactly when the node considers the VAA complete (parses, signatures verify over the
   named set, the node's quorum for that set is met) and the named set is one the contract may use for this kind of VAA *)
Definition node_accepts (c : rcase) : bool :=
  c_um c && ((c_named c =? 1) || ((c_named c =? 2) && negb (c_gov c) && (gs_now (c_st c) <=? gs_prev_exp (c_st c))))
  && negb (c_n c =? 0) && c_verify c && (go_quorum (c_n c) <=? c_nsig c).

Definition source (c : rcase) : option rres := ral_source_full keccak256 (vm_recover (c_tbl c)) (c_st c) (c_gov c) (c_wire c).

Definition rets_eqb (a : list rval) (c : rcase) : bool :=
  match a with
  | [RZ ec; RZ tc; RB ea; RZ sq; RB pl] => (ec =? c_ec c) && (tc =? c_tc c) && bytes_eqb ea (c_ea c) && (sq =? c_sq c) && bytes_eqb pl (c_pl c)
  | _ => false
  end.

(* 0 agree; 1 the contract accepts what the node does not; 2 the contract aborts on what the node accepts; 3 accepted by both, but
   the contract hands back other field values than the node read; 4 as 0, but the digest the contract verified against is not the
   node's SigningMsg *)
Definition verdict (c : rcase) : Z :=
  match source c with
  | Some (rets, env) =>
    if negb (node_accepts c) then 1 else
    if negb (rets_eqb rets c) then 3 else
    match rlookup Keys.k_hash env with
    | Some (RB h) => if bytes_eqb h (c_digest c) then 0 else 4
    | _ => 4
    end
  | None => if node_accepts c then 2 else 0
  end.

Definition ok (c : rcase) : bool := c_skip c || (verdict c =? 0).
