(* Executable model of the gossip verifiers of node/pkg/p2p/p2p.go (processSignedHeartbeat, processSignedObservationRequest),
   of the heartbeat table of node/pkg/common/guardianset.go (SetHeartbeat, Cleanup, KeyIndex) and of the part of the dispatch
   switch inside p2p.Run that calls them.  Statement by statement; prefixes, length floor, comparison operators, compared
   operands, the key under which a heartbeat is stored, the per-guardian cap and the expiry test come from gen/Extracted.v
   (extractors p2p_verify, gst_table).  Cryptography and protobuf decoding of the inner message are function arguments.
   No proofs here. *)
From Coq Require Import List ZArith Bool Arith.
From Coq Require Import Strings.Byte.
From WH Require Import lib.Bytes gen.Extracted gen.ExtractedP2P model.Vaa.
Import ListNotations.
Open Scope Z_scope.

Definition gaddr := bytes.      (* common.Address: 20 bytes *)
Definition peerid := bytes.     (* libp2p peer.ID *)

(* the stored *gossipv1.Heartbeat: identified by the signed payload it was decoded from; Timestamp is the only field the table code reads *)
Record hbv := { hv_payload : bytes; hv_ts : Z }.

Definition prow := list (peerid * hbv).          (* map[peer.ID]*Heartbeat *)
Definition table := list (gaddr * prow).         (* map[common.Address]map[peer.ID]*Heartbeat *)

(* Go maps as association lists with unique keys: first match wins, [tl_put] removes the old binding *)
Fixpoint tl_get {V} (k : bytes) (m : list (bytes * V)) : option V :=
  match m with [] => None | (k', v) :: t => if bytes_eqb k k' then Some v else tl_get k t end.
Definition tl_del {V} (k : bytes) (m : list (bytes * V)) : list (bytes * V) :=
  filter (fun p => negb (bytes_eqb k (fst p))) m.
Definition tl_put {V} (k : bytes) (v : V) (m : list (bytes * V)) : list (bytes * V) := (k, v) :: tl_del k m.

(* GuardianSet.KeyIndex: first index whose key equals addr *)
Fixpoint key_index_from (a : gaddr) (ks : list gaddr) (i : nat) : option nat :=
  match ks with [] => None | k :: t => if bytes_eqb k a then Some i else key_index_from a t (S i) end.
Definition key_index (a : gaddr) (ks : list gaddr) : option nat := key_index_from a ks 0.

Definition zero_addr : gaddr := repeat x00 20.   (* `var pk common.Address` *)

(* GuardianSetState.SetHeartbeat.  None = the error return ("too many nodes"); nothing is written in that case. *)
Definition set_heartbeat (t : table) (a : gaddr) (p : peerid) (v : hbv) : option table :=
  match tl_get a t with
  | None => Some (tl_put a [(p, v)] t)
  | Some row =>
    if gst_cap_reached (Z.of_nat (length row)) then None
    else Some (tl_put a (tl_put p v row) t)
  end.

(* GuardianSetState.Cleanup at wall-clock instant [now] (ns).  time.Since saturates at +-2^63 ns; for every int64 Timestamp and
   every wall clock of this century now - ts stays above -2^63 and saturating at +2^63-1 does not change a comparison with
   one minute, so the plain difference is exact.  The outer key stays (empty inner map). *)
Definition cleanup_row (now : Z) (r : prow) : prow := filter (fun pv => negb (gst_expired (now - hv_ts (snd pv)))) r.
Definition cleanup (now : Z) (t : table) : table := map (fun ar => (fst ar, cleanup_row now (snd ar))) t.

Inductive verr := ENotInSet | ETooShort | ERecover | ESigner | EUnmarshal | EStore.
Inductive hres := HErr (e : verr) | HOk (v : hbv).
Inductive rres := RErr (e : verr) | ROk (req : bytes).

Section P2P.
Variable recover : bytes -> bytes -> option bytes.   (* secp256k1 recovery + keccak + last 20 bytes *)
Variable keccak : bytes -> bytes.
Variable decode_hb : bytes -> option Z.              (* proto.Unmarshal into gossipv1.Heartbeat: None = error, Some = its Timestamp *)
Variable decode_req : bytes -> bool.                 (* proto.Unmarshal into gossipv1.ObservationRequest succeeds *)

Definition prec (h s : bytes) : option bytes := recover_checked recover h s.   (* ethcrypto.Ecrecover incl. its argument checks *)

(* processSignedHeartbeat(from, s, gs, gst, disableVerify) *)
Definition process_heartbeat (gs : list gaddr) (t : table) (from : peerid) (eaddr hb sig : bytes) (disable : bool) : table * hres :=
  let envelope := bytes_to_address eaddr in
  let idx := key_index envelope gs in
  if (match idx with None => true | Some _ => false end) && p2p_hb_member_guard && negb disable then (t, HErr ENotInSet) else
  let pk := match idx with Some i => nth i gs zero_addr | None => zero_addr end in
  let digest := keccak (p2p_hb_preimage hb) in
  if p2p_hb_too_short (Z.of_nat (length hb)) then (t, HErr ETooShort) else
  match prec digest sig with
  | None => (t, HErr ERecover)
  | Some signer =>
    if p2p_hb_signer_guard && negb (bytes_eqb (p2p_hb_cmp_left envelope pk signer) (p2p_hb_cmp_right envelope pk signer)) && negb disable
    then (t, HErr ESigner) else
    match decode_hb hb with
    | None => (t, HErr EUnmarshal)
    | Some ts =>
      let v := {| hv_payload := hb; hv_ts := ts |} in
      match set_heartbeat t (p2p_hb_store_key envelope pk signer) from v with
      | None => (t, HErr EStore)
      | Some t' => (t', HOk v)
      end
    end
  end.

(* processSignedObservationRequest(s, gs) *)
Definition process_obsreq (gs : list gaddr) (eaddr req sig : bytes) : rres :=
  let envelope := bytes_to_address eaddr in
  let idx := key_index envelope gs in
  if (match idx with None => true | Some _ => false end) && p2p_req_member_guard then RErr ENotInSet else
  let pk := match idx with Some i => nth i gs zero_addr | None => zero_addr end in
  if p2p_req_too_short (Z.of_nat (length req)) then RErr ETooShort else
  let digest := keccak (p2p_req_preimage req) in
  match prec digest sig with
  | None => RErr ERecover
  | Some signer =>
    if p2p_req_signer_guard && negb (bytes_eqb (p2p_req_cmp_left envelope pk signer) (p2p_req_cmp_right envelope pk signer))
    then RErr ESigner else
    if decode_req req then ROk req else RErr EUnmarshal
  end.

(* ---- the node as seen from the gossip network: the dispatch switch of p2p.Run (modelled only: libp2p cannot run in the
   harness; its shape is pinned by the extractor, p2p_dispatch_shape_ok) plus the table's other two callers *)
Record nstate := { n_gs : option (list gaddr); n_tbl : table }.

Inductive gmsg :=
| GHeartbeat (from : peerid) (eaddr hb sig : bytes)       (* GossipMessage_SignedHeartbeat from the network *)
| GObsReq (eaddr req sig : bytes)                        (* GossipMessage_SignedObservationRequest from the network *)
| GSetGS (ks : list gaddr)                               (* gst.Set by the guardian-set watcher *)
| GCleanup (now : Z)                                     (* gst.Cleanup ticker *)
| GOwn (a : gaddr) (p : peerid) (v : hbv).               (* the node's own heartbeat goroutine: gst.SetHeartbeat(ourAddr, h.ID(), heartbeat) *)

Inductive gout := FwdReq (req : bytes)                   (* obsvReqC <- r : forwarded to the chain watchers *)
                | HbStored (a : gaddr) (p : peerid) (v : hbv)
                | OwnPanic.                              (* own heartbeat goroutine: panic(err) when SetHeartbeat fails *)

Definition with_tbl (st : nstate) (t : table) : nstate := {| n_gs := n_gs st; n_tbl := t |}.

Definition gossip_step (disable : bool) (st : nstate) (m : gmsg) : nstate * list gout :=
  match m with
  | GHeartbeat from eaddr hb sig =>
    match n_gs st with
    | None => (st, [])
    | Some gs =>
      match process_heartbeat gs (n_tbl st) from eaddr hb sig disable with
      | (t', HOk v) =>
        (with_tbl st t',
         match prec (keccak (p2p_hb_preimage hb)) sig with
         | Some signer => [HbStored (p2p_hb_store_key (bytes_to_address eaddr)
                                       (match key_index (bytes_to_address eaddr) gs with Some i => nth i gs zero_addr | None => zero_addr end) signer) from v]
         | None => [] end)
      | (t', HErr _) => (with_tbl st t', [])
      end
    end
  | GObsReq eaddr req sig =>
    match n_gs st with
    | None => (st, [])
    | Some gs => match process_obsreq gs eaddr req sig with ROk r => (st, [FwdReq r]) | RErr _ => (st, []) end
    end
  | GSetGS ks => ({| n_gs := Some ks; n_tbl := n_tbl st |}, [])
  | GCleanup now => (with_tbl st (cleanup now (n_tbl st)), [])
  | GOwn a p v => match set_heartbeat (n_tbl st) a p v with Some t' => (with_tbl st t', []) | None => (st, [OwnPanic]) end
  end.

Fixpoint gossip_run (disable : bool) (st : nstate) (ms : list gmsg) : nstate * list (list gout) :=
  match ms with
  | [] => (st, [])
  | m :: t => let '(st1, o1) := gossip_step disable st m in let '(st2, os) := gossip_run disable st1 t in (st2, o1 :: os)
  end.
End P2P.

Definition ninit : nstate := {| n_gs := None; n_tbl := [] |}.

(* ================================================================== extension X5: the receive / dispatch loop of p2p.Run
   `for { envelope := sub.Next; proto.Unmarshal(envelope.Data, &msg) (error: continue); if envelope.GetFrom() == h.ID() { continue };
          switch msg.Message.(type) { heartbeat | observation | signed VAA | observation request | default } }`
   statement by statement.  harness/p2p_run executes this loop for real (p2p.go of the working tree with only the transport
   changed) and [p2p_dispatch] is re-evaluated on every history it records.  The own-peer-id test and the verification flag
   handed to the heartbeat verifier come from gen/ExtractedP2P.v (extractor p2p_loop). *)

(* envelope.Data after proto.Unmarshal into gossipv1.GossipMessage.  O / V: what the loop hands on without looking at it
   (pointers to gossipv1.SignedObservation, gossipv1.SignedVAAWithQuorum) *)
Inductive gossip_msg (O V : Type) :=
| MInvalid                                   (* proto.Unmarshal returned an error *)
| MHeartbeat (eaddr hb sig : bytes)          (* GossipMessage_SignedHeartbeat: GuardianAddr, Heartbeat, Signature *)
| MObservation (o : O)                       (* GossipMessage_SignedObservation *)
| MSignedVaa (v : V)                         (* GossipMessage_SignedVaaWithQuorum *)
| MObsReq (eaddr req sig : bytes)            (* GossipMessage_SignedObservationRequest *)
| MUnknown.                                  (* no / an unknown oneof member: `default:` *)
Arguments MInvalid {O V}.
Arguments MHeartbeat {O V}.
Arguments MObservation {O V}.
Arguments MSignedVaa {O V}.
Arguments MObsReq {O V}.
Arguments MUnknown {O V}.

Inductive chan_out (O V : Type) :=
| OutObs (o : O)                             (* obsvC <- m.SignedObservation : to the processor *)
| OutVaa (v : V)                             (* signedInC <- m.SignedVaaWithQuorum : to the processor *)
| OutReq (r : bytes).                        (* obsvReqC <- r : to the chain watchers *)
Arguments OutObs {O V}.
Arguments OutVaa {O V}.
Arguments OutReq {O V}.

(* what the node's other goroutines do to the same state / channels, interleaved with the loop in any order *)
Inductive levent (O V : Type) :=
| LRecv (from : peerid) (m : gossip_msg O V) (* one iteration of the receive loop; from = envelope.GetFrom() *)
| LSetGS (ks : list gaddr)                   (* gst.Set by the guardian-set watcher *)
| LLocalReq (r : bytes)                      (* obsvReqSendC goroutine: `obsvReqC <- msg` for a locally originated request *)
| LCleanup (now : Z)                         (* gst.Cleanup ticker *)
| LOwn (a : gaddr) (p : peerid) (v : hbv).   (* own heartbeat goroutine: gst.SetHeartbeat(ourAddr, h.ID(), heartbeat) *)
Arguments LRecv {O V}.
Arguments LSetGS {O V}.
Arguments LLocalReq {O V}.
Arguments LCleanup {O V}.
Arguments LOwn {O V}.

Section P2PLoop.
Variable recover : bytes -> bytes -> option bytes.
Variable keccak : bytes -> bytes.
Variable decode_hb : bytes -> option Z.
Variable decode_req : bytes -> bool.
Context {O V : Type}.

(* one iteration of the loop body after sub.Next.  disable = Run's disableHeartbeatVerify parameter, self = h.ID(),
   t = gst's heartbeat table, gs = gst.Get() (None = nil) *)
Definition p2p_dispatch (disable : bool) (self : peerid) (t : table) (gs : option (list gaddr)) (from : peerid) (m : gossip_msg O V)
  : table * list (chan_out O V) :=
  match m with
  | MInvalid => (t, [])                                                       (* err != nil: continue *)
  | _ =>
    if p2p_loop_loopback_guard && bytes_eqb from self then (t, []) else       (* envelope.GetFrom() == h.ID(): continue *)
    match m with
    | MInvalid => (t, [])
    | MHeartbeat eaddr hb sig =>
      match gs with
      | None => (t, [])                                                       (* gs == nil: break *)
      | Some g => (fst (process_heartbeat recover keccak decode_hb g t from eaddr hb sig (p2p_loop_hb_disable disable)), [])
      end
    | MObservation o => (t, [OutObs o])
    | MSignedVaa v => (t, [OutVaa v])
    | MObsReq eaddr req sig =>
      match gs with
      | None => (t, [])                                                       (* gs == nil: break *)
      | Some g => match process_obsreq recover keccak decode_req g eaddr req sig with
                  | ROk r => (t, [OutReq r])                                  (* err == nil: obsvReqC <- r *)
                  | RErr _ => (t, [])
                  end
      end
    | MUnknown => (t, [])
    end
  end.

Definition loop_step (disable : bool) (self : peerid) (st : nstate) (e : levent O V) : nstate * list (chan_out O V) :=
  match e with
  | LRecv from m => let '(t', outs) := p2p_dispatch disable self (n_tbl st) (n_gs st) from m in (with_tbl st t', outs)
  | LSetGS ks => ({| n_gs := Some ks; n_tbl := n_tbl st |}, [])
  | LLocalReq r => (st, [OutReq r])
  | LCleanup now => (with_tbl st (cleanup now (n_tbl st)), [])
  | LOwn a p v => match set_heartbeat (n_tbl st) a p v with Some t' => (with_tbl st t', []) | None => (st, []) end
  end.

Fixpoint loop_run (disable : bool) (self : peerid) (st : nstate) (es : list (levent O V)) : nstate * list (list (chan_out O V)) :=
  match es with
  | [] => (st, [])
  | e :: t => let '(st1, o1) := loop_step disable self st e in let '(st2, os) := loop_run disable self st1 t in (st2, o1 :: os)
  end.

(* the part of a loop event that the earlier model (gossip_step) sees *)
Definition embed (self : peerid) (e : levent O V) : list gmsg :=
  match e with
  | LRecv from (MHeartbeat eaddr hb sig) => if p2p_loop_loopback_guard && bytes_eqb from self then [] else [GHeartbeat from eaddr hb sig]
  | LRecv from (MObsReq eaddr req sig) => if p2p_loop_loopback_guard && bytes_eqb from self then [] else [GObsReq eaddr req sig]
  | LRecv _ _ => []
  | LSetGS ks => [GSetGS ks]
  | LLocalReq _ => []
  | LCleanup now => [GCleanup now]
  | LOwn a p v => [GOwn a p v]
  end.
End P2PLoop.
