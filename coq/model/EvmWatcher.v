(* Executable model of the EVM watcher (node/pkg/ethereum/{watcher,by_transaction}.go) for C10.

   The node is abstract: every answer the watcher obtains from it (block time of a log's block, the receipt answer for
   one pending entry at one head, the head / receipt / block time read by a re-observation request) is an INPUT of the
   step in which it is obtained ("at that moment" in the property = "according to the node's answer in that step").
   Hashes, addresses and payloads are abstract integers.  Constants, comparison operators, the presence of the filters
   and the ORDER of the tests of the per-head scan are GENERATED from the source (gen.Extracted, extractors
   evm_watcher / evm_by_tx): the model below is written once for both orders the extractor understands
   (`evm_timeout_before_depth`, `evm_transient_before_orphan`), and the theorems of props/C10.v are proved for the
   generated values. *)
From Coq Require Import List ZArith Bool.
From WH Require Import gen.Extracted.
Import ListNotations.
Open Scope Z_scope.

(* ------------------------------------------------------------------ Go integer arithmetic *)
Definition two64 : Z := 18446744073709551616.
Definition u64 (x : Z) : Z := x mod two64.              (* uint64 arithmetic / big.Int.Uint64() *)

(* ------------------------------------------------------------------ data *)
Record cfg := mkCfg { c_wait : bool;        (* Watcher.waitForConfirmations *)
                      c_contract : Z;       (* Watcher.contract *)
                      c_chain : Z }.        (* Watcher.chainID *)

(* pendingKey *)
Record key := mkKey { k_tx : Z; k_bh : Z; k_em : Z; k_seq : Z }.
Definition key_eqb (a b : key) : bool :=
  (k_tx a =? k_tx b) && (k_bh a =? k_bh b) && (k_em a =? k_em b) && (k_seq a =? k_seq b).

(* abi.AbiLogMessagePublished with its Raw log: what the node reports for one LogMessagePublished event *)
Record ev := mkEv { e_tx : Z; e_bh : Z; e_h : Z;          (* Raw.TxHash, Raw.BlockHash, Raw.BlockNumber *)
                    e_em : Z; e_seq : Z; e_cl : Z;        (* Sender, Sequence, ConsistencyLevel (uint8) *)
                    e_nonce : Z; e_target : Z; e_body : Z (* Nonce, TargetChainId, Payload *) }.

(* common.MessagePublication *)
Record msg := mkMsg { m_tx : Z; m_ts : Z; m_nonce : Z; m_seq : Z; m_chain : Z; m_target : Z; m_em : Z; m_body : Z; m_cl : Z }.
Definition msg_eqb (a b : msg) : bool :=
  (m_tx a =? m_tx b) && (m_ts a =? m_ts b) && (m_nonce a =? m_nonce b) && (m_seq a =? m_seq b) && (m_chain a =? m_chain b)
  && (m_target a =? m_target b) && (m_em a =? m_em b) && (m_body a =? m_body b) && (m_cl a =? m_cl b).

(* pendingMessage *)
Record pmsg := mkP { p_msg : msg; p_height : Z }.

Definition key_of (e : ev) : key := mkKey (e_tx e) (e_bh e) (e_em e) (e_seq e).
(* the message both paths build from an event and the time of its block *)
Definition msg_of (c : cfg) (e : ev) (t : Z) : msg :=
  mkMsg (e_tx e) t (e_nonce e) (e_seq e) (c_chain c) (e_target e) (e_em e) (e_body e) (e_cl e).
Definition pm_of (c : cfg) (e : ev) (t : Z) : pmsg := mkP (msg_of c e t) (e_h e).

(* (tx, err) returned by ethConn.TransactionReceipt: a_rc = Some (Status, BlockHash) for a non-nil receipt;
   the error is nil / rpc.ErrNoResult / one whose text is "not found" (ethereum.NotFound) / anything else *)
Inductive rerr := ENone | ENoResult | ENotFound | EOther.
Record rans := mkAns { a_rc : option (Z * Z); a_err : rerr }.

Inductive why := WTimeout | WOrphan | WFailed | WRemined.
Inductive out :=
| Confirmed (k : key) (m : msg)     (* per-head scan: `w.msgChan <- pLock.message` *)
| Reobserved (m : msg)              (* re-observation: `w.msgChan <- msg` *)
| Dropped (k : key) (w : why)       (* delete(w.pending, key) without forwarding *)
| Looked (k : key)                  (* a TransactionReceipt request was issued for this entry *)
| Died                              (* errC <- ...: Run returns *)
| Panic.                            (* run-time panic in a bare goroutine *)

(* ------------------------------------------------------------------ per-head scan, one entry of w.pending *)
(* `err != nil && err != rpc.ErrNoResult && err.Error() != "not found"` *)
Definition is_transient (e : rerr) : bool := match e with EOther => true | _ => false end.
(* `err != nil` *)
Definition err_nonnil (e : rerr) : bool := match e with ENone => false | _ => true end.
(* `tx == nil || err == rpc.ErrNoResult || (err != nil && err.Error() == "not found")` *)
Definition is_orphan (a : rans) : bool :=
  match a_rc a with
  | None => true
  | Some _ => match a_err a with ENoResult | ENotFound => true | _ => false end
  end.

Definition expected_of (wait safe : bool) (p : pmsg) : Z := evm_expected wait safe (m_cl (p_msg p)).
(* pLock.height+expectedConfirmations *)
Definition thr_of (wait safe : bool) (p : pmsg) : Z := u64 (p_height p + expected_of wait safe p).
(* pLock.height+expectedConfirmations+w.maxWaitConfirmations *)
Definition lim_of (wait safe : bool) (p : pmsg) : Z := u64 (thr_of wait safe p + evm_max_wait).

(* result: (entry stays in w.pending, events).  tb / tr say where the source has the abandonment test and the
   transient-error test: tb = the abandonment test precedes the depth test (tree before repo commit 40922fc),
   tr = transient errors are classified before the orphan test and the abandonment test sits on that branch *)
Definition scan_entry_gen (tb tr : bool) (wait safe : bool) (n : Z) (a : rans) (k : key) (p : pmsg) : bool * list out :=
  let bn := u64 n in                                   (* blockNumberU := ev.Number.Uint64() *)
  let thr := thr_of wait safe p in
  let lim := lim_of wait safe p in
  if tb && evm_window_passed lim bn then (false, [Dropped k WTimeout])
  else if evm_depth_reached thr bn then
    (* tx, err := w.ethConn.TransactionReceipt(..) *)
    if tr && is_transient (a_err a) then
      if evm_window_passed lim bn then (false, [Looked k; Dropped k WTimeout])
      else (true, [Looked k])
    else if is_orphan a then (false, [Looked k; Dropped k WOrphan])
    else match a_rc a with
         | None => (false, [Looked k; Dropped k WOrphan])          (* unreachable: is_orphan *)
         | Some (st, bh) =>
           if negb (evm_status_ok st) then (false, [Looked k; Dropped k WFailed])
           else if negb tr && err_nonnil (a_err a) then (true, [Looked k])
           else if negb (bh =? k_bh k) then (false, [Looked k; Dropped k WRemined])
           else (false, [Looked k; Confirmed k (p_msg p)])
         end
  else (true, []).

(* the order of the tests as the extractor found it in the source *)
Definition scan_entry : bool -> bool -> Z -> rans -> key -> pmsg -> bool * list out :=
  scan_entry_gen evm_timeout_before_depth evm_transient_before_orphan.

(* w.pending as an association list with distinct keys; Go's map order is not observable: the check compares the events
   of one step as multisets, and the outcome for one entry does not depend on the others *)
Definition pending := list (key * pmsg).

Fixpoint scan (wait safe : bool) (n : Z) (orc : key -> rans) (l : pending) : pending * list out :=
  match l with
  | [] => ([], [])
  | (k, p) :: t =>
    let r := scan_entry wait safe n (orc k) k p in
    let r' := scan wait safe n orc t in
    ((if fst r then (k, p) :: fst r' else fst r'), snd r ++ snd r')
  end.

Fixpoint remove_key (k : key) (l : pending) : pending :=
  match l with
  | [] => []
  | (k', p) :: t => if key_eqb k k' then remove_key k t else (k', p) :: remove_key k t
  end.
(* w.pending[key] = &pendingMessage{..} *)
Definition insert (k : key) (p : pmsg) (l : pending) : pending := (k, p) :: remove_key k l.

Definition keys (l : pending) : list key := map fst l.
Fixpoint find (k : key) (l : pending) : option pmsg :=
  match l with
  | [] => None
  | (k', p) :: t => if key_eqb k k' then Some p else find k t
  end.

(* ------------------------------------------------------------------ re-observation (by_transaction.go + watcher.go 225-312) *)
(* types.Log inside a receipt: address, first topic (None = empty topic list), result of ParseLogMessagePublished *)
Record rlog := mkRLog { l_addr : Z; l_topic0 : option Z; l_ev : option ev }.
(* types.Receipt: Status, BlockHash is only used to ask for the block time (an input), BlockNumber (None = nil pointer) *)
Record rcpt := mkRcpt { r_status : Z; r_blk : option Z; r_logs : list (option rlog) (* None = nil entry *) }.

Inductive txres := TxErr | TxPanic | TxOk (blk : Z) (ms : list msg).

(* the log loop of MessageEventsForTransaction; acc is in reverse order *)
Fixpoint log_loop (c : cfg) (t : Z) (ls : list (option rlog)) (acc : list msg) : option (option (list msg)) :=
  (* None = panic, Some None = error return, Some (Some msgs) *)
  match ls with
  | [] => Some (Some (rev acc))
  | None :: r => log_loop c t r acc                                                   (* if l == nil { continue } *)
  | Some l :: r =>
    if evm_reobs_checks_address && negb (l_addr l =? c_contract c) then log_loop c t r acc
    else match l_topic0 l with
         | None => None                                                               (* l.Topics[0]: index out of range *)
         | Some t0 =>
           if evm_reobs_checks_topic && negb (t0 =? evm_lmp_topic) then log_loop c t r acc
           else match l_ev l with
                | None => Some None                                                   (* "failed to parse log" *)
                | Some e => log_loop c t r (msg_of c e t :: acc)
                end
         end
  end.

Definition events_for_tx (c : cfg) (rc : option rcpt) (bt : option Z) : txres :=
  match rc with
  | None => TxErr                                                                      (* "failed to get transaction receipt" *)
  | Some r =>
    if evm_reobs_checks_status && negb (evm_reobs_status_ok (r_status r)) then TxErr   (* "non-success transaction status" *)
    else match bt with
         | None => TxErr                                                               (* "failed to get block time" *)
         | Some t =>
           match log_loop c t (r_logs r) [] with
           | None => TxPanic
           | Some None => TxErr
           | Some (Some ms) => match r_blk r with
                               | None => TxPanic                                       (* receipt.BlockNumber.Uint64() on nil *)
                               | Some b => TxOk (u64 b) ms
                               end
           end
         end
  end.

(* hb = answer of getBlockNumber issued BEFORE the receipt request, ha = the node's head after the receipt was served
   (what a read placed after MessageEventsForTransaction would see); None = the request failed *)
Definition reobserve (c : cfg) (hb ha : option Z) (rc : option rcpt) (bt : option Z) : list out :=
  match (if evm_reobs_head_first then hb else ha) with
  | None => []                                                                         (* "failed to get block number" *)
  | Some hd =>
    let bnu := u64 hd in
    match events_for_tx c rc bt with
    | TxErr => []
    | TxPanic => [Panic]
    | TxOk blk ms =>
      flat_map (fun m =>
                  if evm_reobs_zero_head_guard && (bnu =? 0) then []
                  else let e := if c_wait c then m_cl m else 0 in
                       if evm_reobs_depth_reached (u64 (blk + e)) bnu then [Reobserved m] else []) ms
    end
  end.

(* ------------------------------------------------------------------ the watcher as a state machine *)
Inductive op :=
| OLog (e : ev) (bt : option Z)                        (* a log delivered by the subscription; bt = TimeOfBlockByHash(Raw.BlockHash) *)
| OHead (n : Z) (safe : bool) (orc : key -> rans)      (* a head delivered by the poller; orc k = answer to the receipt request for entry k *)
| OReobs (hb ha : option Z) (rc : option rcpt) (bt : option Z).

Definition step (c : cfg) (s : pending) (o : op) : pending * list out :=
  match o with
  | OLog e None => (s, [Died])
  | OLog e (Some t) => (insert (key_of e) (pm_of c e t) s, [])
  | OHead n safe orc => scan (c_wait c) safe n orc s
  | OReobs hb ha rc bt => (s, reobserve c hb ha rc bt)
  end.

(* outputs per step *)
Fixpoint run (c : cfg) (s : pending) (ops : list op) : pending * list (list out) :=
  match ops with
  | [] => (s, [])
  | o :: t => let r := step c s o in let r' := run c (fst r) t in (fst r', snd r :: snd r')
  end.

Definition init : pending := [].

(* ------------------------------------------------------------------ the block poller (poller.go), source of the OHead operations *)
(* pollBlocks: lastBlock, answer of getBlock (None = error, incl. a block without number) ->
   (lastBlock', published heads with their Safe flag, error) *)
Definition poll_blocks (last : Z) (ans : option Z) : Z * list (Z * bool) * bool :=
  match ans with
  | None => (last, [], true)
  | Some latest =>
    if evm_poll_not_newer last latest then (last, [], false)
    else (latest, [(latest, evm_poll_safe)], false)
  end.

(* successive polls *)
Fixpoint poll_seq (last : Z) (answers : list (option Z)) : Z * list (Z * bool) :=
  match answers with
  | [] => (last, [])
  | a :: t => let r := poll_blocks last a in
              let r' := poll_seq (fst (fst r)) t in (fst r', snd (fst r) ++ snd r')
  end.

(* one timer tick of BlockPollConnector.run: nothing while disabled; up to evm_poll_attempts polls, stopping at the first
   that succeeds; all failing = the error is published on errFeed (the watcher's Run returns) *)
Fixpoint poll_try (fuel : nat) (last : Z) (answers : list (option Z)) : Z * list (Z * bool) * bool :=
  match fuel with
  | O => (last, [], true)
  | S f =>
    match answers with
    | [] => (last, [], true)
    | a :: t => let r := poll_blocks last a in
                if snd r then poll_try f (fst (fst r)) t else r
    end
  end.
Definition poll_tick (enabled : bool) (last : Z) (answers : list (option Z)) : Z * list (Z * bool) * bool :=
  if enabled then poll_try (Z.to_nat evm_poll_attempts) last answers else (last, [], false).
