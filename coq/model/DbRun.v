(* Comparator used by the generated run/cases_C12_*.v files: replays one recorded store history on the model of
   model/Db.v and compares every recorded answer of the implementation.  Differential-testing aid only; no theorem
   depends on it.
   Byte-exactness without shipping values twice: every stored value is the Marshal output of one operation of the
   history (checks/c12.py verifies that for the implementation's answers and names the operation by its index); the
   model's answer is compared with the value the MODEL stored for that operation, and the model's stored value is
   compared with the recorded Marshal output when the operation is replayed. *)
From Coq Require Import List ZArith Bool Arith.
From Coq Require Import Strings.Byte.
From WH Require Import lib.Bytes lib.Wire lib.Digits gen.Extracted model.Vaa model.Db.
Import ListNotations.
Open Scope Z_scope.

Inductive dop :=
| St (b : bytes)                                   (* a well-formed VAA, given by its Marshal output; the call returned nil *)
| StV (v : vaa) (mb : bytes) (panicked : bool).    (* any VAA, given by its fields; mb = its Marshal output *)

Definition beq (a b : bytes) : bool := match bytes_cmp a b with Eq => true | _ => false end.

(* state of a replay: the store and, newest first, the value each operation stored ([] for a panicking call) *)
Definition rstate := (store * list bytes)%type.

Definition run_op (st : option rstate) (o : dop) : option rstate :=
  match st with
  | None => None
  | Some (s, vals) =>
    match o with
    | St b => match unmarshal b with
              | Ok v => if beq (marshal v) b then
                          match store_vaa s v with Stored s' => Some (s', b :: vals) | StorePanic => None end
                        else None
              | Err _ => None
              end
    | StV v mb p => if beq (marshal v) mb then
                      match store_vaa s v with
                      | Stored s' => if p then None else Some (s', mb :: vals)
                      | StorePanic => if p then Some (s, [] :: vals) else None
                      end
                    else None
    end
  end.

(* result codes of the harness: 0 ok, 1 not found, 2 invalid argument, 3 internal / error, 4 panic, 5 does not terminate *)
(* expected entries: (target chain, sequence, index of the operation whose value is returned) *)
Definition xent := (Z * Z * nat)%type.
(* expected number lists as inclusive intervals *)
Definition ivs := list (Z * Z).

Inductive dquery :=
| QGet (ec : Z) (ai : nat) (tc sq : Z) (code : Z) (j : nat)
| QGap (ec : Z) (ai : nat) (tc : Z) (code : Z) (resp : ivs) (first last : Z)
| QGov (ec : Z) (ai : nat) (seqs : list Z) (code : Z) (ents : list xent)
| QBatch (ec : Z) (ai : nat) (tc : Z) (seqs : list Z) (code : Z) (ents : list xent)
| QRpcGet (ec : Z) (ahex : bytes) (tc sq : Z) (code : Z) (j : nat)
| QRpcBatch (ec : Z) (ahex : bytes) (tc : Z) (seqs : list Z) (code : Z) (ents : list xent)
| QRpcGov (ec : Z) (ai : nat) (seqs : list Z) (code : Z) (ents : list xent)
| QMissing (ec : Z) (ahex : bytes) (tc : Z) (code : Z) (pre : bytes) (resp : ivs) (first last : Z).

Fixpoint list_eqb {A B} (f : A -> B -> bool) (l : list A) (m : list B) : bool :=
  match l, m with
  | [], [] => true
  | x :: l', y :: m' => f x y && list_eqb f l' m'
  | _, _ => false
  end.

Definition expand (l : ivs) : list Z := flat_map (fun p => zrange (Z.to_nat (snd p - fst p + 1)) (fst p)) l.

Definition rcode (e : rpcerr) : Z := match e with RNotFound => 1 | RInvalidArgument => 2 | RInternal => 3 end.

Section Check.
Variable pool : list bytes.
Variable s : store.
Variable vals : list bytes.   (* oldest first *)

Definition val (j : nat) : bytes := nth j vals [].
Definition addr (ai : nat) : bytes := nth ai pool [].

Definition gov_eq (e : goventry) (x : xent) : bool :=
  let '(t, q, j) := x in (g_tc e =? t) && (g_seq e =? q) && beq (g_bytes e) (val j).
Definition batch_eq (e : Z * bytes) (x : xent) : bool :=
  let '(_, q, j) := x in (fst e =? q) && beq (snd e) (val j).

Definition check_query (q : dquery) : bool :=
  match q with
  | QGet ec ai tc sq code j =>
    match get_signed_vaa_bytes s {| i_ec := ec; i_ea := addr ai; i_tc := tc; i_seq := sq |} with
    | Found b => (code =? 0) && beq b (val j)
    | NotFound => code =? 1
    end
  | QGap ec ai tc code resp first last =>
    match find_gap s ec (addr ai) tc with
    | GapOk r f l => (code =? 0) && list_eqb Z.eqb r (expand resp) && (f =? first) && (l =? last)
    | GapErr => code =? 3
    | GapLoop => code =? 5
    end
  | QGov ec ai seqs code ents =>
    match gov_batch s ec (addr ai) seqs with
    | GovOk l => (code =? 0) && list_eqb gov_eq l ents
    | GovErr => code =? 3
    end
  | QBatch ec ai tc seqs code ents =>
    (code =? 0) && list_eqb batch_eq (batch_lookup s ec (addr ai) tc seqs) ents
  | QRpcGet ec ahex tc sq code j =>
    match rpc_get_signed_vaa s ec ahex tc sq with
    | ROk b => (code =? 0) && beq b (val j)
    | RErr e => code =? rcode e
    end
  | QRpcBatch ec ahex tc seqs code ents =>
    match rpc_nongov_batch s ec ahex tc seqs with
    | ROk l => (code =? 0) && list_eqb batch_eq l ents
    | RErr e => code =? rcode e
    end
  | QRpcGov ec ai seqs code ents =>
    match rpc_gov_batch s ec (addr ai) seqs with
    | ROk l => (code =? 0) && list_eqb gov_eq l ents
    | RErr e => code =? rcode e
    end
  | QMissing ec ahex tc code pre resp first last =>
    match find_missing s ec ahex tc with
    | MissOk ids f l => (code =? 0) && list_eqb beq ids (map (fun q => pre ++ dec q) (expand resp)) && (f =? first) && (l =? last)
    | MissErr e => code =? rcode e
    | MissLoop => code =? 5
    end
  end.
End Check.

(* one case = address pool, store history, answered queries; the result is the list of (1-based) indices of the queries whose
   recorded answer differs from the model's, [0] when the history itself is not reproduced *)
Definition dcase := (list bytes * list dop * list dquery)%type.

Definition bad_queries (c : dcase) : list Z :=
  let '(pool, ops, qs) := c in
  match fold_left run_op ops (Some ([], [])) with
  | None => [0]
  | Some (s, vals) => let vals' := rev vals in map (fun i => i + 1) (bad (check_query pool s vals') qs)
  end.

Definition ok (c : dcase) : bool := match bad_queries c with [] => true | _ => false end.
