(* Comparator used by the generated run/cases_C12_*.v files: replays one recorded store history on the model of
   model/Db.v and compares every recorded answer of the implementation.  Differential-testing aid only; no theorem
   depends on it. *)
From Coq Require Import List ZArith Bool Arith.
From Coq Require Import Strings.Byte.
From WH Require Import lib.Bytes lib.Wire lib.Digits gen.Extracted model.Vaa model.Db.
Import ListNotations.
Open Scope Z_scope.

Inductive dop :=
| St (b : bytes)                      (* a well-formed VAA, given by its encoding; the call returned nil *)
| StV (v : vaa) (panicked : bool).    (* any VAA, given by its fields *)

(* result codes of the harness: 0 ok, 1 not found, 2 invalid argument, 3 internal / error, 4 panic, 5 does not terminate *)
Inductive dquery :=
| QGet (ec : Z) (ai : nat) (tc sq : Z) (code h : Z)
| QGap (ec : Z) (ai : nat) (tc : Z) (code h first last : Z)
| QGov (ec : Z) (ai : nat) (seqs : list Z) (code h : Z)
| QBatch (ec : Z) (ai : nat) (tc : Z) (seqs : list Z) (code h : Z)
| QRpcGet (ec : Z) (ahex : bytes) (tc sq : Z) (code h : Z)
| QRpcBatch (ec : Z) (ahex : bytes) (tc : Z) (seqs : list Z) (code h : Z)
| QRpcGov (ec : Z) (ai : nat) (seqs : list Z) (code h : Z)
| QMissing (ec : Z) (ahex : bytes) (tc : Z) (code h first last : Z).

Definition run_op (s : option store) (o : dop) : option store :=
  match s with
  | None => None
  | Some s =>
    match o with
    | St b => match unmarshal b with
              | Ok v => match store_vaa s v with Stored s' => Some s' | StorePanic => None end
              | Err _ => None
              end
    | StV v p => match store_vaa s v with
                 | Stored s' => if p then None else Some s'
                 | StorePanic => if p then Some s else None
                 end
    end
  end.

Definition h_seqs (l : list Z) : Z := hash_bytes (flat_map (be 8) l).
Definition h_gov (l : list goventry) : Z :=
  hash_bytes (flat_map (fun e => be 2 (g_tc e) ++ be 8 (g_seq e) ++ be 4 (Z.of_nat (length (g_bytes e))) ++ g_bytes e) l).
Definition h_batch (l : list (Z * bytes)) : Z :=
  hash_bytes (flat_map (fun e => be 8 (fst e) ++ be 4 (Z.of_nat (length (snd e))) ++ snd e) l).
Definition h_strs (l : list bytes) : Z :=
  hash_bytes (flat_map (fun e => be 4 (Z.of_nat (length e)) ++ e) l).

Definition rcode (e : rpcerr) : Z := match e with RNotFound => 1 | RInvalidArgument => 2 | RInternal => 3 end.

Definition check_query (pool : list bytes) (s : store) (q : dquery) : bool :=
  let addr ai := nth ai pool [] in
  match q with
  | QGet ec ai tc sq code h =>
    match get_signed_vaa_bytes s {| i_ec := ec; i_ea := addr ai; i_tc := tc; i_seq := sq |} with
    | Found b => (code =? 0) && (hash_bytes b =? h)
    | NotFound => code =? 1
    end
  | QGap ec ai tc code h first last =>
    match find_gap s ec (addr ai) tc with
    | GapOk resp f l => (code =? 0) && (h_seqs resp =? h) && (f =? first) && (l =? last)
    | GapErr => code =? 3
    | GapLoop => code =? 5
    end
  | QGov ec ai seqs code h =>
    match gov_batch s ec (addr ai) seqs with
    | GovOk l => (code =? 0) && (h_gov l =? h)
    | GovErr => code =? 3
    end
  | QBatch ec ai tc seqs code h =>
    (code =? 0) && (h_batch (flat_map (fun q => match get_signed_vaa_bytes s {| i_ec := ec; i_ea := addr ai; i_tc := tc; i_seq := q |} with
                                               | Found b => [(q, b)] | NotFound => [] end) seqs) =? h)
  | QRpcGet ec ahex tc sq code h =>
    match rpc_get_signed_vaa s ec ahex tc sq with
    | ROk b => (code =? 0) && (hash_bytes b =? h)
    | RErr e => code =? rcode e
    end
  | QRpcBatch ec ahex tc seqs code h =>
    match rpc_nongov_batch s ec ahex tc seqs with
    | ROk l => (code =? 0) && (h_batch l =? h)
    | RErr e => code =? rcode e
    end
  | QRpcGov ec ai seqs code h =>
    match rpc_gov_batch s ec (addr ai) seqs with
    | ROk l => (code =? 0) && (h_gov l =? h)
    | RErr e => code =? rcode e
    end
  | QMissing ec ahex tc code h first last =>
    match find_missing s ec ahex tc with
    | MissOk ids f l => (code =? 0) && (h_strs ids =? h) && (f =? first) && (l =? last)
    | MissErr e => code =? rcode e
    | MissLoop => code =? 5
    end
  end.

(* one case = address pool, store history, answered queries; the result is the list of (1-based) indices of the queries whose
   recorded answer differs from the model's, [0] when the history itself is not reproduced *)
Definition dcase := (list bytes * list dop * list dquery)%type.

Definition bad_queries (c : dcase) : list Z :=
  let '(pool, ops, qs) := c in
  match fold_left run_op ops (Some []) with
  | None => [0]
  | Some s => map (fun i => i + 1) (bad (check_query pool s) qs)
  end.

Definition ok (c : dcase) : bool := match bad_queries c with [] => true | _ => false end.
