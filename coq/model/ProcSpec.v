(* Specification vocabulary for the processor properties (C01, C02): ghost bookkeeping over histories and the predicates the
   theorems are stated with.  Definitions only; the proofs are in proofs/ProcC01Proofs.v and proofs/ProcC02Proofs.v. *)
From Coq Require Import List ZArith Bool Arith.
From Coq Require Import Strings.Byte.
From WH Require Import lib.Bytes gen.Extracted model.Vaa model.Processor proofs.VaaProofs.
Import ListNotations.
Open Scope Z_scope.

(* guardian sets as the chain delivers them: pairwise distinct keys, at most 256 (the wire index is one byte) *)
Definition gs_wf (g : gset) : Prop := NoDup (keys g) /\ (length (keys g) <= 256)%nat.
Definition op_wf (o : op) : Prop := match o with SetGS g => gs_wf g | _ => True end.

Section Spec.
Variable recover : bytes -> bytes -> option bytes.
Variable keccak : bytes -> bytes.
Variable sign : bytes -> bytes.
Variable own : addr.
Variable gov_chain : Z.
Variable gov_addr : bytes.

Notation rec := (Processor.rec recover).
Notation dg := (Processor.dg keccak).
Notation step := (Processor.step recover keccak sign own gov_chain gov_addr).

(* "valid quorum VAA of key list K": C06's acceptance over the VAA's own digest (indices strictly ascending from 0, each inside K,
   each signature recovering to K[index], signers pairwise distinct) and at least CalculateQuorum(|K|) signatures *)
Definition qvalid (v : vaa) (K : list addr) : Prop :=
  accepts rec (dg v) K (sigs v) /\ go_quorum (Z.of_nat (length K)) <= Z.of_nat (length (sigs v)).

(* ghost: what the node itself observed/signed so far: the unsigned VAA, the set in force at that moment, chain observation? *)
Definition origin := (vaa * option gset * bool)%type.

Definition origin_of (st : pstate) (o : op) : list origin :=
  match o with
  | LocalMsg m =>
    match cur st, snd (Processor.handle_message keccak sign own gov_chain gov_addr st m) with
    | Some g, _ :: _ => [(vaa_of_message (gidx g) m, Some g, true)]
    | _, _ => []
    end
  | Inject v => [(v, cur st, false)]
  | _ => []
  end.

Definition learned_after (L : list gset) (o : op) : list gset := match o with SetGS g => g :: L | _ => L end.

Definition publishes (x : out) : option (option vaaid * bytes) :=
  match x with Store i b => Some (Some i, b) | SendVAA b => Some (None, b) | _ => None end.

(* a VAA assembled by the node itself (emitted while handling an observation or an own-signature loopback) *)
Definition local_pub_ok (O : list origin) (L : list gset) (st : pstate) (x : out) : Prop :=
  forall i b, publishes x = Some (i, b) ->
  exists v snap chain sg g,
    In (v, snap, chain) O /\                                  (* the node observed / was injected exactly this message ... *)
    (snap = Some g \/ (snap = None /\ cur st = Some g)) /\     (* ... g = the set in force then (or, for an injection made before any set, the current one) *)
    In g L /\                                                 (* a set learned from chain *)
    b = marshal (set_sigs v sg) /\ (forall i', i = Some i' -> i' = id_of v) /\
    qvalid (set_sigs v sg) (keys g) /\                        (* quorum of distinct members of g, ascending, over the VAA's own digest *)
    (chain = true -> snap = Some g /\ gsidx v = gidx g).       (* chain observation: g is the set the VAA names *)

(* a VAA accepted from a peer / backfill *)
Definition inbound_pub_ok (st : pstate) (x : out) : Prop :=
  forall i b, publishes x = Some (i, b) ->
  exists v g id, i = Some id /\ cur st = Some g /\ b = marshal v /\ id = id_of v /\ qvalid v (keys g) /\
                 dlookup id (db st) = None.                   (* nothing was stored under that id: never a replacement *)

Definition out_c01 (O : list origin) (L : list gset) (st : pstate) (o : op) (x : out) : Prop :=
  match o with
  | Obs _ | Loopback _ => local_pub_ok O L st x
  | InboundVAA _ => inbound_pub_ok st x
  | _ => publishes x = None
  end.

(* the statement over a whole history: every output of every step *)
Fixpoint steps_c01 (st : pstate) (O : list origin) (L : list gset) (ops : list op) : Prop :=
  match ops with
  | [] => True
  | o :: t =>
    Forall (out_c01 O L st o) (snd (step st o)) /\
    steps_c01 (fst (step st o)) (origin_of st o ++ O) (learned_after L o) t
  end.

Fixpoint learned (L : list gset) (ops : list op) : list gset :=
  match ops with [] => L | o :: t => learned (learned_after L o) t end.

(* what the store holds *)
Definition stored_ok (L : list gset) (p : vaaid * bytes) : Prop :=
  exists v g, snd p = marshal v /\ fst p = id_of v /\ In g L /\ qvalid v (keys g).
End Spec.
