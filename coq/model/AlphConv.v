(* Executable model of node/pkg/alephium/utils.go (C11): the conversions from the event fields an Alephium node reports
   to the attested message.  Constants, field positions, range tests and slices come from gen/Extracted.v (regenerated
   from the Go and Ralph sources on every run).  No proofs here (proofs/AlphConvProofs.v). *)
From Coq Require Import Strings.String.
From Coq Require Import List ZArith Bool Arith.
From Coq Require Import Strings.Byte.
From WH Require Import lib.Bytes lib.Digits gen.Extracted model.Vaa.
Import ListNotations.
Open Scope Z_scope.

Definition str (s : string) : bytes := list_byte_of_string s.

(* errors of the package, as a small enum (the harness maps the Go error strings to the same codes) *)
Inductive cerr := EFieldCount | ENilByteVec | ETypeByteVec | EHex | EByte32 | ENilU256 | ETypeU256 | EBadU256
                | EUint8 | EUint16 | EUint64 | ENonceSize | EHexLen | EAttestLen | EAttestChain | EAddrLen | ENonAscii.
Inductive cres (A : Type) := COk (a : A) | CErr (e : cerr).
Arguments COk {A}. Arguments CErr {A}.

(* sdk.Val as produced by its UnmarshalJSON: at most one variant is set.  Only the two variants the event decoder reads
   carry data here; [VOther] = Bool / I256 / Address / Array, [VNil] = no variant set. *)
Inductive val := VNil | VOther | VU256 (ty v : bytes) | VByteVec (ty v : bytes).

(* ------------------------------------------------------------------ encoding/hex *)
Definition hex_val (c : byte) : option Z :=
  let x := Z_of_byte c in
  if (48 <=? x) && (x <=? 57) then Some (x - 48)
  else if (97 <=? x) && (x <=? 102) then Some (x - 87)
  else if (65 <=? x) && (x <=? 70) then Some (x - 55)
  else None.

(* hex.DecodeString: the bytes decoded before the first error, and whether the whole string was valid *)
Fixpoint hex_decode_go (s : bytes) : bytes * bool :=
  match s with
  | [] => ([], true)
  | [_] => ([], false)
  | a :: b :: t =>
    match hex_val a, hex_val b with
    | Some x, Some y => let '(r, ok) := hex_decode_go t in (byte_of_Z (16 * x + y) :: r, ok)
    | _, _ => ([], false)
    end
  end.
Definition hex_decode (s : bytes) : option bytes :=
  let '(r, ok) := hex_decode_go s in if ok then Some r else None.

Definition hex_digit (d : Z) : byte := byte_of_Z (if d <? 10 then 48 + d else 87 + d).
Definition hex_byte (c : byte) : bytes := let x := Z_of_byte c in [hex_digit (x / 16); hex_digit (x mod 16)].
Definition hex_encode (b : bytes) : bytes := flat_map hex_byte b.

(* HexToFixedSizeBytes / HexToByte32 / Byte32.ToHex *)
Definition hex_to_fixed (s : bytes) (n : nat) : cres bytes :=
  if negb (length s =? n * 2)%nat then CErr EHexLen else
  match hex_decode s with Some b => COk b | None => CErr EHex end.
Definition hex_to_byte32 (s : bytes) : cres bytes := hex_to_fixed s go_hash_length.
Definition to_hex (b : bytes) : bytes := hex_encode b.

(* go-ethereum common.HexToHash = BytesToHash (FromHex s): optional 0x, odd length padded with one '0', decoding errors
   ignored (the decoded prefix is kept), cropped from the left / left-padded to 32 bytes *)
Definition has_0x (s : bytes) : bool :=
  match s with a :: b :: _ => Byte.eqb a "0"%byte && (Byte.eqb b "x"%byte || Byte.eqb b "X"%byte) | _ => false end.
Definition from_hex (s : bytes) : bytes :=
  let s1 := if has_0x s then skipn 2 s else s in
  let s2 := if Nat.odd (length s1) then "0"%byte :: s1 else s1 in
  fst (hex_decode_go s2).
Definition bytes_to_hash (b : bytes) : bytes :=
  if (32 <? length b)%nat then skipn (length b - 32) b else repeat x00 (32 - length b) ++ b.
Definition hex_to_hash (s : bytes) : bytes := bytes_to_hash (from_hex s).

(* ------------------------------------------------------------------ math/big SetString(s, 10) *)
Definition is_digit (c : byte) : bool := let x := Z_of_byte c in (48 <=? x) && (x <=? 57).
Definition digit_val (c : byte) : Z := Z_of_byte c - 48.
Definition dec_val (ds : bytes) : Z := undigits go_u256_base (map digit_val ds).
(* optional sign, at least one digit, nothing else *)
Definition parse_dec (s : bytes) : option Z :=
  let '(neg, ds) := match s with
                    | c :: t => if Byte.eqb c "-"%byte then (true, t) else if Byte.eqb c "+"%byte then (false, t) else (false, s)
                    | [] => (false, s)
                    end in
  match ds with
  | [] => None
  | _ => if forallb is_digit ds then Some (if neg then - dec_val ds else dec_val ds) else None
  end.

(* ------------------------------------------------------------------ field accessors *)
Definition to_bytevec (f : val) : cres bytes :=
  match f with
  | VByteVec ty v =>
    if negb (bytes_eqb ty (str "ByteVec")) then CErr ETypeByteVec else
    match hex_decode v with Some b => COk b | None => CErr EHex end
  | _ => CErr ENilByteVec
  end.

Definition to_byte32 (f : val) : cres bytes :=
  match to_bytevec f with
  | CErr e => CErr e
  | COk b => if negb (length b =? go_byte32_len)%nat then CErr EByte32 else COk b
  end.

Definition to_u256 (f : val) : cres Z :=
  match f with
  | VU256 ty v =>
    if negb (bytes_eqb ty (str "U256")) then CErr ETypeU256 else
    match parse_dec v with Some x => COk x | None => CErr EBadU256 end
  | _ => CErr ENilU256
  end.

(* big.Int.Uint64(): the low 64 bits of the absolute value *)
Definition big_uint64 (x : Z) : Z := Z.abs x mod 18446744073709551616.

Definition to_uint64 (f : val) : cres Z :=
  match to_u256 f with
  | CErr e => CErr e
  | COk x => if (0 <=? x) && (x <? 18446744073709551616) then COk (big_uint64 x) else CErr EUint64
  end.
(* the range tests are the ones written in the source (go_uint8_test / go_uint16_test are generated) *)
Definition to_uint8 (f : val) : cres Z :=
  match to_u256 f with
  | CErr e => CErr e
  | COk x => if go_uint8_test x then COk (big_uint64 x mod 256) else CErr EUint8
  end.
Definition to_uint16 (f : val) : cres Z :=
  match to_u256 f with
  | CErr e => CErr e
  | COk x => if go_uint16_test x then COk (big_uint64 x mod 65536) else CErr EUint16
  end.

(* ------------------------------------------------------------------ ToWormholeMessage *)
Record wmsg := { w_txid : bytes; w_sender : bytes; w_target : Z; w_nonce : Z; w_payload : bytes; w_seq : Z; w_cl : Z }.

Definition fld (fields : list val) (i : nat) : val := nth i fields VNil.

Definition to_wormhole_message (fields : list val) (txid : bytes) : cres wmsg :=
  if negb (length fields =? go_wm_field_size)%nat then CErr EFieldCount else
  match to_byte32 (fld fields go_wm_idx_sender) with CErr e => CErr e | COk emitter =>
  match to_uint16 (fld fields go_wm_idx_target) with CErr e => CErr e | COk target =>
  match to_uint64 (fld fields go_wm_idx_seq) with CErr e => CErr e | COk sequence =>
  match to_bytevec (fld fields go_wm_idx_nonce) with CErr e => CErr e | COk nonce_bytes =>
  if negb (length nonce_bytes =? go_wm_nonce_len)%nat then CErr ENonceSize else
  match to_bytevec (fld fields go_wm_idx_payload) with CErr e => CErr e | COk payload =>
  match to_uint8 (fld fields go_wm_idx_cl) with CErr e => CErr e | COk level =>
    COk {| w_txid := txid; w_sender := emitter; w_target := target; w_nonce := unbe nonce_bytes;
           w_payload := payload; w_seq := sequence; w_cl := level |}
  end end end end end end.

(* ------------------------------------------------------------------ toMessagePublication *)
(* time.Unix(sec, nsec) normalises nsec into [0, 1e9) *)
Definition time_unix (sec nsec : Z) : Z * Z :=
  if (nsec <? 0) || (1000000000 <=? nsec) then
    let n := Z.quot nsec 1000000000 in
    let sec1 := sec + n in
    let nsec1 := nsec - n * 1000000000 in
    if nsec1 <? 0 then (sec1 - 1, nsec1 + 1000000000) else (sec1, nsec1)
  else (sec, nsec).

(* [ms] = header.Timestamp (int64, milliseconds); Go's / and % truncate toward zero *)
Definition to_message_publication (w : wmsg) (ms : Z) : msgpub :=
  let second := Z.quot ms go_ts_div in
  let milli := Z.rem ms go_ts_rem in
  let '(s, ns) := time_unix second (milli * go_ts_nsec_mul) in
  {| m_tx := hex_to_hash (w_txid w); m_ts := s; m_tns := ns; m_nonce := w_nonce w; m_seq := w_seq w; m_cl := w_cl w;
     m_echain := go_chain_id_alephium; m_tchain := w_target w; m_eaddr := w_sender w; m_payload := w_payload w |}.

(* ------------------------------------------------------------------ parseAttestToken / bytesToString *)
Definition is_nul (c : byte) : bool := Byte.eqb c x00.
Fixpoint drop_nul (l : bytes) : bytes := match l with c :: t => if is_nul c then drop_nul t else l | [] => [] end.
Definition bytes_to_string (b : bytes) : bytes := rev (drop_nul (rev (drop_nul b))).

Record token_info := { t_id : bytes; t_decimals : Z; t_symbol : bytes; t_name : bytes }.

Definition sub (l : bytes) (r : nat * nat) : bytes := firstn (snd r - fst r) (skipn (fst r) l).

Definition parse_attest_token (payload : bytes) : cres token_info :=
  if negb (length payload =? go_attest_len)%nat then CErr EAttestLen else
  if negb (unbe (sub payload go_attest_chain) =? go_chain_id_alephium mod 65536) then CErr EAttestChain else
  COk {| t_id := sub payload go_attest_tokenid;
         t_decimals := unbe (sub payload (go_attest_decimals_at, S go_attest_decimals_at));
         t_symbol := bytes_to_string (sub payload go_attest_symbol);
         t_name := bytes_to_string (sub payload go_attest_name) |}.

(* ------------------------------------------------------------------ base58 (btcutil alphabet) *)
Definition b58_alphabet : bytes := str "123456789ABCDEFGHJKLMNPQRSTUVWXYZabcdefghijkmnopqrstuvwxyz".
Definition b58_char (d : Z) : byte := nth (Z.to_nat d) b58_alphabet x00.
Fixpoint index_of (c : byte) (l : bytes) (i : Z) : option Z :=
  match l with [] => None | x :: t => if Byte.eqb x c then Some i else index_of c t (i + 1) end.
Definition b58_index (c : byte) : option Z := index_of c b58_alphabet 0.

Fixpoint count_leading (z : byte) (l : bytes) : nat :=
  match l with c :: t => if Byte.eqb c z then S (count_leading z t) else O | [] => O end.

Fixpoint map_opt {A B} (f : A -> option B) (l : list A) : option (list B) :=
  match l with
  | [] => Some []
  | a :: t => match f a, map_opt f t with Some b, Some r => Some (b :: r) | _, _ => None end
  end.

(* big.Int.Bytes(): minimal big-endian representation, empty for 0 *)
Definition min_bytes (n : Z) : bytes := if n =? 0 then [] else map byte_of_Z (to_digits 256 n).
Definition b58_digits (n : Z) : bytes := if n =? 0 then [] else map b58_char (to_digits 58 n).

Definition b58_encode (b : bytes) : bytes := repeat "1"%byte (count_leading x00 b) ++ b58_digits (unbe b).
(* any character outside the alphabet makes the result empty *)
Definition b58_decode (s : bytes) : bytes :=
  match map_opt b58_index s with
  | None => []
  | Some ds => repeat x00 (count_leading "1"%byte s) ++ min_bytes (undigits 58 ds)
  end.

(* ToContractId / ToContractAddress.  base58.Decode indexes its table by rune: strings with bytes >= 0x80 can make it
   panic; they are outside this model (explicit outcome ENonAscii, never compared with the implementation). *)
Definition to_contract_id (addr : bytes) : cres bytes :=
  if existsb (fun c => 128 <=? Z_of_byte c) addr then CErr ENonAscii else
  let d := b58_decode addr in
  if negb (length d =? go_contract_addr_len)%nat then CErr EAddrLen else COk (skipn go_contract_id_from d).

Definition to_contract_address (hexid : bytes) : cres bytes :=
  match hex_to_fixed hexid go_contract_hex_bytes with
  | CErr e => CErr e
  | COk b => COk (b58_encode (byte_of_Z go_contract_addr_prefix :: b))
  end.

(* ------------------------------------------------------------------ the contract side (generated from the Ralph sources) *)
(* attestToken: the asserts and u256ToNByte! conversions abort the transaction (None) *)
Definition attest_payload (id : bytes) (chain decimals : Z) (symbol name nonce : bytes) : option bytes :=
  if forallb (fun p => (fst p =? snd p)%nat) (ral_attest_size_asserts id symbol name nonce)
     && forallb (fun p => (0 <=? fst p) && (fst p <? 256 ^ Z.of_nat (snd p))) (ral_attest_u256_ranges chain decimals)
  then Some (ral_attest_payload id chain decimals symbol name) else None.

(* the WormholeMessage event as an Alephium node reports it: ByteVec fields as lower-case hex, U256 fields as canonical
   decimal strings, in the order of the event declaration of governance.ral *)
Definition vbytes (b : bytes) : val := VByteVec (str "ByteVec") (hex_encode b).
Definition vu256 (n : Z) : val := VU256 (str "U256") (dec n).
Definition event_fields (sender : bytes) (target sequence : Z) (nonce payload : bytes) (level : Z) : list val :=
  map (fun i => if (i =? ral_ev_idx_sender)%nat then vbytes sender
                else if (i =? ral_ev_idx_targetChainId)%nat then vu256 target
                else if (i =? ral_ev_idx_sequence)%nat then vu256 sequence
                else if (i =? ral_ev_idx_nonce)%nat then vbytes nonce
                else if (i =? ral_ev_idx_payload)%nat then vbytes payload
                else if (i =? ral_ev_idx_consistencyLevel)%nat then vu256 level
                else VNil)
      (List.seq 0%nat (length ral_event_is_u256)).
