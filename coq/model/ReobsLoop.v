(* The re-observation loop END TO END (extension X7): the recovery mechanism for a message that lacks quorum, composed from
   the component models WITHOUT changing them:

     processor cleanup tick          model/Processor.v  [step .. Cleanup]      (C14)   ObsReq chain tx  --PostObservationRequest-->
     obsvReqSendC (bounded, non-blocking post)  model/Reobserve.v [post]       (C17)
     p2p.Run's request goroutine     model/P2PVerify.v  [loop_step .. LLocalReq]  (C03/X5)  local delivery + signed publication
     p2p.Run's receive loop          model/P2PVerify.v  [loop_step .. LRecv]   (C03)   a peer's signed request, verified
     dispatcher                      model/Reobserve.v  [step]                 (C17)   window 11 min, purge every 7 min, per-chain queues
     chain watcher, re-observation   an ORACLE [watch chain request time] : the messages the watcher's re-observation path
                                     forwards (model/AlphPipeline.v [xreobserve] is an instance, proofs/ReobsLoopProofs.v)  (C08/C10)
     processor handle_message        model/Processor.v  [step .. LocalMsg]     (C02)

   One clock for everything (nanoseconds): [LClock t] makes every component read t from then on; the cleanup ticker
   (extracted period proc_tick_ns), the purge ticker (reobs_period) and the goroutines are separate events, so every
   interleaving is a history.  Which chains have a watcher queue, and who writes / reads the three request channels, is the
   wiring record read from node.go (gen/x_wiring.py); the queue capacities are the extracted constants.
   Second half: a network of such nodes (requests published by one node reach the others through an adversarial network),
   No proofs here (proofs/ReobsLoopProofs.v). *)
From Coq Require Import List ZArith Bool Arith.
From Coq Require Import Strings.Byte.
From WH Require Import lib.Bytes gen.Extracted gen.ExtractedWiring gen.ExtractedP2P model.Vaa model.Processor.
From WH Require model.P2PVerify model.Reobserve model.System.
Import ListNotations.
Open Scope Z_scope.

Module R := Reobserve.
Module G := P2PVerify.
Module S := System.

(* ------------------------------------------------------------------ the hops of the loop, as the composition assumes them *)
Record hops := { h_send : list wcomp * list wcomp;                  (* obsvReqSendC: (writers, readers) *)
                 h_recv : list wcomp * list wcomp;                  (* obsvReqC *)
                 h_chain : list (Z * list wcomp * list wcomp) }.    (* chainObsvReqC[chain] *)
Definition loop_hops : hops :=
  {| h_send := ([WAdmin; WProcessor], [WP2P]);                      (* LAdmin, LCleanup post; LPump takes *)
     h_recv := ([WP2P], [WReobserve]);                              (* LPump, LGossip deliver; the dispatcher takes *)
     h_chain := [(2, [WReobserve], [WEthWatcher]); (4, [WReobserve], [WBscWatcher]); (255, [WReobserve], [WAlphWatcher])] |}.
Definition extracted_hops : hops :=
  {| h_send := w_reobs_out extracted_wiring; h_recv := w_reobs_in extracted_wiring; h_chain := w_chain_reobs extracted_wiring |}.

(* the chains that have a watcher queue in node.go, and the queues the dispatcher of a fresh node is started with *)
Definition watched_chains : list Z := map (fun x => fst (fst x)) (w_chain_reobs extracted_wiring).
Definition node_queues : list R.queue :=
  map (fun c => {| R.q_chain := c; R.q_cap := Z.to_nat watcher_queue_size; R.q_items := [] |}) watched_chains.
Definition sendq_cap : nat := Z.to_nat obsv_req_channel_size.

(* the bound of the cadence theorem: window + purge period + retry period + cleanup ticker period (23 min 30 s) *)
Definition loop_bound : Z := reobs_window + reobs_period + proc_retry_ns + proc_tick_ns.

(* ------------------------------------------------------------------ one node *)
Record lnode := { l_proc : pstate;            (* the processor *)
                  l_p2p : G.nstate;           (* p2p: gst (current set as p2p sees it, heartbeat table) *)
                  l_disp : R.state;           (* the dispatcher: cache + watcher queues *)
                  l_sendq : list R.req;       (* obsvReqSendC *)
                  l_now : Z }.                (* what every clock of the node reads *)

Definition linit : lnode :=
  {| l_proc := init; l_p2p := G.ninit; l_disp := R.init node_queues; l_sendq := []; l_now := 0 |}.

(* processor inputs that are neither gossip nor produced by the loop itself *)
Inductive lenv := VMsg (m : msgpub)            (* a chain message from a watcher's polling path *)
                | VInject (v : vaa)            (* admin injection *)
                | VSetGS (g : gset)            (* guardian-set update (processor Run loop: p.gs = <-setC; p.gst.Set(p.gs)) *)
                | VLoop (k : nat).             (* own-signature loopback *)

Inductive lop :=
| LClock (t : Z)                                      (* time passes *)
| LCleanup                                            (* the processor's cleanup ticker fires *)
| LAdmin (r : R.req)                                  (* admin RPC SendObservationRequest *)
| LPump                                               (* p2p's obsvReqSendC goroutine takes one request *)
| LGossip (from : G.peerid) (m : G.gossip_msg obs bytes)   (* one iteration of p2p's receive loop *)
| LPurge                                              (* the dispatcher's purge ticker fires *)
| LWatch (c : Z)                                      (* the watcher of chain c takes one request and re-observes *)
| LEnv (e : lenv).

(* what a step did, component by component *)
Inductive lev :=
| EProc (o : op) (outs : list out)                    (* the processor handled o *)
| EPost (r : R.req) (res : R.postres)                 (* PostObservationRequest(obsvReqSendC, r) *)
| EPub (r : R.req)                                    (* p2p published r, signed with the node's guardian key *)
| EDisp (s : R.state) (o : R.op) (x : R.out)          (* the dispatcher, in state s, handled o *)
| EWatch (c : Z) (r : R.req) (ms : list msgpub).      (* the watcher of chain c re-observed request r: it forwards ms *)
Definition tev := (Z * lev)%type.                     (* ... and the clock reading at which it did it *)

Definition req_of_out (x : out) : list R.req :=
  match x with ObsReq c tx => [{| R.r_chain := c; R.r_tx := tx |}] | _ => [] end.

Section Node.
Variable recover : bytes -> bytes -> option bytes.
Variable keccak : bytes -> bytes.
Variable sign : bytes -> bytes.
Variable own : addr.
Variable gov_chain : Z.
Variable gov_addr : bytes.
Variable decode_hb : bytes -> option Z.
Variable decodeq : bytes -> option R.req.        (* proto.Unmarshal into gossipv1.ObservationRequest *)
Variable encq : R.req -> bytes.                  (* proto.Marshal of a gossipv1.ObservationRequest *)
Variable self : G.peerid.                        (* h.ID() *)
Variable disable : bool.                         (* Run's disableHeartbeatVerify *)
Variable watch : Z -> R.req -> Z -> list msgpub. (* watcher of chain c, request, clock reading -> forwarded messages *)

Definition pstep : pstate -> op -> pstate * list out := Processor.step recover keccak sign own gov_chain gov_addr.
Definition gstep : G.nstate -> G.levent obs bytes -> G.nstate * list (G.chan_out obs bytes) :=
  G.loop_step recover keccak decode_hb (fun b => match decodeq b with Some _ => true | None => false end) disable self.

Definition with_proc (st : lnode) (p : pstate) : lnode :=
  {| l_proc := p; l_p2p := l_p2p st; l_disp := l_disp st; l_sendq := l_sendq st; l_now := l_now st |}.
Definition with_disp (st : lnode) (d : R.state) : lnode :=
  {| l_proc := l_proc st; l_p2p := l_p2p st; l_disp := d; l_sendq := l_sendq st; l_now := l_now st |}.
Definition with_sendq (st : lnode) (q : list R.req) : lnode :=
  {| l_proc := l_proc st; l_p2p := l_p2p st; l_disp := l_disp st; l_sendq := q; l_now := l_now st |}.
Definition with_p2p (st : lnode) (g : G.nstate) : lnode :=
  {| l_proc := l_proc st; l_p2p := g; l_disp := l_disp st; l_sendq := l_sendq st; l_now := l_now st |}.

(* the processor handles a list of inputs, one after the other *)
Fixpoint feed (st : lnode) (os : list op) : lnode * list tev :=
  match os with
  | [] => (st, [])
  | o :: t => let '(p', outs) := pstep (l_proc st) o in
              let '(st', evs) := feed (with_proc st p') t in (st', (l_now st, EProc o outs) :: evs)
  end.

(* the dispatcher handles one request / tick / drain at the node's clock reading *)
Definition dispatch (st : lnode) (o : R.op) : lnode * list tev :=
  let '(d', x) := R.step (l_disp st) o in (with_disp st d', [(l_now st, EDisp (l_disp st) o x)]).
Fixpoint dispatch_all (st : lnode) (rs : list R.req) : lnode * list tev :=
  match rs with
  | [] => (st, [])
  | r :: t => let '(st1, e1) := dispatch st (R.Req r (l_now st)) in
              let '(st2, e2) := dispatch_all st1 t in (st2, e1 ++ e2)
  end.

(* PostObservationRequest for each request in turn *)
Fixpoint post_all (st : lnode) (rs : list R.req) : lnode * list tev :=
  match rs with
  | [] => (st, [])
  | r :: t => let '(q', res) := R.post sendq_cap (l_sendq st) r in
              let '(st2, e2) := post_all (with_sendq st q') t in (st2, (l_now st, EPost r res) :: e2)
  end.

(* what p2p's loop puts on obsvC / signedInC / obsvReqC *)
Definition proc_ops_of (outs : list (G.chan_out obs bytes)) : list op :=
  flat_map (fun x => match x with G.OutObs o => [Obs o] | G.OutVaa b => [InboundVAA b] | G.OutReq _ => [] end) outs.
Definition reqs_of (outs : list (G.chan_out obs bytes)) : list R.req :=
  flat_map (fun x => match x with G.OutReq b => match decodeq b with Some r => [r] | None => [] end | _ => [] end) outs.
(* the locally originated request is handed on as the very same message (`obsvReqC <- msg`), not re-decoded *)
Definition local_reqs_of (r : R.req) (outs : list (G.chan_out obs bytes)) : list R.req :=
  flat_map (fun x => match x with G.OutReq _ => [r] | _ => [] end) outs.

Definition op_of_env (e : lenv) : op :=
  match e with VMsg m => LocalMsg m | VInject v => Inject v | VSetGS g => SetGS g | VLoop k => Loopback k end.

(* handle_cleanup evaluates the tick one nanosecond after the processor's clock value; the composition sets that value to
   now - 1 for the tick, so that the tick is evaluated at exactly the node's clock reading, and back to now afterwards *)
Definition cleanup_ops (now : Z) : list op := [SetClock (now - 1); Cleanup; SetClock now].
Definition reqs_of_evs (evs : list tev) : list R.req :=
  flat_map (fun e => match snd e with EProc Cleanup outs => flat_map req_of_out outs | _ => [] end) evs.

Definition lstep (st : lnode) (o : lop) : lnode * list tev :=
  match o with
  | LClock t =>
    feed {| l_proc := l_proc st; l_p2p := l_p2p st; l_disp := l_disp st; l_sendq := l_sendq st; l_now := t |} [SetClock t]
  | LCleanup =>
    let '(st1, e1) := feed st (cleanup_ops (l_now st)) in
    let '(st2, e2) := post_all st1 (reqs_of_evs e1) in (st2, e1 ++ e2)
  | LAdmin r => post_all st [r]
  | LPump =>
    match l_sendq st with
    | [] => (st, [])
    | r :: q =>
      let '(g', outs) := gstep (l_p2p st) (G.LLocalReq (encq r)) in
      let '(st1, e1) := dispatch_all (with_p2p (with_sendq st q) g') (local_reqs_of r outs) in
      (st1, e1 ++ [(l_now st, EPub r)])
    end
  | LGossip from m =>
    let '(g', outs) := gstep (l_p2p st) (G.LRecv from m) in
    let '(st1, e1) := feed (with_p2p st g') (proc_ops_of outs) in
    let '(st2, e2) := dispatch_all st1 (reqs_of outs) in (st2, e1 ++ e2)
  | LPurge => dispatch st (R.Tick (l_now st))
  | LWatch c =>
    let '(d', x) := R.step (l_disp st) (R.Drain c) in
    let st1 := with_disp st d' in
    let e1 := (l_now st, EDisp (l_disp st) (R.Drain c) x) in
    match x with
    | R.Drained (Some r) =>
      let ms := watch c r (l_now st) in
      let '(st2, e2) := feed st1 (map LocalMsg ms) in (st2, e1 :: (l_now st, EWatch c r ms) :: e2)
    | _ => (st1, [e1])
    end
  | LEnv e =>
    let st0 := match e with VSetGS g => with_p2p st (fst (gstep (l_p2p st) (G.LSetGS (keys g)))) | _ => st end in
    feed st0 [op_of_env e]
  end.

Fixpoint lrun (st : lnode) (os : list lop) : lnode * list tev :=
  match os with
  | [] => (st, [])
  | o :: t => let '(st1, e1) := lstep st o in let '(st2, e2) := lrun st1 t in (st2, e1 ++ e2)
  end.

(* the state in which each step of a history starts *)
Fixpoint lstates (st : lnode) (os : list lop) : list (lnode * lop) :=
  match os with
  | [] => []
  | o :: t => (st, o) :: lstates (fst (lstep st o)) t
  end.

(* projections of a trace onto the components *)
Definition proc_of (tr : list tev) : list (op * list out) :=
  flat_map (fun e => match snd e with EProc o outs => [(o, outs)] | _ => [] end) tr.
Definition disp_of (tr : list tev) : list (R.state * R.op * R.out) :=
  flat_map (fun e => match snd e with EDisp s o x => [(s, o, x)] | _ => [] end) tr.

(* what the node publishes: the signed request envelope of [EPub r] *)
Definition signed_req (r : R.req) : G.gossip_msg obs bytes :=
  G.MObsReq own (encq r) (sign (keccak (p2p_req_preimage (encq r)))).
End Node.

(* ------------------------------------------------------------------ the cleanup tick of one aggregation entry *)
(* the tick at instant [now] retries the entry of digest h: a request goes out, the retry is counted *)
Definition retried_by (st : pstate) (now : Z) (h : bytes) : bool :=
  match alookup h (agg st) with
  | Some e =>
    match cleanup_entry now (in_db_of st e) (match cur st with Some _ => true | None => false end) e with
    | CKeep e' _ => retries e <? retries e'
    | _ => false
    end
  | None => false
  end.

(* ------------------------------------------------------------------ a network of nodes *)
(* gossip items on the wire: observations / VAAs (as in model/System.v) and signed re-observation requests *)
Inductive witem := WObs (o : obs) | WVaa (b : bytes) | WReq (eaddr req sig : bytes).

Inductive lnop :=
| XLocal (i : nat) (o : lop)               (* node i takes a local step *)
| XDeliver (i : nat) (from : G.peerid) (k : nat)   (* node i's receive loop gets the k-th item ever put on the wire, relayed by peer `from` *)
| XAdv (i : nat) (from : G.peerid) (w : witem).    (* ... or an item the adversary made *)

Record lnet := { x_nodes : list lnode; x_pool : list witem }.
Definition lninit (n : nat) : lnet := {| x_nodes := repeat linit n; x_pool := [] |}.

Definition gmsg_of (w : witem) : G.gossip_msg obs bytes :=
  match w with WObs o => G.MObservation o | WVaa b => G.MSignedVaa b | WReq a r s => G.MObsReq a r s end.

Section Net.
Variable recover : bytes -> bytes -> option bytes.
Variable keccak : bytes -> bytes.
Variable gov_chain : Z.
Variable gov_addr : bytes.
Variable decode_hb : bytes -> option Z.
Variable decodeq : bytes -> option R.req.
Variable encq : R.req -> bytes.
Variable disable : bool.
Variable owns : nat -> addr.
Variable signs : nat -> bytes -> bytes.
Variable selfs : nat -> G.peerid.
Variable watches : nat -> Z -> R.req -> Z -> list msgpub.

Definition nd_step (i : nat) : lnode -> lop -> lnode * list tev :=
  lstep recover keccak (signs i) (owns i) gov_chain gov_addr decode_hb decodeq encq (selfs i) disable (watches i).

(* what a node's step puts on the wire *)
Definition wire_of (i : nat) (e : tev) : list witem :=
  match snd e with
  | EProc _ outs => flat_map (fun x => match x with SendObs o => [WObs o] | SendVAA b => [WVaa b] | _ => [] end) outs
  | EPub r => [WReq (owns i) (encq r) (signs i (keccak (p2p_req_preimage (encq r))))]
  | _ => []
  end.

Definition resolve (n : lnet) (x : lnop) : option (nat * lop) :=
  match x with
  | XLocal i o => Some (i, o)
  | XDeliver i from k => match nth_error (x_pool n) k with Some w => Some (i, LGossip from (gmsg_of w)) | None => None end
  | XAdv i from w => Some (i, LGossip from (gmsg_of w))
  end.

Definition lnstep (n : lnet) (x : lnop) : lnet * list tev :=
  match resolve n x with
  | None => (n, [])
  | Some (i, o) =>
    match nth_error (x_nodes n) i with
    | None => (n, [])
    | Some st =>
      let '(st', evs) := nd_step i st o in
      ({| x_nodes := S.set_nth i st' (x_nodes n); x_pool := x_pool n ++ flat_map (wire_of i) evs |}, evs)
    end
  end.

Fixpoint lnrun (n : lnet) (xs : list lnop) : lnet * list (nat * list tev) :=
  match xs with
  | [] => (n, [])
  | x :: t => let '(n1, e1) := lnstep n x in let '(n2, es) := lnrun n1 t in
              (n2, (match resolve n x with Some (i, _) => i | None => O end, e1) :: es)
  end.

(* the local steps node i takes along a network history (deliveries resolved to the gossip message they carry) *)
Fixpoint node_ops (i : nat) (n : lnet) (xs : list lnop) : list lop :=
  match xs with
  | [] => []
  | x :: t =>
    match resolve n x with
    | Some (j, o) => if (j =? i)%nat && (j <? length (x_nodes n))%nat then o :: node_ops i (fst (lnstep n x)) t else node_ops i (fst (lnstep n x)) t
    | None => node_ops i (fst (lnstep n x)) t
    end
  end.
End Net.
