(* Executable model of the guardian-set poll of the EVM watcher and of a restart of Watcher.Run
   (node/pkg/ethereum/watcher.go: fetchCurrentGuardianSet, fetchAndUpdateGuardianSet, Run's initial fetch and 15 s ticker,
   what Run re-creates when the supervisor re-enters it on the same Watcher value; node/pkg/ethereum/poller.go: the new
   poller starts disabled) together with the processor's set update (node/pkg/processor/processor.go `case p.gs = <-p.setC`).

   The contract / node is abstract at the lower level: every answer of the two eth_calls of one fetch is an INPUT of the
   step ([gans]; the set answer is a function of the index that is asked, because the code asks for the index it has
   just read).  At the upper level ([chain]) the governance contract is what Solidity makes it: an append-only array of
   sets with the current index = last position, read by two separate calls between which further upgrades may land.
   The index comparison comes from gen/ExtractedEvmGs.v (regenerated from the source on every run).  No proofs here. *)
From Coq Require Import List ZArith Bool.
From WH Require Import gen.Extracted gen.ExtractedEvmGs model.EvmWatcher.
Import ListNotations.
Open Scope Z_scope.

(* ------------------------------------------------------------------ one fetch *)
(* K = the type of guardian keys (common.Address) *)
Record gans (K : Type) := mkGAns {
  ga_idx : option Z;                  (* ethConn.GetCurrentGuardianSetIndex(ctx): None = error *)
  ga_set : Z -> option (list K) }.    (* ethConn.GetGuardianSet(ctx, i), asked right afterwards: None = error *)
Arguments mkGAns {K}. Arguments ga_idx {K}. Arguments ga_set {K}.

Inductive gout (K : Type) :=
| GSet (ks : list K) (i : Z)          (* w.setChan <- &common.GuardianSet{Keys: gs.Keys, Index: idx} *)
| GErr.                               (* fetchAndUpdateGuardianSet returns a non-nil error *)
Arguments GSet {K}. Arguments GErr {K}.

(* `w.currentGuardianSet != nil && *(w.currentGuardianSet) == idx` *)
Definition gs_unchanged (cur : option Z) (i : Z) : bool :=
  match cur with Some c => evm_gs_same c i | None => false end.

(* fetchAndUpdateGuardianSet.  has_chan = `w.setChan != nil`; cur = w.currentGuardianSet.
   Both calls are made on every fetch (the comparison comes after them), the set is asked for the index just read. *)
Definition fetch {K} (has_chan : bool) (cur : option Z) (a : gans K) : option Z * list (gout K) :=
  match ga_idx a with
  | None => (cur, [GErr])                                   (* "error requesting current guardian set index" *)
  | Some i =>
    match ga_set a i with
    | None => (cur, [GErr])                                 (* "error requesting current guardian set value" *)
    | Some ks =>
      if gs_unchanged cur i then (cur, [])
      else (Some i, if has_chan then [GSet ks i] else [])   (* w.currentGuardianSet = &idx; send *)
    end
  end.

(* ------------------------------------------------------------------ the watcher across restarts *)
Record gcfg := mkGCfg { g_evm : cfg; g_chan : bool }.

(* what lives in the Watcher value (survives a restart of Run): w.pending, w.currentGuardianSet;
   what Run re-creates: w.ethConn = a new BlockPollConnector (enabled = false, lastBlock = the node's head at that moment) *)
Record wstate := mkW { w_pending : pending; w_cur : option Z; w_enabled : bool; w_last : Z }.

Definition winit : wstate := mkW [] None false 0.          (* NewEthWatcher *)

Inductive gop (K : Type) :=
| GFetch (a : gans K)                                      (* a tick of the guardian-set ticker goroutine *)
| GRestart (a : gans K) (h0 : Z)                           (* the supervisor (re-)enters Run; a = answers to the initial fetch; h0 = first head the new poller reads *)
| GEvm (o : op)                                            (* a log / a head / a re-observation request handled by Run's goroutines *)
| GPoll (answers : list (option Z)) (orc : key -> rans).   (* one timer tick of the block poller; orc = receipt answers during the scan of the head it publishes *)
Arguments GFetch {K}. Arguments GRestart {K}. Arguments GEvm {K}. Arguments GPoll {K}.

Inductive wout (K : Type) :=
| WSet (ks : list K) (i : Z)                               (* a value sent on setChan *)
| WDied                                                    (* Run returns an error (errC or the initial fetch): the supervisor will re-enter it *)
| WEvm (o : out).
Arguments WSet {K}. Arguments WDied {K}. Arguments WEvm {K}.

Definition wout_of_gout {K} (o : gout K) : wout K := match o with GSet ks i => WSet ks i | GErr => WDied end.
Definition wout_of_out {K} (o : out) : wout K := match o with Died => WDied | _ => WEvm o end.

(* `if len(w.pending) == 0 { w.ethConn.DisablePoller() }` *)
Definition after_scan_enabled (en : bool) (p : pending) : bool := match p with [] => false | _ => en end.

(* the log / head / re-observation goroutines on the state of the Watcher value *)
Definition evm_step {K} (c : gcfg) (s : wstate) (o : op) : wstate * list (wout K) :=
  let r := step (g_evm c) (w_pending s) o in
  let en := match o with
            | OLog _ (Some _) => true                                   (* w.ethConn.EnablePoller() after the insertion *)
            | OLog _ None => w_enabled s                                (* errC, return: nothing inserted *)
            | OHead _ _ _ => after_scan_enabled (w_enabled s) (fst r)
            | OReobs _ _ _ _ => w_enabled s
            end in
  (mkW (fst r) (w_cur s) en (w_last s), map wout_of_out (snd r)).

(* several of them one after the other (the heads one poller tick publishes) *)
Fixpoint evm_steps {K} (c : gcfg) (s : wstate) (os : list op) : wstate * list (wout K) :=
  match os with
  | [] => (s, [])
  | o :: t => let r := evm_step c s o in let r' := evm_steps c (fst r) t in (fst r', snd r ++ snd r')
  end.

(* the heads one timer tick of BlockPollConnector.run publishes (EvmWatcher.poll_tick), as operations of the head goroutine *)
Definition poll_heads (s : wstate) (answers : list (option Z)) (orc : key -> rans) : list op :=
  map (fun h : Z * bool => OHead (fst h) (snd h) orc) (snd (fst (poll_tick (w_enabled s) (w_last s) answers))).

(* Run re-entered: the new poller is off; with the guard of repo commit b274c5a it is switched on at once when messages of the
   previous Run are still pending *)
Definition restart_enabled (guard : bool) (p : pending) : bool :=
  if guard then match p with [] => false | _ => true end else false.

Definition gstep {K} (c : gcfg) (s : wstate) (o : gop K) : wstate * list (wout K) :=
  match o with
  | GFetch a =>
    let r := fetch (g_chan c) (w_cur s) a in
    (mkW (w_pending s) (fst r) (w_enabled s) (w_last s), map wout_of_gout (snd r))
  | GRestart a h0 =>
    (* w.ethConn = NewBlockPollConnector(..) (poller off), the guard `if len(w.pending) > 0 { EnablePoller() }` (repo commit
       b274c5a; its presence is read from the source), log subscription, initial fetch; w.pending and w.currentGuardianSet are
       whatever the previous Run left *)
    let r := fetch (g_chan c) (w_cur s) a in
    (mkW (w_pending s) (fst r) (restart_enabled evm_restart_enables_poller (w_pending s)) h0, map wout_of_gout (snd r))
  | GEvm o => evm_step c s o
  | GPoll answers orc =>
    let pt := poll_tick (w_enabled s) (w_last s) answers in
    let r := evm_steps c (mkW (w_pending s) (w_cur s) (w_enabled s) (fst (fst pt))) (poll_heads s answers orc) in
    (fst r, snd r ++ (if snd pt then [WDied] else []))      (* three failing polls: errFeed -> header subscription error -> errC *)
  end.

(* the same machine for either shape of Run (guard = false: the tree before repo commit b274c5a) *)
Definition gstep_gen {K} (guard : bool) (c : gcfg) (s : wstate) (o : gop K) : wstate * list (wout K) :=
  match o with
  | GFetch a =>
    let r := fetch (g_chan c) (w_cur s) a in
    (mkW (w_pending s) (fst r) (w_enabled s) (w_last s), map wout_of_gout (snd r))
  | GRestart a h0 =>
    (* w.ethConn = NewBlockPollConnector(..) (poller off), log subscription, initial fetch; w.pending and
       w.currentGuardianSet are whatever the previous Run left *)
    let r := fetch (g_chan c) (w_cur s) a in
    (mkW (w_pending s) (fst r) (restart_enabled guard (w_pending s)) h0, map wout_of_gout (snd r))
  | GEvm o => evm_step c s o
  | GPoll answers orc =>
    let pt := poll_tick (w_enabled s) (w_last s) answers in
    let r := evm_steps c (mkW (w_pending s) (w_cur s) (w_enabled s) (fst (fst pt))) (poll_heads s answers orc) in
    (fst r, snd r ++ (if snd pt then [WDied] else []))      (* three failing polls: errFeed -> header subscription error -> errC *)
  end.

Fixpoint grun_gen {K} (guard : bool) (c : gcfg) (s : wstate) (ops : list (gop K)) : wstate * list (list (wout K)) :=
  match ops with
  | [] => (s, [])
  | o :: t => let r := gstep_gen guard c s o in let r' := grun_gen guard c (fst r) t in (fst r', snd r :: snd r')
  end.

Fixpoint grun {K} (c : gcfg) (s : wstate) (ops : list (gop K)) : wstate * list (list (wout K)) :=
  match ops with
  | [] => (s, [])
  | o :: t => let r := gstep c s o in let r' := grun c (fst r) t in (fst r', snd r :: snd r')
  end.

(* the sets sent on setChan, in order *)
Definition sent_of {K} (o : wout K) : list (list K * Z) := match o with WSet ks i => [(ks, i)] | _ => [] end.
Definition sent1 {K} (l : list (wout K)) : list (list K * Z) := flat_map sent_of l.
Definition sent {K} (outs : list (list (wout K))) : list (list K * Z) := sent1 (concat outs).
(* the answers of the fetches of a history *)
Definition answers_of {K} (o : gop K) : list (gans K) := match o with GFetch a => [a] | GRestart a _ => [a] | _ => [] end.
(* what the per-head scans and the re-observations emitted *)
Definition evm_of {K} (o : wout K) : list out := match o with WEvm x => [x] | _ => [] end.
Definition evm_outs {K} (outs : list (list (wout K))) : list out := flat_map evm_of (concat outs).

(* the EVM-watcher operations that a history actually executes (a poller tick contributes the heads it publishes) *)
Definition gtrace1 {K} (s : wstate) (o : gop K) : list op :=
  match o with GEvm x => [x] | GPoll answers orc => poll_heads s answers orc | _ => [] end.
Fixpoint gtrace {K} (c : gcfg) (s : wstate) (ops : list (gop K)) : list op :=
  match ops with
  | [] => []
  | o :: t => gtrace1 s o ++ gtrace c (fst (gstep c s o)) t
  end.

(* ------------------------------------------------------------------ the governance contract as Solidity makes it *)
(* guardianSets[0..n], guardianSetIndex = n; a set, once stored, never changes its keys; an index that does not exist yet reads
   as the empty set (a mapping has no missing entries) *)
Definition chain (K : Type) := list (list K).
Definition chain_idx {K} (ch : chain K) : Z := Z.of_nat (length ch) - 1.
Definition chain_set {K} (ch : chain K) (i : Z) : list K := if i <? 0 then [] else nth (Z.to_nat i) ch [].

(* one fetch against the contract: the index call sees [ch]; the upgrades [mid] land; the set call sees [ch ++ mid];
   e1 / e2 = the respective call fails *)
Definition chain_ans {K} (ch : chain K) (mid : list (list K)) (e1 e2 : bool) : gans K :=
  mkGAns (if e1 then None else Some (chain_idx ch)) (fun i => if e2 then None else Some (chain_set (ch ++ mid) i)).

Inductive cev (K : Type) :=
| CUpgrade (ks : list K)                                             (* a guardian-set upgrade VAA is executed on chain *)
| CFetch (mid : list (list K)) (e1 e2 : bool)
| CRestart (mid : list (list K)) (e1 e2 : bool) (h0 : Z)
| COther (o : gop K).                                                (* logs, heads, re-observations, poller ticks: do not read the contract *)
Arguments CUpgrade {K}. Arguments CFetch {K}. Arguments CRestart {K}. Arguments COther {K}.

Definition is_fetch {K} (o : gop K) : bool := match o with GFetch _ | GRestart _ _ => true | _ => false end.

(* the watcher operation an event amounts to, and the contract afterwards *)
Definition cev_op {K} (ch : chain K) (e : cev K) : option (gop K) * chain K :=
  match e with
  | CUpgrade ks => (None, ch ++ [ks])
  | CFetch mid e1 e2 => (Some (GFetch (chain_ans ch mid e1 e2)), ch ++ mid)
  | CRestart mid e1 e2 h0 => (Some (GRestart (chain_ans ch mid e1 e2) h0), ch ++ mid)
  | COther o => ((if is_fetch o then None else Some o), ch)
  end.

Fixpoint crun {K} (c : gcfg) (ch : chain K) (s : wstate) (evs : list (cev K)) : chain K * wstate * list (list (wout K)) :=
  match evs with
  | [] => (ch, s, [])
  | e :: t =>
    let '(o, ch1) := cev_op ch e in
    let r := match o with Some o' => gstep c s o' | None => (s, []) end in
    let '(ch2, s2, outs) := crun c ch1 (fst r) t in
    (ch2, s2, snd r :: outs)
  end.

(* ------------------------------------------------------------------ the processor's side: `case p.gs = <-p.setC` *)
(* the value the processor holds after receiving, in order, what was sent (setC is the only writer of p.gs) *)
Definition last_set {K} (init : option (list K * Z)) (l : list (list K * Z)) : option (list K * Z) :=
  fold_left (fun _ g => Some g) l init.
