(* Executable model of node/pkg/db/db.go (store, lookup, gap scan, governance batch), of the key functions of
   node/pkg/vaa/structs.go (VAAID.Bytes / GovernanceEmitterPrefixBytes / EmitterPrefixBytes), of the three public RPC
   lookups (node/pkg/publicrpc/publicrpcserver.go) and of FindMissingMessages (node/cmd/guardiand/adminserver.go).
   The key formats, the prefix the gap scan uses and the batch limit are GENERATED from the source (gen/x_db.py).
   The store is an ordered key/value list (badger: bytewise key order, one live version per key); iteration is
   Seek(prefix) followed by Next() while ValidForPrefix(prefix), exactly as db.go drives the iterator.
   No proofs here (proofs/DbProofs.v). *)
From Coq Require Import List ZArith NArith Bool Arith.
From Coq Require Import Strings.Byte.
From WH Require Import lib.Bytes lib.Digits lib.KeyFmt gen.Extracted model.Vaa.
Import ListNotations.
Open Scope Z_scope.

(* ------------------------------------------------------------------ identifiers and keys *)
Record vid := { i_ec : Z; i_ea : bytes; i_tc : Z; i_seq : Z }.

Definition id_of (v : vaa) : vid := {| i_ec := echain v; i_ea := eaddr v; i_tc := tchain v; i_seq := seq v |}.

(* hex.EncodeToString: two lower-case digits per byte *)
Definition hexd (n : N) : byte :=
  match n with
  | 0 => x30 | 1 => x31 | 2 => x32 | 3 => x33 | 4 => x34 | 5 => x35 | 6 => x36 | 7 => x37
  | 8 => x38 | 9 => x39 | 10 => x61 | 11 => x62 | 12 => x63 | 13 => x64 | 14 => x65 | _ => x66
  end%N.
Definition hexb (x : byte) : bytes := let n := Byte.to_N x in [hexd (N.shiftr n 4); hexd (N.land n 15)].
Definition hex (b : bytes) : bytes := flat_map hexb b.

Definition render_frag (i : vid) (f : kfrag) : bytes :=
  match f with
  | KLit s => s
  | KEChain => dec (i_ec i)
  | KEAddr => hex (i_ea i)
  | KTChain => dec (i_tc i)
  | KSeq => dec (i_seq i)
  end.
Definition render (fmt : list kfrag) (i : vid) : bytes := flat_map (render_frag i) fmt.

Definition key (i : vid) : bytes := render db_key_fmt i.
Definition gov_prefix (c : Z) (a : bytes) : bytes := render db_gov_prefix_fmt {| i_ec := c; i_ea := a; i_tc := 0; i_seq := 0 |}.
Definition emitter_prefix (c : Z) (a : bytes) (t : Z) : bytes :=
  render db_emitter_prefix_fmt {| i_ec := c; i_ea := a; i_tc := t; i_seq := 0 |}.
(* what FindEmitterSequenceGap seeks / validates with *)
Definition gap_prefix (c : Z) (a : bytes) (t : Z) : bytes := emitter_prefix c a t ++ db_gap_prefix_suffix.

(* ------------------------------------------------------------------ bytewise order of keys *)
Definition bcmp (x y : byte) : comparison := N.compare (Byte.to_N x) (Byte.to_N y).
Fixpoint bytes_cmp (a b : bytes) : comparison :=
  match a, b with
  | [], [] => Eq
  | [], _ :: _ => Lt
  | _ :: _, [] => Gt
  | x :: a', y :: b' => match bcmp x y with Eq => bytes_cmp a' b' | c => c end
  end.

(* bytes.HasPrefix(k, p) *)
Fixpoint prefix_of (p k : bytes) : bool :=
  match p, k with
  | [], _ => true
  | x :: p', y :: k' => match bcmp x y with Eq => prefix_of p' k' | _ => false end
  | _ :: _, [] => false
  end.

(* ------------------------------------------------------------------ the store: ordered by key, one value per key *)
Definition store := list (bytes * bytes).

Fixpoint get (s : store) (k : bytes) : option bytes :=
  match s with
  | [] => None
  | (k', v) :: r => match bytes_cmp k k' with Eq => Some v | _ => get r k end
  end.
(* txn.Set: the new value replaces the old one *)
Fixpoint put (s : store) (k v : bytes) : store :=
  match s with
  | [] => [(k, v)]
  | (k', v') :: r =>
    match bytes_cmp k k' with
    | Lt => (k, v) :: s
    | Eq => (k, v) :: r
    | Gt => (k', v') :: put r k v
    end
  end.

(* StoreSignedVAA: panics on an unsigned VAA, otherwise one Set of Marshal(v) under VaaIDFromVAA(v).Bytes() *)
Inductive sres := Stored (s : store) | StorePanic.
Definition store_vaa (s : store) (v : vaa) : sres :=
  match sigs v with
  | [] => StorePanic
  | _ => Stored (put s (key (id_of v)) (marshal v))
  end.

(* a whole history of stores (panicking calls leave the store unchanged) *)
Definition store_step (s : store) (v : vaa) : store := match store_vaa s v with Stored s' => s' | StorePanic => s end.
Definition store_all (s : store) (vs : list vaa) : store := fold_left store_step vs s.

(* GetSignedVAABytes *)
Inductive lres := Found (b : bytes) | NotFound.
Definition get_signed_vaa_bytes (s : store) (i : vid) : lres :=
  match get s (key i) with Some b => Found b | None => NotFound end.

(* ------------------------------------------------------------------ prefix iteration (badger iterator) *)
(* it.Seek(p): the first item whose key is >= p *)
Fixpoint seek (p : bytes) (s : store) : store :=
  match s with
  | [] => []
  | (k, v) :: r => match bytes_cmp k p with Lt => seek p r | _ => s end
  end.
(* it.ValidForPrefix(p) ... it.Next(): the items from here on, up to the first whose key does not start with p *)
Fixpoint while_prefix (p : bytes) (s : store) : store :=
  match s with
  | [] => []
  | (k, v) :: r => if prefix_of p k then (k, v) :: while_prefix p r else []
  end.
Definition scan (p : bytes) (s : store) : store := while_prefix p (seek p s).

(* ------------------------------------------------------------------ FindEmitterSequenceGap *)
Inductive gapres :=
| GapOk (resp : list Z) (first last : Z)
| GapErr        (* a value under the prefix does not unmarshal *)
| GapLoop.      (* lastSeq = 2^64-1: `for i := firstSeq; i <= lastSeq; i++` never terminates *)

(* the sequences are read from the stored VAAs, not from the keys *)
Fixpoint gap_seqs (items : store) : option (list Z) :=
  match items with
  | [] => Some []
  | (_, v) :: r =>
    match unmarshal v with
    | Err _ => None
    | Ok w => match gap_seqs r with None => None | Some l => Some (seq w :: l) end
    end
  end.

Fixpoint zrange (n : nat) (from : Z) : list Z :=
  match n with O => [] | S k => from :: zrange k (from + 1) end.

Definition max_seq (l : list Z) : Z := fold_left Z.max l 0.
Definition zmem (i : Z) (l : list Z) : bool := existsb (Z.eqb i) l.

(* `first := false` in db.go: firstSeq keeps its zero value (k < firstSeq is never true for a uint64); pinned by
   TestFindEmitterSequenceGap *)
Definition gap_of (seqs : list Z) : gapres :=
  let first := 0 in
  let last := max_seq seqs in
  if last =? 2 ^ 64 - 1 then GapLoop else
  GapOk (filter (fun i => negb (zmem i seqs)) (zrange (Z.to_nat (last - first + 1)) first)) first last.

Definition find_gap (s : store) (c : Z) (a : bytes) (t : Z) : gapres :=
  match gap_seqs (scan (gap_prefix c a t) s) with
  | None => GapErr
  | Some seqs => gap_of seqs
  end.

(* ------------------------------------------------------------------ GetGovernanceVAABatch *)
Definition is_slash (x : byte) : bool := match bcmp x slash with Eq => true | _ => false end.
Fixpoint last_index_from (l : bytes) (i : nat) (acc : option nat) : option nat :=
  match l with
  | [] => acc
  | x :: t => last_index_from t (S i) (if is_slash x then Some i else acc)
  end.
(* strings.LastIndex(s, "/") *)
Definition last_slash (l : bytes) : option nat := last_index_from l O None.

(* strconv.ParseUint(s, 10, bits): non-empty, decimal digits only, value below 2^bits *)
Fixpoint parse_digits (l : bytes) (acc : Z) : option Z :=
  match l with
  | [] => Some acc
  | x :: t => let d := Z_of_byte x - 48 in
              if (0 <=? d) && (d <? 10) then parse_digits t (acc * 10 + d) else None
  end.
Definition parse_uint (bits : Z) (l : bytes) : option Z :=
  match l with
  | [] => None
  | _ => match parse_digits l 0 with
         | Some n => if n <? 2 ^ bits then Some n else None
         | None => None
         end
  end.

Record goventry := { g_tc : Z; g_seq : Z; g_bytes : bytes }.
Inductive govres := GovOk (l : list goventry) | GovErr.

(* one iteration of the loop body: None = return err, Some None = continue, Some (Some e) = append e *)
Definition gov_item (seqs : list Z) (k v : bytes) : option (option goventry) :=
  match last_slash k with
  | None => None
  | Some si =>
    match parse_uint db_gov_seq_bits (skipn (S si) k) with
    | None => None
    | Some q =>
      if negb (zmem q seqs) then Some None else
      match last_slash (firstn si k) with
      | None => None
      | Some ti =>
        match parse_uint db_gov_tc_bits (skipn (S ti) (firstn si k)) with
        | None => None
        | Some t => Some (Some {| g_tc := t; g_seq := q; g_bytes := v |})
        end
      end
    end
  end.

Fixpoint gov_loop (seqs : list Z) (items : store) : option (list goventry) :=
  match items with
  | [] => Some []
  | (k, v) :: r =>
    match gov_item seqs k v with
    | None => None
    | Some oe =>
      match gov_loop seqs r with
      | None => None
      | Some l => Some (match oe with Some e => e :: l | None => l end)
      end
    end
  end.

Definition gov_batch (s : store) (c : Z) (a : bytes) (seqs : list Z) : govres :=
  match gov_loop seqs (scan (gov_prefix c a) s) with Some l => GovOk l | None => GovErr end.

(* ------------------------------------------------------------------ public RPC (publicrpcserver.go) *)
Inductive rpcerr := RInvalidArgument | RNotFound | RInternal.
Inductive rpcres (A : Type) := ROk (a : A) | RErr (e : rpcerr).
Arguments ROk {A}. Arguments RErr {A}.

(* hex.DecodeString: even length, digits 0-9 a-f A-F *)
Definition unhexdigit (x : byte) : option Z :=
  let z := Z_of_byte x in
  if (48 <=? z) && (z <=? 57) then Some (z - 48)
  else if (97 <=? z) && (z <=? 102) then Some (z - 87)
  else if (65 <=? z) && (z <=? 70) then Some (z - 55)
  else None.
Fixpoint unhex (l : bytes) : option bytes :=
  match l with
  | [] => Some []
  | [_] => None
  | x :: y :: t =>
    match unhexdigit x, unhexdigit y, unhex t with
    | Some h, Some lo, Some r => Some (byte_of_Z (h * 16 + lo) :: r)
    | _, _, _ => None
    end
  end.

(* decodeEmitterAddress *)
Definition decode_emitter (ahex : bytes) : option bytes :=
  match unhex ahex with
  | Some a => if (length a =? 32)%nat then Some a else None
  | None => None
  end.

(* vaa.ChainID(x) for a 32-bit protobuf number: the uint16 conversion wraps *)
Definition chain16 (x : Z) : Z := x mod 65536.

Definition rpc_id (ec : Z) (a : bytes) (tc sq : Z) : vid := {| i_ec := chain16 ec; i_ea := a; i_tc := chain16 tc; i_seq := sq |}.

Definition rpc_get_signed_vaa (s : store) (ec : Z) (ahex : bytes) (tc : Z) (sq : Z) : rpcres bytes :=
  match decode_emitter ahex with
  | None => RErr RInvalidArgument
  | Some a =>
    match get_signed_vaa_bytes s (rpc_id ec a tc sq) with
    | Found b => ROk b
    | NotFound => RErr RNotFound
    end
  end.

(* the loop of GetNonGovernanceVAABatch: absent sequences are skipped *)
Definition batch_lookup (s : store) (ec : Z) (a : bytes) (tc : Z) (seqs : list Z) : list (Z * bytes) :=
  flat_map (fun q => match get_signed_vaa_bytes s (rpc_id ec a tc q) with Found b => [(q, b)] | NotFound => [] end) seqs.

Definition rpc_nongov_batch (s : store) (ec : Z) (ahex : bytes) (tc : Z) (seqs : list Z) : rpcres (list (Z * bytes)) :=
  if rpc_max_batch <? Z.of_nat (length seqs) then RErr RInvalidArgument else
  match decode_emitter ahex with
  | None => RErr RInvalidArgument
  | Some a => ROk (batch_lookup s ec a tc seqs)
  end.

Definition rpc_gov_batch (s : store) (govc : Z) (gova : bytes) (seqs : list Z) : rpcres (list goventry) :=
  if rpc_max_batch <? Z.of_nat (length seqs) then RErr RInvalidArgument else
  match gov_batch s govc gova seqs with
  | GovOk l => ROk l
  | GovErr => RErr RInternal
  end.

(* ------------------------------------------------------------------ FindMissingMessages (adminserver.go) *)
(* copy(emitterAddress[:], b): left-aligned, zero-filled, cut at 32 *)
Definition copy32 (b : bytes) : bytes := firstn 32 (b ++ repeat x00 32).

Inductive missres :=
| MissOk (ids : list bytes) (first last : Z)
| MissErr (e : rpcerr)
| MissLoop.

(* fmt.Sprintf("%d/%s/%d/%d", req.EmitterChain, emitterAddress, req.TargetChain, v): the request's numbers, unwrapped *)
Definition msg_id_prefix (ec : Z) (a : bytes) (tc : Z) : bytes := dec ec ++ [slash] ++ hex a ++ [slash] ++ dec tc ++ [slash].

Definition find_missing (s : store) (ec : Z) (ahex : bytes) (tc : Z) : missres :=
  match unhex ahex with
  | None => MissErr RInvalidArgument
  | Some b =>
    let a := copy32 b in
    match find_gap s (chain16 ec) a (chain16 tc) with
    | GapErr => MissErr RInternal
    | GapLoop => MissLoop
    | GapOk ids first last =>
      let pre := msg_id_prefix ec a tc in
      MissOk (map (fun q => pre ++ dec q) ids) first last
    end
  end.
