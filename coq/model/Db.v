(* Executable model of node/pkg/db/db.go (store, lookup, gap scan, governance batch), of the key functions of
   node/pkg/vaa/structs.go (VAAID.Bytes / GovernanceEmitterPrefixBytes / EmitterPrefixBytes), of the three public RPC
   lookups (node/pkg/publicrpc/publicrpcserver.go) and of FindMissingMessages (node/cmd/guardiand/adminserver.go).
   The key formats, the prefix the gap scan uses and the batch limit are GENERATED from the source (gen/x_db.py).
   No proofs here (proofs/DbProofs.v). *)
From Coq Require Import List ZArith Bool Arith.
From Coq Require Import Strings.Byte.
From WH Require Import lib.Bytes lib.Digits lib.KeyFmt gen.Extracted model.Vaa.
Import ListNotations.
Open Scope Z_scope.

(* ------------------------------------------------------------------ identifiers and keys *)
Record vid := { i_ec : Z; i_ea : bytes; i_tc : Z; i_seq : Z }.

Definition id_of (v : vaa) : vid := {| i_ec := echain v; i_ea := eaddr v; i_tc := tchain v; i_seq := seq v |}.

(* hex.EncodeToString: two lower-case digits per byte *)
Definition hexdigit (n : Z) : byte := byte_of_Z (if n <? 10 then 48 + n else 87 + n).
Definition hex (b : bytes) : bytes :=
  flat_map (fun x => [hexdigit (Z_of_byte x / 16); hexdigit (Z_of_byte x mod 16)]) b.

Definition render_frag (i : vid) (f : kfrag) : bytes :=
  match f with
  | KLit s => s
  | KEChain => dec (i_ec i)
  | KEAddr => hex (i_ea i)
  | KTChain => dec (i_tc i)
  | KSeq => dec (i_seq i)
  end.
Definition render (fmt : list kfrag) (i : vid) : bytes := flat_map (render_frag i) fmt.

Definition key (i : vid) : bytes := render db_key_fmt i.
Definition gov_prefix (c : Z) (a : bytes) : bytes := render db_gov_prefix_fmt {| i_ec := c; i_ea := a; i_tc := 0; i_seq := 0 |}.
Definition emitter_prefix (c : Z) (a : bytes) (t : Z) : bytes :=
  render db_emitter_prefix_fmt {| i_ec := c; i_ea := a; i_tc := t; i_seq := 0 |}.
(* what FindEmitterSequenceGap seeks / validates with *)
Definition gap_prefix (c : Z) (a : bytes) (t : Z) : bytes := emitter_prefix c a t ++ db_gap_prefix_suffix.

(* ------------------------------------------------------------------ the store: finite map, last write wins *)
Definition store := list (bytes * bytes).   (* newest first *)

Fixpoint get (s : store) (k : bytes) : option bytes :=
  match s with
  | [] => None
  | (k', v) :: r => if bytes_eqb k k' then Some v else get r k
  end.
Definition put (s : store) (k v : bytes) : store := (k, v) :: s.

(* StoreSignedVAA: panics on an unsigned VAA, otherwise one Set of Marshal(v) under VaaIDFromVAA(v).Bytes() *)
Inductive sres := Stored (s : store) | StorePanic.
Definition store_vaa (s : store) (v : vaa) : sres :=
  match sigs v with
  | [] => StorePanic
  | _ => Stored (put s (key (id_of v)) (marshal v))
  end.

(* a whole history of stores (panicking calls leave the store unchanged) *)
Fixpoint store_all (s : store) (vs : list vaa) : store :=
  match vs with
  | [] => s
  | v :: r => store_all (match store_vaa s v with Stored s' => s' | StorePanic => s end) r
  end.

(* GetSignedVAABytes *)
Inductive lres := Found (b : bytes) | NotFound.
Definition get_signed_vaa_bytes (s : store) (i : vid) : lres :=
  match get s (key i) with Some b => Found b | None => NotFound end.

(* ------------------------------------------------------------------ ordered prefix iteration (badger iterator) *)
Fixpoint prefix_of (p k : bytes) : bool :=
  match p, k with
  | [], _ => true
  | x :: p', y :: k' => Byte.eqb x y && prefix_of p' k'
  | _ :: _, [] => false
  end.

(* bytewise lexicographic order of keys *)
Fixpoint bytes_leb (a b : bytes) : bool :=
  match a, b with
  | [], _ => true
  | _ :: _, [] => false
  | x :: a', y :: b' =>
    if Z_of_byte x <? Z_of_byte y then true else if Z_of_byte y <? Z_of_byte x then false else bytes_leb a' b'
  end.
Fixpoint insert_sorted (k : bytes) (l : list bytes) : list bytes :=
  match l with
  | [] => [k]
  | x :: t => if bytes_leb k x then k :: l else x :: insert_sorted k t
  end.
Fixpoint isort (l : list bytes) : list bytes :=
  match l with [] => [] | k :: t => insert_sorted k (isort t) end.
Fixpoint dedupe (l : list bytes) : list bytes :=
  match l with
  | [] => []
  | k :: t => if existsb (bytes_eqb k) t then dedupe t else k :: dedupe t
  end.
Definition sorted_keys (s : store) : list bytes := isort (dedupe (map fst s)).

(* Seek(p); ValidForPrefix(p); Next(): the live items whose key starts with p, in key order *)
Definition scan (p : bytes) (s : store) : list (bytes * bytes) :=
  flat_map (fun k => match get s k with Some v => [(k, v)] | None => [] end)
           (filter (prefix_of p) (sorted_keys s)).

(* ------------------------------------------------------------------ FindEmitterSequenceGap *)
Inductive gapres :=
| GapOk (resp : list Z) (first last : Z)
| GapErr        (* a value under the prefix does not unmarshal *)
| GapLoop.      (* lastSeq = 2^64-1: `for i := firstSeq; i <= lastSeq; i++` never terminates *)

(* the sequences are read from the stored VAAs, not from the keys *)
Fixpoint gap_seqs (items : list (bytes * bytes)) : option (list Z) :=
  match items with
  | [] => Some []
  | (_, v) :: r =>
    match unmarshal v with
    | Err _ => None
    | Ok w => match gap_seqs r with None => None | Some l => Some (seq w :: l) end
    end
  end.

Fixpoint zrange (n : nat) (from : Z) : list Z :=
  match n with O => [] | S k => from :: zrange k (from + 1) end.

Definition max_seq (l : list Z) : Z := fold_left Z.max l 0.

(* `first := false` in db.go: firstSeq keeps its zero value (k < firstSeq is never true for a uint64); pinned by
   TestFindEmitterSequenceGap *)
Definition find_gap (s : store) (c : Z) (a : bytes) (t : Z) : gapres :=
  match gap_seqs (scan (gap_prefix c a t) s) with
  | None => GapErr
  | Some seqs =>
    let first := 0 in
    let last := max_seq seqs in
    if last =? 2 ^ 64 - 1 then GapLoop else
    GapOk (filter (fun i => negb (existsb (Z.eqb i) seqs)) (zrange (Z.to_nat (last - first + 1)) first)) first last
  end.

(* ------------------------------------------------------------------ GetGovernanceVAABatch *)
Fixpoint last_index_from (c : byte) (l : bytes) (i : nat) (acc : option nat) : option nat :=
  match l with
  | [] => acc
  | x :: t => last_index_from c t (S i) (if Byte.eqb x c then Some i else acc)
  end.
(* strings.LastIndex(s, "/") *)
Definition last_index (c : byte) (l : bytes) : option nat := last_index_from c l O None.

(* strconv.ParseUint(s, 10, bits): non-empty, decimal digits only, value below 2^bits *)
Fixpoint parse_digits (l : bytes) (acc : Z) : option Z :=
  match l with
  | [] => Some acc
  | x :: t => let d := Z_of_byte x - 48 in
              if (0 <=? d) && (d <? 10) then parse_digits t (acc * 10 + d) else None
  end.
Definition parse_uint (bits : Z) (l : bytes) : option Z :=
  match l with
  | [] => None
  | _ => match parse_digits l 0 with
         | Some n => if n <? 2 ^ bits then Some n else None
         | None => None
         end
  end.

Record goventry := { g_tc : Z; g_seq : Z; g_bytes : bytes }.
Inductive govres := GovOk (l : list goventry) | GovErr.

Fixpoint gov_loop (seqs : list Z) (items : list (bytes * bytes)) : option (list goventry) :=
  match items with
  | [] => Some []
  | (k, v) :: r =>
    match last_index slash k with
    | None => None
    | Some si =>
      match parse_uint 64 (skipn (S si) k) with
      | None => None
      | Some q =>
        if negb (existsb (Z.eqb q) seqs) then gov_loop seqs r else
        match last_index slash (firstn si k) with
        | None => None
        | Some ti =>
          match parse_uint 16 (skipn (S ti) (firstn si k)) with
          | None => None
          | Some t =>
            match gov_loop seqs r with
            | None => None
            | Some l => Some ({| g_tc := t; g_seq := q; g_bytes := v |} :: l)
            end
          end
        end
      end
    end
  end.

Definition gov_batch (s : store) (c : Z) (a : bytes) (seqs : list Z) : govres :=
  match gov_loop seqs (scan (gov_prefix c a) s) with Some l => GovOk l | None => GovErr end.

(* ------------------------------------------------------------------ public RPC (publicrpcserver.go) *)
Inductive rpcerr := RInvalidArgument | RNotFound | RInternal.
Inductive rpcres (A : Type) := ROk (a : A) | RErr (e : rpcerr).
Arguments ROk {A}. Arguments RErr {A}.

(* hex.DecodeString: even length, digits 0-9 a-f A-F *)
Definition unhexdigit (x : byte) : option Z :=
  let z := Z_of_byte x in
  if (48 <=? z) && (z <=? 57) then Some (z - 48)
  else if (97 <=? z) && (z <=? 102) then Some (z - 87)
  else if (65 <=? z) && (z <=? 70) then Some (z - 55)
  else None.
Fixpoint unhex (l : bytes) : option bytes :=
  match l with
  | [] => Some []
  | [_] => None
  | x :: y :: t =>
    match unhexdigit x, unhexdigit y, unhex t with
    | Some h, Some lo, Some r => Some (byte_of_Z (h * 16 + lo) :: r)
    | _, _, _ => None
    end
  end.

(* decodeEmitterAddress *)
Definition decode_emitter (ahex : bytes) : option bytes :=
  match unhex ahex with
  | Some a => if (length a =? 32)%nat then Some a else None
  | None => None
  end.

(* vaa.ChainID(x) for a 32-bit protobuf number: the uint16 conversion wraps *)
Definition chain16 (x : Z) : Z := x mod 65536.

Definition rpc_get_signed_vaa (s : store) (ec : Z) (ahex : bytes) (tc : Z) (sq : Z) : rpcres bytes :=
  match decode_emitter ahex with
  | None => RErr RInvalidArgument
  | Some a =>
    match get_signed_vaa_bytes s {| i_ec := chain16 ec; i_ea := a; i_tc := chain16 tc; i_seq := sq |} with
    | Found b => ROk b
    | NotFound => RErr RNotFound
    end
  end.

Definition rpc_nongov_batch (s : store) (ec : Z) (ahex : bytes) (tc : Z) (seqs : list Z) : rpcres (list (Z * bytes)) :=
  if rpc_max_batch <? Z.of_nat (length seqs) then RErr RInvalidArgument else
  match decode_emitter ahex with
  | None => RErr RInvalidArgument
  | Some a =>
    ROk (flat_map (fun q => match get_signed_vaa_bytes s {| i_ec := chain16 ec; i_ea := a; i_tc := chain16 tc; i_seq := q |} with
                            | Found b => [(q, b)] | NotFound => [] end) seqs)
  end.

Definition rpc_gov_batch (s : store) (govc : Z) (gova : bytes) (seqs : list Z) : rpcres (list goventry) :=
  if rpc_max_batch <? Z.of_nat (length seqs) then RErr RInvalidArgument else
  match gov_batch s govc gova seqs with
  | GovOk l => ROk l
  | GovErr => RErr RInternal
  end.

(* ------------------------------------------------------------------ FindMissingMessages (adminserver.go) *)
(* copy(emitterAddress[:], b): left-aligned, zero-filled, cut at 32 *)
Definition copy32 (b : bytes) : bytes := firstn 32 (b ++ repeat x00 32).

Inductive missres :=
| MissOk (ids : list bytes) (first last : Z)
| MissErr (e : rpcerr)
| MissLoop.

Definition find_missing (s : store) (ec : Z) (ahex : bytes) (tc : Z) : missres :=
  match unhex ahex with
  | None => MissErr RInvalidArgument
  | Some b =>
    let a := copy32 b in
    match find_gap s (chain16 ec) a (chain16 tc) with
    | GapErr => MissErr RInternal
    | GapLoop => MissLoop
    | GapOk ids first last =>
      (* fmt.Sprintf("%d/%s/%d/%d", req.EmitterChain, emitterAddress, req.TargetChain, v): the request's numbers, unwrapped *)
      MissOk (map (fun q => dec ec ++ [slash] ++ hex a ++ [slash] ++ dec tc ++ [slash] ++ dec q) ids) first last
    end
  end.
