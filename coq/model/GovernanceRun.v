(* Comparator used by the generated run/cases_C15_*.v files: expands the compact request descriptions of the Go harness
   (harness/guardiand/zz_verif_c15_test.go), runs the model of model/Governance.v on them and compares outcome, error
   kind and every produced VAA (checksum of its Marshal output, payload length) with what the implementation did.
   Differential-testing aid only; no theorem depends on it. *)
From Coq Require Import Strings.String.
From Coq Require Import List ZArith Bool Arith.
From Coq Require Import Strings.Byte.
From WH Require Import lib.Bytes lib.Wire lib.Ralph gen.Extracted gen.ExtractedGov model.Vaa model.AlphConv model.Governance.
Import ListNotations.
Import ExtractedGov.RalGov.
Open Scope Z_scope.

(* a string field: raw prefix ++ hex encoding (upper case if up) of the n bytes byte(a + i*b) ++ raw suffix *)
Definition upcase (c : byte) : byte := let x := Z_of_byte c in if (97 <=? x) && (x <=? 102) then byte_of_Z (x - 32) else c.
Fixpoint gen_from {A} (fuel : nat) (i : Z) (f : Z -> A) : list A :=
  match fuel with O => [] | S k => f i :: gen_from k (i + 1) f end.
Definition gen_bytes (n a b : Z) : bytes := gen_from (Z.to_nat n) 0 (fun i => byte_of_Z (a + i * b)).
Definition vs (pre : bytes) (n a b : Z) (up : bool) (suf : bytes) : bytes :=
  let h := hex_encode (gen_bytes n a b) in pre ++ (if up then map upcase h else h) ++ suf.
(* sequences: l ++ [(a + i*b) mod 2^64 | i < n] *)
Definition vseqs (l : list Z) (n a b : Z) : list Z :=
  l ++ gen_from (Z.to_nat n) 0 (fun i => (a + i * b) mod 18446744073709551616).

(* one message: kind 0 guardian_set 1 message_fee 2 transfer_fee 3 contract_upgrade 4 register_chain 5 bridge_upgrade
   6 destroy 7 min_level 8 refund 9 unset; s1 / s2 / x / keys / seqs as in the harness's vMsg *)
Inductive cmsg := CM (kind nonce sq tchain : Z) (keys : list bytes) (s1 s2 : bytes) (x : Z) (seqs : list Z).

Definition payload_of (m : cmsg) : gov_payload :=
  let '(CM kind _ _ _ keys s1 s2 x seqs) := m in
  if kind =? 0 then PGuardianSet keys else if kind =? 1 then PMessageFee s1 else if kind =? 2 then PTransferFee s1 s2
  else if kind =? 3 then PContractUpgrade s1 else if kind =? 4 then PRegisterChain s1 x s2 else if kind =? 5 then PBridgeUpgrade s1 s2
  else if kind =? 6 then PDestroy x seqs else if kind =? 7 then PMinLevel x else if kind =? 8 then PRefund s1 else PUnset.

Definition msg_of (m : cmsg) : gov_msg :=
  let '(CM _ nonce sq tchain _ _ _ _ _) := m in {| gm_seq := sq; gm_nonce := nonce; gm_tchain := tchain; gm_payload := payload_of m |}.

Definition ecode (e : gerr) : Z :=
  match e with GTargetChain => 1 | GGsEmpty => 2 | GGsTooMany => 3 | GGsPubkey => 4 | GGsDup => 5 | GFeeLen => 6 | GFeeHex => 7 | GAmountLen => 8
  | GRecipientLen => 9 | GAmountHex => 10 | GRecipientHex => 11 | GPayloadHex => 12 | GChainId => 13 | GEmitterHex => 14 | GEmitterLen => 15
  | GRefundHex => 16 | GModuleLen => 17 | GEmitterChain => 18 | GTooManySeqs => 19 | GLevel => 20 | GRefundLen => 21 | GUnset => 22 end.

(* a produced VAA as the harness recorded it: checksum of its Marshal output, payload length *)
Definition same_vaa (v : vaa) (r : Z * Z) : bool := (hash_bytes (marshal v) =? fst r) && (Z.of_nat (length (payload v)) =? snd r).
Fixpoint same_vaas (vl : list vaa) (rs : list (Z * Z)) : bool :=
  match vl, rs with [], [] => true | v :: vt, r :: rt => same_vaa v r && same_vaas vt rt | _, _ => false end.

(* out: 0 ok, 1 error (err = ecode), 2 panic *)
Inductive case :=
| CDirect (gchain : Z) (gaddr : bytes) (ts gsi : Z) (m : cmsg) (out err : Z) (sent : list (Z * Z))
| CInject (gchain : Z) (gaddr : bytes) (ts gsi : Z) (ms : list cmsg) (out err : Z) (sent : list (Z * Z)).

Definition ok (c : case) : bool :=
  match c with
  | CDirect gchain gaddr ts gsi m out err sent =>
    let g := msg_of m in
    let e := {| e_ts := ts; e_gsi := gsi; e_nonce := gm_nonce g; e_seq := gm_seq g; e_tchain := gm_tchain g |} in
    match conv {| g_chain := gchain; g_addr := gaddr |} e (gm_payload g) with
    | GOk v => (out =? 0) && same_vaas [v] sent
    | GErr x => (out =? 1) && (err =? ecode x) && same_vaas [] sent
    | GPanic => (out =? 2) && same_vaas [] sent
    end
  | CInject gchain gaddr ts gsi ms out err sent =>
    match inject (fun b => b) {| g_chain := gchain; g_addr := gaddr |} ts gsi (map msg_of ms) with
    | (vl, IOk ds) => (out =? 0) && same_vaas vl sent && (length ds =? length vl)%nat
    | (vl, IErr x) => (out =? 1) && (err =? ecode x) && same_vaas vl sent
    | (vl, IPanic) => (out =? 2) && same_vaas vl sent
    end
  end.

(* ------------------------------------------------------------------ translator validation *)
(* The generated Gallina parsers run on the payloads the implementation produced, compared with what the harness's own
   interpreter of the .ral text (zz_verif_ral_test.go, an independent reading of the same source) computed: abort or
   not, and the value of every variable both bind.  fn: 0 submitNewGuardianSet 1 submitSetMessageFee 2 submitTransferFees
   3 submitContractUpgrade 4 parseAndVerifyRegisterChain 5 upgradeContract 6 destroyUnexecutedSequenceContracts
   7 updateMinimalConsistencyLevel 8 updateRefundAddress.  State parameters: the contract's chain id = the target chain
   (L for the token bridge), guardianSetIndexes[1] = the current set index. *)
Inductive rcase := CRal (fn tchain gsi L : Z) (p : bytes) (abort : bool) (vals : list (string * rval)).

Definition run_ral (fn tchain gsi L : Z) (p : bytes) : option rres :=
  if fn =? 0 then ral_submitNewGuardianSet (RZ tchain) (RB p) (RZ tchain) (RZ gsi)
  else if fn =? 1 then ral_submitSetMessageFee (RZ tchain) (RB p) (RZ tchain)
  else if fn =? 2 then ral_submitTransferFees (RZ tchain) (RB p) (RZ tchain)
  else if fn =? 3 then ral_submitContractUpgrade (RZ tchain) (RB p) (RZ tchain)
  else if fn =? 4 then ral_parseAndVerifyRegisterChain (RZ tchain) (RB p) (RZ L)
  else if fn =? 5 then ral_upgradeContract (RZ tchain) (RB p) (RZ tchain)
  else if fn =? 6 then ral_destroyUnexecutedSequenceContracts (RZ tchain) (RB p) (RZ tchain)
  else if fn =? 7 then ral_updateMinimalConsistencyLevel (RZ tchain) (RB p) (RZ tchain)
  else ral_updateRefundAddress (RZ tchain) (RB p) (RZ tchain).

Definition rval_eqb (a b : rval) : bool :=
  match a, b with RZ x, RZ y => x =? y | RB x, RB y => bytes_eqb x y | RBool x, RBool y => Bool.eqb x y | _, _ => false end.

Definition okr (c : rcase) : bool :=
  let '(CRal fn tchain gsi L p abort vals) := c in
  match run_ral fn tchain gsi L p with
  | None => abort
  | Some (_, env) => negb abort && forallb (fun nv => match rlookup (fst nv) env with Some v => rval_eqb v (snd nv) | None => false end) vals
  end.
