(* Executable model of the spy's subscription service (C20): node/cmd/spy/spy.go
     spyServer.Publish, spyServer.SubscribeSignedVAA (registration, delivery loop, deferred removal), decodeEmitterAddr.
   Granularity: one event = one synchronisation of the Go code (a channel send / receive, a critical section of subsMu).
   Publish holds subsMu from EPubStart to EPubEnd; registration and removal are critical sections that need the mutex.
   No proofs here (proofs/SpyProofs.v). *)
From Coq Require Import List ZArith Bool Arith.
From Coq Require Import Strings.Byte.
From WH Require Import lib.Bytes gen.Extracted model.Vaa.
Import ListNotations.
Open Scope Z_scope.

(* filter{chainId vaa.ChainID; emitterAddr vaa.Address} *)
Record sfilter := { f_chain : Z; f_addr : bytes }.

(* what the client behind a subscription does (environment): reads its stream, has stopped reading (resp.Send never returns),
   or has disconnected (stream context cancelled; resp.Send fails) *)
Inductive rstate := Reading | Stalled | Gone.

(* where the subscription's goroutine is: at the `select`, inside a resp.Send that does not return, or past the loop
   (about to run the deferred removal, which needs subsMu) *)
Inductive phase := PSelect | PStuck | PExit.

Record sub := { s_filters : list sfilter;
                s_chan : list bytes;          (* sub.ch, capacity [cap] *)
                s_state : rstate;
                s_phase : phase;
                s_taken : list bytes;         (* everything the goroutine took out of sub.ch, in order *)
                s_got : list bytes }.         (* everything a resp.Send handed to the client, in order *)

Definition id := Z.

(* pub = Some (b, remaining sends, decode error hit): a Publish(b) is in progress and holds subsMu *)
Record st := { subs : list (id * sub); pub : option (bytes * list id * bool); results : list bool }.

Definition init : st := {| subs := []; pub := None; results := [] |}.

Fixpoint lookup (i : id) (l : list (id * sub)) : option sub :=
  match l with
  | [] => None
  | (j, s) :: t => if i =? j then Some s else lookup i t
  end.

Fixpoint upd (i : id) (f : sub -> sub) (l : list (id * sub)) : list (id * sub) :=
  match l with
  | [] => []
  | (j, s) :: t => if i =? j then (j, f s) :: t else (j, s) :: upd i f t
  end.

Fixpoint del (i : id) (l : list (id * sub)) : list (id * sub) :=
  match l with
  | [] => []
  | (j, s) :: t => if i =? j then t else (j, s) :: del i t
  end.

(* ------------------------------------------------------------------ Publish: which sends the loop performs *)
Definition emitter_of (b : bytes) : option (Z * bytes) :=
  match unmarshal b with Ok v => Some (echain v, eaddr v) | Err _ => None end.

(* fi.chainId == v.EmitterChain && fi.emitterAddr == v.EmitterAddress *)
Definition fmatch (c : Z) (a : bytes) (f : sfilter) : bool := (f_chain f =? c) && bytes_eqb (f_addr f) a.

(* sends to one subscription; None = vaa.Unmarshal failed (Publish returns the error at this point of the iteration).
   The lazy `if v == nil` decoding is a cache of a pure function. *)
Definition copies (em : option (Z * bytes)) (s : sub) : option nat :=
  match s_filters s with
  | [] => Some 1%nat
  | fs => match em with
          | None => None
          | Some (c, a) => Some (length (filter (fmatch c a) fs))
          end
  end.

(* the sends of `for _, sub := range s.subs` in iteration order [l] *)
Fixpoint plan (em : option (Z * bytes)) (l : list (id * sub)) : list id * bool :=
  match l with
  | [] => ([], false)
  | (i, s) :: t =>
    match copies em s with
    | None => ([], true)
    | Some n => let '(p, e) := plan em t in (repeat i n ++ p, e)
    end
  end.

(* Go's map iteration order is unspecified: the event carries it, and it must enumerate the subscriptions exactly once *)
Fixpoint reorder (order : list id) (l : list (id * sub)) : option (list (id * sub)) :=
  match order with
  | [] => Some []
  | i :: t => match lookup i l, reorder t l with
              | Some s, Some r => Some ((i, s) :: r)
              | _, _ => None
              end
  end.

Fixpoint nodupb (l : list id) : bool :=
  match l with [] => true | x :: t => negb (existsb (Z.eqb x) t) && nodupb t end.

Definition req := (Z * option bytes)%type.

Inductive ev :=
| EPubStart (b : bytes) (order : list id)   (* Publish(b): takes subsMu, starts iterating *)
| EPubSend                                  (* the next `sub.ch <- msg` completes *)
| EPubSkipGone                              (* the next send is abandoned because the subscriber's stream is done (if the code selects on it) *)
| EPubEnd                                   (* iteration over: unlock, return *)
| ERecv (i : id)                            (* subscription i: `case msg := <-sub.ch` then resp.Send *)
| ENotice (i : id)                          (* subscription i: `case <-ctx.Done()`, or resp.Send returned an error *)
| ERemove (i : id)                          (* subscription i: deferred `delete(s.subs, id)` under subsMu *)
| ESubscribe (i : id) (rs : list req)       (* SubscribeSignedVAA up to and including the registration under subsMu *)
| EStall (i : id)                           (* environment: the client stops reading *)
| EDisconnect (i : id).                     (* environment: the client goes away *)

Section Step.
Variable cap : nat.          (* capacity of sub.ch *)
Variable sel : bool.         (* does Publish's send select on the subscriber's stream being done? *)
Variable alen : nat.         (* length decodeEmitterAddr requires *)

(* ------------------------------------------------------------------ SubscribeSignedVAA: request filters *)
(* one FilterEntry: chain id as sent (int32 enum value) and the emitter address string: None = not hex, Some b = decoded bytes.
   vaa.ChainID(t.EmitterFilter.ChainId) is the uint16 wrap; decodeEmitterAddr wants exactly [alen] = 32 bytes.
   An entry whose oneof is unset (`unsupported filter type`) is an error as well: it is passed as None too. *)

Fixpoint parse_filters (rs : list req) : option (list sfilter) :=
  match rs with
  | [] => Some []
  | (c, a) :: t =>
    match a with
    | None => None                                         (* failed to decode address *)
    | Some ab =>
      if negb (length ab =? alen)%nat then None else       (* address must be 32 bytes *)
      match parse_filters t with
      | None => None
      | Some fs => Some ({| f_chain := c mod 65536; f_addr := ab |} :: fs)
      end
    end
  end.


Definition set_subs (s : st) (l : list (id * sub)) : st := {| subs := l; pub := pub s; results := results s |}.

Definition push_chan (b : bytes) (s : sub) : sub :=
  {| s_filters := s_filters s; s_chan := s_chan s ++ [b]; s_state := s_state s; s_phase := s_phase s; s_taken := s_taken s; s_got := s_got s |}.
Definition set_state (r : rstate) (s : sub) : sub :=
  {| s_filters := s_filters s; s_chan := s_chan s; s_state := r; s_phase := s_phase s; s_taken := s_taken s; s_got := s_got s |}.
Definition set_phase (p : phase) (s : sub) : sub :=
  {| s_filters := s_filters s; s_chan := s_chan s; s_state := s_state s; s_phase := p; s_taken := s_taken s; s_got := s_got s |}.
(* take the head of the channel; what happens to it depends on the client *)
Definition recv (s : sub) : option sub :=
  match s_phase s, s_chan s with
  | PSelect, m :: c =>
    Some match s_state s with
         | Reading => {| s_filters := s_filters s; s_chan := c; s_state := Reading; s_phase := PSelect; s_taken := s_taken s ++ [m]; s_got := s_got s ++ [m] |}
         | Stalled => {| s_filters := s_filters s; s_chan := c; s_state := Stalled; s_phase := PStuck; s_taken := s_taken s ++ [m]; s_got := s_got s |}
         | Gone => {| s_filters := s_filters s; s_chan := c; s_state := Gone; s_phase := PExit; s_taken := s_taken s ++ [m]; s_got := s_got s |}
         end
  | _, _ => None
  end.

Definition new_sub (fs : list sfilter) : sub :=
  {| s_filters := fs; s_chan := []; s_state := Reading; s_phase := PSelect; s_taken := []; s_got := [] |}.

(* None = the event cannot happen in this state (the goroutine that would perform it is blocked, or it makes no sense) *)
Definition step (s : st) (e : ev) : option st :=
  match e with
  | EPubStart b order =>
    match pub s with
    | Some _ => None                                                  (* subsMu is held *)
    | None =>
      if negb (nodupb order && (length order =? length (subs s))%nat) then None else
      match reorder order (subs s) with
      | None => None
      | Some l => let '(p, err) := plan (emitter_of b) l in
                  Some {| subs := subs s; pub := Some (b, p, err); results := results s |}
      end
    end
  | EPubSend =>
    match pub s with
    | Some (b, i :: rest, err) =>
      match lookup i (subs s) with
      | Some x => if (length (s_chan x) <? cap)%nat
                  then Some {| subs := upd i (push_chan b) (subs s); pub := Some (b, rest, err); results := results s |}
                  else None                                           (* channel full: the send blocks, subsMu stays held *)
      | None => None
      end
    | _ => None
    end
  | EPubSkipGone =>
    if negb sel then None else
    match pub s with
    | Some (b, i :: rest, err) =>
      match lookup i (subs s) with
      | Some x => match s_state x with
                  | Gone => Some {| subs := subs s; pub := Some (b, rest, err); results := results s |}
                  | _ => None
                  end
      | None => None
      end
    | _ => None
    end
  | EPubEnd =>
    match pub s with
    | Some (b, [], err) => Some {| subs := subs s; pub := None; results := results s ++ [err] |}
    | _ => None
    end
  | ERecv i =>
    match lookup i (subs s) with
    | Some x => match recv x with
                | Some x' => Some (set_subs s (upd i (fun _ => x') (subs s)))
                | None => None
                end
    | None => None
    end
  | ENotice i =>
    match lookup i (subs s) with
    | Some x => match s_state x, s_phase x with
                | Gone, PSelect | Gone, PStuck => Some (set_subs s (upd i (set_phase PExit) (subs s)))
                | _, _ => None
                end
    | None => None
    end
  | ERemove i =>
    match pub s, lookup i (subs s) with
    | None, Some x => match s_phase x with
                      | PExit => Some (set_subs s (del i (subs s)))
                      | _ => None
                      end
    | _, _ => None                                                    (* waits for subsMu / nothing to remove *)
    end
  | ESubscribe i rs =>
    match parse_filters rs with
    | None => Some s                                                  (* InvalidArgument, returned before touching subsMu *)
    | Some fs =>
      match pub s, lookup i (subs s) with
      | None, None => Some (set_subs s (subs s ++ [(i, new_sub fs)]))
      | _, _ => None                                                  (* waits for subsMu (ids are fresh uuids) *)
      end
    end
  | EStall i =>
    match lookup i (subs s) with
    | Some x => match s_state x with
                | Reading => Some (set_subs s (upd i (set_state Stalled) (subs s)))
                | _ => None
                end
    | None => None
    end
  | EDisconnect i =>
    match lookup i (subs s) with
    | Some x => match s_state x with
                | Gone => None
                | _ => Some (set_subs s (upd i (set_state Gone) (subs s)))
                end
    | None => None
    end
  end.

Fixpoint run (evs : list ev) (s : st) : option st :=
  match evs with
  | [] => Some s
  | e :: t => match step s e with Some s' => run t s' | None => None end
  end.

(* ---- a deterministic scheduler for evaluation: let every goroutine that can move, move, until nothing internal is enabled.
   Order: the publisher first, then the subscriptions in list order. *)
Definition sub_events (l : list (id * sub)) : list ev :=
  flat_map (fun p => [ERecv (fst p); ENotice (fst p); ERemove (fst p)]) l.

Fixpoint first_enabled (s : st) (es : list ev) : option st :=
  match es with
  | [] => None
  | e :: t => match step s e with Some s' => Some s' | None => first_enabled s t end
  end.

Fixpoint settle (fuel : nat) (s : st) : st :=
  match fuel with
  | O => s
  | S k => match first_enabled s ([EPubSend; EPubSkipGone; EPubEnd] ++ sub_events (subs s)) with
           | Some s' => settle k s'
           | None => s
           end
  end.
End Step.
