(* Extension X10 - closing composition gaps between the extension models (definitions only, no proofs):
     1. the projection of the network of loop nodes (model/ReobsLoop.v [lnet]) onto the guardian network of model/System.v [net]:
        processor component of every node, gossip items of the wire (signed re-observation requests are not part of System.net), and
        the System.net history [sim] a loop-network history amounts to (one System step per processor input, in order);
     2. the EVM watcher's re-observation path (model/EvmLog.v [xreobserve], by_transaction.go over raw receipts) as an instance of the
        watcher oracle of model/ReobsLoop.v;
   (per-node publication logs over System.net histories, for the agreement theorem: model/PubLog.v)
   Proofs: proofs/ClosureProofs*.v. *)
From Coq Require Import List ZArith Bool Arith.
From Coq Require Import Strings.Byte.
From WH Require Import lib.Bytes lib.EvmAbi gen.Extracted gen.ExtractedWiring model.Vaa model.Processor model.System model.ReobsLoop.
From WH Require model.EvmWatcher model.EvmLog.
Import ListNotations.
Open Scope Z_scope.

(* ------------------------------------------------------------------ 1. lnet -> System.net *)
Definition gossip_of_witem (w : witem) : list gossip :=
  match w with WObs o => [GObs o] | WVaa b => [GVaa b] | WReq _ _ _ => [] end.
Definition ppool (l : list witem) : list gossip := flat_map gossip_of_witem l.
(* where the k-th item of the loop network's wire sits on System.net's wire *)
Definition pidx (l : list witem) (k : nat) : nat := length (ppool (firstn k l)).

Definition proj (n : lnet) : net := {| nodes := map l_proc (x_nodes n); pool := ppool (x_pool n) |}.

(* the System.net step that hands processor input o to node i, whatever is on the wire *)
Definition nop_of_op (i : nat) (o : op) : nop :=
  match o with
  | SetGS g => NEnv i (ESetGS g)
  | SetClock t => NEnv i (EClock t)
  | LocalMsg m => NEnv i (EMsg m)
  | Inject v => NEnv i (EInject v)
  | Obs ob => NAdv i (GObs ob)
  | Loopback k => NLoop i k
  | InboundVAA b => NAdv i (GVaa b)
  | Cleanup => NEnv i ECleanup
  end.

Definition ltarget (x : lnop) : nat := match x with XLocal i _ | XDeliver i _ _ | XAdv i _ _ => i end.
(* steps that neither change node i's guardian set nor run its cleanup tick *)
Definition lcalm (x : lnop) : bool :=
  match x with XLocal _ LCleanup | XLocal _ (LEnv (VSetGS _)) => false | _ => true end.
Definition lsetgs_free (x : lnop) : bool := match x with XLocal _ (LEnv (VSetGS _)) => false | _ => true end.

Section Sim.
Variable recover : bytes -> bytes -> option bytes.
Variable keccak : bytes -> bytes.
Variable gov_chain : Z.
Variable gov_addr : bytes.
Variable decode_hb : bytes -> option Z.
Variable decodeq : bytes -> option R.req.
Variable encq : R.req -> bytes.
Variable disable : bool.
Variable owns : nat -> addr.
Variable signs : nat -> bytes -> bytes.
Variable selfs : nat -> G.peerid.
Variable watches : nat -> Z -> R.req -> Z -> list msgpub.

Definition lres := ReobsLoop.resolve.
(* the System.net steps one step of the loop network amounts to: one per processor input the step causes, in order; a delivery of
   the k-th wire item is the delivery of the same item of System.net's wire *)
Definition sim1 (n : lnet) (x : lnop) : list nop :=
  match lres n x with
  | None => []
  | Some (i, o) =>
    match nth_error (x_nodes n) i with
    | None => []
    | Some st =>
      let ops := map fst (proc_of (snd (nd_step recover keccak gov_chain gov_addr decode_hb decodeq encq disable owns signs selfs watches i st o))) in
      match x with
      | XDeliver _ _ k => map (fun _ => NDeliver i (pidx (x_pool n) k)) ops
      | _ => map (nop_of_op i) ops
      end
    end
  end.

Fixpoint sim (n : lnet) (xs : list lnop) : list nop :=
  match xs with
  | [] => []
  | x :: t => sim1 n x ++ sim (fst (lnstep recover keccak gov_chain gov_addr decode_hb decodeq encq disable owns signs selfs watches n x)) t
  end.
End Sim.

(* everything the processors of a list of step traces put out, in order *)
Definition outs_of_ev (e : tev) : list out := match snd e with EProc _ outs => outs | _ => [] end.
Definition louts (tr : list (nat * list tev)) : list out := flat_map (fun p => flat_map outs_of_ev (snd p)) tr.

(* ------------------------------------------------------------------ 2. the EVM watcher as the oracle of the EVM chains *)
Module EL := EvmLog.

(* common.MessagePublication as the processor receives it: by_transaction.go builds the timestamp with time.Unix(int64(blockTime), 0),
   i.e. whole seconds *)
Definition evm_pub (m : xmsg) : msgpub :=
  {| m_tx := xm_tx m; m_ts := xm_ts m; m_tns := 0; m_nonce := xm_nonce m; m_seq := xm_seq m; m_cl := xm_cl m;
     m_echain := xm_chain m; m_tchain := xm_target m; m_eaddr := xm_em m; m_payload := xm_payload m |}.

(* what the EVM node answers while the watcher handles one re-observation request: the head read before the receipt, the head
   after it, the receipt of the requested transaction, the time of its block *)
Record evm_ans := { ea_hb : option Z; ea_ha : option Z; ea_rc : option EL.xrcpt; ea_bt : option Z }.

Definition evm_reobs_msgs (c : EL.xcfg) (a : evm_ans) : list msgpub :=
  flat_map (fun o => match o with EL.XReobserved m => [evm_pub m] | _ => [] end) (EL.xreobserve c (ea_hb a) (ea_ha a) (ea_rc a) (ea_bt a)).

(* the chains whose re-observation queue node.go hands to an EVM watcher *)
Definition is_evm_watcher (l : list wcomp) : bool := match l with [WEthWatcher] | [WBscWatcher] => true | _ => false end.
Definition evm_chains : list Z := map (fun x => fst (fst x)) (filter (fun x => is_evm_watcher (snd x)) (w_chain_reobs extracted_wiring)).
Definition is_evm_chain (c : Z) : bool := existsb (Z.eqb c) evm_chains.

Section EvmOracle.
Variable ecfg : Z -> EL.xcfg.                         (* the configuration of the watcher of EVM chain c *)
Variable enode : Z -> R.req -> Z -> evm_ans.          (* chain, request, clock reading -> the node's answers *)
Variable other : Z -> R.req -> Z -> list msgpub.      (* the watchers of the other chains *)
Definition evm_watch : Z -> R.req -> Z -> list msgpub :=
  fun c r t => if is_evm_chain c then evm_reobs_msgs (ecfg c) (enode c r t) else other c r t.
End EvmOracle.

